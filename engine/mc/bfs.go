package mc

import (
	"fmt"
	"runtime"
	"runtime/debug"
	"sync"
)

// StepResult is what a BFS harness returns for one history.
type StepResult struct {
	// Applicable=false means the last operation is not enabled in the state reached
	// by the rest of the history; the history is dropped (not a transition).
	Applicable bool
	// Key is the canonical form of the state reached (sorted, property-relevant
	// fields only). Two histories with equal keys must have the same futures.
	Key string
	// Verdict of the invariant / reference-model comparison along the last step.
	Verdict Verdict
	// Nontrivial marks histories that exercised a conflict by the harness's rule.
	Nontrivial bool
}

// BFSOptions control BFS.
type BFSOptions struct {
	NumOps   int // size of the operation alphabet
	MaxDepth int
	Workers  int
	// MaxStates caps the number of distinct states (0 = none).
	MaxStates     int
	MaxViolations int
	// NoDedup expands every history (full enumeration of histories up to MaxDepth).
	NoDedup bool
}

// BFSStats is what BFS measured.
type BFSStats struct {
	States      int
	Transitions int64
	Depth       int // deepest level fully expanded
	PerLevel    []int
	Nontrivial  int64
	Exhaustive  bool // every reachable state up to MaxDepth was expanded
	Fixpoint    bool // the frontier became empty before MaxDepth: full reachable set
	Caps        []string
	Violations  []FoundViolation
	InfraErrors []string
	Samples     [][]int
}

// BFS is explicit-state breadth-first search over an operation alphabet on the
// real implementation. A state is the shortest operation history reaching it; a
// successor is built by replaying the history on a fresh instance plus one
// operation (run does that), because live objects rarely copy.
func BFS(run func(history []int) StepResult, o BFSOptions) BFSStats {
	if o.Workers <= 0 {
		o.Workers = runtime.GOMAXPROCS(0)
	}
	if o.MaxViolations <= 0 {
		o.MaxViolations = 20
	}
	st := BFSStats{Exhaustive: true}
	seen := map[string]struct{}{}
	init := safeStep(run, nil)
	if init.Verdict.Violation != "" {
		st.Violations = append(st.Violations, FoundViolation{Sig: init.Verdict.Sig, Desc: init.Verdict.Violation, Detail: init.Verdict.Detail})
	}
	seen[init.Key] = struct{}{}
	frontier := [][]int{{}}
	st.PerLevel = append(st.PerLevel, 1)
	var mu sync.Mutex
	stopped := false
	for depth := 0; depth < o.MaxDepth && len(frontier) > 0 && !stopped; depth++ {
		type job struct{ hist []int }
		jobs := make(chan []int, 1024)
		var next [][]int
		var wg sync.WaitGroup
		for w := 0; w < o.Workers; w++ {
			wg.Add(1)
			go func() {
				defer wg.Done()
				for h := range jobs {
					for op := 0; op < o.NumOps; op++ {
						mu.Lock()
						s := stopped
						mu.Unlock()
						if s {
							break
						}
						hist := make([]int, len(h)+1)
						copy(hist, h)
						hist[len(h)] = op
						r := safeStep(run, hist)
						if !r.Applicable {
							continue
						}
						mu.Lock()
						st.Transitions++
						if r.Nontrivial {
							st.Nontrivial++
						}
						if r.Verdict.Violation != "" {
							// confirm determinism
							ok := true
							for k := 0; k < 5; k++ {
								mu.Unlock()
								r2 := safeStep(run, hist)
								mu.Lock()
								if r2.Verdict.Violation != r.Verdict.Violation {
									st.InfraErrors = append(st.InfraErrors, fmt.Sprintf("nondeterministic replay of history %v: %q vs %q", hist, r.Verdict.Violation, r2.Verdict.Violation))
									ok = false
									stopped = true
									break
								}
							}
							if ok {
								cnt := 0
								for _, f := range st.Violations {
									if f.Sig == r.Verdict.Sig {
										cnt++
									}
								}
								if cnt < 3 {
									st.Violations = append(st.Violations, FoundViolation{Sig: r.Verdict.Sig, Desc: r.Verdict.Violation, Choices: hist, Detail: r.Verdict.Detail})
								}
								if len(st.Violations) >= o.MaxViolations {
									stopped = true
								}
							}
							mu.Unlock()
							continue // do not expand violating states
						}
						_, dup := seen[r.Key]
						if !dup || o.NoDedup {
							if !dup {
								seen[r.Key] = struct{}{}
							}
							next = append(next, hist)
							if len(st.Samples) < 6 && len(hist) >= 2 {
								st.Samples = append(st.Samples, hist)
							}
						}
						if o.MaxStates > 0 && len(seen) >= o.MaxStates {
							stopped = true
							st.Caps = append(st.Caps, fmt.Sprintf("max_states=%d", o.MaxStates))
						}
						mu.Unlock()
					}
				}
			}()
		}
		for _, h := range frontier {
			if Expired() {
				mu.Lock()
				if !stopped {
					stopped = true
					st.Caps = append(st.Caps, "wall_budget")
				}
				mu.Unlock()
				break
			}
			jobs <- h
		}
		close(jobs)
		wg.Wait()
		if !stopped {
			st.Depth = depth + 1
			st.PerLevel = append(st.PerLevel, len(next))
		}
		// deterministic order of the next frontier
		sortHist(next)
		frontier = next
	}
	if stopped {
		st.Exhaustive = false
	} else if len(frontier) == 0 {
		st.Fixpoint = true
	}
	st.States = len(seen)
	return st
}

func safeStep(run func([]int) StepResult, hist []int) (r StepResult) {
	defer func() {
		if rec := recover(); rec != nil {
			s := string(debug.Stack())
			r = StepResult{Applicable: true, Key: fmt.Sprintf("panic:%v", hist), Verdict: Verdict{Violation: fmt.Sprintf("panic: %v", rec), Sig: "panic:" + panicSite(s), Detail: trimStack(s)}}
		}
	}()
	r = run(hist)
	if hist == nil {
		r.Applicable = true
	}
	return
}

func sortHist(h [][]int) {
	// simple lexicographic sort
	lessFn := func(a, b []int) bool {
		for i := 0; i < len(a) && i < len(b); i++ {
			if a[i] != b[i] {
				return a[i] < b[i]
			}
		}
		return len(a) < len(b)
	}
	// insertion into sorted order via sort.Slice equivalent without importing sort twice
	quick(h, lessFn)
}

func quick(h [][]int, less func(a, b []int) bool) {
	if len(h) < 2 {
		return
	}
	p := h[len(h)/2]
	i, j := 0, len(h)-1
	for i <= j {
		for less(h[i], p) {
			i++
		}
		for less(p, h[j]) {
			j--
		}
		if i <= j {
			h[i], h[j] = h[j], h[i]
			i++
			j--
		}
	}
	quick(h[:j+1], less)
	quick(h[i:], less)
}
