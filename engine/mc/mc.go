// Package mc is the explorer core of the /verif model-checking framework.
//
// An execution is a Go function run(x *Exec) that builds fresh real objects and
// drives them; every nondeterministic decision is x.Choose(n). The explorer
// enumerates the choice tree completely inside stated bounds (see Explore and
// BFS) and the harness evaluates its oracle on every execution.
//
// The package is stdlib-only so that it can be injected (go build -overlay) as
// a virtual package of the repository under test without import cycles.
package mc

import (
	"fmt"
	"os"
	"runtime"
	"runtime/debug"
	"strconv"
	"strings"
	"sync"
	"sync/atomic"
	"time"
)

// Exec is one execution of the harness body under a prescribed choice prefix.
type Exec struct {
	prefix  []int
	Choices []int
	Widths  []int
	Costs   []int8 // cost (in deviations) of taking a non-default answer at point i
	Labels  []string
	trace   bool
	// Worker is the index of the explorer worker running this execution.
	Worker int
}

// Divergence is raised (as a panic value) when a replayed prefix does not fit the
// choice tree of the execution: an infrastructure error, never a property verdict.
type Divergence struct{ Msg string }

func (d Divergence) Error() string { return "mc: replay divergence: " + d.Msg }

// Choose returns a value in [0,n). Value 0 is the default answer; any other
// answer costs one deviation.
func (x *Exec) Choose(n int, label string) int { return x.choose(n, 1, label) }

// ChooseFree is Choose whose alternatives cost no deviation (used for points that
// are part of the input space rather than a departure from the default environment).
func (x *Exec) ChooseFree(n int, label string) int { return x.choose(n, 0, label) }

// ChooseCost lets the caller state the cost of a non-default answer (a thread
// switch away from a blocked thread costs 0, away from a runnable one costs 1).
func (x *Exec) ChooseCost(n int, cost int, label string) int { return x.choose(n, cost, label) }

func (x *Exec) choose(n int, cost int, label string) int {
	if n <= 0 {
		panic(fmt.Sprintf("mc: Choose(%d) at %q", n, label))
	}
	i := len(x.Choices)
	c := 0
	if i < len(x.prefix) {
		c = x.prefix[i]
		if c >= n {
			panic(Divergence{fmt.Sprintf("point %d (%s): prefix wants %d, only %d alternatives", i, label, c, n)})
		}
	}
	x.Choices = append(x.Choices, c)
	x.Widths = append(x.Widths, n)
	x.Costs = append(x.Costs, int8(cost))
	if x.trace {
		x.Labels = append(x.Labels, label)
	}
	return c
}

// Bool is Choose(2)==1.
func (x *Exec) Bool(label string) bool { return x.Choose(2, label) == 1 }

// Deviations is the cost of the choices taken so far.
func (x *Exec) Deviations() int {
	d := 0
	for i, c := range x.Choices {
		if c != 0 {
			d += int(x.Costs[i])
		}
	}
	return d
}

// Trace returns "label=choice" pairs (labels only recorded on traced re-runs).
func (x *Exec) Trace() []string {
	out := make([]string, 0, len(x.Choices))
	for i, c := range x.Choices {
		l := ""
		if i < len(x.Labels) {
			l = x.Labels[i]
		}
		out = append(out, l+"="+strconv.Itoa(c)+"/"+strconv.Itoa(x.Widths[i]))
	}
	return out
}

// Options control Explore.
type Options struct {
	// Bound is the deviation bound; <0 means unbounded (full enumeration).
	Bound int
	// Workers is the number of in-process workers (default: GOMAXPROCS). The body
	// must then be safe to run concurrently on fresh objects. Use 1 for harnesses
	// that touch process-global state (the scheduler).
	Workers int
	// SplitDepth is the depth at which the tree is cut into work units (default 2).
	SplitDepth int
	// Shard/Shards select the work units idx%Shards==Shard (cross-process sharding).
	Shard, Shards int
	// MaxExecutions caps the number of executions (0 = none). Hitting it clears Exhaustive.
	MaxExecutions int64
	// StopAtFirst stops as soon as one violation was confirmed.
	MaxViolations int
}

// Verdict is what the body reports for one execution.
type Verdict struct {
	// Violation is "" when the oracle held. Otherwise a description.
	Violation string
	// Sig is a stable signature of the kind of violation (used for known findings).
	Sig string
	// Detail is any JSON-serialisable replay payload (operation list, inputs).
	Detail any
}

// Body runs one execution and evaluates the oracle.
type Body func(x *Exec) Verdict

// Stats is what Explore measured.
type Stats struct {
	Executions  int64
	Points      int64 // choice points executed (transitions of the choice tree)
	MaxDepth    int
	Exhaustive  bool
	Caps        []string
	BoundDone   int
	Units       int
	Violations  []FoundViolation
	InfraErrors []string
	// DivergenceRetries counts executions that were run again because the prefix did not fit.
	DivergenceRetries int64
}

// FoundViolation is a confirmed (5x replayed) violation.
type FoundViolation struct {
	Sig        string   `json:"sig"`
	Desc       string   `json:"desc"`
	Choices    []int    `json:"choices"`
	Trace      []string `json:"trace,omitempty"`
	Deviations int      `json:"deviations"`
	Detail     any      `json:"detail,omitempty"`
}

var deadline time.Time
var deadlineOnce sync.Once

// Deadline returns the soft wall-clock budget end (from VERIF_BUDGET_S); the zero
// time means no budget. Wall-clock is never an oracle: passing the deadline ends
// the run with Exhaustive=false.
func Deadline() time.Time {
	deadlineOnce.Do(func() {
		if s := os.Getenv("VERIF_BUDGET_S"); s != "" {
			if f, err := strconv.ParseFloat(s, 64); err == nil && f > 0 {
				deadline = time.Now().Add(time.Duration(f * float64(time.Second)))
			}
		}
	})
	return deadline
}

// Expired reports whether the soft budget is used up.
func Expired() bool {
	d := Deadline()
	return !d.IsZero() && time.Now().After(d)
}

// Tier is "quick" or "thorough" (VERIF_TIER).
func Tier() string {
	if os.Getenv("VERIF_TIER") == "thorough" {
		return "thorough"
	}
	return "quick"
}

// Thorough reports Tier()=="thorough".
func Thorough() bool { return Tier() == "thorough" }

// Pick returns q in the quick tier and t in the thorough tier.
func Pick[T any](q, t T) T {
	if Thorough() {
		return t
	}
	return q
}

// ShardFromEnv parses VERIF_SHARD="k/n".
func ShardFromEnv() (int, int) {
	s := os.Getenv("VERIF_SHARD")
	if s == "" {
		return 0, 1
	}
	var k, n int
	if _, err := fmt.Sscanf(s, "%d/%d", &k, &n); err != nil || n <= 0 || k < 0 || k >= n {
		return 0, 1
	}
	return k, n
}

func runOne(body Body, prefix []int, trace bool, worker int) (x *Exec, v Verdict, infra string) {
	x = &Exec{prefix: prefix, trace: trace, Worker: worker}
	defer func() {
		if r := recover(); r != nil {
			if d, ok := r.(Divergence); ok {
				infra = d.Error()
				return
			}
			if d, ok := r.(interface{ MCInfra() string }); ok {
				infra = d.MCInfra()
				return
			}
			// A panic inside the code under test is an observation.
			st := string(debug.Stack())
			v = Verdict{Violation: fmt.Sprintf("panic: %v", r), Sig: "panic:" + panicSite(st), Detail: trimStack(st)}
		}
	}()
	v = body(x)
	return
}

func panicSite(st string) string {
	// first repository frame below the panic
	lines := strings.Split(st, "\n")
	seenPanic := false
	for _, l := range lines {
		if strings.HasPrefix(l, "panic(") {
			seenPanic = true
			continue
		}
		if seenPanic && !strings.HasPrefix(l, "\t") && !strings.HasPrefix(l, "runtime.") && l != "" {
			if i := strings.LastIndex(l, "("); i > 0 {
				l = l[:i]
			}
			return l
		}
	}
	return "unknown"
}

func trimStack(st string) string {
	if len(st) > 3000 {
		return st[:3000]
	}
	return st
}

// nextPrefix computes the successor of an execution in depth-first order with the
// first `frozen` positions fixed and a deviation bound. ok=false when exhausted.
func nextPrefix(x *Exec, frozen int, bound int) ([]int, bool) {
	// cost of prefix [0,i)
	n := len(x.Choices)
	cum := make([]int, n+1)
	for i := 0; i < n; i++ {
		cum[i+1] = cum[i]
		if x.Choices[i] != 0 {
			cum[i+1] += int(x.Costs[i])
		}
	}
	for i := n - 1; i >= frozen; i-- {
		if x.Choices[i]+1 < x.Widths[i] {
			cost := cum[i] + int(x.Costs[i])
			if bound >= 0 && cost > bound {
				continue
			}
			p := make([]int, i+1)
			copy(p, x.Choices[:i])
			p[i] = x.Choices[i] + 1
			return p, true
		}
	}
	return nil, false
}

// Explore enumerates the choice tree of body depth-first. With Bound<0 every
// choice sequence is run; with Bound=b every sequence with at most b deviations.
func Explore(body Body, o Options) Stats {
	if o.Workers <= 0 {
		o.Workers = runtime.GOMAXPROCS(0)
	}
	if o.SplitDepth <= 0 {
		o.SplitDepth = 2
	}
	if o.Shards <= 0 {
		o.Shards = 1
	}
	if o.MaxViolations <= 0 {
		o.MaxViolations = 20
	}
	st := Stats{Exhaustive: true, BoundDone: o.Bound}
	var mu sync.Mutex
	var execs, points, divergenceRetries int64
	var stop atomic.Bool
	maxDepth := 0

	noteCap := func(c string) {
		mu.Lock()
		defer mu.Unlock()
		st.Exhaustive = false
		for _, e := range st.Caps {
			if e == c {
				return
			}
		}
		st.Caps = append(st.Caps, c)
	}

	handle := func(x *Exec, v Verdict, infra string, worker int) {
		atomic.AddInt64(&execs, 1)
		atomic.AddInt64(&points, int64(len(x.Choices)))
		if infra != "" {
			mu.Lock()
			st.InfraErrors = append(st.InfraErrors, infra)
			mu.Unlock()
			stop.Store(true)
			return
		}
		if v.Violation == "" {
			return
		}
		// confirm: replay 5 times, identical observation required
		choices := append([]int{}, x.Choices...)
		var tr []string
		for k := 0; k < 5; k++ {
			x2, v2, infra2 := runOne(body, choices, true, worker)
			if infra2 != "" || v2.Violation != v.Violation || len(x2.Choices) != len(choices) {
				mu.Lock()
				st.InfraErrors = append(st.InfraErrors, fmt.Sprintf("nondeterministic replay of %v: first %q then %q (%s)", choices, v.Violation, v2.Violation, infra2))
				mu.Unlock()
				stop.Store(true)
				return
			}
			tr = x2.Trace()
		}
		mu.Lock()
		dup := false
		cnt := 0
		for _, f := range st.Violations {
			if f.Sig == v.Sig {
				cnt++
			}
		}
		if cnt >= 3 { // keep at most 3 examples per signature
			dup = true
		}
		if !dup {
			st.Violations = append(st.Violations, FoundViolation{Sig: v.Sig, Desc: v.Violation, Choices: choices, Trace: tr, Deviations: x.Deviations(), Detail: v.Detail})
		}
		if len(st.Violations) >= o.MaxViolations {
			stop.Store(true)
		}
		mu.Unlock()
	}

	// Phase 1: cut the tree at SplitDepth into work units.
	type unit struct {
		prefix []int
		frozen int
	}
	var units []unit
	{
		var prefix []int
		for {
			if stop.Load() {
				break
			}
			x, _, infra := runOne(body, prefix, false, 0)
			if infra != "" {
				st.InfraErrors = append(st.InfraErrors, infra)
				st.Exhaustive = false
				return st
			}
			d := len(x.Choices)
			if d > o.SplitDepth {
				d = o.SplitDepth
			}
			units = append(units, unit{prefix: append([]int{}, x.Choices[:d]...), frozen: d})
			// successor among the first d positions only
			y := &Exec{Choices: x.Choices[:d], Widths: x.Widths[:d], Costs: x.Costs[:d]}
			p, ok := nextPrefix(y, 0, o.Bound)
			if !ok {
				break
			}
			prefix = p
		}
	}
	st.Units = len(units)

	work := make(chan unit, len(units))
	for i, u := range units {
		if i%o.Shards == o.Shard {
			work <- u
		}
	}
	close(work)

	var wg sync.WaitGroup
	for w := 0; w < o.Workers; w++ {
		wg.Add(1)
		go func(w int) {
			defer wg.Done()
			for u := range work {
				prefix := u.prefix
				for {
					if stop.Load() {
						return
					}
					if o.MaxExecutions > 0 && atomic.LoadInt64(&execs) >= o.MaxExecutions {
						noteCap(fmt.Sprintf("max_executions=%d", o.MaxExecutions))
						return
					}
					if Expired() {
						noteCap("wall_budget")
						return
					}
					x, v, infra := runOne(body, prefix, false, w)
					// A prefix computed from the previous execution must fit this one. If it does not,
					// one of the two executions met nondeterminism the harness does not control. Run
					// the prefix again (counted, reported): a transient cause does not repeat, a
					// systematic one does and is the infrastructure error it always was.
					for k := 0; k < 3 && strings.HasPrefix(infra, "mc: replay divergence"); k++ {
						atomic.AddInt64(&divergenceRetries, 1)
						x, v, infra = runOne(body, prefix, false, w)
					}
					handle(x, v, infra, w)
					if len(x.Choices) > maxDepth {
						mu.Lock()
						if len(x.Choices) > maxDepth {
							maxDepth = len(x.Choices)
						}
						mu.Unlock()
					}
					p, ok := nextPrefix(x, u.frozen, o.Bound)
					if !ok {
						break
					}
					prefix = p
				}
			}
		}(w)
	}
	wg.Wait()
	if stop.Load() {
		st.Exhaustive = false
		if len(st.InfraErrors) == 0 {
			st.Caps = append(st.Caps, "stopped_after_violations")
		}
	}
	st.Executions = execs
	st.Points = points
	st.DivergenceRetries = atomic.LoadInt64(&divergenceRetries)
	st.MaxDepth = maxDepth
	return st
}

// Replay runs body once under the given choice list with tracing.
func Replay(body Body, choices []int) (*Exec, Verdict, string) {
	return runOne(body, choices, true, 0)
}
