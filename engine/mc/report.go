package mc

import (
	"encoding/json"
	"fmt"
	"hash/fnv"
	"os"
	"sync"
	"time"
)

// Report is the result file a harness writes for the vcheck driver, which turns it
// into /verif/evidence/<id>.json and the VIOLATION / KNOWN-FINDING lines.
type Report struct {
	mu sync.Mutex

	Property string `json:"property"`
	Tier     string `json:"tier"`
	Shard    string `json:"shard"`

	Executions  int64 `json:"executions"`  // executions of the real code (= traces validated against the implementation)
	Transitions int64 `json:"transitions"` // choice points executed / operations applied
	StatesCount int64 `json:"states_count"`
	// StateHashes / NontrivialHashes are unioned across shards by the driver.
	StateHashes      []uint64 `json:"state_hashes,omitempty"`
	NontrivialHashes []uint64 `json:"nontrivial_hashes,omitempty"`
	NontrivialCount  int64    `json:"nontrivial_count"`
	OutcomeHashes    []uint64 `json:"outcome_hashes,omitempty"`

	Rule        string           `json:"rule"`
	Samples     []any            `json:"samples"`
	Exhaustive  bool             `json:"exhaustive"`
	Caps        []string         `json:"caps,omitempty"`
	Bounds      map[string]any   `json:"bounds,omitempty"`
	Assumptions []string         `json:"assumptions,omitempty"`
	Parts       map[string]any   `json:"parts,omitempty"`
	Violations  []FoundViolation `json:"violations,omitempty"`
	InfraErrors []string         `json:"infra_errors,omitempty"`
	WallS       float64          `json:"wall_s"`

	states     map[uint64]struct{}
	nontrivial map[uint64]struct{}
	outcomes   map[uint64]struct{}
	start      time.Time
}

// NewReport starts a report for a property.
func NewReport(property string) *Report {
	k, n := ShardFromEnv()
	return &Report{Property: property, Tier: Tier(), Shard: fmt.Sprintf("%d/%d", k, n), Exhaustive: true,
		Bounds: map[string]any{}, Parts: map[string]any{},
		states: map[uint64]struct{}{}, nontrivial: map[uint64]struct{}{}, outcomes: map[uint64]struct{}{}, start: time.Now()}
}

// Hash is FNV-1a of a canonical key.
func Hash(s string) uint64 {
	h := fnv.New64a()
	h.Write([]byte(s))
	return h.Sum64()
}

// State records a canonical state key (distinct states are counted).
func (r *Report) State(key string) {
	h := Hash(key)
	r.mu.Lock()
	r.states[h] = struct{}{}
	r.mu.Unlock()
}

// Nontrivial records a distinct non-trivial case by the harness's stated rule.
func (r *Report) Nontrivial(key string) {
	h := Hash(key)
	r.mu.Lock()
	r.nontrivial[h] = struct{}{}
	r.mu.Unlock()
}

// Outcome records a distinct observed outcome (to spot vacuous exploration).
func (r *Report) Outcome(key string) {
	h := Hash(key)
	r.mu.Lock()
	r.outcomes[h] = struct{}{}
	r.mu.Unlock()
}

// AddCounts adds to the scalar counters; states/nontrivial here are cases that are
// distinct by construction (enumerated inputs), counted rather than hashed.
func (r *Report) AddCounts(executions, transitions, states, nontrivial int64) {
	r.mu.Lock()
	r.Executions += executions
	r.Transitions += transitions
	r.StatesCount += states
	r.NontrivialCount += nontrivial
	r.mu.Unlock()
}

// Sample keeps up to 12 example cases.
func (r *Report) Sample(v any) {
	r.mu.Lock()
	if len(r.Samples) < 12 {
		r.Samples = append(r.Samples, v)
	}
	r.mu.Unlock()
}

// Violate records a violation found outside Explore/BFS (plain enumeration loops).
// At most 3 examples per signature are kept.
func (r *Report) Violate(sig, desc string, detail any) {
	r.mu.Lock()
	defer r.mu.Unlock()
	cnt := 0
	for _, f := range r.Violations {
		if f.Sig == sig {
			cnt++
		}
	}
	if cnt < 3 && len(r.Violations) < 40 {
		r.Violations = append(r.Violations, FoundViolation{Sig: sig, Desc: desc, Detail: detail})
	}
}

// NumViolations returns the number recorded so far.
func (r *Report) NumViolations() int {
	r.mu.Lock()
	defer r.mu.Unlock()
	return len(r.Violations)
}

// Cap notes a cap that was hit; the run is then not exhaustive.
func (r *Report) Cap(c string) {
	r.mu.Lock()
	r.Exhaustive = false
	for _, e := range r.Caps {
		if e == c {
			r.mu.Unlock()
			return
		}
	}
	r.Caps = append(r.Caps, c)
	r.mu.Unlock()
}

// Infra records an infrastructure error (exit 2, never a verdict).
func (r *Report) Infra(msg string) {
	r.mu.Lock()
	r.InfraErrors = append(r.InfraErrors, msg)
	r.mu.Unlock()
}

// Assume records an assumption / trusted-base statement.
func (r *Report) Assume(s string) {
	r.mu.Lock()
	r.Assumptions = append(r.Assumptions, s)
	r.mu.Unlock()
}

// MergeExplore folds Explore statistics into the report under a part name.
func (r *Report) MergeExplore(part string, s Stats) {
	r.mu.Lock()
	defer r.mu.Unlock()
	r.Executions += s.Executions
	r.Transitions += s.Points
	if !s.Exhaustive {
		r.Exhaustive = false
	}
	for _, c := range s.Caps {
		r.Caps = append(r.Caps, part+":"+c)
	}
	r.Violations = append(r.Violations, s.Violations...)
	for _, e := range s.InfraErrors {
		r.InfraErrors = append(r.InfraErrors, part+": "+e)
	}
	r.Parts[part] = map[string]any{"executions": s.Executions, "choice_points": s.Points, "max_depth": s.MaxDepth,
		"deviation_bound": s.BoundDone, "work_units": s.Units, "exhaustive": s.Exhaustive, "violations": len(s.Violations), "executions_rerun_after_replay_divergence": s.DivergenceRetries}
}

// MergeBFS folds BFS statistics into the report under a part name.
func (r *Report) MergeBFS(part string, s BFSStats) {
	r.mu.Lock()
	defer r.mu.Unlock()
	r.Executions += s.Transitions + 1
	r.Transitions += s.Transitions
	r.StatesCount += int64(s.States)
	r.NontrivialCount += s.Nontrivial
	if !s.Exhaustive {
		r.Exhaustive = false
	}
	for _, c := range s.Caps {
		r.Caps = append(r.Caps, part+":"+c)
	}
	r.Violations = append(r.Violations, s.Violations...)
	for _, e := range s.InfraErrors {
		r.InfraErrors = append(r.InfraErrors, part+": "+e)
	}
	for _, h := range s.Samples {
		if len(r.Samples) < 12 {
			r.Samples = append(r.Samples, map[string]any{"part": part, "history": h})
		}
	}
	r.Parts[part] = map[string]any{"states": s.States, "transitions": s.Transitions, "depth_completed": s.Depth,
		"per_level_new_states": s.PerLevel, "fixpoint": s.Fixpoint, "exhaustive": s.Exhaustive, "violations": len(s.Violations)}
}

// Write stores the report at $VERIF_OUT (or prints it when unset).
// SetPart stores one entry of Parts.
func (r *Report) SetPart(name string, v any) {
	r.mu.Lock()
	r.Parts[name] = v
	r.mu.Unlock()
}

// WriteHooks run at the start of Write (engines layered on mc add their own counters to Parts).
var WriteHooks []func(r *Report)

func (r *Report) Write() error {
	for _, h := range WriteHooks {
		h(r)
	}
	r.mu.Lock()
	defer r.mu.Unlock()
	r.WallS = time.Since(r.start).Seconds()
	r.StateHashes = r.StateHashes[:0]
	for h := range r.states {
		r.StateHashes = append(r.StateHashes, h)
	}
	r.NontrivialHashes = r.NontrivialHashes[:0]
	for h := range r.nontrivial {
		r.NontrivialHashes = append(r.NontrivialHashes, h)
	}
	r.OutcomeHashes = r.OutcomeHashes[:0]
	for h := range r.outcomes {
		r.OutcomeHashes = append(r.OutcomeHashes, h)
	}
	b, err := json.Marshal(r)
	if err != nil {
		return err
	}
	out := os.Getenv("VERIF_OUT")
	if out == "" {
		if len(b) > 4000 {
			b = b[:4000]
		}
		fmt.Println(string(b))
		return nil
	}
	return os.WriteFile(out, b, 0o644)
}
