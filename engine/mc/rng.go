package mc

// ChoiceRand answers random draws of a hooked pgregory.net/rand generator (overlay copy,
// field Rand.Hook) from the explorer: Intn(n) becomes Choose(n) - all outcomes, each of
// probability 1/n - and Float64() a choice over the uniform grid (k+1/2)/Grid, so that with
// thresholds aligned to the grid the fraction of grid points taking a branch is its probability.
type ChoiceRand struct {
	X    *Exec
	Grid int // number of grid points for Float64 (default 4)
	// Free makes alternatives cost no deviation (full enumeration of draws).
	Free bool
	// MaxN caps Uint64n fan-out: draws with n > MaxN choose among MaxN evenly spread values (0 = no cap).
	MaxN int
	// Draws counts draws answered.
	Draws int
	// Log, when non-nil, receives every draw (label, n, value index).
	Log func(kind string, n int, k int)
}

func (c *ChoiceRand) pick(n int, label string) int {
	c.Draws++
	if c.Free {
		return c.X.ChooseFree(n, label)
	}
	return c.X.Choose(n, label)
}

func (c *ChoiceRand) Float64() float64 {
	g := c.Grid
	if g <= 0 {
		g = 4
	}
	k := c.pick(g, "rand.Float64")
	if c.Log != nil {
		c.Log("f", g, k)
	}
	return (float64(k) + 0.5) / float64(g)
}

func (c *ChoiceRand) Uint64n(n uint64) uint64 {
	if n <= 1 {
		return 0
	}
	m := int(n)
	if n > 1<<30 {
		m = 1 << 30
	}
	if c.MaxN > 0 && m > c.MaxN {
		k := c.pick(c.MaxN, "rand.Uint64n(capped)")
		if c.Log != nil {
			c.Log("n", c.MaxN, k)
		}
		return uint64(k) * (n / uint64(c.MaxN))
	}
	k := c.pick(m, "rand.Uint64n")
	if c.Log != nil {
		c.Log("n", m, k)
	}
	return uint64(k)
}

func (c *ChoiceRand) Uint64() uint64 {
	vals := [...]uint64{0, 1, 0x8000000000000000, 0xffffffffffffffff}
	k := c.pick(len(vals), "rand.Uint64")
	return vals[k]
}

// FixedRand is a deterministic hook answering every draw with the default (for runs where
// randomness is outside the property): Float64 = 0.5, Uint64n = 0.
type FixedRand struct{ F float64 }

func (f FixedRand) Float64() float64        { return f.F }
func (f FixedRand) Uint64n(n uint64) uint64 { return 0 }
func (f FixedRand) Uint64() uint64          { return 0 }
