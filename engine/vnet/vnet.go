// Package vnet mirrors package net for code instrumented by tools/vinstr with
// `-import net=.../verif/vnet`: dialing goes through DialHook (the harness supplies in-memory
// connections that record bytes and fail by explorer choice); everything else is an alias.
package vnet

import (
	"context"
	"errors"
	"net"
	"time"
)

// DialHook is installed by the harness; nil means real dialing.
var DialHook func(network, address string) (net.Conn, error)

// Dialer mirrors the fields of net.Dialer that the instrumented code sets.
type Dialer struct {
	Timeout   time.Duration
	Deadline  time.Time
	LocalAddr net.Addr
	KeepAlive time.Duration
}

func (d *Dialer) Dial(network, address string) (net.Conn, error) {
	if DialHook != nil {
		return DialHook(network, address)
	}
	return (&net.Dialer{Timeout: d.Timeout, Deadline: d.Deadline, LocalAddr: d.LocalAddr, KeepAlive: d.KeepAlive}).Dial(network, address)
}

func (d *Dialer) DialContext(ctx context.Context, network, address string) (net.Conn, error) {
	if DialHook != nil {
		if err := ctx.Err(); err != nil {
			return nil, err
		}
		return DialHook(network, address)
	}
	return (&net.Dialer{Timeout: d.Timeout, Deadline: d.Deadline, LocalAddr: d.LocalAddr, KeepAlive: d.KeepAlive}).DialContext(ctx, network, address)
}

func Dial(network, address string) (net.Conn, error) { return (&Dialer{}).Dial(network, address) }

func DialTimeout(network, address string, timeout time.Duration) (net.Conn, error) {
	return (&Dialer{Timeout: timeout}).Dial(network, address)
}

// ErrInjected is returned by harness connections for explorer-chosen failures.
var ErrInjected = errors.New("vnet: injected failure")
