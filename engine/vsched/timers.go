package vsched

import (
	"time"
)

type vtimer struct {
	when   int64
	seq    int64
	ch     chan time.Time
	fn     func()
	period int64
	wakeT  *bool // Sleep: flag read by the sleeper's Enabled
	dead   bool
	active bool
}

// TimerHandle is a virtual timer (used by package vtime).
type TimerHandle struct {
	s *Sched
	t *vtimer
}

// Now returns the virtual time; every call ticks the clock by 1us so that time stamps
// taken by the code under test are strictly monotonic.
func (s *Sched) Now() time.Time {
	s.mu.Lock()
	s.now += int64(time.Microsecond)
	n := s.now
	s.mu.Unlock()
	return time.Unix(0, s.cfg.Epoch+n)
}

// Elapsed returns virtual time since the epoch without ticking.
func (s *Sched) Elapsed() time.Duration {
	s.mu.Lock()
	defer s.mu.Unlock()
	return time.Duration(s.now)
}

func (s *Sched) addTimerLocked(t *vtimer, d time.Duration) {
	if d < 0 {
		d = 0
	}
	s.timerSeq++
	t.seq = s.timerSeq
	t.when = s.now + int64(d)
	t.active = true
	s.timers = append(s.timers, t)
}

func (s *Sched) removeTimerLocked(t *vtimer) bool {
	for i, x := range s.timers {
		if x == t {
			s.timers = append(s.timers[:i], s.timers[i+1:]...)
			t.active = false
			return true
		}
	}
	return false
}

// NewTimer creates a virtual timer: ch receives the fire time (buffered, non-blocking send),
// or fn runs as a new controlled thread; period>0 makes it a ticker.
func (s *Sched) NewTimer(d time.Duration, ch chan time.Time, fn func(), period time.Duration) *TimerHandle {
	t := &vtimer{ch: ch, fn: fn, period: int64(period)}
	s.mu.Lock()
	if !s.aborting {
		s.addTimerLocked(t, d)
	}
	s.mu.Unlock()
	return &TimerHandle{s: s, t: t}
}

// Stop deactivates the timer; reports whether it was pending.
func (h *TimerHandle) Stop() bool {
	h.s.mu.Lock()
	defer h.s.mu.Unlock()
	return h.s.removeTimerLocked(h.t)
}

// Reset re-arms the timer; reports whether it was pending.
func (h *TimerHandle) Reset(d time.Duration) bool {
	h.s.mu.Lock()
	defer h.s.mu.Unlock()
	was := h.s.removeTimerLocked(h.t)
	if !h.s.aborting {
		h.s.addTimerLocked(h.t, d)
	}
	return was
}

// ResetPeriod re-arms a ticker with a new period.
func (h *TimerHandle) ResetPeriod(d time.Duration) {
	h.s.mu.Lock()
	defer h.s.mu.Unlock()
	h.s.removeTimerLocked(h.t)
	h.t.period = int64(d)
	if !h.s.aborting {
		h.s.addTimerLocked(h.t, d)
	}
}

// Sleep blocks the calling controlled thread for d of virtual time.
func (s *Sched) Sleep(t *Thread, d time.Duration) {
	if d <= 0 {
		t.Block(&Op{Label: "sleep(0)"})
		return
	}
	fired := false
	tm := &vtimer{wakeT: &fired}
	s.mu.Lock()
	if !s.aborting {
		s.addTimerLocked(tm, d)
	}
	s.mu.Unlock()
	t.Block(&Op{Label: "sleep " + d.String(), Enabled: func() bool { return fired }})
}

// advanceClock moves virtual time to the earliest pending timer and fires it.
func (s *Sched) advanceClock() {
	s.mu.Lock()
	if len(s.timers) == 0 {
		s.mu.Unlock()
		return
	}
	bi := 0
	for i, t := range s.timers {
		b := s.timers[bi]
		if t.when < b.when || (t.when == b.when && t.seq < b.seq) {
			bi = i
		}
	}
	t := s.timers[bi]
	s.timers = append(s.timers[:bi], s.timers[bi+1:]...)
	t.active = false
	if t.when > s.now {
		s.now = t.when
	}
	at := time.Unix(0, s.cfg.Epoch+s.now)
	if t.period > 0 {
		s.timerSeq++
		t.seq = s.timerSeq
		t.when = s.now + t.period
		t.active = true
		s.timers = append(s.timers, t)
	}
	var spawn func()
	switch {
	case t.wakeT != nil:
		*t.wakeT = true
	case t.fn != nil:
		spawn = t.fn
	case t.ch != nil:
		select {
		case t.ch <- at:
		default:
		}
	}
	s.last = nil // after a clock step nobody is "the running thread": switching is free
	s.mu.Unlock()
	if spawn != nil {
		GoNamed("afterfunc", true, spawn)
	}
}

// PendingTimers returns the number of armed timers.
func (s *Sched) PendingTimers() int {
	s.mu.Lock()
	defer s.mu.Unlock()
	return len(s.timers)
}

// nextTimerInLocked returns the virtual time until the earliest pending timer.
func (s *Sched) nextTimerInLocked() int64 {
	best := int64(1) << 62
	for _, t := range s.timers {
		if d := t.when - s.now; d < best {
			best = d
		}
	}
	if best < 0 {
		best = 0
	}
	return best
}

// JumpClock moves virtual time forward by d without firing the timers in between (a process
// pause, a VM freeze or a wall-clock step): they all become overdue and fire at the next
// clock steps, each observing the jumped time.
func (s *Sched) JumpClock(d time.Duration) {
	s.mu.Lock()
	s.now += int64(d)
	s.mu.Unlock()
}
