// Package vsched is a controlled (baton) scheduler for exhaustive exploration of thread
// interleavings of real concurrent Go code.
//
// Controlled threads are real goroutines; exactly one is released at a time and runs to its
// next scheduling point (a modelled sync operation from package vsync, a vtime wait, or an
// explicit Point inserted by tools/vinstr before channel operations). Real channels are kept:
// a thread that blocks inside the runtime is noticed by park detection (runtime.Stack
// statuses). Every scheduling decision is a choice point of an mc.Exec, so mc.Explore
// enumerates all schedules up to a preemption bound.
package vsched

import (
	"bytes"
	"fmt"
	"runtime"
	"sort"
	"strconv"
	"sync"
	"sync/atomic"
	"time"

	"github.com/VKCOM/statshouse/internal/verif/mc"
)

const (
	tRunning = iota
	tAtPoint
	tParked
	tDone
)

// Op is a pending operation of a thread waiting at a scheduling point.
type Op struct {
	Label   string
	Enabled func() bool // evaluated by the scheduler at quiescence (nil = always)
	Commit  func()      // executed by the scheduler when the thread is chosen (nil = nothing)
}

// Thread is a controlled goroutine.
type Thread struct {
	ID     int
	Name   string
	goid   int64
	state  int
	wake   chan struct{}
	op     *Op
	Daemon bool
	sched  *Sched
}

// Config of one controlled execution.
type Config struct {
	// MaxSteps caps scheduling decisions (livelock guard); default 20000.
	MaxSteps int
	// Epoch is virtual time zero as unix nanoseconds (default 2_000_000_000 s: the real future,
	// so deadlines handed to uninstrumented code cannot fire during an execution).
	Epoch int64
	// Horizon: virtual duration after which the clock is no longer advanced (0 = 1h).
	Horizon time.Duration
	// AtQuiescence is called by the scheduler at every quiescent point (no thread runs).
	AtQuiescence func(s *Sched)
	// Cleanup is called when the execution ends, before background threads are released,
	// to unblock threads parked on real channels (cancel contexts, close connections).
	Cleanup func()
	// ClockCost is the deviation cost of letting a timer fire while threads are enabled (default 1).
	ClockCost int
	// ClockSlack: a pending timer may fire while threads are enabled only if it is due within
	// this much virtual time (default 1ms).
	ClockSlack time.Duration
	// NoClockPreempt disables firing timers while threads are enabled.
	NoClockPreempt bool
	// FreeBlockedSwitch makes the choice of the next thread free when the running thread is
	// blocked or finished (classic preemption bounding: only preemptions are counted). Only
	// affordable for small programs; the default (delay bounding) counts every departure from
	// the deterministic default schedule.
	FreeBlockedSwitch bool
	// SwitchCost is the deviation cost of a non-default thread / timer choice (default 1). A harness
	// whose deviations should be spent on faults first sets it higher than its fault cost.
	SwitchCost int
	// SelectCost is the deviation cost of a non-source-order select probe order (default 1).
	SelectCost int
}

// Result of a controlled execution.
type Result struct {
	Steps      int
	Deadlock   bool     // no thread enabled, no timer pending, main thread not finished
	Horizon    bool     // virtual horizon reached with main thread not finished
	StepCap    bool     // MaxSteps reached
	Blocked    []string // threads not finished at the end, with what they wait for
	Leaked     int      // goroutines that could not be terminated
	VirtualNow time.Duration
	Panic      any // panic value of a controlled thread (code under test), if any
	PanicStack string
	Snapshots  int
}

// Sched is the scheduler of one execution.
type Sched struct {
	mu       sync.Mutex
	x        *mc.Exec
	cfg      Config
	threads  []*Thread
	byGoid   map[int64]*Thread
	events   chan struct{}
	last     *Thread
	now      int64 // virtual ns since epoch
	timers   []*vtimer
	timerSeq int64
	aborting bool
	steps    int
	res      Result
	main     *Thread
}

var current atomic.Pointer[Sched]

// Active returns the scheduler of the running execution, or nil.
func Active() *Sched { return current.Load() }

func curGoid() int64 {
	var buf [64]byte
	n := runtime.Stack(buf[:], false)
	// "goroutine 123 ["
	b := buf[:n]
	b = b[len("goroutine "):]
	i := bytes.IndexByte(b, ' ')
	id, _ := strconv.ParseInt(string(b[:i]), 10, 64)
	return id
}

// Self returns the controlled thread of the calling goroutine (nil when uncontrolled).
func Self() *Thread {
	s := current.Load()
	if s == nil {
		return nil
	}
	g := curGoid()
	s.mu.Lock()
	t := s.byGoid[g]
	s.mu.Unlock()
	return t
}

// Aborting reports whether the execution is being torn down.
func (s *Sched) Aborting() bool {
	s.mu.Lock()
	defer s.mu.Unlock()
	return s.aborting
}

// Lock/Unlock give package vsync/vtime access to the scheduler's state lock.
func (s *Sched) Lock()   { s.mu.Lock() }
func (s *Sched) Unlock() { s.mu.Unlock() }

// LastThread returns the name of the thread released by the last scheduling decision.
func (s *Sched) LastThread() string {
	s.mu.Lock()
	defer s.mu.Unlock()
	if s.last == nil {
		return ""
	}
	return s.last.Name
}

// Steps returns the number of scheduling decisions so far.
func (s *Sched) Steps() int {
	s.mu.Lock()
	defer s.mu.Unlock()
	return s.steps
}

// Exec returns the choice source.
func (s *Sched) Exec() *mc.Exec { return s.x }

func (s *Sched) notify() {
	select {
	case s.events <- struct{}{}:
	default:
	}
}

// Block parks the calling controlled thread at a scheduling point until the scheduler
// chooses it (only when op.Enabled() holds; op.Commit runs atomically with the choice).
func (t *Thread) Block(op *Op) {
	s := t.sched
	s.mu.Lock()
	if s.aborting {
		s.mu.Unlock()
		runtime.Goexit()
	}
	t.op = op
	t.state = tAtPoint
	s.mu.Unlock()
	s.notify()
	<-t.wake
	s.mu.Lock()
	ab := s.aborting
	s.mu.Unlock()
	if ab {
		runtime.Goexit()
	}
}

// Point is a scheduling point that is always enabled. Uncontrolled goroutines pass through.
func Point(label string) {
	t := Self()
	if t == nil {
		return
	}
	t.Block(&Op{Label: label})
}

// Yield is Point for spin loops.
func Yield() { Point("yield") }

// Go starts fn as a controlled thread (a plain goroutine when no execution is active).
func Go(fn func()) { GoNamed("", false, fn) }

// GoDaemon starts a controlled background thread that may legitimately stay blocked.
func GoDaemon(name string, fn func()) { GoNamed(name, true, fn) }

// GoNamed starts a named controlled thread.
func GoNamed(name string, daemon bool, fn func()) *Thread {
	s := current.Load()
	if s == nil {
		go fn()
		return nil
	}
	s.mu.Lock()
	if s.aborting {
		s.mu.Unlock()
		return nil // execution is over: do not start new work
	}
	t := &Thread{ID: len(s.threads), Name: name, wake: make(chan struct{}, 1), sched: s, Daemon: daemon,
		state: tAtPoint, op: &Op{Label: "start"}}
	if t.Name == "" {
		t.Name = "t" + strconv.Itoa(t.ID)
	}
	s.threads = append(s.threads, t)
	s.mu.Unlock()
	reg := make(chan struct{})
	go func() {
		t.goid = curGoid()
		s.mu.Lock()
		s.byGoid[t.goid] = t
		s.mu.Unlock()
		close(reg)
		defer func() {
			if r := recover(); r != nil {
				s.mu.Lock()
				if s.res.Panic == nil {
					s.res.Panic = r
					buf := make([]byte, 8192)
					s.res.PanicStack = string(buf[:runtime.Stack(buf, false)])
				}
				s.mu.Unlock()
			}
			s.mu.Lock()
			t.state = tDone
			t.op = nil
			delete(s.byGoid, t.goid)
			s.mu.Unlock()
			s.notify()
		}()
		<-t.wake
		s.mu.Lock()
		ab := s.aborting
		s.mu.Unlock()
		if ab {
			return
		}
		fn()
	}()
	<-reg
	return t
}

// SelectOrder returns the order in which the cases of a rewritten select are probed.
// The first probed case is a choice (source order is the default); the rest follow in order.
func SelectOrder(n int) []int {
	ord := make([]int, n)
	for i := range ord {
		ord[i] = i
	}
	s := current.Load()
	if s == nil || n < 2 || Self() == nil {
		return ord
	}
	s.mu.Lock()
	ab := s.aborting
	cost := s.cfg.SelectCost
	s.mu.Unlock()
	if ab {
		return ord
	}
	k := s.x.ChooseCost(n, cost, "select-first")
	if k != 0 {
		ord[0], ord[k] = ord[k], ord[0]
		sort.Ints(ord[1:])
	}
	return ord
}

// MapOrder returns the keys of m in the order a rewritten `for k, v := range m` visits them. Go
// leaves the order of a map iteration unspecified, so it is a choice of the environment: the
// default is ascending order of the printed key; every other permutation (maps of up to 3
// entries) or rotation (larger maps) is an alternative the explorer takes at the cost of one
// deviation. Outside a controlled execution the default order is returned.
func MapOrder[K comparable, V any](m map[K]V) []K {
	keys := make([]K, 0, len(m))
	for k := range m {
		keys = append(keys, k)
	}
	if len(keys) < 2 {
		return keys
	}
	printed := make(map[K]string, len(keys))
	for _, k := range keys {
		printed[k] = fmt.Sprintf("%020v", k)
	}
	sort.Slice(keys, func(i, j int) bool { return printed[keys[i]] < printed[keys[j]] })
	s := current.Load()
	if s == nil || Self() == nil {
		return keys
	}
	n := len(keys)
	if n <= 3 {
		alts := 2
		if n == 3 {
			alts = 6
		}
		c := s.x.ChooseCost(alts, 1, "map-order")
		// c-th permutation in lexicographic order
		rest := append([]K{}, keys...)
		out := make([]K, 0, n)
		f := alts / n
		for len(rest) > 0 {
			i := c / f
			c %= f
			out = append(out, rest[i])
			rest = append(rest[:i], rest[i+1:]...)
			if len(rest) > 0 {
				f /= len(rest)
			}
		}
		return out
	}
	c := s.x.ChooseCost(n, 1, "map-order")
	return append(append([]K{}, keys[c:]...), keys[:c]...)
}

// ZeroOf returns the zero value of a channel's element type (for rewritten selects).
func ZeroOf[T any](ch <-chan T) (z T) { return }

// ZeroOfBi is ZeroOf for expressions typed chan T where inference needs help.
func ZeroOfBi[T any](ch chan T) (z T) { return }

var parkedStatus = map[string]bool{
	"chan receive": true, "chan send": true, "select": true, "select (no cases)": true,
	"chan receive (nil chan)": true, "chan send (nil chan)": true,
	"sync.Mutex.Lock": true, "sync.RWMutex.RLock": true, "sync.RWMutex.Lock": true,
	"sync.Cond.Wait": true, "sync.WaitGroup.Wait": true, "semacquire": true, "IO wait": true,
}

// snapshot returns goroutine id -> status for all goroutines.
func snapshot(buf *[]byte) map[int64]string {
	for {
		n := runtime.Stack(*buf, true)
		if n < len(*buf) {
			return parseStatuses((*buf)[:n])
		}
		*buf = make([]byte, 2*len(*buf))
	}
}

func parseStatuses(b []byte) map[int64]string {
	m := make(map[int64]string, 16)
	prefix := []byte("goroutine ")
	var semaID int64 = -1 // goroutine whose frames are being inspected (status "semacquire")
	for len(b) > 0 {
		nl := bytes.IndexByte(b, '\n')
		var line []byte
		if nl < 0 {
			line, b = b, nil
		} else {
			line, b = b[:nl], b[nl+1:]
		}
		if !bytes.HasPrefix(line, prefix) {
			if semaID >= 0 {
				if len(line) == 0 {
					semaID = -1
				} else if bytes.HasPrefix(line, []byte("sync.runtime_Semacquire")) || bytes.HasPrefix(line, []byte("internal/poll.runtime_Semacquire")) {
					m[semaID] = "semacquire"
					semaID = -1
				}
			}
			continue
		}
		semaID = -1
		rest := line[len(prefix):]
		sp := bytes.IndexByte(rest, ' ')
		if sp < 0 {
			continue
		}
		id, err := strconv.ParseInt(string(rest[:sp]), 10, 64)
		if err != nil {
			continue
		}
		lb := bytes.IndexByte(rest, '[')
		rb := bytes.LastIndexByte(rest, ']')
		if lb < 0 || rb < lb {
			continue
		}
		st := rest[lb+1 : rb]
		if c := bytes.IndexByte(st, ','); c >= 0 { // "select, 2 minutes"
			st = st[:c]
		}
		m[id] = string(st)
		if m[id] == "semacquire" {
			// The runtime parks goroutines with this status for its own short-lived semaphores too
			// (gcStart / stopTheWorld waiting for worldsema while a GC phase change is in flight).
			// Such a goroutine resumes by itself: it is running, not parked. Only a wait entered
			// through the sync or poll semaphore entry points counts as parked.
			m[id] = "semacquire (runtime)"
			semaID = id
		}
	}
	return m
}

// InstrumentationGap is the panic value for a controlled thread found in a status that
// the instrumentation should have made impossible (e.g. real time.Sleep).
type InstrumentationGap struct{ Msg string }

func (g InstrumentationGap) Error() string { return "vsched: instrumentation gap: " + g.Msg }

// MCInfra marks the panic as an infrastructure error for mc (never a property verdict).
func (g InstrumentationGap) MCInfra() string { return g.Error() }

// waitQuiescent waits until every live controlled thread is at a point, parked or done.
func (s *Sched) waitQuiescent(buf *[]byte) {
	spins := 0
	for {
		// drain notifications
		for {
			select {
			case <-s.events:
				continue
			default:
			}
			break
		}
		s.mu.Lock()
		running, parked := 0, 0
		for _, t := range s.threads {
			switch t.state {
			case tRunning:
				running++
			case tParked:
				parked++
			}
		}
		s.mu.Unlock()
		if running == 0 && parked == 0 {
			return
		}
		if running > 0 && spins < 3 {
			// give the released thread a chance to report by itself
			spins++
			runtime.Gosched()
			continue
		}
		snap := snapshot(buf)
		s.res.Snapshots++
		quiet := true
		s.mu.Lock()
		for _, t := range s.threads {
			if t.state != tRunning && t.state != tParked {
				continue
			}
			st, ok := snap[t.goid]
			if !ok {
				// goroutine is exiting (or not yet registered): wait for it to mark itself done
				quiet = false
				continue
			}
			if parkedStatus[st] {
				continue
			}
			if st == "semacquire (runtime)" {
				RuntimeSemaWaits.Add(1)
			}
			if st == "sleep" {
				s.mu.Unlock()
				panic(InstrumentationGap{fmt.Sprintf("thread %s is in real time.Sleep", t.Name)})
			}
			quiet = false
			if t.state == tParked {
				t.state = tRunning // woken by someone
			}
		}
		if quiet {
			for _, t := range s.threads {
				if t.state == tRunning {
					t.state = tParked
				}
			}
			s.mu.Unlock()
			return
		}
		s.mu.Unlock()
		spins++
		if spins > 200 {
			time.Sleep(20 * time.Microsecond) // a thread is in a syscall or being preempted: back off
		} else {
			runtime.Gosched()
		}
	}
}

var snapBuf = make([]byte, 256<<10) // reused across executions (Run is never concurrent)

// Run executes main as controlled thread 0 under the scheduler, drawing every scheduling
// decision from x, and returns when main finished, a deadlock was found or a cap was hit.
func Run(x *mc.Exec, cfg Config, mainFn func()) (res Result) {
	if cfg.MaxSteps <= 0 {
		cfg.MaxSteps = 20000
	}
	if cfg.Epoch == 0 {
		cfg.Epoch = 2_000_000_000 * int64(time.Second)
	}
	if cfg.Horizon == 0 {
		cfg.Horizon = time.Hour
	}
	if cfg.ClockCost == 0 {
		cfg.ClockCost = 1
	}
	if cfg.ClockSlack == 0 {
		cfg.ClockSlack = time.Millisecond
	}
	if cfg.SelectCost == 0 {
		cfg.SelectCost = 1
	}
	if cfg.SwitchCost == 0 {
		cfg.SwitchCost = 1
	}
	s := &Sched{x: x, cfg: cfg, byGoid: map[int64]*Thread{}, events: make(chan struct{}, 1)}
	if !current.CompareAndSwap(nil, s) {
		panic("vsched: nested or concurrent Run (use mc.Options{Workers:1})")
	}
	buf := snapBuf
	s.main = GoNamed("main", false, mainFn)
	defer func() {
		snapBuf = buf
		s.teardown(&buf)
		res.Leaked = s.res.Leaked
		current.Store(nil)
	}()
	for {
		s.waitQuiescent(&buf)
		if cfg.AtQuiescence != nil {
			cfg.AtQuiescence(s)
		}
		s.mu.Lock()
		if s.res.Panic != nil || s.main.state == tDone {
			s.mu.Unlock()
			break
		}
		var enabled []*Thread
		lastEnabled := false
		for _, t := range s.threads {
			if t.state == tAtPoint && (t.op.Enabled == nil || t.op.Enabled()) {
				if t == s.last {
					lastEnabled = true
				} else {
					enabled = append(enabled, t)
				}
			}
		}
		if lastEnabled {
			enabled = append([]*Thread{s.last}, enabled...)
		}
		clock := len(s.timers) > 0 && time.Duration(s.now) < cfg.Horizon
		if len(enabled) == 0 {
			if clock {
				s.mu.Unlock()
				s.advanceClock()
				continue
			}
			if len(s.timers) > 0 {
				s.res.Horizon = true
			} else {
				s.res.Deadlock = true
			}
			s.mu.Unlock()
			break
		}
		if s.steps >= cfg.MaxSteps {
			s.res.StepCap = true
			s.mu.Unlock()
			break
		}
		s.steps++
		n := len(enabled)
		// A timer may fire "between" steps of runnable threads only when it is due within
		// ClockSlack of virtual now: runnable threads are urgent, virtual time cannot run far
		// ahead of them (a runnable goroutine is not delayed for a noticeable fraction of a second).
		if clock && !cfg.NoClockPreempt && s.nextTimerInLocked() <= int64(cfg.ClockSlack) {
			n++
		} else {
			clock = false
		}
		_ = clock
		s.mu.Unlock()
		k := 0
		if n > 1 {
			// Delay bounding: the default is "continue the running thread, else the lowest id";
			// every departure costs one deviation. With FreeBlockedSwitch (preemption bounding)
			// a switch is free when the running thread cannot continue anyway.
			cost := cfg.SwitchCost
			if cfg.FreeBlockedSwitch && !lastEnabled {
				cost = 0
			}
			k = x.ChooseCost(n, cost, "sched")
		}
		if k == len(enabled) {
			s.advanceClock()
			continue
		}
		s.mu.Lock()
		t := enabled[k]
		if t.op.Commit != nil {
			t.op.Commit()
		}
		t.op = nil
		t.state = tRunning
		s.last = t
		s.mu.Unlock()
		t.wake <- struct{}{}
	}
	s.mu.Lock()
	s.res.Steps = s.steps
	s.res.VirtualNow = time.Duration(s.now)
	for _, t := range s.threads {
		if t.state != tDone {
			w := "parked in runtime (channel)"
			if t.state == tAtPoint && t.op != nil {
				w = t.op.Label
			}
			s.res.Blocked = append(s.res.Blocked, t.Name+": "+w)
		}
	}
	res = s.res
	s.mu.Unlock()
	return res
}

// teardown releases every thread: threads at a point exit; parked threads are unblocked by
// cfg.Cleanup and exit at their next scheduler interaction.
func (s *Sched) teardown(buf *[]byte) {
	s.mu.Lock()
	s.aborting = true
	for _, tm := range s.timers {
		tm.dead = true
		if tm.ch != nil {
			// release a thread parked on this timer's channel; it exits at its next scheduler interaction
			select {
			case tm.ch <- time.Unix(0, s.cfg.Epoch+s.now):
			default:
			}
		}
	}
	s.timers = nil
	var ths []*Thread
	ths = append(ths, s.threads...)
	s.mu.Unlock()
	if s.cfg.Cleanup != nil {
		func() {
			defer func() { recover() }()
			s.cfg.Cleanup()
		}()
	}
	for _, t := range ths {
		select {
		case t.wake <- struct{}{}:
		default:
		}
	}
	deadline := time.Now().Add(20 * time.Second)
	for {
		s.mu.Lock()
		alive := 0
		for _, t := range s.threads {
			if t.state != tDone {
				alive++
			}
		}
		// threads started during teardown
		if len(s.threads) > len(ths) {
			for _, t := range s.threads[len(ths):] {
				select {
				case t.wake <- struct{}{}:
				default:
				}
			}
			ths = append(ths[:0], s.threads...)
		}
		s.mu.Unlock()
		if alive == 0 {
			break
		}
		if time.Now().After(deadline) {
			s.mu.Lock()
			s.res.Leaked = alive
			s.mu.Unlock()
			break
		}
		runtime.Gosched()
	}
}

func init() {
	mc.WriteHooks = append(mc.WriteHooks, func(r *mc.Report) {
		r.SetPart("scheduler", map[string]any{
			"runtime_semaphore_waits_treated_as_running": RuntimeSemaWaits.Load(),
			"goroutines_not_terminated_at_teardown":      LeakedTotal.Load(),
		})
	})
}

// RuntimeSemaWaits counts snapshots in which a controlled thread was found waiting on one of the
// runtime's own semaphores (GC phase change); it is then treated as running, see parseStatuses.
var RuntimeSemaWaits atomic.Int64

// LeakedTotal counts goroutines of finished executions that could not be terminated (they stay
// parked for the rest of the process; harmless for verdicts, they only cost memory and snapshot time).
var LeakedTotal atomic.Int64

// NoteLeak records leaked goroutines of one execution; it reports true while the total is tolerable.
func NoteLeak(n int) bool {
	return LeakedTotal.Add(int64(n)) <= 200
}

func (r Result) String() string {
	return fmt.Sprintf("steps=%d deadlock=%v horizon=%v stepcap=%v blocked=%v leaked=%d vnow=%s", r.Steps, r.Deadlock, r.Horizon, r.StepCap, r.Blocked, r.Leaked, r.VirtualNow)
}
