// Package vsync mirrors package sync for code instrumented by tools/vinstr: Mutex, RWMutex,
// Cond, WaitGroup and Once are modelled inside the vsched scheduler when the caller is a
// controlled thread (every acquisition is a scheduling point, enabled iff it would not
// block), and fall back to the real sync primitives otherwise. Everything else is an alias.
package vsync

import (
	"runtime"
	"sync"

	"github.com/VKCOM/statshouse/internal/verif/vsched"
)

type (
	Locker = sync.Locker
	Map    = sync.Map
	Pool   = sync.Pool
)

func OnceFunc(f func()) func()                                 { return sync.OnceFunc(f) }
func OnceValue[T any](f func() T) func() T                     { return sync.OnceValue(f) }
func OnceValues[T1, T2 any](f func() (T1, T2)) func() (T1, T2) { return sync.OnceValues(f) }

// ctl returns the calling controlled thread, or nil when the caller is uncontrolled, no
// execution is active, or the execution is being torn down (then operations are no-ops
// for releases and Goexit for acquisitions).
func ctl() (*vsched.Thread, *vsched.Sched) {
	s := vsched.Active()
	if s == nil {
		return nil, nil
	}
	return vsched.Self(), s
}

// Mutex models sync.Mutex.
type Mutex struct {
	real  sync.Mutex
	held  bool
	owner *vsched.Thread
}

func (m *Mutex) Lock() {
	t, s := ctl()
	if t == nil {
		if s != nil {
			s.Lock()
			h := m.held
			s.Unlock()
			if h && !s.Aborting() {
				panic("vsync: uncontrolled goroutine would block on a modelled mutex held by a paused thread (monitors must not take locks)")
			}
		}
		m.real.Lock()
		return
	}
	t.Block(&vsched.Op{Label: "Mutex.Lock", Enabled: func() bool { return !m.held }, Commit: func() { m.held = true; m.owner = t }})
}

func (m *Mutex) TryLock() bool {
	t, s := ctl()
	if t == nil {
		return m.real.TryLock()
	}
	ok := false
	t.Block(&vsched.Op{Label: "Mutex.TryLock", Commit: func() {
		if !m.held {
			m.held, m.owner, ok = true, t, true
		}
	}})
	_ = s
	return ok
}

func (m *Mutex) Unlock() {
	t, s := ctl()
	if t == nil {
		if s != nil && s.Aborting() {
			// a controlled thread that is exiting releases what it modelled-held
			s.Lock()
			wasModelled := m.held
			m.held, m.owner = false, nil
			s.Unlock()
			if wasModelled {
				return
			}
		}
		m.real.Unlock()
		return
	}
	s.Lock()
	if !m.held {
		s.Unlock()
		if s.Aborting() {
			return
		}
		panic("vsync: unlock of unlocked mutex")
	}
	m.held, m.owner = false, nil
	s.Unlock()
}

// Held reports whether the modelled mutex is held (for monitors at quiescent points).
func (m *Mutex) Held() bool { return m.held }

// RWMutex models sync.RWMutex including writer preference: Lock first announces the writer
// (which stops new readers), then waits for active readers to leave.
type RWMutex struct {
	real     sync.RWMutex
	readers  int
	writer   bool // a writer holds or is announced
	wholder  *vsched.Thread
	wgranted bool
}

func (m *RWMutex) Lock() {
	t, _ := ctl()
	if t == nil {
		m.real.Lock()
		return
	}
	t.Block(&vsched.Op{Label: "RWMutex.Lock(announce)", Enabled: func() bool { return !m.writer }, Commit: func() { m.writer = true; m.wholder = t }})
	t.Block(&vsched.Op{Label: "RWMutex.Lock(wait readers)", Enabled: func() bool { return m.readers == 0 }, Commit: func() { m.wgranted = true }})
}

func (m *RWMutex) TryLock() bool {
	t, _ := ctl()
	if t == nil {
		return m.real.TryLock()
	}
	ok := false
	t.Block(&vsched.Op{Label: "RWMutex.TryLock", Commit: func() {
		if !m.writer && m.readers == 0 {
			m.writer, m.wholder, m.wgranted, ok = true, t, true, true
		}
	}})
	return ok
}

func (m *RWMutex) Unlock() {
	t, s := ctl()
	if t == nil {
		if s != nil && s.Aborting() {
			s.Lock()
			was := m.writer
			m.writer, m.wholder, m.wgranted = false, nil, false
			s.Unlock()
			if was {
				return
			}
		}
		m.real.Unlock()
		return
	}
	s.Lock()
	m.writer, m.wholder, m.wgranted = false, nil, false
	s.Unlock()
}

func (m *RWMutex) RLock() {
	t, _ := ctl()
	if t == nil {
		m.real.RLock()
		return
	}
	t.Block(&vsched.Op{Label: "RWMutex.RLock", Enabled: func() bool { return !m.writer }, Commit: func() { m.readers++ }})
}

func (m *RWMutex) TryRLock() bool {
	t, _ := ctl()
	if t == nil {
		return m.real.TryRLock()
	}
	ok := false
	t.Block(&vsched.Op{Label: "RWMutex.TryRLock", Commit: func() {
		if !m.writer {
			m.readers++
			ok = true
		}
	}})
	return ok
}

func (m *RWMutex) RUnlock() {
	t, s := ctl()
	if t == nil {
		if s != nil && s.Aborting() {
			s.Lock()
			was := m.readers > 0
			if was {
				m.readers--
			}
			s.Unlock()
			if was {
				return
			}
		}
		m.real.RUnlock()
		return
	}
	s.Lock()
	if m.readers > 0 {
		m.readers--
	}
	s.Unlock()
}

type rlocker RWMutex

func (r *rlocker) Lock()   { (*RWMutex)(r).RLock() }
func (r *rlocker) Unlock() { (*RWMutex)(r).RUnlock() }

// RLocker returns a Locker whose Lock/Unlock are RLock/RUnlock.
func (m *RWMutex) RLocker() Locker { return (*rlocker)(m) }

// Cond models sync.Cond: Signal wakes the longest-waiting thread (as the runtime's
// notify list does), Broadcast all; a woken thread re-acquires L at a scheduling point.
type Cond struct {
	L       Locker
	real    *sync.Cond
	once    sync.Once
	waiters []*condWaiter
}

type condWaiter struct{ signalled bool }

// NewCond returns a new Cond with Locker l.
func NewCond(l Locker) *Cond { return &Cond{L: l} }

func (c *Cond) realCond() *sync.Cond {
	c.once.Do(func() { c.real = sync.NewCond(c.L) })
	return c.real
}

func (c *Cond) Wait() {
	t, s := ctl()
	if t == nil {
		if s != nil && s.Aborting() {
			runtime.Goexit()
		}
		c.realCond().Wait()
		return
	}
	w := &condWaiter{}
	s.Lock()
	c.waiters = append(c.waiters, w)
	s.Unlock()
	c.L.Unlock()
	t.Block(&vsched.Op{Label: "Cond.Wait", Enabled: func() bool { return w.signalled }})
	c.L.Lock()
}

func (c *Cond) Signal() {
	t, s := ctl()
	if t == nil {
		if s != nil {
			s.Lock()
			if len(c.waiters) > 0 {
				c.waiters[0].signalled = true
				c.waiters = c.waiters[1:]
			}
			s.Unlock()
		}
		if c.real != nil {
			c.real.Signal()
		}
		return
	}
	s.Lock()
	if len(c.waiters) > 0 {
		c.waiters[0].signalled = true
		c.waiters = c.waiters[1:]
	}
	s.Unlock()
	if c.real != nil {
		c.real.Signal()
	}
}

func (c *Cond) Broadcast() {
	_, s := ctl()
	if s != nil {
		s.Lock()
		for _, w := range c.waiters {
			w.signalled = true
		}
		c.waiters = nil
		s.Unlock()
	}
	if c.real != nil {
		c.real.Broadcast()
	}
}

// Waiters returns the number of modelled waiters (for monitors).
func (c *Cond) Waiters() int { return len(c.waiters) }

// WaitGroup models sync.WaitGroup.
type WaitGroup struct {
	real sync.WaitGroup
	n    int
	mu   sync.Mutex
}

func (w *WaitGroup) Add(delta int) {
	_, s := ctl()
	if s == nil {
		w.mu.Lock()
		w.n += delta
		w.mu.Unlock()
		w.real.Add(delta)
		return
	}
	s.Lock()
	w.n += delta
	neg := w.n < 0
	s.Unlock()
	if neg && !s.Aborting() {
		panic("vsync: negative WaitGroup counter")
	}
	// keep the real counter in step for uncontrolled waiters
	func() {
		defer func() { recover() }()
		w.real.Add(delta)
	}()
}

func (w *WaitGroup) Done() { w.Add(-1) }

func (w *WaitGroup) Wait() {
	t, _ := ctl()
	if t == nil {
		w.real.Wait()
		return
	}
	t.Block(&vsched.Op{Label: "WaitGroup.Wait", Enabled: func() bool { return w.n <= 0 }})
}

// Go calls f in a new controlled thread and adds it to the WaitGroup (Go 1.25 API shape).
func (w *WaitGroup) Go(f func()) {
	w.Add(1)
	vsched.Go(func() {
		defer w.Done()
		f()
	})
}

// Once models sync.Once.
type Once struct {
	real    sync.Once
	done    bool
	running bool
}

func (o *Once) Do(f func()) {
	t, s := ctl()
	if t == nil {
		o.real.Do(func() {
			if !o.done {
				f()
				o.done = true
			}
		})
		return
	}
	run := false
	t.Block(&vsched.Op{Label: "Once.Do", Enabled: func() bool { return !o.running }, Commit: func() {
		if !o.done {
			o.running = true
			run = true
		}
	}})
	if run {
		defer func() {
			s.Lock()
			o.done, o.running = true, false
			s.Unlock()
		}()
		f()
	}
}
