// Package vtime mirrors package time for code instrumented by tools/vinstr. When a vsched
// execution is active and the caller is a controlled thread (or the scheduler itself),
// Now/Sleep/After/NewTimer/NewTicker/AfterFunc/Since/Until work on the scheduler's virtual
// clock, which only advances at quiescence to the earliest pending timer (discrete events).
// Without an active execution everything delegates to package time.
package vtime

import (
	"time"

	"github.com/VKCOM/statshouse/internal/verif/vsched"
)

// Timer mirrors time.Timer.
type Timer struct {
	C    <-chan Time
	real *time.Timer
	h    *vsched.TimerHandle
	ch   chan Time
}

// Ticker mirrors time.Ticker.
type Ticker struct {
	C    <-chan Time
	real *time.Ticker
	h    *vsched.TimerHandle
}

func sched() *vsched.Sched { return vsched.Active() }

// Now returns virtual time under an active execution.
func Now() Time {
	if s := sched(); s != nil {
		return s.Now()
	}
	return time.Now()
}

func Since(t Time) Duration { return Now().Sub(t) }
func Until(t Time) Duration { return t.Sub(Now()) }

func Sleep(d Duration) {
	s := sched()
	if s == nil {
		time.Sleep(d)
		return
	}
	t := vsched.Self()
	if t == nil {
		if s.Aborting() {
			return
		}
		panic("vtime: Sleep from an uncontrolled goroutine during a controlled execution")
	}
	s.Sleep(t, d)
}

func NewTimer(d Duration) *Timer {
	s := sched()
	if s == nil {
		rt := time.NewTimer(d)
		return &Timer{C: rt.C, real: rt}
	}
	ch := make(chan Time, 1)
	return &Timer{C: ch, ch: ch, h: s.NewTimer(d, ch, nil, 0)}
}

func After(d Duration) <-chan Time { return NewTimer(d).C }

func AfterFunc(d Duration, f func()) *Timer {
	s := sched()
	if s == nil {
		return &Timer{real: time.AfterFunc(d, f)}
	}
	return &Timer{h: s.NewTimer(d, nil, f, 0)}
}

func (t *Timer) Stop() bool {
	if t.real != nil {
		return t.real.Stop()
	}
	was := t.h.Stop()
	// Go 1.23+ semantics: after Stop no stale value is delivered
	if t.ch != nil {
		select {
		case <-t.ch:
		default:
		}
	}
	return was
}

func (t *Timer) Reset(d Duration) bool {
	if t.real != nil {
		return t.real.Reset(d)
	}
	if t.ch != nil {
		select {
		case <-t.ch:
		default:
		}
	}
	return t.h.Reset(d)
}

func NewTicker(d Duration) *Ticker {
	if d <= 0 {
		panic("non-positive interval for NewTicker")
	}
	s := sched()
	if s == nil {
		rt := time.NewTicker(d)
		return &Ticker{C: rt.C, real: rt}
	}
	ch := make(chan Time, 1)
	return &Ticker{C: ch, h: s.NewTimer(d, ch, nil, d)}
}

func Tick(d Duration) <-chan Time {
	if d <= 0 {
		return nil
	}
	return NewTicker(d).C
}

func (t *Ticker) Stop() {
	if t.real != nil {
		t.real.Stop()
		return
	}
	t.h.Stop()
}

func (t *Ticker) Reset(d Duration) {
	if t.real != nil {
		t.real.Reset(d)
		return
	}
	t.h.ResetPeriod(d)
}
