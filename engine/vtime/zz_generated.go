// Code generated from the export list of package time; DO NOT EDIT.

package vtime

import "time"

const ANSIC = time.ANSIC
const April = time.April
const August = time.August

var Date = time.Date

const DateOnly = time.DateOnly
const DateTime = time.DateTime
const December = time.December

type Duration = time.Duration

const February = time.February

var FixedZone = time.FixedZone

const Friday = time.Friday
const Hour = time.Hour
const January = time.January
const July = time.July
const June = time.June
const Kitchen = time.Kitchen
const Layout = time.Layout

var LoadLocation = time.LoadLocation
var LoadLocationFromTZData = time.LoadLocationFromTZData
var Local = time.Local

type Location = time.Location

const March = time.March
const May = time.May
const Microsecond = time.Microsecond
const Millisecond = time.Millisecond
const Minute = time.Minute
const Monday = time.Monday

type Month = time.Month

const Nanosecond = time.Nanosecond
const November = time.November
const October = time.October

var Parse = time.Parse
var ParseDuration = time.ParseDuration

type ParseError = time.ParseError

var ParseInLocation = time.ParseInLocation

const RFC1123 = time.RFC1123
const RFC1123Z = time.RFC1123Z
const RFC3339 = time.RFC3339
const RFC3339Nano = time.RFC3339Nano
const RFC822 = time.RFC822
const RFC822Z = time.RFC822Z
const RFC850 = time.RFC850
const RubyDate = time.RubyDate
const Saturday = time.Saturday
const Second = time.Second
const September = time.September
const Stamp = time.Stamp
const StampMicro = time.StampMicro
const StampMilli = time.StampMilli
const StampNano = time.StampNano
const Sunday = time.Sunday
const Thursday = time.Thursday

type Time = time.Time

const TimeOnly = time.TimeOnly
const Tuesday = time.Tuesday

var UTC = time.UTC
var Unix = time.Unix

const UnixDate = time.UnixDate

var UnixMicro = time.UnixMicro
var UnixMilli = time.UnixMilli

const Wednesday = time.Wednesday

type Weekday = time.Weekday
