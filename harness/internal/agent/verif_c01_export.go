//go:build verif

package agent

// Export shim for the composed C01 harness (package aggregator): builds the same sender-side Agent/Shard
// the agent-half harness uses, with the rpc client supplied by the caller.

import (
	"context"
	"fmt"
	"time"

	"github.com/VKCOM/tl/pkg/rpc"

	"github.com/VKCOM/statshouse/internal/data_model"
	"github.com/VKCOM/statshouse/internal/data_model/gen2/tlstatshouse"
	"github.com/VKCOM/statshouse/internal/format"
	"github.com/VKCOM/statshouse/internal/pcache"
	"github.com/VKCOM/statshouse/internal/verif/vsched"
	"github.com/VKCOM/statshouse/internal/verif/vsync"
	"github.com/VKCOM/statshouse/internal/verif/vtime"
	"github.com/VKCOM/statshouse/internal/vkgo/semaphore"
)

// VerifC01Sender is the sender side of one agent shard.
type VerifC01Sender struct {
	Agent *Agent
	Shard *Shard
}

// VerifC01NewSender builds an Agent with one shard and three replicas "agg1".."agg3" behind client.
func VerifC01NewSender(dir string, saveImmediately bool, client rpc.Client, nowUnix uint32) (*VerifC01Sender, error) {
	cfg := DefaultConfig()
	cfg.SaveSecondsImmediately = saveImmediately
	cfg.HistoricWindow = 6 * 3600
	ag := &Agent{
		config:        cfg,
		logF:          func(string, ...any) {},
		mappingsCache: pcache.NewMappingsCache(data_model.NewChunkedStorageNop(), 1024*1024, 86400),
		componentTag:  format.TagValueIDComponentAgent,
	}
	ag.cancelSendsCtx, ag.cancelSendsFunc = context.WithCancel(context.Background())
	ag.historicWindow.Store(uint32(cfg.HistoricWindow))
	if dir != "" {
		dbc, err := MakeDiskBucketStorage(dir, 1, ag.logF)
		if err != nil {
			return nil, err
		}
		ag.diskBucketCache = dbc
	}
	shard := &Shard{
		config:               cfg,
		agent:                ag,
		ShardNum:             0,
		ShardKey:             1,
		BucketsToSend:        make(chan compressedBucketData),
		BucketsToPreprocess:  make(chan *data_model.MetricsBucket, 1),
		CurrentTime:          nowUnix,
		SendTime:             nowUnix - 2,
		metricBudgetsFromAgg: data_model.NewExpDecay(cfg.BudgetDecayHalfLife),
	}
	for j := 0; j < superQueueLen; j++ {
		shard.SuperQueue[j] = &data_model.MetricsBucket{}
	}
	shard.cond = vsync.NewCond(&shard.mu)
	ag.Shards = []*Shard{shard}
	for j := 0; j < data_model.MaxConveyorDelay*2; j++ {
		shard.readHistoricSecondLocked()
	}
	for i := 0; i < 3; i++ {
		r := &ShardReplica{
			config: cfg, agent: ag, ShardReplicaNum: i, ShardKey: 1, ReplicaKey: int32(i) + 1,
			clientField: tlstatshouse.Client{Client: client, Network: "tcp", Address: fmt.Sprintf("agg%d", i+1)},
			stats:       &shardStat{shardReplicaNum: fmt.Sprint(i)},
		}
		r.alive.Store(true)
		ag.ShardReplicas = append(ag.ShardReplicas, r)
	}
	ag.initBuiltInMetrics()
	return &VerifC01Sender{Agent: ag, Shard: shard}, nil
}

// Start launches the real sender goroutines (as controlled threads) plus the flusher's per-second duty.
func (p *VerifC01Sender) Start(recentSenders, historicSenders int, wg *vsync.WaitGroup) {
	sema := semaphore.NewWeighted(int64(recentSenders))
	for j := 0; j < recentSenders; j++ {
		_ = sema.Acquire(context.Background(), 1)
		wg.Add(1)
		j := j
		vsched.GoNamed(fmt.Sprintf("recent%d", j), true, func() {
			p.Shard.goSendRecent(j, wg, sema, p.Agent.cancelSendsCtx, p.Shard.BucketsToSend)
		})
	}
	for j := 0; j < historicSenders; j++ {
		wg.Add(1)
		vsched.GoNamed(fmt.Sprintf("historic%d", j), true, func() { p.Shard.goSendHistoric(wg, p.Agent.cancelSendsCtx) })
	}
	wg.Add(1)
	vsched.GoNamed("erase", true, func() { p.Shard.goEraseHistoric(wg, p.Agent.cancelSendsCtx) })
	vsched.GoNamed("flusher", true, func() {
		for {
			vtime.Sleep(time.Second)
			p.Shard.flushBuckets(vtime.Now())
		}
	})
}

// Produce hands one compressed second to the senders (what goPreProcess does after sampling).
func (p *VerifC01Sender) Produce(t uint32, compressed []byte) {
	p.Shard.sendToSenders(compressedBucketData{time: t, data: compressed})
}

// Cleanup releases threads parked on the agent's real channels (used at teardown).
func (p *VerifC01Sender) Cleanup() {
	p.Agent.cancelSendsFunc()
	func() {
		defer func() { recover() }()
		if ch := p.Shard.BucketsToSend; ch != nil {
			close(ch)
		}
	}()
}

// CloseDisk releases the disk cache lock and descriptors without writing anything (crash).
func (p *VerifC01Sender) CloseDisk() {
	if p.Agent.diskBucketCache != nil {
		_ = p.Agent.diskBucketCache.Close()
	}
}
