//go:build verif

package agent

// C01 (agent half): an agent forgets a buffered second only after an aggregator acknowledged it,
// and every second inside the historic window is eventually delivered.
//
// Real Shard sender side — sendToSenders, goSendRecent/sendRecent, goSendHistoric/sendHistoric,
// goEraseHistoric, popOldestHistoricSecondLocked, checkOutOfWindow, diskCachePutWithLog /
// diskCacheEraseWithLog over a real DiskBucketStorage directory, getShardReplicaForSecond /
// recordSendResult (replica failover) — instrumented by tools/vinstr (modelled mutex/cond/
// waitgroup, virtual time, controlled goroutines, scheduler-owned selects) against a scripted
// aggregator behind a fake rpc.Client whose answer to every send {discard, keep, rpc error,
// response lost (error after the conveyor delay)} is an explorer choice. A crash/restart of the
// agent is modelled by ending the controlled execution (all threads vanish) and starting a new
// agent on the same disk cache directory.

import (
	"context"
	"fmt"
	"os"
	"path/filepath"
	"sort"
	"strings"
	"testing"
	"time"

	"github.com/VKCOM/tl/pkg/rpc"

	"github.com/VKCOM/statshouse/internal/compress"
	"github.com/VKCOM/statshouse/internal/data_model"
	"github.com/VKCOM/statshouse/internal/data_model/gen2/tlstatshouse"
	"github.com/VKCOM/statshouse/internal/format"
	"github.com/VKCOM/statshouse/internal/pcache"
	"github.com/VKCOM/statshouse/internal/verif/mc"
	"github.com/VKCOM/statshouse/internal/verif/vsched"
	"github.com/VKCOM/statshouse/internal/verif/vsync"
	"github.com/VKCOM/statshouse/internal/verif/vtime"
	"github.com/VKCOM/statshouse/internal/vkgo/semaphore"
)

type c01Scenario struct {
	name           string
	seconds        int  // produced seconds
	saveImmediate  bool // Config.SaveSecondsImmediately
	disk           bool
	restartAfter   time.Duration // 0 = no restart; else phase 1 ends this long after the last second
	recentSenders  int
	historicSender int
}

func c01Scenarios(thorough bool) []c01Scenario {
	out := []c01Scenario{
		{name: "3 seconds, disk, no restart", seconds: 3, disk: true, recentSenders: 2, historicSender: 1},
		{name: "3 seconds, save immediately", seconds: 3, disk: true, saveImmediate: true, recentSenders: 2, historicSender: 1},
		{name: "3 seconds, no disk cache", seconds: 3, disk: false, recentSenders: 2, historicSender: 1},
		{name: "3 seconds, one recent sender (channel full path)", seconds: 3, disk: true, recentSenders: 1, historicSender: 2},
		{name: "restart 2s after 3 seconds, save immediately", seconds: 3, disk: true, saveImmediate: true, restartAfter: 2 * time.Second, recentSenders: 2, historicSender: 1},
		// after a restart the seconds come from disk into each historic sender's own scratch buffer: two
		// senders, so that a second can change hands between them
		{name: "restart at once after 3 seconds, two historic senders", seconds: 3, disk: true, saveImmediate: true, restartAfter: time.Millisecond, recentSenders: 1, historicSender: 2},
	}
	if thorough {
		out = append(out,
			c01Scenario{name: "4 seconds, disk", seconds: 4, disk: true, recentSenders: 2, historicSender: 2},
			c01Scenario{name: "restart at once after 3 seconds", seconds: 3, disk: true, saveImmediate: true, restartAfter: time.Millisecond, recentSenders: 2, historicSender: 1},
			c01Scenario{name: "restart 2s after 3 seconds, lazy save", seconds: 3, disk: true, restartAfter: 2 * time.Second, recentSenders: 2, historicSender: 1},
		)
	}
	return out
}

// c01Agg is the scripted aggregator cluster (three replicas of one shard) behind the rpc seam.
type c01Agg struct {
	x       *mc.Exec
	acked   map[uint32]int // second -> number of discard answers delivered
	sends   []string
	faults  int
	noFault bool // phase after the fault budget: always answer discard
	wrong   string // first request whose body is not the body of the second it names
}

type c01Client struct{ agg *c01Agg }

func (c *c01Client) GetRequest() *rpc.Request           { return &rpc.Request{} }
func (c *c01Client) PutResponse(*rpc.Response)          {}
func (c *c01Client) ResetReconnectDelay(rpc.NetAddr)    {}
func (c *c01Client) Logf(format string, args ...any)    {}
func (c *c01Client) Close() error                       { return nil }
func (c *c01Client) Multi(n int) *rpc.Multi             { return nil }
func (c *c01Client) DoMulti(context.Context, []rpc.NetAddr, func(rpc.NetAddr, *rpc.Request) error, func(rpc.NetAddr, *rpc.Response, error) error) error {
	return fmt.Errorf("not supported")
}
func (c *c01Client) DoCallback(context.Context, string, string, *rpc.Request, rpc.ClientCallback, any) (rpc.CallbackContext, error) {
	return rpc.CallbackContext{}, fmt.Errorf("not supported")
}

func (c *c01Client) Do(ctx context.Context, network string, address string, req *rpc.Request) (*rpc.Response, error) {
	var args tlstatshouse.SendSourceBucket3
	if _, err := args.ReadTL1Boxed(req.Body); err != nil {
		return nil, fmt.Errorf("scripted aggregator cannot parse request: %w", err)
	}
	vsched.Point("rpc " + address)
	if ctx.Err() != nil {
		return nil, ctx.Err()
	}
	a := c.agg
	kind := "recent"
	if args.IsSetHistoric() {
		kind = "historic"
	}
	ans := 0
	if !a.noFault && vsched.Self() != nil {
		ans = a.x.Choose(4, "aggregator answer")
	}
	// the body must be the body of the second the request names (a discard answer makes the agent forget
	// that second for good: if the bytes belong to another second, its rows are lost)
	if a.wrong == "" {
		var sb tlstatshouse.SourceBucket3
		raw, err := compress.Decompress(args.OriginalSize, []byte(args.CompressedData))
		if err == nil {
			_, err = sb.ReadTL1Boxed(raw)
		}
		switch {
		case err != nil:
			a.wrong = fmt.Sprintf("%s request for second %d carries an undecodable body: %v", kind, args.Time, err)
		case len(sb.Metrics) != 1 || sb.Metrics[0].Metric != 1000+int32(args.Time%1000):
			got := int32(-1)
			if len(sb.Metrics) > 0 {
				got = sb.Metrics[0].Metric
			}
			a.wrong = fmt.Sprintf("%s request for second %d carries the rows of another second (marker %d, expected %d)", kind, args.Time, got, 1000+int32(args.Time%1000))
		}
	}
	a.sends = append(a.sends, fmt.Sprintf("%s:%d->%s:%d", kind, args.Time, address, ans))
	var resp tlstatshouse.SendSourceBucket3Response
	switch ans {
	case 0: // inserted, discard
		resp.SetDiscard(true)
		a.acked[args.Time]++
	case 1: // keep (late recent bucket, conveyor full, insert failed with keep semantics)
		a.faults++
	case 2: // rpc error (insert failed, connection reset)
		a.faults++
		return nil, &rpc.Error{Code: data_model.RPCErrorInsert, Description: "scripted insert failure"}
	case 3: // response lost: the caller learns nothing until its timeout
		a.faults++
		vtime.Sleep(time.Duration(data_model.MaxConveyorDelay) * time.Second)
		return nil, fmt.Errorf("scripted timeout (response lost)")
	}
	body, err := args.WriteResultTL1(nil, resp)
	if err != nil {
		return nil, err
	}
	return &rpc.Response{Body: body}, nil
}

func c01Payload(t uint32) []byte {
	sb := tlstatshouse.SourceBucket3{}
	sb.Metrics = append(sb.Metrics, tlstatshouse.MultiItem{Metric: 1000 + int32(t%1000)})
	return compress.CompressAndFrame(sb.WriteTL1Boxed(nil))
}

type c01Phase struct {
	agent *Agent
	shard *Shard
}

func c01MakeAgent(sc c01Scenario, dir string, agg *c01Agg, nowUnix uint32) (*c01Phase, error) {
	cfg := DefaultConfig()
	cfg.SaveSecondsImmediately = sc.saveImmediate
	cfg.HistoricWindow = 6 * 3600
	ag := &Agent{
		config:        cfg,
		logF:          func(string, ...any) {},
		mappingsCache: pcache.NewMappingsCache(data_model.NewChunkedStorageNop(), 1024*1024, 86400),
		componentTag:  format.TagValueIDComponentAgent,
	}
	ag.cancelSendsCtx, ag.cancelSendsFunc = context.WithCancel(context.Background())
	ag.historicWindow.Store(uint32(cfg.HistoricWindow))
	if sc.disk {
		dbc, err := MakeDiskBucketStorage(dir, 1, ag.logF)
		if err != nil {
			return nil, err
		}
		ag.diskBucketCache = dbc
	}
	shard := &Shard{
		config:               cfg,
		agent:                ag,
		ShardNum:             0,
		ShardKey:             1,
		BucketsToSend:        make(chan compressedBucketData),
		BucketsToPreprocess:  make(chan *data_model.MetricsBucket, 1),
		CurrentTime:          nowUnix,
		SendTime:             nowUnix - 2,
		metricBudgetsFromAgg: data_model.NewExpDecay(cfg.BudgetDecayHalfLife),
	}
	for j := 0; j < superQueueLen; j++ {
		shard.SuperQueue[j] = &data_model.MetricsBucket{}
	}
	shard.cond = vsync.NewCond(&shard.mu)
	ag.Shards = []*Shard{shard}
	for j := 0; j < data_model.MaxConveyorDelay*2; j++ {
		shard.readHistoricSecondLocked()
	}
	for i := 0; i < 3; i++ {
		r := &ShardReplica{
			config: cfg, agent: ag, ShardReplicaNum: i, ShardKey: 1, ReplicaKey: int32(i) + 1,
			clientField: tlstatshouse.Client{Client: &c01Client{agg: agg}, Network: "tcp", Address: fmt.Sprintf("agg%d", i+1)},
			stats:       &shardStat{shardReplicaNum: fmt.Sprint(i)},
		}
		r.alive.Store(true)
		ag.ShardReplicas = append(ag.ShardReplicas, r)
	}
	ag.initBuiltInMetrics()
	return &c01Phase{agent: ag, shard: shard}, nil
}

func (p *c01Phase) start(sc c01Scenario, wg *vsync.WaitGroup) {
	sema := semaphore.NewWeighted(int64(sc.recentSenders))
	for j := 0; j < sc.recentSenders; j++ {
		_ = sema.Acquire(context.Background(), 1)
		wg.Add(1)
		j := j
		vsched.GoNamed(fmt.Sprintf("recent%d", j), true, func() {
			p.shard.goSendRecent(j, wg, sema, p.agent.cancelSendsCtx, p.shard.BucketsToSend)
		})
	}
	for j := 0; j < sc.historicSender; j++ {
		wg.Add(1)
		vsched.GoNamed(fmt.Sprintf("historic%d", j), true, func() { p.shard.goSendHistoric(wg, p.agent.cancelSendsCtx) })
	}
	wg.Add(1)
	vsched.GoNamed("erase", true, func() { p.shard.goEraseHistoric(wg, p.agent.cancelSendsCtx) })
	// the flusher's per-second duty towards the senders: advance CurrentTime and wake one historic consumer
	// (real Shard.flushBuckets; the 100 ms cadence of goFlusher is reduced to one call per second)
	vsched.GoNamed("flusher", true, func() {
		for {
			vtime.Sleep(time.Second)
			p.shard.flushBuckets(vtime.Now())
		}
	})
}

// c01DiskSeconds lists the seconds a fresh reader finds in the disk cache directory.
func c01DiskSeconds(dir string) []uint32 {
	dbc, err := MakeDiskBucketStorage(dir, 1, func(string, ...any) {})
	if err != nil {
		return nil
	}
	defer dbc.Close()
	var out []uint32
	for {
		sec, id := dbc.ReadNextTailBucket(0)
		if id == 0 {
			break
		}
		out = append(out, sec)
	}
	sort.Slice(out, func(i, j int) bool { return out[i] < out[j] })
	return out
}

var c01DirSeq int

func c01Run(x *mc.Exec, sc c01Scenario, rep *mc.Report) mc.Verdict {
	c01DirSeq++
	dir := filepath.Join(os.Getenv("VERIF_SCRATCH"), fmt.Sprintf("c01_%d", c01DirSeq))
	_ = os.RemoveAll(dir)
	if err := os.MkdirAll(dir, 0o755); err != nil {
		panic(c01Infra(err.Error()))
	}
	defer os.RemoveAll(dir)
	agg := &c01Agg{x: x, acked: map[uint32]int{}}
	var produced []uint32
	var viol, sig string
	fail := func(s, m string) {
		if viol == "" {
			sig, viol = s, m
		}
	}
	var openCaches []*DiskBucketStorage
	defer func() {
		for _, d := range openCaches {
			_ = d.Close()
		}
	}()
	// a crash releases the directory lock and the file descriptors without writing anything
	crashClose := func() {
		for _, d := range openCaches {
			_ = d.Close() // only closes descriptors
		}
		openCaches = nil
	}
	const settle = 40 * time.Second // > conveyor delay + historic retry pauses (1 s) after the last fault
	phase := func(restarted bool, mustAck func() []uint32, produce int, endAfter time.Duration, final bool) vsched.Result {
		var cur *c01Phase
		cleanup := func() {
			if cur == nil {
				return
			}
			cur.agent.cancelSendsFunc()
			func() {
				defer func() { recover() }()
				if ch := cur.shard.BucketsToSend; ch != nil {
					close(ch) // releases recent senders parked on the channel
				}
			}()
		}
		return vsched.Run(x, vsched.Config{Horizon: 10 * time.Minute, MaxSteps: 300000, Cleanup: cleanup}, func() {
			nowUnix := uint32(vtime.Now().Unix())
			p, err := c01MakeAgent(sc, dir, agg, nowUnix)
			cur = p
			if err != nil {
				fail("C01:agent-cannot-open-disk-cache", err.Error())
				return
			}
			if p.agent.diskBucketCache != nil {
				openCaches = append(openCaches, p.agent.diskBucketCache)
			}
			var wg vsync.WaitGroup
			p.start(sc, &wg)
			for i := 0; i < produce; i++ {
				t := uint32(vtime.Now().Unix())
				produced = append(produced, t)
				p.shard.sendToSenders(compressedBucketData{time: t, data: c01Payload(t)})
				vtime.Sleep(time.Second)
			}
			if !final {
				vtime.Sleep(endAfter)
				return // crash: every thread of this agent vanishes
			}
			vtime.Sleep(settle)
			agg.noFault = true // the fault budget is spent: from now on the aggregator inserts everything
			vtime.Sleep(settle)
			for _, t := range mustAck() {
				if agg.acked[t] == 0 {
					fail("C01:second-never-delivered", fmt.Sprintf("second %d (offset %d) was never acknowledged by an aggregator although it stayed inside the historic window and the aggregator answers every send since %v; sends: %v", t, int64(t)-int64(produced[0]), settle, agg.sends))
					return
				}
			}
			// the execution ends here; the remaining sender threads are released by the scheduler's teardown
			// (an orderly Agent shutdown is outside this property; note: cancelling cancelSendsCtx while
			// goEraseHistoric sits in its 60 s select makes it return with s.mu unlocked and the deferred
			// Unlock then faults - recorded as a side finding in DESIGN.md)
		})
	}
	var res vsched.Result
	if sc.restartAfter == 0 {
		res = phase(false, func() []uint32 { return produced }, sc.seconds, 0, true)
	} else {
		res = phase(false, nil, sc.seconds, sc.restartAfter, false)
		crashClose()
		if res.Panic == nil && viol == "" && !(res.Deadlock || res.StepCap || res.Horizon) {
			// after the crash: what a restarted agent finds on disk must eventually be delivered,
			// and with save-before-send every produced second is either acknowledged or on disk
			onDisk := c01DiskSeconds(dir)
			if sc.saveImmediate {
				have := map[uint32]bool{}
				for _, t := range onDisk {
					have[t] = true
				}
				for _, t := range produced {
					if agg.acked[t] == 0 && !have[t] {
						fail("C01:unacknowledged-second-not-on-disk", fmt.Sprintf("second %d (offset %d) was handed to a sender with save-before-send, no aggregator acknowledged it, yet it is not in the disk cache after the crash; sends %v", t, int64(t)-int64(produced[0]), agg.sends))
					}
				}
			}
			if viol == "" {
				res = phase(true, func() []uint32 { return onDisk }, 0, 0, true)
			}
		}
	}
	if res.Panic != nil {
		return mc.Verdict{Violation: fmt.Sprintf("%s: panic in code under test: %v", sc.name, res.Panic), Sig: "C01:agent-panic", Detail: res.PanicStack}
	}
	if agg.wrong != "" {
		sig, viol = "C01:agent-sends-wrong-body-for-second", agg.wrong+fmt.Sprintf("; sends: %v", agg.sends)
	}
	if viol != "" {
		return mc.Verdict{Violation: sc.name + ": " + viol, Sig: sig, Detail: map[string]any{"scenario": sc.name, "sends": agg.sends}}
	}
	if res.Deadlock || res.StepCap || res.Horizon {
		return mc.Verdict{Violation: fmt.Sprintf("%s: execution did not finish (%+v)", sc.name, res), Sig: "C01:agent-stuck", Detail: map[string]any{"scenario": sc.name, "blocked": res.Blocked}}
	}
	if res.Leaked > 0 && !vsched.NoteLeak(res.Leaked) {
		panic(c01Infra(fmt.Sprintf("too many leaked goroutines (%d more in scenario %s)", res.Leaked, sc.name)))
	}
	key := sc.name + "|" + strings.Join(agg.sends, ",")
	rep.State(key)
	rep.Outcome(fmt.Sprintf("%s|faults=%d|sends=%d", sc.name, agg.faults, len(agg.sends)))
	if agg.faults > 0 || x.Deviations() > 0 {
		rep.Nontrivial(key)
	}
	if agg.faults > 0 {
		rep.Sample(map[string]any{"scenario": sc.name, "sends(kind:second->replica:answer)": agg.sends})
	}
	return mc.Verdict{}
}

type c01Infra string

func (c c01Infra) MCInfra() string { return string(c) }

func TestVerifC01Agent(t *testing.T) {
	rep := mc.NewReport("C01")
	if os.Getenv("VERIF_FREERUN") == "1" {
		rep.AddCounts(1, 1, 1, 0)
		rep.Rule = "free-running race pass not applicable to the virtual-time agent harness (real sleeps of seconds); see DESIGN.md"
		rep.Sample("skipped")
		rep.Write()
		return
	}
	scs := c01Scenarios(mc.Thorough())
	bound := mc.Pick(1, 2)
	if v := os.Getenv("VERIF_C01_AGENT_BOUND"); v != "" { // experiments only
		fmt.Sscan(v, &bound)
	}
	if v := os.Getenv("VERIF_C01_AGENT_SCENARIO"); v != "" { // experiments only
		var keep []c01Scenario
		for _, sc := range scs {
			if strings.Contains(sc.name, v) {
				keep = append(keep, sc)
			}
		}
		scs = keep
	}
	rep.Bounds["agent_deviation_bound"] = bound
	rep.Bounds["agent_scenarios"] = len(scs)
	rep.Rule = "agent half: every execution with at most B deviations (scripted aggregator answers keep / rpc error / lost response instead of discard at any send; running another thread than the default one; a due timer firing first; non-source-order select probe) of every scenario (3-4 produced seconds, disk cache on/off, save-before-send on/off, 1-2 recent and historic senders, crash+restart on the same directory), virtual time. Non-trivial = execution with at least one fault answer or schedule deviation"
	shard, shards := mc.ShardFromEnv()
	body := func(x *mc.Exec) mc.Verdict {
		si := x.ChooseFree(len(scs), "scenario")
		return c01Run(x, scs[si], rep)
	}
	st := mc.Explore(body, mc.Options{Bound: bound, Workers: 1, SplitDepth: 4, Shard: shard, Shards: shards})
	rep.MergeExplore("agent", st)
	if err := rep.Write(); err != nil {
		t.Fatal(err)
	}
	t.Logf("C01 agent: %+v", st)
}

