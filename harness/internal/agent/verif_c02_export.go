//go:build verif

package agent

// C02 export shim (non-test so that the C02 harness of internal/aggregator can produce agent buckets too):
// builds a real Agent/Shard the way the package's own tests do, writes events through the real
// Shard.ApplyCounter / ApplyValues / ApplyUnique, takes the bucket out of the super queue as FlushAllDataSingleStep
// does, and runs the real Shard.sampleBucket. Nothing here knows what a correct result is.

import (
	"fmt"
	"sync"

	"pgregory.net/rand"

	"github.com/VKCOM/statshouse/internal/data_model"
	"github.com/VKCOM/statshouse/internal/data_model/gen2/tlstatshouse"
	"github.com/VKCOM/statshouse/internal/format"
	"github.com/VKCOM/statshouse/internal/pcache"
)

const VerifC02Now = uint32(1_700_000_007)

// VerifC02SentRow is one agent-side row of the bucket.
type VerifC02SentRow struct {
	Key  data_model.Key         // key of the agent-side row
	Row  data_model.VerifC02Row // agent-side row observed before sampling
	SF   float64                // sample factor the agent assigned to the row (valid after sampling)
	Size int                    // size estimate the sampler used
}

// VerifC02Sent is what one agent-side run produced.
type VerifC02Sent struct {
	Wire       []byte // statshouse.sourceBucket3, WriteTL1Boxed
	BucketTime uint32 // time of the bucket the rows were sent in
	Rows       []VerifC02SentRow
	WireRows   int // rows on the wire (a sampled row may have been discarded)
}

var (
	verifC02CacheOnce sync.Once
	verifC02Cache     *pcache.MappingsCache
)

func verifC02MakeAgent(config Config, nowUnix uint32, shardRng *rand.Rand) *Agent {
	// The mappings cache is not touched by Shard.Apply*/sampleBucket; one instance is shared by all agents of the
	// process because its constructor allocates a 1 MB chunk buffer.
	verifC02CacheOnce.Do(func() {
		verifC02Cache = pcache.NewMappingsCache(data_model.NewChunkedStorageNop(), 1024*1024, 86400)
	})
	a := &Agent{
		config:             config,
		logF:               func(f string, a ...any) {},
		mappingsCache:      verifC02Cache,
		componentTag:       format.TagValueIDComponentAgent,
		shardByMetricCount: 1,
	}
	shard := &Shard{
		ShardNum:    0,
		ShardKey:    1,
		config:      config,
		agent:       a,
		rng:         shardRng,
		CurrentTime: nowUnix,
		SendTime:    nowUnix - 2,
	}
	for j := 0; j < superQueueLen; j++ {
		shard.SuperQueue[j] = &data_model.MetricsBucket{}
	}
	shard.cond = sync.NewCond(&shard.mu)
	shard.metricBudgetsFromAgg = data_model.NewExpDecay(config.BudgetDecayHalfLife)
	a.Shards = []*Shard{shard}
	a.initBuiltInMetrics()
	return a
}

// VerifC02Send writes the events into one row and sends the bucket.
// variant 0: default configuration, budget far above the row (sampler keeps it whole, sf 1);
// variant 1: the same events are also written to a second key of the metric (tag 1 = 9) and the aggregator-assigned
// per-metric budget is the size estimate of one of the two rows, so the real sampler samples both with sf 2
// (each kept or discarded by its own draw);
// variant 2: metric flagged NoSampleAgent (keepF is called directly) with the row's SF preset to 3.5.
// late: the events carry a timestamp older than the shard's send time, so the row is sent in a newer bucket and its
// timestamp travels explicitly.
func VerifC02Send(events []data_model.VerifC02Event, key data_model.Key, pct bool, variant int, late bool, shardRng, sampleRng *rand.Rand) (VerifC02Sent, error) {
	var res VerifC02Sent
	config := DefaultConfig()
	config.SampleKeepSingle = false
	now := VerifC02Now
	a := verifC02MakeAgent(config, now, shardRng)
	shard := a.Shards[0]
	kind := format.MetricKindValue
	if pct {
		kind = format.MetricKindValuePercentiles
	}
	meta := &format.MetricMetaValue{MetricID: key.Metric, Name: "c02_metric", Kind: kind}
	if err := meta.RestoreCachedInfo(); err != nil {
		return res, fmt.Errorf("metric meta: %v", err)
	}
	if meta.HasPercentiles != pct || meta.EffectiveResolution != 1 {
		return res, fmt.Errorf("metric meta: percentiles=%v resolution=%d", meta.HasPercentiles, meta.EffectiveResolution)
	}
	if variant == 2 {
		meta.NoSampleAgent = true
	}
	evTime, bucketTime := now, now
	if late {
		evTime, bucketTime = now-5, shard.SendTime
	}
	keys := []data_model.Key{key}
	if variant == 1 {
		k2 := key
		k2.Tags[1] = 9
		keys = append(keys, k2)
	}
	for _, base := range keys {
		for _, e := range events {
			k := base
			k.Timestamp = evTime
			k.SetTagUnion(format.StringTopTagIndexV3, data_model.VerifC02TopKey(e.Top))
			host := data_model.VerifC02Host(e.Host)
			switch e.Kind.Type {
			case 0:
				shard.ApplyCounter(&k, 0, e.Kind.Count, host, meta, 0)
			case 1:
				shard.ApplyValues(&k, 0, e.Kind.Hist, e.Kind.Values, e.Kind.Count, host, meta, 0)
			case 2:
				shard.ApplyUnique(&k, 0, e.Kind.Uniq, e.Kind.Count, host, meta, 0)
			}
		}
	}
	// take the bucket out of the queue as FlushAllDataSingleStep does
	var bucket *data_model.MetricsBucket
	for i, b := range shard.SuperQueue {
		if b.Empty() {
			continue
		}
		if bucket != nil || uint32(i) != bucketTime%superQueueLen {
			return res, fmt.Errorf("events landed in unexpected queue slot %d (expected only %d)", i, bucketTime%superQueueLen)
		}
		bucket = b
		shard.SuperQueue[i] = &data_model.MetricsBucket{}
	}
	if bucket == nil || len(bucket.MultiItems) != len(keys) {
		return res, fmt.Errorf("expected %d row(s) in the bucket", len(keys))
	}
	bucket.Time = bucketTime
	res.BucketTime = bucketTime
	var items []*data_model.MultiItem
	sumSize := 0
	for _, base := range keys { // deterministic order: by the keys written
		var item *data_model.MultiItem
		for _, it := range bucket.MultiItems {
			if it.Key.Tags == base.Tags {
				item = it
			}
		}
		if item == nil {
			return res, fmt.Errorf("row %s not found in the bucket", data_model.VerifC02KeyString(&base))
		}
		items = append(items, item)
		sz := item.Key.TLSizeEstimate(bucket.Time) + item.TLSizeEstimate()
		sumSize += sz
		res.Rows = append(res.Rows, VerifC02SentRow{Key: item.Key, Row: data_model.VerifC02SnapRow(item), Size: sz})
	}
	switch variant {
	case 1:
		if sumSize%2 != 0 {
			return res, fmt.Errorf("size estimates of the two identical rows sum to an odd number %d", sumSize)
		}
		shard.metricBudgetsFromAgg.MergeMax(func(f func(k int32, v uint32)) { f(key.Metric, uint32(sumSize/2)) })
	case 2:
		items[0].SF = 3.5
	}
	var sb tlstatshouse.SourceBucket3
	var buffers data_model.SamplerBuffers
	_, _ = shard.sampleBucket(bucket, &sb, buffers, nil, map[int32]uint32{}, map[int32]uint32{}, sampleRng)
	for i, it := range items {
		res.Rows[i].SF = it.SF
	}
	res.WireRows = len(sb.Metrics)
	res.Wire = sb.WriteTL1Boxed(nil)
	return res, nil
}

// VerifC02MakeBareAgent returns an agent that only collects built-in metrics (what the aggregator keeps as sh2).
func VerifC02MakeBareAgent(componentTag int32) *Agent {
	a := verifC02MakeAgent(DefaultConfig(), VerifC02Now, rand.New(1))
	a.componentTag = componentTag
	// as MakeAgent does; with 0 the aggregator would discard every historic bucket older than its recent window
	a.historicWindow.Store(uint32(a.config.HistoricWindow))
	return a
}
