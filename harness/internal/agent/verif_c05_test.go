//go:build verif

package agent

// C05 (second run): the agent's glue around the sampler, the real Shard.sampleBucket.
//
// Same exact branch enumeration as the data_model run, but observed where the agent observes it: in the
// SourceBucket3 it is about to send. A kept row appears exactly once with counter = count x SF, a discarded
// row does not appear; rows of a NoSampleAgent metric bypass the sampler and must always appear with
// factor 1. Namespaces/groups/fair keys are off here so that no budget is rounded (all draws of the run are
// selection draws; the rounding path is covered by the data_model run).

import (
	"fmt"
	"math"
	"runtime"
	"strings"
	"sync"
	"sync/atomic"
	"testing"
	"time"

	"pgregory.net/rand"

	"github.com/VKCOM/statshouse/internal/data_model"
	"github.com/VKCOM/statshouse/internal/data_model/gen2/tlstatshouse"
	"github.com/VKCOM/statshouse/internal/format"
	"github.com/VKCOM/statshouse/internal/pcache"
	"github.com/VKCOM/statshouse/internal/verif/mc"
)

type c05aCase struct {
	nA, nB, nC     int  // rows of metric A (ordinary), B (NoSampleAgent), C (ordinary)
	budgetUnits    int  // shard sample budget in units of one row size
	keepSingle     bool // config.SampleKeepSingle
	disableNoSampl bool // config.DisableNoSampleAgent
	sampleBudgets  bool // config.SampleBudgets
	aggBudgetUnits int  // per-metric budget for A received from the aggregator, in row sizes (0 = none)
	whaleA         bool // first row of A has a dominating count
	count          float64
}

func (c c05aCase) String() string {
	return fmt.Sprintf("rows A=%d B(NoSampleAgent)=%d C=%d budget=%d row sizes, SampleKeepSingle=%v DisableNoSampleAgent=%v SampleBudgets=%v budgetFromAggregator(A)=%d row sizes whaleA=%v",
		c.nA, c.nB, c.nC, c.budgetUnits, c.keepSingle, c.disableNoSampl, c.sampleBudgets, c.aggBudgetUnits, c.whaleA)
}

var c05aMetaA = &format.MetricMetaValue{MetricID: 1001, NamespaceID: 1, GroupID: 11, EffectiveWeight: 1, EffectiveResolution: 1}
var c05aMetaB = &format.MetricMetaValue{MetricID: 1002, NamespaceID: 1, GroupID: 11, EffectiveWeight: 1, EffectiveResolution: 1, NoSampleAgent: true}
var c05aMetaC = &format.MetricMetaValue{MetricID: 1003, NamespaceID: 2, GroupID: 21, EffectiveWeight: 1, EffectiveResolution: 1}

type c05aRow struct {
	meta  *format.MetricMetaValue
	count float64
}

func c05aRows(c c05aCase) []c05aRow {
	var rows []c05aRow
	for i := 0; i < c.nA; i++ {
		cnt := 3.0
		if c.whaleA && i == 0 {
			cnt = 90
		}
		rows = append(rows, c05aRow{c05aMetaA, cnt})
	}
	for i := 0; i < c.nB; i++ {
		rows = append(rows, c05aRow{c05aMetaB, 3})
	}
	for i := 0; i < c.nC; i++ {
		rows = append(rows, c05aRow{c05aMetaC, 3})
	}
	return rows
}

func c05aItem(now uint32, row c05aRow, idx int) *data_model.MultiItem {
	it := &data_model.MultiItem{Key: data_model.Key{Timestamp: now, Metric: row.meta.MetricID}, SF: 1, MetricMeta: row.meta}
	it.Key.Tags[1] = int32(idx + 1)
	it.Tail.Value.AddCounter(row.count)
	return it
}

type c05aObs struct {
	seen    []int     // times the row appears in sb.Metrics
	factor  []float64 // counter / true count
	unknown int
}

// c05aRun performs one execution of the real sampleBucket.
func c05aRun(shard *Shard, now uint32, c c05aCase, rowSize int, hook rand.VerifHook) c05aObs {
	config := shard.config
	config.SampleNamespaces, config.SampleGroups, config.SampleKeys = false, false, false
	config.SampleKeepSingle = c.keepSingle
	config.DisableNoSampleAgent = c.disableNoSampl
	config.SampleBudgets = c.sampleBudgets
	config.MinSampleBudget = 0
	config.ShardSampleBudget = map[int]int{int(shard.ShardKey): c.budgetUnits * rowSize}
	shard.mu.Lock()
	shard.config = config
	shard.mu.Unlock()
	shard.metricBudgetsFromAgg = data_model.NewExpDecay(time.Hour)
	if c.aggBudgetUnits > 0 {
		shard.metricBudgetsFromAgg.MergeMax(func(f func(k int32, v uint32)) { f(c05aMetaA.MetricID, uint32(c.aggBudgetUnits*rowSize)) })
	}
	rows := c05aRows(c)
	bucket := &data_model.MetricsBucket{Time: now, MultiItemMap: data_model.MultiItemMap{MultiItems: map[string]*data_model.MultiItem{}}}
	for i, r := range rows {
		bucket.MultiItems[fmt.Sprintf("k%02d", i)] = c05aItem(now, r, i)
	}
	rng := rand.New(1)
	rng.Hook = hook
	var sb tlstatshouse.SourceBucket3
	shard.sampleBucket(bucket, &sb, data_model.SamplerBuffers{}, nil, map[int32]uint32{}, map[int32]uint32{}, rng)
	obs := c05aObs{seen: make([]int, len(rows)), factor: make([]float64, len(rows))}
	for _, m := range sb.Metrics {
		if len(m.Keys) < 2 || m.Keys[1] < 1 || int(m.Keys[1]) > len(rows) || rows[m.Keys[1]-1].meta.MetricID != m.Metric {
			obs.unknown++
			continue
		}
		i := int(m.Keys[1] - 1)
		obs.seen[i]++
		cnt := 0.0
		switch {
		case m.Tail.IsSetCounterEq1(m.FieldsMask):
			cnt = 1
		case m.Tail.IsSetCounter(m.FieldsMask):
			cnt = m.Tail.Counter
		}
		obs.factor[i] = cnt / rows[i].count
	}
	return obs
}

// c05aNewAgent builds an in-memory agent the way the package's own benchmarks do (no network, no disk).
func c05aNewAgent(config Config, nowUnix uint32) *Agent {
	agent := &Agent{
		config:        config,
		logF:          func(f string, a ...any) { fmt.Printf(f, a...) },
		mappingsCache: pcache.NewMappingsCache(data_model.NewChunkedStorageNop(), 1024*1024, 86400),
	}
	agent.Shards = make([]*Shard, 5)
	for i := range agent.Shards {
		shard := &Shard{ShardNum: i, config: config, agent: agent, CurrentTime: nowUnix, SendTime: nowUnix - 2}
		for j := 0; j < superQueueLen; j++ {
			shard.SuperQueue[j] = &data_model.MetricsBucket{}
		}
		shard.cond = sync.NewCond(&shard.mu)
		agent.Shards[i] = shard
	}
	agent.shardByMetricCount = uint32(len(agent.Shards))
	agent.initBuiltInMetrics()
	return agent
}

func TestVerifC05Agent(t *testing.T) {
	rep := mc.NewReport("C05")
	rep.Rule = "agent run: buckets of 0-4 rows of an ordinary metric, 0-2 rows of a NoSampleAgent metric, 0-2 rows of a second ordinary metric, optional whale row; shard budgets in multiples of the row size (see bounds); all 8 combinations of SampleKeepSingle / DisableNoSampleAgent / SampleBudgets, without and with a per-metric budget received from the aggregator; every grid point of every selection draw, through the real Shard.sampleBucket. Non-trivial = some row is sent with probability strictly between 0 and 1"
	now := uint32(1_700_000_000)
	probe := c05aItem(now, c05aRow{c05aMetaA, 3}, 0)
	rowSize := probe.Key.TLSizeEstimate(now) + probe.TLSizeEstimate()
	whaleProbe := c05aItem(now, c05aRow{c05aMetaA, 90}, 0)
	if ws := whaleProbe.Key.TLSizeEstimate(now) + whaleProbe.TLSizeEstimate(); ws != rowSize {
		t.Fatalf("harness assumption broken: whale row size %d != row size %d", ws, rowSize)
	}
	maxA := mc.Pick(3, 4)
	maxB := mc.Pick(1, 2)
	maxC := mc.Pick(1, 2)
	budgetsU := mc.Pick([]int{1, 2, 4, 100}, []int{1, 2, 3, 4, 100})
	maxExec := int64(mc.Pick(60000, 400000))
	rep.Bounds["agent_max_rows_A_B_C"] = fmt.Sprintf("%d/%d/%d", maxA, maxB, maxC)
	rep.Bounds["agent_budgets_in_row_sizes"] = fmt.Sprint(budgetsU)
	rep.Bounds["agent_row_size_bytes"] = rowSize
	rep.Bounds["agent_max_executions_per_case"] = maxExec
	rep.Assume("agent run: SampleNamespaces/SampleGroups/SampleKeys are off so that no budget is rounded (rounding draws cannot be told from selection draws at this seam); the data_model run covers roundings")

	total := mc.Stats{Exhaustive: true, BoundDone: -1}
	var nCases, nNontrivial, skipped int64
	outcomes := map[string]struct{}{}
	skipReasons := map[string]struct{}{}
	var cases []c05aCase
	for nA := 0; nA <= maxA; nA++ {
		for nB := 0; nB <= maxB; nB++ {
			for nC := 0; nC <= maxC; nC++ {
				if nA+nB+nC == 0 {
					continue
				}
				for _, bu := range budgetsU {
					for fl := 0; fl < 8; fl++ {
						for _, agg := range []int{0, 1} {
							for _, whale := range []bool{false, true} {
								if whale && nA < 2 {
									continue
								}
								if nA >= 4 && (nC > 1 || nB > 1 || bu == 3) {
									continue // 6 selection draws: tree too large for the grids the budgets produce
								}
								if agg > 0 && (nA == 0 || bu <= agg) {
									// nothing left for the ordinary metrics: the sampler clamps a zero budget to one byte and
									// the factors become the byte sizes (grid of hundreds of points); not enumerated
									continue
								}
								cases = append(cases, c05aCase{nA: nA, nB: nB, nC: nC, budgetUnits: bu, keepSingle: fl&1 != 0, disableNoSampl: fl&2 != 0, sampleBudgets: fl&4 != 0, aggBudgetUnits: agg, whaleA: whale})
							}
						}
					}
				}
			}
		}
	}
	var mu sync.Mutex
	process := func(shard *Shard, c c05aCase) {
		if mc.Expired() {
			rep.Cap("wall_budget")
			return
		}
		rows := c05aRows(c)
		mu.Lock()
		nCases++
		mu.Unlock()
		// pass 1: every selection draw answers 0 (keep), which shows every row's factor
		first := c05aRun(shard, now, c, rowSize, mc.FixedRand{F: 0})
		mu.Lock()
		total.Executions++
		mu.Unlock()
		grid := 0
		for n := 1; n <= 48 && grid == 0; n++ {
			ok := true
			for i := range rows {
				if f := first.factor[i]; first.seen[i] == 1 && f > 1 {
					if m := float64(n) / f; m < 0.5 || math.Abs(m-math.Round(m)) > 1e-9 {
						ok = false
					}
				}
			}
			if ok {
				grid = n
			}
		}
		if grid == 0 {
			mu.Lock()
			skipped++
			skipReasons["grid>48: "+c.String()] = struct{}{}
			mu.Unlock()
			return
		}
		seen := map[string]c05aObs{}
		body := func(x *mc.Exec) mc.Verdict {
			obs := c05aRun(shard, now, c, rowSize, &mc.ChoiceRand{X: x, Grid: grid, Free: true})
			seen[fmt.Sprint(x.Choices)] = obs
			for i, n := range obs.seen {
				if n > 1 {
					return mc.Verdict{Violation: fmt.Sprintf("row %d appears %d times in the bucket to send | case: %s", i, n, c), Sig: "C05:agent-row-sent-more-than-once"}
				}
			}
			if obs.unknown > 0 {
				return mc.Verdict{Violation: fmt.Sprintf("%d items in the bucket to send match no input row | case: %s", obs.unknown, c), Sig: "C05:agent-unknown-item-sent"}
			}
			return mc.Verdict{}
		}
		st := mc.Explore(body, mc.Options{Bound: -1, Workers: 1, MaxExecutions: maxExec})
		mu.Lock()
		defer mu.Unlock()
		total.Executions += st.Executions
		total.Points += st.Points
		total.Units += st.Units
		if st.MaxDepth > total.MaxDepth {
			total.MaxDepth = st.MaxDepth
		}
		total.InfraErrors = append(total.InfraErrors, st.InfraErrors...)
		for _, v := range st.Violations {
			rep.Violate(v.Sig, v.Desc, v.Detail)
		}
		if !st.Exhaustive {
			skipped++
			skipReasons[fmt.Sprintf("tree (grid %d): ", grid)+c.String()] = struct{}{}
			return
		}
		T := len(seen)
		var ob strings.Builder
		sampled := false
		viol := func(sig, format string, a ...any) {
			rep.Violate("C05:agent-"+sig, fmt.Sprintf(format, a...)+" | case: "+c.String(), nil)
		}
		// Rows reach the sampler in the iteration order of the bucket's Go map, which differs from
		// execution to execution, so "which row got which draw" is not a stable notion here. What is
		// invariant under any such permutation is the per-metric total: over all T equally likely
		// executions, the sum of factors of the rows sent must be rows x T (every row has expectation 1;
		// per-row exactness incl. whales is decided by the data_model run).
		for _, meta := range []*format.MetricMetaValue{c05aMetaA, c05aMetaB, c05aMetaC} {
			n := 0
			sum := 0.0
			sent := 0
			for i, r := range rows {
				if r.meta != meta {
					continue
				}
				n++
				for _, o := range seen {
					if o.seen[i] >= 1 {
						sent++
						sum += o.factor[i]
						if meta.NoSampleAgent && math.Abs(o.factor[i]-1) > 1e-12 {
							viol("no-sample-agent-row-factor-not-1", "row %d of the NoSampleAgent metric sent with factor %v", i, o.factor[i])
						}
						if f := o.factor[i]; f > 1 && math.Abs(float64(grid)/f-math.Round(float64(grid)/f)) > 1e-9 {
							viol("harness-grid-not-aligned", "row %d: factor %v not aligned with grid %d", i, f, grid)
						}
					} else if meta.NoSampleAgent {
						viol("no-sample-agent-row-not-sent", "row %d of the NoSampleAgent metric is missing from the bucket to send", i)
					}
				}
			}
			if n == 0 {
				continue
			}
			fmt.Fprintf(&ob, "m%d:%d/%d~%.6g,", meta.MetricID, sent, n*T, sum)
			if sent < n*T {
				sampled = true
			}
			if math.Abs(sum-float64(n*T)) > 1e-9*float64(n*T) {
				viol("expected-total-factor-not-rows", "metric %d: %d rows, %d equally likely executions: rows were sent %d times with factors summing to %.6g, want %d (expected factor per row %.6g instead of 1)", meta.MetricID, n, T, sent, sum, n*T, sum/float64(n*T))
			}
		}
		if sampled {
			nNontrivial++
			if nNontrivial%211 == 1 {
				rep.Sample(map[string]any{"agent_case": c.String(), "grid": grid, "executions": T, "per_row_sent/total@factor": ob.String()})
			}
		}
		outcomes[ob.String()] = struct{}{}
	}
	workers := runtime.GOMAXPROCS(0)
	var wg sync.WaitGroup
	var next int64 = -1
	for w := 0; w < workers; w++ {
		wg.Add(1)
		go func() {
			defer wg.Done()
			ag := c05aNewAgent(DefaultConfig(), now)
			ag.componentTag = format.TagValueIDComponentAgent
			for {
				i := int(atomic.AddInt64(&next, 1))
				if i >= len(cases) {
					return
				}
				process(ag.Shards[0], cases[i])
			}
		}()
	}
	wg.Wait()
	for k := range outcomes {
		rep.Outcome("agent:" + k)
	}
	rep.MergeExplore("agent-sampleBucket-draws", total)
	rep.AddCounts(0, 0, nCases, nNontrivial)
	rep.Bounds["agent_cases"] = nCases
	rep.Bounds["agent_cases_skipped"] = skipped
	if skipped > 0 {
		rep.Cap(fmt.Sprintf("agent run: %d cases not decided (grid > 48 or tree > %d executions)", skipped, maxExec))
	}
	if err := rep.Write(); err != nil {
		t.Fatal(err)
	}
	for k := range skipReasons {
		t.Log("skipped:", k)
	}
	t.Logf("C05 agent run: %d cases, %d executions, %d non-trivial, %d outcomes, %d skipped, violations=%d", nCases, total.Executions, nNontrivial, len(outcomes), skipped, rep.NumViolations())
}
