//go:build verif

package agent

// Export shim for the /verif harness of C06 (other packages cannot build an Agent with unexported
// fields). Mirrors the construction the package's own benchmarks use; no network, no disk.

import (
	"fmt"
	"sync"

	"github.com/VKCOM/statshouse/internal/data_model"
	"github.com/VKCOM/statshouse/internal/pcache"
)

// VerifC06NewAgent builds an in-memory agent (5 shards) good enough for MergeItemValue/AddValueCounter
// statistics calls (the aggregator's sh2).
func VerifC06NewAgent(config Config, nowUnix uint32) *Agent {
	agent := &Agent{
		config:        config,
		logF:          func(f string, a ...any) { fmt.Printf(f, a...) },
		mappingsCache: pcache.NewMappingsCache(data_model.NewChunkedStorageNop(), 1024*1024, 86400),
	}
	agent.Shards = make([]*Shard, 5)
	for i := range agent.Shards {
		shard := &Shard{
			ShardNum:    i,
			config:      config,
			agent:       agent,
			CurrentTime: nowUnix,
			SendTime:    nowUnix - 2,
		}
		for j := 0; j < superQueueLen; j++ {
			shard.SuperQueue[j] = &data_model.MetricsBucket{}
		}
		shard.cond = sync.NewCond(&shard.mu)
		agent.Shards[i] = shard
	}
	agent.shardByMetricCount = uint32(len(agent.Shards))
	agent.initBuiltInMetrics()
	return agent
}
