//go:build verif

package agent

// C08: "Agent places every accepted event in exactly one correct send second".
//
// State-hashing BFS (mc.BFS) over histories of
//   {event burst(ts offset, resolution), flush iteration with a clock step (incl. pause and jump back),
//    drain BucketsToPreprocess, stop receiving}
// on real Agent/Shard objects built like the package's own tests (Test_AgentQueue): no network, time is
// injected through goFlushIteration(now) and explicit event timestamps, never the wall clock.
//
// Every history runs on several real agents that differ only in mapping-cache contents (all tag values
// cached / none cached / partly cached) and every event is sent with canonical and with permuted tag
// order, through the real Agent.Map (mapAllTags + ValidateMetricData) and Agent.ApplyMetric path.
//
// Reference placement model (c08Ev): for every applied event and every shard it is routed to the harness
// records whether a drop would be legitimate (gap in the receive queue, shutdown requested, secondary
// shard before its start time), the row timestamp, and - when the row is not late - the send second of the
// same series on a *reference agent* (fresh agent, everything cached, canonical tag order, clock at the
// event's timestamp). Buckets that reach BucketsToPreprocess are compared with that model.

import (
	"crypto/md5"
	"fmt"
	"runtime/debug"
	"sort"
	"strings"
	"sync"
	"testing"
	"time"

	"pgregory.net/rand"

	"github.com/VKCOM/statshouse/internal/data_model"
	"github.com/VKCOM/statshouse/internal/data_model/gen2/tl"
	"github.com/VKCOM/statshouse/internal/data_model/gen2/tlstatshouse"
	"github.com/VKCOM/statshouse/internal/format"
	"github.com/VKCOM/statshouse/internal/pcache"
	"github.com/VKCOM/statshouse/internal/verif/mc"
)

// event kinds (see c08Send); an event's bit in the row count is (burst*2+order)*c08Kinds+kind
const (
	c08KindCounter = iota
	c08KindValue
	c08KindUnique
	c08KindHistogram
	c08Kinds
)

var c08KindNames = [c08Kinds]string{"counter", "value", "unique", "histogram"}

func c08BitOrder(bit int) int { return (bit / c08Kinds) & 1 }
func c08BitKind(bit int) int  { return bit % c08Kinds }

const (
	// 1000 days: multiple of 1920 = lcm(128, 60), so that offsets -3,-1 | 0,+1 straddle a boundary of every
	// resolution and of the ring.
	c08Base       = uint32(1000 * 24 * 3600)
	c08HalfSecond = 500 * time.Millisecond
)

// ---------------------------------------------------------------------------------------------------------
// world: metrics, series, mapping ids (immutable, shared by all executions)

type c08Metric struct {
	meta   *format.MetricMetaValue
	res    uint32
	twin   bool        // also written to a secondary shard (index 1) from c08TwinStart on
	series [][2]string // original tag values of tags "1" and "2"
}

type c08World struct {
	metrics  []*c08Metric
	byID     map[int32]int
	strToID  map[string]int32
	idToStr  map[int32]string
	profiles []int // mapping-cache profiles of the agents every history runs on
	start    uint32 // initial CurrentTime of the agents and initial harness clock
	resList  []uint32
	offsets  []int
	witness  sync.Map // c08WitnessKey -> uint32
}

type c08WitnessKey struct {
	metric, series int
	rowTs          uint32
}

func c08NewMeta(id int32, name string, res int, twin bool, twinStart uint32) *format.MetricMetaValue {
	m := &format.MetricMetaValue{MetricID: id, Name: name, Resolution: res, ShardFixedKey: 1,
		Tags: []format.MetricMetaTag{{}, {}, {}}}
	if twin {
		m.ShardFixedKey2 = 2
		m.ShardFixedKey2Timestamp = twinStart // 2 s after the start of the history
	}
	if err := m.RestoreCachedInfo(); err != nil {
		panic(err)
	}
	return m
}

// c08BuildWorld chooses, for every low-resolution metric, series whose spread offset inside the resolution
// window is the largest (res-1), the smallest (0) and - for the wide world - whatever the first candidates give.
// The choice is made by running the real code (uncached throw-away agent), so it adapts to the tree under test.
func c08BuildWorld(start uint32, resList []uint32, offsets []int, profiles []int, extraSeries int) *c08World {
	w := &c08World{byID: map[int32]int{}, strToID: map[string]int32{}, idToStr: map[int32]string{},
		profiles: profiles, resList: resList, offsets: offsets, start: start}
	nextID := int32(1000)
	addStr := func(s string) {
		if _, ok := w.strToID[s]; !ok {
			w.strToID[s] = nextID
			w.idToStr[nextID] = s
			nextID++
		}
	}
	addStr("t2v")
	for _, res := range resList {
		for twin := 0; twin < 2; twin++ {
			id := int32(100+res)*2 + int32(twin)
			md := &c08Metric{res: res, twin: twin == 1}
			md.meta = c08NewMeta(id, fmt.Sprintf("c08_r%d_t%d", res, twin), int(res), twin == 1, start+2)
			if res == 1 {
				md.series = [][2]string{{"s1", "t2v"}}
				for i := 0; i < extraSeries; i++ {
					md.series = append(md.series, [2]string{fmt.Sprintf("x%d", i), "t2v"})
				}
			} else {
				var hi, lo string
				var rest []string
				for c := 0; c < 4000 && (hi == "" || lo == ""); c++ {
					v := fmt.Sprintf("s%d", c)
					sec := c08ReferenceSecond(w, md.meta, v, "t2v", c08Base)
					off := int64(sec) - int64(c08Base) - int64(res)
					switch {
					case off == int64(res)-1 && hi == "":
						hi = v
					case off == 0 && lo == "":
						lo = v
					case len(rest) < extraSeries:
						rest = append(rest, v)
					}
				}
				if hi == "" {
					hi = "s4001"
				}
				if lo == "" {
					lo = "s4002"
				}
				md.series = [][2]string{{hi, "t2v"}, {lo, "t2v"}}
				for _, v := range rest {
					md.series = append(md.series, [2]string{v, "t2v"})
				}
			}
			for _, s := range md.series {
				addStr(s[0])
			}
			w.byID[id] = len(w.metrics)
			w.metrics = append(w.metrics, md)
		}
	}
	return w
}

// ---------------------------------------------------------------------------------------------------------
// real agents

var c08Storage = data_model.NewChunkedStorageNop()

func c08NewAgent(w *c08World, profile int, currentTime uint32) *Agent {
	config := Config{}
	// the storage is only touched by Save/load, which nothing here calls: one shared no-op storage (its
	// constructor allocates a 1 MB scratch buffer), a fresh cache per agent
	cache := pcache.NewMappingsCache(c08Storage, 1024*1024, 86400)
	var pairs []pcache.MappingPair
	switch profile {
	case 0: // everything cached
		for s, id := range w.strToID {
			pairs = append(pairs, pcache.MappingPair{Str: s, Value: id})
		}
	case 1: // nothing cached
	case 2: // only the value of tag "2" cached
		pairs = append(pairs, pcache.MappingPair{Str: "t2v", Value: w.strToID["t2v"]})
	}
	sort.Slice(pairs, func(i, j int) bool { return pairs[i].Str < pairs[j].Str })
	if len(pairs) != 0 {
		cache.AddValues(currentTime+1000000, pairs) // access time far ahead: lookups never rewrite the entry
	}
	a := &Agent{
		config:                                   config,
		logF:                                     func(f string, a ...any) {},
		mappingsCache:                            cache,
		shardByMetricCount:                       2,
		componentTag:                             format.TagValueIDComponentAgent,
		beforeFlushTime:                          currentTime,
		startTimestamp:                           currentTime,
		builtinMetricMetaUsageCPU:                *format.BuiltinMetricMetaUsageCPU,
		builtinMetricMetaUsageMemory:             *format.BuiltinMetricMetaUsageMemory,
		builtinMetricMetaHeartbeatVersion:        *format.BuiltinMetricMetaHeartbeatVersion,
		builtinMetricMetaHeartbeatVersionAgent:   *format.BuiltinMetricMetaHeartbeatVersionAgent,
		builtinMetricMetaHeartbeatVersionIngress: *format.BuiltinMetricMetaHeartbeatVersionIngress,
	}
	for i := 0; i < 2; i++ {
		sh := &Shard{
			config:              config,
			agent:               a,
			ShardNum:            i,
			ShardKey:            int32(i) + 1,
			rng:                 rand.New(1),
			CurrentTime:         currentTime,
			SendTime:            currentTime - 2, // as MakeAgent: accept previous seconds at the start
			BucketsToPreprocess: make(chan *data_model.MetricsBucket, 1),
		}
		for j := 0; j < superQueueLen; j++ {
			sh.SuperQueue[j] = &data_model.MetricsBucket{}
		}
		sh.cond = sync.NewCond(&sh.mu)
		a.Shards = append(a.Shards, sh)
	}
	a.initBuiltInMetrics()
	return a
}

// c08Send pushes one event through the real receive path (what cmd/statshouse worker.HandleMetrics does
// after it resolved the metric: fill time and meta, Agent.Map, Agent.ApplyMetric).
//
// kind: what the event carries besides its weight (ApplyMetric has one branch per kind, each with its own
// primary-shard and secondary-shard call): c08KindCounter = counter only, c08KindValue = one value,
// c08KindUnique = one unique, c08KindHistogram = one histogram entry; the weight is the event's counter in every
// kind, so the row's count is the sum of the weights of the events it contains whatever their kinds are.
func c08Send(a *Agent, md *c08Metric, series [2]string, permuted bool, kind int, ts uint32, weight float64, receive time.Time, scratch *[]byte) {
	tags := []tl.DictFieldStringStringBytes{
		{Key: []byte("1"), Value: []byte(series[0])},
		{Key: []byte("2"), Value: []byte(series[1])},
	}
	if permuted {
		tags[0], tags[1] = tags[1], tags[0]
	}
	m := tlstatshouse.MetricBytes{Name: []byte(md.meta.Name), Tags: tags, Counter: weight, Ts: ts}
	switch kind {
	case c08KindValue:
		m.Value = []float64{1.5}
	case c08KindUnique:
		m.Unique = []int64{77}
	case c08KindHistogram:
		m.Histogram = [][2]float64{{2.5, 1}}
	}
	var h data_model.MappedMetricHeader
	h.ReceiveTime = receive
	h.Key.Timestamp = ts
	h.MetricMeta = md.meta
	h.Key.Metric = md.meta.MetricID
	a.Map(data_model.HandlerArgs{MetricBytes: &m, Scratch: scratch}, &h, nil)
	a.ApplyMetric(&m, &h, scratch)
}

// c08ReferenceSecond: send second of the series on the reference agent (everything the world knows is
// cached, canonical tag order, agent clock exactly at the row timestamp, conveyor in its steady state).
func c08ReferenceSecond(w *c08World, meta *format.MetricMetaValue, v1, v2 string, ts uint32) uint32 {
	a := c08NewAgent(w, 0, ts)
	md := &c08Metric{meta: meta}
	var scratch []byte
	c08Send(a, md, [2]string{v1, v2}, false, c08KindCounter, ts, 1, time.Unix(int64(ts), 0), &scratch)
	sh := a.Shards[0]
	for i := 0; i < superQueueLen; i++ {
		sh.FlushAllDataSingleStep(false)
		select {
		case b := <-sh.BucketsToPreprocess:
			for _, it := range b.MultiItems {
				if it.Key.Metric == meta.MetricID {
					return b.Time
				}
			}
		default:
		}
	}
	return 0
}

func (w *c08World) referenceSecond(metric, series int, rowTs uint32) uint32 {
	k := c08WitnessKey{metric, series, rowTs}
	if v, ok := w.witness.Load(k); ok {
		return v.(uint32)
	}
	md := w.metrics[metric]
	v := c08ReferenceSecond(w, md.meta, md.series[series][0], md.series[series][1], rowTs)
	w.witness.Store(k, v)
	return v
}

// ---------------------------------------------------------------------------------------------------------
// one execution

type c08EvKey struct {
	shard, metric, series, bit int
}

type c08Ev struct {
	rowTs     uint32
	sref      uint32
	mustMatch bool // not late at acceptance and no pause since: must be sent in second sref
	dropped   bool
	delivered int
	placed    bool // found in exactly one ring slot right after ApplyMetric
	slot      int
}

type c08AgentRun struct {
	a       *Agent
	profile int
	ev      map[c08EvKey]*c08Ev
	checked [2]*data_model.MetricsBucket
}

type c08Viol struct{ sig, desc string }

type c08Run struct {
	w        *c08World
	agents   []*c08AgentRun
	nowHalf  int // harness clock, half seconds relative to w.start
	stopped  bool
	nEvents  int
	viols    []c08Viol
	edge     bool // something other than the happy path happened (late, clamped, dropped, pause, gap)
	outcomes map[string]struct{}
	scratch  []byte
}

func (r *c08Run) now() time.Time {
	return time.Unix(int64(r.w.start), 0).Add(time.Duration(r.nowHalf) * c08HalfSecond)
}

func (r *c08Run) violate(sig, format string, args ...any) {
	r.viols = append(r.viols, c08Viol{"C08:" + sig, fmt.Sprintf(format, args...)})
}

func c08NewRun(w *c08World) *c08Run {
	r := &c08Run{w: w, outcomes: map[string]struct{}{}}
	for _, p := range w.profiles {
		r.agents = append(r.agents, &c08AgentRun{a: c08NewAgent(w, p, w.start), profile: p, ev: map[c08EvKey]*c08Ev{}})
	}
	return r
}

type c08Item struct {
	shard, slot    int
	metric, series int
	rowTs          uint32
	bits           uint64
	ok             bool
	why            string
}

// c08Classify maps a row of one of the harness metrics back to (metric, series, set of event bits).
func (r *c08Run) classify(it *data_model.MultiItem) (res c08Item, mine bool) {
	mi, ok := r.w.byID[it.Key.Metric]
	if !ok {
		return res, false
	}
	res.metric = mi
	res.rowTs = it.Key.Timestamp
	str := func(i int) string {
		if it.Key.Tags[i] != 0 {
			if it.Key.STags[i] != "" {
				return "\x00both"
			}
			s, ok := r.w.idToStr[it.Key.Tags[i]]
			if !ok {
				return "\x00unknown-id"
			}
			return s
		}
		return it.Key.STags[i]
	}
	v1, v2 := str(1), str(2)
	res.series = -1
	for si, s := range r.w.metrics[mi].series {
		if s[0] == v1 && s[1] == v2 {
			res.series = si
		}
	}
	if res.series < 0 {
		res.why = fmt.Sprintf("tags (%q,%q) are not a series that was sent", v1, v2)
		return res, true
	}
	for i := range it.Key.Tags {
		if i != 1 && i != 2 && (it.Key.Tags[i] != 0 || it.Key.STags[i] != "") {
			res.why = fmt.Sprintf("unexpected tag %d set", i)
			return res, true
		}
	}
	if len(it.Top) != 0 {
		res.why = "unexpected string top"
		return res, true
	}
	c := it.Tail.Value.Count()
	if c < 1 || c >= 1<<40 || c != float64(uint64(c)) {
		res.why = fmt.Sprintf("count %v is not a sum of event weights", c)
		return res, true
	}
	res.bits = uint64(c)
	res.ok = true
	return res, true
}

func (r *c08Run) scan(g *c08AgentRun) (items []c08Item, nonEmpty [2][]int) {
	for si, sh := range g.a.Shards {
		for j := 0; j < superQueueLen; j++ {
			b := sh.SuperQueue[j]
			if len(b.MultiItems) == 0 {
				continue
			}
			nonEmpty[si] = append(nonEmpty[si], j)
			for _, it := range b.MultiItems {
				ci, mine := r.classify(it)
				if !mine {
					continue
				}
				ci.shard, ci.slot = si, j
				items = append(items, ci)
			}
		}
	}
	sort.Slice(items, func(i, j int) bool {
		a, b := items[i], items[j]
		if a.shard != b.shard {
			return a.shard < b.shard
		}
		if a.slot != b.slot {
			return a.slot < b.slot
		}
		if a.metric != b.metric {
			return a.metric < b.metric
		}
		if a.series != b.series {
			return a.series < b.series
		}
		if a.rowTs != b.rowTs {
			return a.rowTs < b.rowTs
		}
		return a.bits < b.bits
	})
	return
}

// c08HasGap: the receive queue "has a gap" when the span every admissible row may need no longer fits the
// ring: rows may lie up to 3 s in the future of CurrentTime and are spread over up to 2*60-1 further seconds,
// and the ring holds SendTime..SendTime+127.
func c08HasGap(currentTime, sendTime uint32) bool {
	return int64(currentTime)+3+119 > int64(sendTime)+127
}

// event burst: every metric of the resolution (plain and the one with a secondary shard), every series,
// canonical and permuted tag order, on every agent.
func (r *c08Run) opEvent(k int, offset int, res uint32) {
	r.nEvents++
	nowUnix := uint32(r.now().Unix())
	ts := uint32(int64(nowUnix) + int64(offset))
	for _, g := range r.agents {
		type pre struct{ ct, st uint32 }
		var p [2]pre
		for i, sh := range g.a.Shards {
			p[i] = pre{sh.CurrentTime, sh.SendTime}
		}
		var sent []c08EvKey // (shard filled later), one per event
		for mi, md := range r.w.metrics {
			if md.res != res {
				continue
			}
			for si, s := range md.series {
				for order := 0; order < 2; order++ {
					for kind := 0; kind < c08Kinds; kind++ {
						bit := (k*2+order)*c08Kinds + kind
						c08Send(g.a, md, s, order == 1, kind, ts, float64(uint64(1)<<uint(bit)), r.now(), &r.scratch)
						sent = append(sent, c08EvKey{0, mi, si, bit})
					}
				}
			}
		}
		items, _ := r.scan(g)
		loc := map[c08EvKey][]c08Item{}
		for _, it := range items {
			if !it.ok {
				r.violate("phantom-row", "agent(profile %d) shard %d slot %d holds a row of metric %s that no sent event explains: %s",
					g.profile, it.shard, it.slot, r.w.metrics[it.metric].meta.Name, it.why)
				continue
			}
			for b := 0; b < 40; b++ {
				if it.bits&(1<<uint(b)) != 0 {
					key := c08EvKey{it.shard, it.metric, it.series, b}
					loc[key] = append(loc[key], it)
				}
			}
		}
		for _, e := range sent {
			md := r.w.metrics[e.metric]
			for shard := 0; shard < 2; shard++ {
				if shard == 1 && !md.twin {
					continue
				}
				key := c08EvKey{shard, e.metric, e.series, e.bit}
				places := loc[key]
				ct, st := p[shard].ct, p[shard].st
				name := func() string {
					return fmt.Sprintf("%s event(metric %s series %v %s order, ts=base%+d) on agent(profile %d) shard %d [CurrentTime=base%+d SendTime=base%+d]",
						c08KindNames[c08BitKind(e.bit)], md.meta.Name, md.series[e.series], [2]string{"canonical", "permuted"}[c08BitOrder(e.bit)], int64(ts)-int64(c08Base), g.profile, shard,
						int64(ct)-int64(c08Base), int64(st)-int64(c08Base))
				}
				ev := &c08Ev{}
				g.ev[key] = ev
				if len(places) == 0 {
					ev.dropped = true
					r.edge = true
					// legitimate reasons, by the reference
					gap := c08HasGap(ct, st)
					// smallest row timestamp any clamping rule could give this event
					low := ts
					if low > ct {
						low = ct
					}
					low = low / md.res * md.res
					beforeStart := shard == 1 && low < md.meta.ShardFixedKey2Timestamp
					switch {
					case r.stopped:
						r.outcomes["drop:shutdown"] = struct{}{}
					case gap:
						r.outcomes["drop:gap"] = struct{}{}
					case beforeStart:
						r.outcomes["drop:secondary-before-start"] = struct{}{}
					default:
						sig := "dropped-without-reason"
						if kd := c08BitKind(e.bit); kd != c08KindCounter {
							sig += ":" + c08KindNames[kd] + "-event"
						}
						r.violate(sig, "%s was dropped although the receive queue has no gap, no shutdown was requested and it is not a secondary shard before its start time", name())
					}
					continue
				}
				if len(places) > 1 {
					r.violate("placed-twice", "%s sits in %d places (slots %d and %d)", name(), len(places), places[0].slot, places[1].slot)
					continue
				}
				pl := places[0]
				ev.rowTs = pl.rowTs
				ev.placed, ev.slot = true, pl.slot
				// timestamps of low-resolution metrics are rounded down to a multiple of the resolution
				if ts <= ct {
					if want := ts / md.res * md.res; pl.rowTs != want {
						r.violate("timestamp-not-rounded-down", "%s got row timestamp base%+d, expected base%+d (resolution %d)", name(),
							int64(pl.rowTs)-int64(c08Base), int64(want)-int64(c08Base), md.res)
					}
				} else { // future timestamp: any clamp between CurrentTime and ts is accepted, then rounded down
					r.edge = true
					if pl.rowTs%md.res != 0 || pl.rowTs > ts || pl.rowTs < ct/md.res*md.res {
						r.violate("timestamp-not-rounded-down", "%s (future) got row timestamp base%+d (resolution %d)", name(),
							int64(pl.rowTs)-int64(c08Base), md.res)
					}
				}
				ev.sref = r.w.referenceSecond(e.metric, e.series, pl.rowTs)
				ev.mustMatch = ev.sref >= st
				if !ev.mustMatch {
					r.edge = true
				}
			}
		}
		// "its send second depends only on the metric, its original tag values and the timestamp": what the event
		// carries (counter / value / unique / histogram) decides neither acceptance nor the slot nor the row timestamp.
		// The events of one (burst, metric, series, tag order) were applied back to back under the same cursors.
		for _, e := range sent {
			kd := c08BitKind(e.bit)
			if kd == c08KindCounter {
				continue
			}
			md := r.w.metrics[e.metric]
			for shard := 0; shard < 2; shard++ {
				if shard == 1 && !md.twin {
					continue
				}
				ev := g.ev[c08EvKey{shard, e.metric, e.series, e.bit}]
				ref := g.ev[c08EvKey{shard, e.metric, e.series, e.bit - kd}]
				if ev == nil || ref == nil || (!ev.dropped && !ev.placed) || (!ref.dropped && !ref.placed) {
					continue // placed-twice, reported above
				}
				if ev.dropped != ref.dropped || ev.slot != ref.slot || ev.rowTs != ref.rowTs {
					fate := func(x *c08Ev) string {
						if x.dropped {
							return "dropped"
						}
						return fmt.Sprintf("slot %d with row timestamp base%+d", x.slot, int64(x.rowTs)-int64(c08Base))
					}
					r.violate("event-kind-decides-placement", "metric %s series %v %s order, ts=base%+d, agent(profile %d) shard %d [CurrentTime=base%+d SendTime=base%+d]: the counter event: %s, the %s event sent right after it: %s",
						md.meta.Name, md.series[e.series], [2]string{"canonical", "permuted"}[c08BitOrder(e.bit)], int64(ts)-int64(c08Base), g.profile, shard,
						int64(p[shard].ct)-int64(c08Base), int64(p[shard].st)-int64(c08Base), fate(ref), c08KindNames[kd], fate(ev))
				}
			}
		}
	}
}

func (r *c08Run) inspect(g *c08AgentRun, shard int) {
	sh := g.a.Shards[shard]
	select {
	case b := <-sh.BucketsToPreprocess:
		if g.checked[shard] != b {
			g.checked[shard] = b
			r.checkBucket(g, shard, b)
		}
		sh.BucketsToPreprocess <- b // capacity 1 and we are the only goroutine: restores the state exactly
	default:
	}
}

func (r *c08Run) checkBucket(g *c08AgentRun, shard int, b *data_model.MetricsBucket) {
	for _, it := range b.MultiItems {
		ci, mine := r.classify(it)
		if !mine {
			continue
		}
		where := fmt.Sprintf("agent(profile %d) shard %d bucket base%+d", g.profile, shard, int64(b.Time)-int64(c08Base))
		if !ci.ok {
			r.violate("phantom-row", "%s delivers a row of metric %s that no sent event explains: %s", where, r.w.metrics[ci.metric].meta.Name, ci.why)
			continue
		}
		md := r.w.metrics[ci.metric]
		if ci.rowTs > b.Time {
			r.violate("bucket-earlier-than-timestamp", "%s delivers a row of metric %s series %v with timestamp base%+d, later than the bucket",
				where, md.meta.Name, md.series[ci.series], int64(ci.rowTs)-int64(c08Base))
		}
		if ci.rowTs%md.res != 0 {
			r.violate("timestamp-not-rounded-down", "%s delivers a row of metric %s with timestamp base%+d, not a multiple of resolution %d",
				where, md.meta.Name, int64(ci.rowTs)-int64(c08Base), md.res)
		}
		for bit := 0; bit < 40; bit++ {
			if ci.bits&(1<<uint(bit)) == 0 {
				continue
			}
			ev := g.ev[c08EvKey{shard, ci.metric, ci.series, bit}]
			if ev == nil || ev.dropped {
				r.violate("phantom-row", "%s delivers event bit %d of metric %s series %v which was not accepted on this shard", where, bit, md.meta.Name, md.series[ci.series])
				continue
			}
			ev.delivered++
			if ev.delivered > 1 {
				r.violate("delivered-twice", "%s delivers event bit %d of metric %s series %v a second time", where, bit, md.meta.Name, md.series[ci.series])
			}
			if ev.rowTs != ci.rowTs {
				r.violate("row-timestamp-changed", "%s: event bit %d of metric %s was accepted with row timestamp base%+d and is delivered with base%+d",
					where, bit, md.meta.Name, int64(ev.rowTs)-int64(c08Base), int64(ci.rowTs)-int64(c08Base))
			}
			if ev.mustMatch && b.Time != ev.sref {
				r.violate("send-second-differs", "%s delivers the not-late row (metric %s series %v %s order, timestamp base%+d); the reference agent (all mappings cached, canonical tag order) sends that series in second base%+d",
					where, md.meta.Name, md.series[ci.series], [2]string{"canonical", "permuted"}[c08BitOrder(bit)], int64(ci.rowTs)-int64(c08Base), int64(ev.sref)-int64(c08Base))
			}
			r.outcomes[fmt.Sprintf("res%d must=%v dt=%d", md.res, ev.mustMatch, int64(b.Time)-int64(ci.rowTs))] = struct{}{}
		}
	}
}

func (r *c08Run) opFlush(stepHalf int) {
	if stepHalf >= 250 { // a pause longer than the ring: rows that wait across it are late by definition
		r.edge = true
		for _, g := range r.agents {
			for _, ev := range g.ev {
				ev.mustMatch = false
			}
		}
	}
	if stepHalf < 0 {
		r.edge = true
	}
	r.nowHalf += stepHalf
	now := r.now()
	for _, g := range r.agents {
		g.a.goFlushIteration(now)
		for s := range g.a.Shards {
			r.inspect(g, s)
		}
	}
}

func (r *c08Run) canDrain() bool {
	for _, sh := range r.agents[0].a.Shards {
		if len(sh.BucketsToPreprocess) != 0 {
			return true
		}
	}
	return false
}

func (r *c08Run) opDrain() {
	for _, g := range r.agents {
		for s, sh := range g.a.Shards {
			r.inspect(g, s)
			select {
			case <-sh.BucketsToPreprocess:
			default:
			}
		}
	}
}

func (r *c08Run) opStop() {
	r.stopped = true
	for _, g := range r.agents {
		for _, sh := range g.a.Shards {
			sh.StopReceivingIncomingData()
		}
	}
}

// closeShutdown: what Agent.ShutdownFlusher + Agent.FlushAllData do (with a consumer on the channel).
func (r *c08Run) closeShutdown() {
	if !r.stopped {
		r.opStop()
	}
	for i := 0; i < superQueueLen; i++ {
		r.opDrain()
		for _, g := range r.agents {
			for s, sh := range g.a.Shards {
				sh.FlushAllDataSingleStep(false)
				r.inspect(g, s)
			}
		}
	}
	r.opDrain()
	for _, g := range r.agents {
		keys := make([]c08EvKey, 0, len(g.ev))
		for k := range g.ev {
			keys = append(keys, k)
		}
		sort.Slice(keys, func(i, j int) bool { return fmt.Sprint(keys[i]) < fmt.Sprint(keys[j]) })
		for _, k := range keys {
			ev := g.ev[k]
			if !ev.dropped && ev.delivered == 0 {
				md := r.w.metrics[k.metric]
				r.violate("never-delivered", "agent(profile %d) shard %d accepted event bit %d of metric %s series %v (row timestamp base%+d) but no bucket delivered it, even after flushing the whole queue",
					g.profile, k.shard, k.bit, md.meta.Name, md.series[k.series], int64(ev.rowTs)-int64(c08Base))
			}
		}
	}
}

func (r *c08Run) pending() (n int) {
	for _, g := range r.agents {
		for _, ev := range g.ev {
			if !ev.dropped && ev.delivered == 0 {
				n++
			}
		}
	}
	return
}

// closeConveyor: the conveyor keeps running normally (one flush iteration per second, consumer keeps up)
// for longer than the ring, then shuts down.
func (r *c08Run) closeConveyor() {
	for i := 0; i < 140 && r.pending() > 0; i++ {
		r.nowHalf += 2
		now := r.now()
		for _, g := range r.agents {
			for s, sh := range g.a.Shards {
				// Shard.flushBuckets is what goFlushIteration calls per shard; calling it directly leaves out
				// addBuiltins (a dozen built-in rows and two syscalls per second), which dominated the run time
				sh.flushBuckets(now)
				r.inspect(g, s)
			}
		}
		r.opDrain()
	}
	r.closeShutdown()
}

// stateKey: canonical state. Built from the real objects: clock, cursors, channel occupancy, which ring
// slots are non-empty (decides whether FlushAllDataSingleStep emits a bucket), pending built-in values, and the
// pending harness rows per slot with the model's per-event flag (mustMatch). Event weights are left out:
// they never influence the code (Empty() looks at the map length only) and the oracle is symmetric under
// renaming them; delivered and dropped events are left out: nothing in the future refers to them.
func (r *c08Run) stateKey() string {
	var sb strings.Builder
	fmt.Fprintf(&sb, "now=%d stop=%v|", r.nowHalf, r.stopped)
	for _, g := range r.agents {
		a := g.a
		bi := uint64(0)
		for i, v := range a.BuiltInItemValues {
			if v.value.Count() > 0 {
				bi |= 1 << uint(i)
			}
		}
		fmt.Fprintf(&sb, "A%d bf=%d hb=%d bi=%x|", g.profile, int64(a.beforeFlushTime)-int64(c08Base), a.heartBeatEventType, bi)
		items, nonEmpty := r.scan(g)
		for s, sh := range a.Shards {
			fmt.Fprintf(&sb, "S%d ct=%d st=%d ch=%d stop=%v ne=%v|", s, int64(sh.CurrentTime)-int64(c08Base), int64(sh.SendTime)-int64(c08Base),
				len(sh.BucketsToPreprocess), sh.stopReceivingIncomingData, nonEmpty[s])
		}
		for _, it := range items {
			fmt.Fprintf(&sb, "I%d/%d m%d s%d t%d ok=%v:", it.shard, it.slot, it.metric, it.series, int64(it.rowTs)-int64(c08Base), it.ok)
			var flags []string
			for b := 0; b < 40; b++ {
				if it.bits&(1<<uint(b)) != 0 {
					if ev := g.ev[c08EvKey{it.shard, it.metric, it.series, b}]; ev != nil {
						flags = append(flags, fmt.Sprintf("%v%v", ev.mustMatch, c08BitOrder(b)))
					} else {
						flags = append(flags, "?")
					}
				}
			}
			sort.Strings(flags)
			sb.WriteString(strings.Join(flags, ","))
			sb.WriteByte('|')
		}
	}
	sum := md5.Sum([]byte(sb.String())) // 128-bit digest instead of the long text: keeps the seen-set small
	return string(sum[:])
}

// ---------------------------------------------------------------------------------------------------------
// operations

var c08FlushSteps = []int{0, 1, 2, 4, 260, -10} // half seconds: +0, +0.5 s, +1 s, +2 s, +130 s pause, -5 s jump back

const (
	c08OpDrain = 6
	c08OpStop  = 7
	c08OpEvent = 8
)

func (w *c08World) numOps() int { return c08OpEvent + len(w.offsets)*len(w.resList) }

func (w *c08World) opName(op int) string {
	switch {
	case op < len(c08FlushSteps):
		return fmt.Sprintf("flush(clock%+.1fs)", float64(c08FlushSteps[op])/2)
	case op == c08OpDrain:
		return "drain"
	case op == c08OpStop:
		return "stop-receiving"
	default:
		e := op - c08OpEvent
		return fmt.Sprintf("events(ts=now%+d,res=%d)", w.offsets[e/len(w.resList)], w.resList[e%len(w.resList)])
	}
}

func (w *c08World) histNames(h []int) []string {
	out := make([]string, len(h))
	for i, op := range h {
		out[i] = w.opName(op)
	}
	return out
}

// replay applies the history; returns false if the last op is not applicable.
func (r *c08Run) replay(h []int, maxEvents int) bool {
	for k, op := range h {
		last := k == len(h)-1
		switch {
		case op < len(c08FlushSteps):
			r.opFlush(c08FlushSteps[op])
		case op == c08OpDrain:
			if !r.canDrain() {
				return !last
			}
			r.opDrain()
		case op == c08OpStop:
			if r.stopped {
				return !last
			}
			r.opStop()
		default:
			if r.nEvents >= maxEvents {
				return !last
			}
			e := op - c08OpEvent
			r.opEvent(k, r.w.offsets[e/len(r.w.resList)], r.w.resList[e%len(r.w.resList)])
		}
	}
	return true
}

func (r *c08Run) verdict(h []int, mode string) mc.Verdict {
	if len(r.viols) == 0 {
		return mc.Verdict{}
	}
	sort.Slice(r.viols, func(i, j int) bool {
		if r.viols[i].sig != r.viols[j].sig {
			return r.viols[i].sig < r.viols[j].sig
		}
		return r.viols[i].desc < r.viols[j].desc
	})
	v := r.viols[0]
	return mc.Verdict{Violation: v.desc, Sig: v.sig, Detail: map[string]any{"history": r.w.histNames(h), "then": mode, "violations_in_this_execution": len(r.viols)}}
}

type c08Checker struct {
	w             *c08World
	maxEvents     int
	conveyorDepth int // histories up to this length also get the "keep running" closing
	rep           *mc.Report
	closedOK      sync.Map // state key -> struct{}: shutdown-closing of this state was checked and held
	conveyorOK    sync.Map
	execs         int64
	mu            sync.Mutex
}

func (c *c08Checker) run(h []int) mc.StepResult {
	r := c08NewRun(c.w)
	if !r.replay(h, c.maxEvents) {
		return mc.StepResult{Applicable: false}
	}
	if v := r.verdict(h, "(during the history)"); v.Violation != "" {
		return mc.StepResult{Applicable: true, Key: "viol", Verdict: v}
	}
	key := r.stateKey()
	res := mc.StepResult{Applicable: true, Key: key}
	res.Nontrivial = r.edge && r.nEvents > 0
	pending := r.pending()
	extra := int64(0)
	// Both closings are functions of the state (see stateKey), so each is evaluated once per distinct state;
	// only states whose closing held are remembered, so a violating state reproduces on every replay.
	if _, ok := c.closedOK.Load(key); !ok {
		r.closeShutdown()
		if v := r.verdict(h, "stop receiving, flush the whole queue"); v.Violation != "" {
			res.Verdict = v
			return res
		}
		c.closedOK.Store(key, struct{}{})
	}
	if pending > 0 && len(h) <= c.conveyorDepth {
		if _, ok := c.conveyorOK.Load(key); !ok {
			r2 := c08NewRun(c.w)
			r2.replay(h, c.maxEvents)
			r2.closeConveyor()
			if v := r2.verdict(h, "keep running: up to 140 x (clock +1 s, flushBuckets, drain) until nothing is pending, then stop receiving and flush the whole queue"); v.Violation != "" {
				res.Verdict = v
				return res
			}
			// two workers may close the same new state at the same time: count it once (deterministic totals)
			if _, loaded := c.conveyorOK.LoadOrStore(key, struct{}{}); !loaded {
				extra++
			}
			for o := range r2.outcomes {
				c.rep.Outcome(o)
			}
		}
	}
	for o := range r.outcomes {
		c.rep.Outcome(o)
	}
	if extra != 0 {
		c.mu.Lock()
		c.execs += extra
		c.mu.Unlock()
	}
	return res
}

func c08FixSamples(rep *mc.Report, part string, w *c08World) {
	for i, s := range rep.Samples {
		if m, ok := s.(map[string]any); ok && m["part"] == part {
			if h, ok := m["history"].([]int); ok {
				m["ops"] = w.histNames(h)
				m["start"] = fmt.Sprintf("base%+d", int64(w.start)-int64(c08Base))
				rep.Samples[i] = m
			}
		}
	}
}

func TestVerifC08(t *testing.T) {
	debug.SetGCPercent(400) // many short-lived 1-2 KB rows: fewer collections
	rep := mc.NewReport("C08")
	rep.Rule = "state-hashing BFS over histories of {event burst(ts offset, resolution) = every series x canonical/permuted tag order x metric without/with secondary shard; flush iteration with clock step +0/+0.5/+1/+2/+130 s pause/-5 s jump back; drain BucketsToPreprocess; stop receiving} replayed on fresh real agents that differ in mapping-cache contents; every delivered bucket is compared with the reference placement model, and every distinct state is closed twice: (a) stop receiving and flush the whole queue, (b) keep the conveyor running until nothing is pending, then (a). A history is non-trivial when it contains an event burst and at least one of: late row, future/clamped timestamp, dropped event, pause, clock jump back."

	type part struct {
		name          string
		start         uint32
		depth         int
		maxEvents     int
		conveyorDepth int
		profiles      []int
	}
	resList := mc.Pick([]uint32{1, 5, 60}, []uint32{1, 5, 15, 60})
	offsets := []int{-130, -3, -1, 0, 1, 3, 10}
	parts := mc.Pick(
		[]part{
			// start 53 s into a minute: after two +2 s steps CurrentTime+3 is a minute boundary while the queue is exactly
			// full (CurrentTime-SendTime = 5), so a resolution-60 row with the largest spread offset needs the last ring slot.
			// start 52: the same boundary is met one second of lag later (the first state in which rows must be refused).
			{"bfs_start53", c08Base + 53, 4, 2, 3, []int{2}},
			{"bfs_start52", c08Base + 52, 4, 2, 3, []int{1}},
			{"bfs_start0", c08Base, 3, 2, 3, []int{0, 1}},
		},
		[]part{
			// measured (loaded machine): start53 depth 5 with three agents = 413 k transitions; depth 6 of one part is
			// about 4 M transitions and does not fit the budget
			{"bfs_start0", c08Base, 4, 3, 4, []int{0, 1}},
			{"bfs_start53", c08Base + 53, 5, 2, 4, []int{0, 1, 2}},
			{"bfs_start52", c08Base + 52, 5, 2, 4, []int{2}},
		})
	rep.Bounds["resolutions"] = resList
	rep.Bounds["ts_offsets_s"] = offsets
	rep.Bounds["clock_steps_half_seconds"] = c08FlushSteps
	rep.Bounds["base_time"] = c08Base
	rep.Bounds["cache_profiles"] = "0 = every tag value cached, 1 = nothing cached, 2 = only the value of tag 2 cached"
	rep.Assume("the receive path of cmd/statshouse worker.HandleMetrics (fill time and metric meta, Agent.Map, Agent.ApplyMetric) is reproduced by the harness; Map and ApplyMetric are the real ones")
	rep.Assume("a single goroutine drives each agent (the shard mutex serialises the real callers); consumers of BucketsToPreprocess are modelled by the drain operation")
	rep.Assume("'late' = the reference send second is already behind SendTime at acceptance, or the agent clock paused >= 130 s while the row waited; 'gap' = CurrentTime+3+119 > SendTime+127")
	rep.Assume("the keep-running closing calls Shard.flushBuckets directly (what goFlushIteration does per shard) to leave out addBuiltins; flush operations inside histories use the real Agent.goFlushIteration")

	// wide part: many series (tag values), all cache profiles, short histories: the send second must not
	// depend on cache contents or tag order for any of them
	wideRes := mc.Pick([]uint32{5, 15, 60}, []uint32{2, 5, 15, 30, 60})
	wide := c08BuildWorld(c08Base+53, wideRes, []int{-3, 0, 1, 3}, []int{0, 1, 2}, mc.Pick(10, 40))
	ck2 := &c08Checker{w: wide, maxEvents: 1, conveyorDepth: 3, rep: rep}
	st2 := mc.BFS(ck2.run, mc.BFSOptions{NumOps: wide.numOps(), MaxDepth: mc.Pick(2, 3)})
	rep.MergeBFS("wide_series", st2)
	rep.AddCounts(ck2.execs, 0, 0, 0)
	rep.Bounds["wide_series"] = map[string]any{"series_per_metric": len(wide.metrics[0].series), "resolutions": wideRes, "depth": mc.Pick(2, 3), "cache_profiles": []int{0, 1, 2}}
	c08FixSamples(rep, "wide_series", wide)

	for _, p := range parts {
		w := c08BuildWorld(p.start, resList, offsets, p.profiles, 0)
		ck := &c08Checker{w: w, maxEvents: p.maxEvents, conveyorDepth: p.conveyorDepth, rep: rep}
		st := mc.BFS(ck.run, mc.BFSOptions{NumOps: w.numOps(), MaxDepth: p.depth})
		rep.MergeBFS(p.name, st)
		rep.AddCounts(ck.execs, 0, 0, 0)
		rep.Bounds[p.name] = map[string]any{"start": fmt.Sprintf("base%+d", int64(p.start)-int64(c08Base)), "depth": p.depth,
			"max_event_bursts_per_history": p.maxEvents, "keep_running_closing_up_to_depth": p.conveyorDepth, "cache_profiles": p.profiles,
			"operations": w.numOps()}
		c08FixSamples(rep, p.name, w)
	}

	if err := rep.Write(); err != nil {
		t.Fatal(err)
	}
}
