//go:build verif

package agent

// C09: the agent disk cache survives restarts and crashes without corruption.
//
// Model checking of the real DiskBucketStorage over a real scratch directory:
//   - explicit-state BFS (mc.BFS) over operation histories {put, get, erase, readNextTail, restart} on two shards
//     (get both as observer of every id in every state and as operation get(id, stored second | another second):
//     answered or refused, a get changes nothing);
//   - for the final call of every explored transition the directory is snapshotted before and after, the bytes
//     the call wrote are recovered from the diff, and the call is re-applied torn at EVERY byte offset (every
//     prefix of the appended bytes in issue order, every prefix of the overwritten bytes of the erase marker,
//     every intermediate point of file creation/removal; and, independent of any assumption about the write
//     order, from the create/WriteAt(offset, bytes)/remove calls recorded through the seam internal/verif_c09os:
//     every prefix of the call list, the last applied WriteAt cut at every byte, unwritten bytes zero); every
//     such image is reopened with the real recovery
//     path (makeDiscCacheShard + ReadNextTailSecond + GetBucket) and compared with a reference list;
//   - a second BFS ("rot") starts from a file filled to just below fileRotateSize so that rotation by size, its
//     exact boundary, and removal of a fully erased rotated file are reachable.
//
// The reference model (c09RefShard) is written from the statement only: a list of (second, bytes) per shard in
// write order with an erased flag.

import (
	"bytes"
	"crypto/sha256"
	"encoding/binary"
	"encoding/hex"
	"fmt"
	"io"
	"os"
	"path/filepath"
	"sort"
	"strings"
	"sync"
	"sync/atomic"
	"testing"
	"time"

	"github.com/VKCOM/statshouse/internal/verif/mc"
	c09os "github.com/VKCOM/statshouse/internal/verif_c09os"
	c09time "github.com/VKCOM/statshouse/internal/verif_c09time"
)

const (
	c09NumShards    = 2
	c09BigFile      = 1 << 20 // larger files are never copied byte-wise into images (hard link + header restore)
	c09MagicGood    = 0x59b907EC
	c09MagicDeleted = 0x000007EC
	// an erase marker of which only 3 of its 4 bytes reached the disk: it can only stem from an interrupted
	// erase, so the reference (like the repaired reader) takes the record for deleted and keeps parsing
	c09MagicDeletedTorn = 0x590007EC
	c09Header           = 20
)

type c09OpKind int

const (
	c09Put c09OpKind = iota
	c09Erase
	c09Tail
	c09Restart
	c09Clock // virtual clock +1 h (only when disk_cache.go runs on the harness's clock seam)
	// GetBucket(shard, id, t) as an operation of the history: t is the second the id was stored under (wrong=false)
	// or the other second of the alphabet (wrong=true; for ids that are not live: 100 / 101). The statement makes
	// get an operation that neither writes nor erases: answered or refused, the reference does not change.
	c09Get
)

// c09ClockBase is the virtual instant every execution starts at (2026-01-02 03:04:05 UTC).
const c09ClockBase = int64(1767323045) * 1e9

type c09Op struct {
	kind  c09OpKind
	shard int
	sec   uint32
	size  int
	id    int64
	wrong bool // c09Get: ask with a second that is not the one the id was stored under
}

func (o c09Op) String() string {
	switch o.kind {
	case c09Put:
		return fmt.Sprintf("put(shard=%d,sec=%d,len=%d)", o.shard, o.sec, o.size)
	case c09Erase:
		return fmt.Sprintf("erase(shard=%d,id=%d)", o.shard, o.id)
	case c09Tail:
		return fmt.Sprintf("readNextTail(shard=%d)", o.shard)
	case c09Clock:
		return "clock+1h"
	case c09Get:
		if o.wrong {
			return fmt.Sprintf("get(shard=%d,id=%d,second=other-than-stored)", o.shard, o.id)
		}
		return fmt.Sprintf("get(shard=%d,id=%d,second=stored)", o.shard, o.id)
	}
	return "restart"
}

// ---------------------------------------------------------------------------------------------------------
// reference model

type c09Rec struct {
	ord    int
	sec    uint32
	data   []byte
	erased bool
	file   string // base name of the file that holds it ("" = could not be determined)
	pos    int64
}

type c09RefShard struct {
	recs    []*c09Rec // records of files that still exist, in write order
	known   map[int64]*c09Rec
	lastID  int64
	unread  []*c09Rec // what the tail reader still has to visit (snapshot at open)
	drained bool
	atOpen  map[string]bool // files that existed when the shard was opened
	writing string          // file that received the latest put of this session
	list    []c09FileStat   // last directory listing
}

type c09FileStat struct {
	name string
	size int64
}

var (
	c09BigOnce sync.Once
	c09BigBuf  []byte
)

func c09Payload(ord int, sec uint32, size int) []byte {
	if size > 4096 {
		c09BigOnce.Do(func() {
			c09BigBuf = make([]byte, fileRotateSize)
			for i := range c09BigBuf {
				c09BigBuf[i] = byte(1 + i%251)
			}
		})
		return c09BigBuf[:size]
	}
	b := make([]byte, size)
	for i := range b {
		b[i] = byte(1 + (ord*29+int(sec)*7+i*13)%255) // never 0: a zero-filled tail always differs
	}
	return b
}

// ---------------------------------------------------------------------------------------------------------
// independent reader of the on-disk format (reference, used for the deletion rule, state keys and big files)

type c09Disk struct {
	pos   int64
	magic uint32
	sec   uint32
	n     int64
	hdr   [c09Header]byte
}

// c09Parse walks the record chain; it stops at the first header that is incomplete, has an impossible length or
// an unknown magic (garbage=true when bytes remain).
func c09Parse(r io.ReaderAt, size int64) (recs []c09Disk, garbage bool) {
	pos := int64(0)
	for pos < size {
		var d c09Disk
		if pos+c09Header > size {
			return recs, true
		}
		if _, err := r.ReadAt(d.hdr[:], pos); err != nil {
			return recs, true
		}
		d.pos = pos
		d.magic = binary.LittleEndian.Uint32(d.hdr[0:4])
		d.sec = binary.LittleEndian.Uint32(d.hdr[4:8])
		d.n = int64(binary.LittleEndian.Uint64(d.hdr[8:16]))
		if d.n < 0 || pos+c09Header+d.n > size || (d.magic != c09MagicGood && d.magic != c09MagicDeleted && d.magic != c09MagicDeletedTorn) {
			return recs, true
		}
		recs = append(recs, d)
		pos += c09Header + d.n
	}
	return recs, false
}

func c09ParseFile(path string) (recs []c09Disk, garbage bool, size int64, err error) {
	f, err := os.Open(path)
	if err != nil {
		return nil, false, 0, err
	}
	defer f.Close()
	st, err := f.Stat()
	if err != nil {
		return nil, false, 0, err
	}
	recs, garbage = c09Parse(f, st.Size())
	return recs, garbage, st.Size(), nil
}

func c09List(dir string) []c09FileStat {
	des, _ := os.ReadDir(dir)
	var out []c09FileStat
	for _, de := range des {
		if de.IsDir() {
			continue
		}
		fi, err := de.Info()
		if err != nil {
			continue
		}
		out = append(out, c09FileStat{de.Name(), fi.Size()})
	}
	sort.Slice(out, func(i, j int) bool { return out[i].name < out[j].name })
	return out
}

// ---------------------------------------------------------------------------------------------------------
// the world: real cache + reference

type c09Viol struct {
	sig, desc string
}

var c09DirSeq atomic.Int64

func c09Scratch() string {
	s := os.Getenv("VERIF_SCRATCH")
	if s == "" {
		s = os.TempDir()
	}
	return filepath.Join(s, "c09")
}

func c09Logf(format string, args ...interface{}) {}

type c09World struct {
	root string // private directory of this execution
	dir  string // cache directory
	d    *DiskBucketStorage
	sh   [c09NumShards]*c09RefShard
	hist []string
	pad  []byte
	// calls = the directory-changing calls (create, WriteAt(offset, bytes), remove) the cache issued during the
	// final operation, in issue order (recorded by the file-system seam internal/verif_c09os)
	calls []c09os.Call
}

// c09DirPool recycles emptied world/image directories (creating and removing directory trees dominated the cost).
var c09DirPool = map[string]chan string{"w": make(chan string, 256), "i": make(chan string, 256)}

func c09GetDir(kind string, sub ...string) (string, error) {
	select {
	case d := <-c09DirPool[kind]:
		return d, nil
	default:
	}
	root := filepath.Join(c09Scratch(), fmt.Sprintf("%s%d", kind, c09DirSeq.Add(1)))
	for _, s := range sub {
		if err := os.MkdirAll(filepath.Join(root, s), 0o777); err != nil {
			return "", err
		}
	}
	return root, nil
}

func c09PutDir(kind, root string, sub ...string) {
	for _, s := range sub {
		d := filepath.Join(root, s)
		des, _ := os.ReadDir(d)
		for _, de := range des {
			if !de.IsDir() {
				_ = os.Remove(filepath.Join(d, de.Name()))
			}
		}
	}
	select {
	case c09DirPool[kind] <- root:
	default:
		_ = os.RemoveAll(root)
	}
}

func c09NewWorld() (*c09World, error) {
	root, err := c09GetDir("w", "cache", "keep")
	if err != nil {
		return nil, err
	}
	w := &c09World{root: root, dir: filepath.Join(root, "cache")}
	c09time.Install(c09ClockBase)
	d, err := MakeDiskBucketStorage(w.dir, c09NumShards, c09Logf)
	if err != nil {
		return nil, err
	}
	w.d = d
	for s := range w.sh {
		w.sh[s] = &c09RefShard{known: map[int64]*c09Rec{}, atOpen: map[string]bool{}}
	}
	return w, nil
}

func (w *c09World) destroy() {
	if w.d != nil {
		_ = w.d.Close()
		w.d = nil
	}
	c09time.Uninstall()
	c09PutDir("w", w.root, "cache/0", "cache/1", "keep")
}

func (w *c09World) shardDir(s int) string { return filepath.Join(w.dir, fmt.Sprint(s)) }

func (w *c09World) applicable(o c09Op) bool {
	if o.kind == c09Erase || o.kind == c09Get {
		return o.id <= w.sh[o.shard].lastID+1 // lastID+1 stands for every id that was never handed out
	}
	return true
}

// refresh re-lists a shard directory and forgets reference records whose file is gone.
func (w *c09World) refresh(s int) {
	r := w.sh[s]
	r.list = c09List(w.shardDir(s))
	exists := map[string]bool{}
	for _, f := range r.list {
		exists[f.name] = true
	}
	keep := r.recs[:0]
	for _, x := range r.recs {
		if x.file == "" || exists[x.file] || !x.erased {
			keep = append(keep, x)
		}
	}
	r.recs = keep
}

// apply performs one operation on the real cache and on the reference. With full=false (operations of the
// already explored prefix of a history) only what the reference needs is done; with full=true (the final
// operation) every observable is compared: results of the call, GetBucket of every id, sizes, directory.
func (w *c09World) apply(o c09Op, full bool) *c09Viol {
	w.hist = append(w.hist, o.String())
	fail := func(sig, format string, a ...any) *c09Viol {
		return &c09Viol{"C09:" + sig, fmt.Sprintf(format, a...) + " | history: " + strings.Join(w.hist, " ")}
	}
	switch o.kind {
	case c09Put:
		r := w.sh[o.shard]
		ord := 0 // smallest number not used by a record that is still on disk in any shard (symmetric in the shards)
		for used := true; used; {
			used = false
			for _, rs := range w.sh {
				for _, x := range rs.recs {
					if x.ord == ord {
						used = true
					}
				}
			}
			if used {
				ord++
			}
		}
		rec := &c09Rec{ord: ord, sec: o.sec, data: c09Payload(ord, o.sec, o.size)}
		if full {
			c09os.Start()
		}
		id, err := w.d.PutBucket(o.shard, o.sec, rec.data)
		if full {
			w.calls = c09os.Stop()
		}
		if err != nil {
			return fail("put-error", "PutBucket failed: %v", c09Stable(err))
		}
		if _, dup := r.known[id]; dup || id <= 0 {
			return fail("put-duplicate-id", "PutBucket returned id %d which is already in use", id)
		}
		// locate the record through the directory (which file grew by header+body)
		old := map[string]int64{}
		for _, f := range r.list {
			old[f.name] = f.size
		}
		w.refresh(o.shard)
		n := 0
		for _, f := range r.list {
			if prev, ok := old[f.name]; f.size == prev+c09Header+int64(o.size) && (ok || prev == 0) {
				rec.file, rec.pos = f.name, prev
				n++
			}
		}
		if n != 1 {
			rec.file = ""
		}
		r.writing = rec.file
		r.recs = append(r.recs, rec)
		r.known[id] = rec
		if id > r.lastID {
			r.lastID = id
		}
	case c09Erase:
		r := w.sh[o.shard]
		if full {
			c09os.Start()
		}
		_ = w.d.EraseBucket(o.shard, o.id)
		if full {
			w.calls = c09os.Stop()
		}
		if rec := r.known[o.id]; rec != nil {
			rec.erased = true
			delete(r.known, o.id)
		}
		w.refresh(o.shard)
	case c09Tail:
		r := w.sh[o.shard]
		var want *c09Rec
		for len(r.unread) > 0 && want == nil {
			if !r.unread[0].erased {
				want = r.unread[0]
			}
			r.unread = r.unread[1:]
		}
		if full {
			c09os.Start()
		}
		sec, id := w.d.ReadNextTailBucket(o.shard)
		if full {
			w.calls = c09os.Stop()
		}
		if want == nil {
			r.drained = true
			if id != 0 {
				return fail("tail-returns-extra-second", "ReadNextTailBucket returned second %d (id %d) although every live second was already re-read", sec, id)
			}
		} else {
			if id == 0 {
				return fail("tail-loses-second", "ReadNextTailBucket returned nothing, live second %d (%d bytes) is still on disk", want.sec, len(want.data))
			}
			if _, dup := r.known[id]; dup {
				return fail("tail-duplicate-id", "ReadNextTailBucket returned id %d which is already in use", id)
			}
			data, err := w.d.GetBucket(o.shard, id, sec, &w.pad)
			if sec != want.sec || err != nil || !bytes.Equal(data, want.data) {
				for _, x := range r.recs {
					if x.erased && x.sec == sec && err == nil && bytes.Equal(x.data, data) {
						return fail("tail-returns-erased-second", "ReadNextTailBucket returned erased second %d", sec)
					}
				}
				return fail("tail-wrong-second", "ReadNextTailBucket returned second %d (get error %v, %d bytes), next live second in write order is %d (%d bytes)", sec, c09Stable(err), len(data), want.sec, len(want.data))
			}
			r.known[id] = want
			if id > r.lastID {
				r.lastID = id
			}
		}
		w.refresh(o.shard)
	case c09Clock:
		c09time.Advance(time.Hour)
		return nil // nothing observable changes until the next put
	case c09Get:
		r := w.sh[o.shard]
		rec := r.known[o.id]
		stored := uint32(100)
		if rec != nil {
			stored = rec.sec
		}
		ask := stored
		if o.wrong {
			ask = 201 - stored // 100 <-> 101: the other second of the alphabet (other live seconds may carry it)
		}
		var pre c09Snap
		if full {
			pre = c09TakeSnap(w.shardDir(o.shard), "")
		}
		data, err := w.d.GetBucket(o.shard, o.id, ask, &w.pad)
		switch {
		case rec == nil && err == nil:
			for _, x := range r.recs {
				if x.erased && x.sec == ask && bytes.Equal(x.data, data) {
					return fail("get-returns-erased-second", "GetBucket(id %d, second %d) returned erased second %d", o.id, ask, ask)
				}
			}
			return fail("get-returns-data-for-unknown-id", "GetBucket(id %d, second %d) succeeded for an id that is not live", o.id, ask)
		case rec != nil && !o.wrong && err != nil:
			return fail("get-fails-on-live-second", "GetBucket(id %d, second %d) failed: %v", o.id, ask, c09Stable(err))
		case rec != nil && err == nil && !bytes.Equal(data, rec.data):
			// (whether a get that names another second than the stored one must be refused is not stated; if it is
			// answered, the bytes must be the ones that were put under this id)
			return fail("get-returns-corrupted-data", "GetBucket(id %d, second %d) returned %d bytes that differ from the %d bytes put", o.id, ask, len(data), len(rec.data))
		}
		// the reference does not change: a get is not an erase, whether it was answered or refused
		if full {
			how := "answered"
			if err != nil {
				how = "refused"
			}
			if rec != nil {
				again, err2 := w.d.GetBucket(o.shard, o.id, stored, &w.pad)
				if err2 != nil || !bytes.Equal(again, rec.data) {
					return fail(how+"-get-drops-second", "second %d (id %d, %d bytes) was put and not erased, but after a %s GetBucket(id %d, second %d) the cache no longer returns it: GetBucket(id %d, second %d) -> %v, %d bytes", rec.sec, o.id, len(rec.data), how, o.id, ask, o.id, stored, c09Stable(err2), len(again))
				}
			}
			post := c09TakeSnap(w.shardDir(o.shard), "")
			if !c09SameSnap(pre, post) {
				return fail(how+"-get-modifies-files", "a %s GetBucket(id %d, second %d) changed the files of the shard (%d file(s) before, %d after)", how, o.id, ask, len(pre), len(post))
			}
		}
	case c09Restart:
		if err := w.d.Close(); err != nil {
			return fail("close-error", "Close failed: %v", c09Stable(err))
		}
		w.d = nil
		d, err := MakeDiskBucketStorage(w.dir, c09NumShards, c09Logf)
		if err != nil {
			return fail("reopen-error", "MakeDiskBucketStorage failed after restart: %v", c09Stable(err))
		}
		w.d = d
		for s, r := range w.sh {
			w.refresh(s)
			r.known = map[int64]*c09Rec{}
			r.lastID = 0
			r.unread = append([]*c09Rec(nil), r.recs...)
			r.drained = false
			r.writing = ""
			r.atOpen = map[string]bool{}
			for _, f := range r.list {
				r.atOpen[f.name] = true
			}
		}
	}
	if !full {
		return nil
	}
	for s := range w.sh {
		if o.kind != c09Restart && s != o.shard {
			continue
		}
		if v := w.checkShard(s); v != nil {
			return fail(v.sig, "%s (after %s)", v.desc, o)
		}
	}
	return nil
}

func c09Stable(err error) string {
	if err == nil {
		return "<nil>"
	}
	s := err.Error()
	if i := strings.Index(s, c09Scratch()); i >= 0 { // no scratch paths in messages (they differ between runs)
		s = s[:i] + "<scratch>"
	}
	return s
}

// checkShard is the observer applied in every explored state: GetBucket of every id ever handed out in this
// session plus one that was not (GetBucket does not change state unless it fails, so this covers every history
// with get operations interleaved anywhere), the accounting clause and the deletion clause.
func (w *c09World) checkShard(s int) *c09Viol {
	r := w.sh[s]
	for id := int64(1); id <= r.lastID+1; id++ {
		rec := r.known[id]
		sec := uint32(100)
		if rec != nil {
			sec = rec.sec
		}
		data, err := w.d.GetBucket(s, id, sec, &w.pad)
		if rec == nil {
			if err == nil {
				for _, x := range r.recs {
					if x.erased && x.sec == sec && bytes.Equal(x.data, data) {
						return &c09Viol{"get-returns-erased-second", fmt.Sprintf("shard %d: GetBucket(id %d) returned erased second %d", s, id, sec)}
					}
				}
				return &c09Viol{"get-returns-data-for-unknown-id", fmt.Sprintf("shard %d: GetBucket(id %d) succeeded for an id that is not live", s, id)}
			}
			continue
		}
		if err != nil {
			return &c09Viol{"get-fails-on-live-second", fmt.Sprintf("shard %d: GetBucket(id %d, second %d) failed: %v", s, id, sec, c09Stable(err))}
		}
		if !bytes.Equal(data, rec.data) {
			return &c09Viol{"get-returns-corrupted-data", fmt.Sprintf("shard %d: GetBucket(id %d, second %d) returned %d bytes that differ from the %d bytes put", s, id, sec, len(data), len(rec.data))}
		}
	}
	dir := w.shardDir(s)
	var disk int64
	for _, f := range r.list {
		disk += f.size
	}
	total, unsent := w.d.TotalFileSize(s)
	if total != disk {
		return &c09Viol{"size-total", fmt.Sprintf("shard %d: reported total size %d, files on disk have %d bytes", s, total, disk)}
	}
	var knownBytes int64
	for _, x := range r.known {
		knownBytes += c09Header + int64(len(x.data))
	}
	if unsent < knownBytes || unsent > total || (r.drained && unsent != knownBytes) {
		return &c09Viol{"size-unsent", fmt.Sprintf("shard %d: reported unsent size %d, live seconds held are %d bytes, total %d, tail fully re-read=%v", s, unsent, knownBytes, total, r.drained)}
	}
	for i, f := range r.list {
		if f.name == r.writing {
			continue
		}
		if r.atOpen[f.name] && !r.drained {
			continue // the tail reader may not have reached it yet
		}
		recs, _, _, err := c09ParseFile(filepath.Join(dir, f.name))
		if err != nil {
			continue
		}
		good := 0
		for _, d := range recs {
			if d.magic == c09MagicGood {
				good++
			}
		}
		if len(recs) > 0 && good == 0 {
			return &c09Viol{"file-not-deleted", fmt.Sprintf("shard %d: file #%d (%d bytes, %d seconds, all erased) still exists although the cache does not write to it", s, i, f.size, len(recs))}
		}
	}
	return nil
}

// key is the canonical state: directory contents (file names replaced by their rank), every field of the
// implementation's shard state, and the reference state, per shard; the two per-shard strings are sorted, because
// shards are independent objects in separate directories and alphabet, payload numbering and oracle are symmetric
// in the shard index (mirrored states have mirrored futures). Two histories with equal keys therefore drive the
// implementation and the reference from identical states: equal futures. Of the clock only "the next put
// rotates by age" is kept: absolute times only show in file names, whose rank is what the cache uses.
func (w *c09World) key() string {
	var parts []string
	for s := 0; s < c09NumShards; s++ {
		var b strings.Builder
		r := w.sh[s]
		idx := map[string]int{}
		for i, f := range r.list {
			idx[f.name] = i
		}
		fi := func(path string) int {
			if i, ok := idx[filepath.Base(path)]; ok && path != "" {
				return i
			}
			return -1
		}
		for i, f := range r.list {
			p := filepath.Join(w.shardDir(s), f.name)
			if f.size <= 4096 {
				c, _ := os.ReadFile(p)
				fmt.Fprintf(&b, "F%d=%x;", i, c)
			} else {
				recs, g, sz, _ := c09ParseFile(p)
				fmt.Fprintf(&b, "F%d=big%d,%v", i, sz, g)
				for _, d := range recs {
					fmt.Fprintf(&b, ",%x", d.hdr)
				}
				b.WriteString(";")
			}
		}
		sh := w.d.shards[s]
		fmt.Fprintf(&b, "|I:%d,%d,%d,%d|", sh.lastBucketID, sh.totalFileSize, sh.knownBucketsSize, sh.waitingFilesSize)
		var ids []int64
		for id := range sh.knownBuckets {
			ids = append(ids, id)
		}
		sort.Slice(ids, func(i, j int) bool { return ids[i] < ids[j] })
		ff := func(f *diskCacheFile) string {
			if f == nil {
				return "nil"
			}
			return fmt.Sprintf("f%d/%d/%d/%d", fi(f.name), f.nextPos, f.size, f.refCount)
		}
		for _, id := range ids {
			k := sh.knownBuckets[id]
			fmt.Fprintf(&b, "%d:%s,%d,%d,%d,%x;", id, ff(k.file), k.pos, k.time, k.size, k.crc)
		}
		aged := false // would the next put rotate by age? (the only way the clock enters the behaviour)
		if now, ok := c09time.Installed(); ok && sh.writingFile != nil {
			aged = now+int64(time.Millisecond)-sh.writingFileCreatedTs.UnixNano() >= int64(fileRotateInterval)
		}
		fmt.Fprintf(&b, "|R:%s|W:%s,%v|Q:", ff(sh.readingFileTail), ff(sh.writingFile), aged)
		for _, q := range sh.waitingFilesTail {
			fmt.Fprintf(&b, "%d/%d,", fi(q.name), q.size)
		}
		// reference
		fmt.Fprintf(&b, "|ref:%d,%v,w%d|", r.lastID, r.drained, fi(r.writing))
		ids = ids[:0]
		for id := range r.known {
			ids = append(ids, id)
		}
		sort.Slice(ids, func(i, j int) bool { return ids[i] < ids[j] })
		for _, id := range ids {
			fmt.Fprintf(&b, "%d>%d,", id, r.known[id].ord)
		}
		b.WriteString("|u:")
		for _, x := range r.unread {
			fmt.Fprintf(&b, "%d,", x.ord)
		}
		b.WriteString("|o:")
		for i, f := range r.list {
			if r.atOpen[f.name] {
				fmt.Fprintf(&b, "%d,", i)
			}
		}
		b.WriteString("|r:")
		for _, x := range r.recs {
			fmt.Fprintf(&b, "%d/%d/%d/%v/%d/%d,", x.ord, x.sec, len(x.data), x.erased, fi(x.file), x.pos)
		}
		parts = append(parts, b.String())
	}
	sort.Strings(parts)
	h := sha256.Sum256([]byte(strings.Join(parts, "\n")))
	return hex.EncodeToString(h[:16])
}

// ---------------------------------------------------------------------------------------------------------
// snapshots, diffs and torn images

type c09SnapFile struct {
	size int64
	data []byte    // small files: full content
	big  bool      // large file: only the headers are kept, the bytes live in the kept inode
	hdrs []c09Disk // parsed headers (big files)
}

type c09Snap map[string]*c09SnapFile

// c09TakeSnap reads a shard directory. With keepDir != "" every file is also hard-linked there so that the
// bytes of a file the final call removes stay observable (and big files can be linked into images).
func c09TakeSnap(dir, keepDir string) c09Snap {
	out := c09Snap{}
	for _, f := range c09List(dir) {
		p := filepath.Join(dir, f.name)
		if keepDir != "" {
			_ = os.Link(p, filepath.Join(keepDir, f.name))
		}
		sf := &c09SnapFile{size: f.size}
		if f.size > c09BigFile {
			sf.big = true
			sf.hdrs, _, _, _ = c09ParseFile(p)
		} else {
			sf.data, _ = os.ReadFile(p)
		}
		out[f.name] = sf
	}
	return out
}

type c09Exp struct {
	rec      *c09Rec
	optional bool
}

type c09Image struct {
	kind     string // restart | torn-put | torn-erase-marker | torn-rotate | crash-during-file-removal | lenfirst-torn-body
	desc     string
	files    map[string][]byte // small files by content
	links    []string          // big files: hard links to the kept inode
	tornFile string
	tornPos  int64
	exp      []c09Exp
	erased   []*c09Rec // for classification only
}

func c09Names(s c09Snap) []string {
	var n []string
	for k := range s {
		n = append(n, k)
	}
	sort.Strings(n)
	return n
}

// c09BuildImages derives the crash images of the final call from the before/after snapshots.
// removedData gives the post-call bytes of files the call removed (read through the kept links).
func c09BuildImages(o c09Op, pre, post c09Snap, keepDir string, preExp, postExp []c09Exp, erasedPre, erasedPost []*c09Rec, newRec, target *c09Rec, notes *[]string) []c09Image {
	var imgs []c09Image
	base := func(from c09Snap, skip map[string]bool) (map[string][]byte, []string, bool) {
		files := map[string][]byte{}
		var links []string
		for _, n := range c09Names(from) {
			if skip[n] {
				continue
			}
			if from[n].big {
				// a big file may only enter an image with the bytes its inode has now (= post state)
				if p, ok := post[n]; ok && !c09SameBig(from[n], p) {
					return nil, nil, false
				}
				if _, ok := post[n]; !ok && from[n] != nil {
					// removed by the call: inode still has the post-call bytes; only usable if unchanged
					recs, _, _, _ := c09ParseFile(filepath.Join(keepDir, n))
					if !c09SameHdrs(recs, from[n].hdrs) {
						return nil, nil, false
					}
				}
				links = append(links, n)
			} else {
				files[n] = from[n].data
			}
		}
		return files, links, true
	}
	markOpt := func(exp []c09Exp, r *c09Rec) []c09Exp {
		out := append([]c09Exp(nil), exp...)
		for i := range out {
			if out[i].rec == r {
				out[i].optional = true
			}
		}
		return out
	}
	var removed, created, changed []string
	for _, n := range c09Names(pre) {
		if _, ok := post[n]; !ok {
			removed = append(removed, n)
		}
	}
	for _, n := range c09Names(post) {
		p, ok := pre[n]
		if !ok {
			created = append(created, n)
		} else if p.size != post[n].size || (!p.big && !bytes.Equal(p.data, post[n].data)) || (p.big && !c09SameBig(p, post[n])) {
			changed = append(changed, n)
		}
	}
	if len(removed)+len(created)+len(changed) == 0 {
		return nil // the call did not touch the disk: the pre-state image was audited by an earlier transition
	}
	// the complete image (the call finished, then restart or crash)
	if files, links, ok := base(post, nil); ok {
		imgs = append(imgs, c09Image{kind: "restart", desc: "restart after the completed call", files: files, links: links, exp: postExp, erased: erasedPost})
	}
	skipNote := func(why string) {
		*notes = append(*notes, why)
	}
	switch o.kind {
	case c09Put:
		if len(removed) > 1 || len(created)+len(changed) != 1 {
			skipNote("put: unexpected write shape")
			return imgs
		}
		var name string
		var old, written []byte
		if len(created) == 1 {
			name = created[0]
			if post[name].big {
				skipNote("put: new file is big")
				return imgs
			}
			written = post[name].data
		} else {
			name = changed[0]
			if pre[name].big || post[name].big {
				skipNote("put: appended to a big file (torn images of that append not built)")
				return imgs
			}
			old = pre[name].data
			if !bytes.HasPrefix(post[name].data, old) {
				skipNote("put: not an append")
				return imgs
			}
			written = post[name].data[len(old):]
		}
		skip := map[string]bool{}
		exp := append(append([]c09Exp(nil), preExp...), c09Exp{rec: newRec, optional: true})
		if len(removed) == 1 {
			skip[removed[0]] = true
			if files, links, ok := base(pre, skip); ok {
				imgs = append(imgs, c09Image{kind: "torn-rotate", desc: "rotation: old fully erased file removed, new file not created yet", files: files, links: links, exp: preExp, erased: erasedPre})
			}
		}
		files0, links, ok := base(pre, skip)
		if !ok {
			skipNote("put: big file changed")
			return imgs
		}
		mk := func(content []byte) map[string][]byte {
			m := map[string][]byte{}
			for k, v := range files0 {
				m[k] = v
			}
			m[name] = content
			return m
		}
		kind := "torn-put"
		start := 1
		if len(created) == 1 {
			start = 0 // file created, nothing written yet
		}
		for k := start; k < len(written); k++ {
			c := append(append([]byte(nil), old...), written[:k]...)
			imgs = append(imgs, c09Image{kind: kind, desc: fmt.Sprintf("put torn after %d of %d bytes (header %d + body %d)", k, len(written), c09Header, len(written)-c09Header),
				files: mk(c), links: links, tornFile: name, tornPos: int64(len(old)), exp: exp, erased: erasedPre})
		}
		// length-first model: the file already has its final length, the unwritten part of the BODY reads as zeros
		for k := c09Header; k < len(written); k++ {
			c := append(append([]byte(nil), old...), written[:k]...)
			c = append(c, make([]byte, len(written)-k)...)
			imgs = append(imgs, c09Image{kind: "lenfirst-torn-body", desc: fmt.Sprintf("put torn after %d of %d bytes, file length already extended (rest of the body reads as zeros)", k, len(written)),
				files: mk(c), links: links, tornFile: name, tornPos: int64(len(old)), exp: exp, erased: erasedPre})
		}
	case c09Erase:
		if len(created) != 0 || len(removed)+len(changed) != 1 {
			skipNote("erase: unexpected write shape")
			return imgs
		}
		var name string
		var after []byte
		if len(changed) == 1 {
			name = changed[0]
			if pre[name].big {
				skipNote("erase: marker inside a big file (torn images of that marker not built)")
				return imgs
			}
			after = post[name].data
		} else {
			name = removed[0]
			if pre[name].big {
				skipNote("erase: marker inside a big file (torn images of that marker not built)")
				return imgs
			}
			after, _ = os.ReadFile(filepath.Join(keepDir, name))
		}
		before := pre[name].data
		if len(after) != len(before) {
			skipNote("erase: file length changed")
			return imgs
		}
		lo, hi := -1, -1
		for i := range before {
			if before[i] != after[i] {
				if lo < 0 {
					lo = i
				}
				hi = i
			}
		}
		files0, links, ok := base(pre, map[string]bool{name: true})
		if !ok {
			skipNote("erase: big file changed")
			return imgs
		}
		mk := func(content []byte) map[string][]byte {
			m := map[string][]byte{}
			for k, v := range files0 {
				m[k] = v
			}
			m[name] = content
			return m
		}
		exp := markOpt(preExp, target)
		tpos := int64(lo)
		if target != nil && target.file == name {
			tpos = target.pos
		}
		if lo >= 0 {
			for k := 1; k <= hi-lo; k++ {
				c := append([]byte(nil), before...)
				copy(c[lo:lo+k], after[lo:lo+k])
				imgs = append(imgs, c09Image{kind: "torn-erase-marker", desc: fmt.Sprintf("erase marker torn: %d byte(s) of the overwrite starting at record offset %d are on disk (bytes %x over %x)", int64(lo)-tpos+int64(k), tpos, after[lo:lo+k], before[lo:hi+1]),
					files: mk(c), links: links, tornFile: name, tornPos: tpos, exp: exp, erased: erasedPre})
			}
		}
		if len(removed) == 1 {
			imgs = append(imgs, c09Image{kind: "crash-during-file-removal", desc: "erase marker complete, fully erased file not removed yet", files: mk(after), links: links, tornFile: name, tornPos: tpos, exp: exp, erased: erasedPre})
		}
	default:
		if len(created)+len(changed) != 0 {
			skipNote(o.String() + ": unexpected write")
			return imgs
		}
		skip := map[string]bool{}
		for j := 0; j+1 < len(removed); j++ {
			skip[removed[j]] = true
			cp := map[string]bool{}
			for k := range skip {
				cp[k] = true
			}
			if files, links, ok := base(pre, cp); ok {
				imgs = append(imgs, c09Image{kind: "crash-during-file-removal", desc: fmt.Sprintf("%d of %d fully erased files removed", j+1, len(removed)), files: files, links: links, exp: preExp, erased: erasedPre})
			}
		}
	}
	return imgs
}

// c09BuildCallImages derives crash images from the RECORDED calls of the final operation instead of from the
// before/after difference: the cache issued calls[0..n-1] (create, WriteAt(offset, bytes), remove) in this order;
// a crash leaves the directory with calls[0..i-1] applied completely and, when call i is a WriteAt, its first k
// bytes (every i, every 0 < k < len). A WriteAt beyond the end of the file extends it; bytes nobody wrote yet
// read as zero (file hole). No assumption about which call writes what or in which direction the file grows:
// the order and the offsets are the code's own. Expectation: the reference before the call, with the second the
// interrupted call put (or erases) as the only optional one.
func c09BuildCallImages(o c09Op, dir string, pre, post c09Snap, calls []c09os.Call, preExp []c09Exp, erasedPre []*c09Rec, newRec, target *c09Rec, notes *[]string) (imgs []c09Image, explained bool) {
	explained = true
	if len(calls) == 0 {
		return nil, c09SameSnap(pre, post)
	}
	cur := map[string][]byte{}
	linked := map[string]bool{}
	for _, n := range c09Names(pre) {
		if pre[n].big {
			linked[n] = true
		} else {
			cur[n] = pre[n].data
		}
	}
	var descs []string
	putPos := int64(-1)
	for _, c := range calls {
		n := filepath.Base(c.Path)
		if filepath.Dir(c.Path) != dir {
			*notes = append(*notes, "recorded call outside the shard directory of the operation (call images not built)")
			return nil, false
		}
		if linked[n] || c.Off+int64(len(c.Data)) > c09BigFile {
			*notes = append(*notes, "recorded call touches a big file (call images of that operation not built)")
			return nil, true
		}
		switch c.Kind {
		case c09os.CallCreate:
			descs = append(descs, "create "+n)
		case c09os.CallRemove:
			descs = append(descs, "remove "+n)
		case c09os.CallWrite:
			descs = append(descs, fmt.Sprintf("WriteAt(%d bytes, offset %d) %s", len(c.Data), c.Off, n))
			if putPos < 0 || c.Off < putPos {
				putPos = c.Off
			}
		}
	}
	all := strings.Join(descs, "; ")
	var exp []c09Exp
	switch {
	case o.kind == c09Put && newRec != nil:
		exp = append(append([]c09Exp(nil), preExp...), c09Exp{rec: newRec, optional: true})
	case o.kind == c09Erase:
		exp = append([]c09Exp(nil), preExp...)
		for i := range exp {
			if exp[i].rec == target {
				exp[i].optional = true
			}
		}
	default:
		exp = preExp
	}
	emit := func(desc, tornFile string, off int64) {
		files := map[string][]byte{}
		for k, v := range cur {
			files[k] = v
		}
		var links []string
		for _, n := range c09Names(pre) {
			if linked[n] {
				links = append(links, n)
			}
		}
		tpos := off
		switch {
		case o.kind == c09Put:
			tpos = putPos // start of the record, wherever its first written byte lies
		case o.kind == c09Erase && target != nil && target.file == tornFile:
			tpos = target.pos
		}
		imgs = append(imgs, c09Image{kind: "torn-call", desc: desc + " [calls of the operation in issue order: " + all + "]",
			files: files, links: links, tornFile: tornFile, tornPos: tpos, exp: exp, erased: erasedPre})
	}
	overlay := func(old []byte, off int64, data []byte) []byte {
		n := int64(len(old))
		if e := off + int64(len(data)); e > n {
			n = e
		}
		out := make([]byte, n) // holes read as zero
		copy(out, old)
		copy(out[off:], data)
		return out
	}
	for i, c := range calls {
		n := filepath.Base(c.Path)
		switch c.Kind {
		case c09os.CallCreate:
			cur[n] = []byte{}
		case c09os.CallRemove:
			delete(cur, n)
			delete(linked, n)
		case c09os.CallWrite:
			old, ok := cur[n]
			if !ok {
				*notes = append(*notes, "recorded WriteAt to a file that is not in the directory (call images not built)")
				return imgs, false
			}
			for k := 1; k < len(c.Data); k++ {
				cur[n] = overlay(old, c.Off, c.Data[:k])
				emit(fmt.Sprintf("crash after %d of %d calls and %d of %d bytes of call %d (%s)", i, len(calls), k, len(c.Data), i+1, descs[i]), n, c.Off)
			}
			cur[n] = overlay(old, c.Off, c.Data)
		}
		if i < len(calls)-1 {
			emit(fmt.Sprintf("crash after %d of %d calls (last applied: %s)", i+1, len(calls), descs[i]), n, c.Off)
		}
	}
	// self-check of the recorder: all calls applied to the pre-call directory must give the post-call directory
	for _, n := range c09Names(post) {
		if post[n].big {
			continue
		}
		if c, ok := cur[n]; !ok || !bytes.Equal(c, post[n].data) {
			explained = false
		}
	}
	for n := range cur {
		if _, ok := post[n]; !ok {
			explained = false
		}
	}
	return imgs, explained
}

// c09SameSnap: same file names with the same bytes (big files: same length and headers).
func c09SameSnap(a, b c09Snap) bool {
	if len(a) != len(b) {
		return false
	}
	for n, x := range a {
		y, ok := b[n]
		if !ok || x.size != y.size || x.big != y.big {
			return false
		}
		if x.big {
			if !c09SameHdrs(x.hdrs, y.hdrs) {
				return false
			}
		} else if !bytes.Equal(x.data, y.data) {
			return false
		}
	}
	return true
}

func c09SameHdrs(a, b []c09Disk) bool {
	if len(a) != len(b) {
		return false
	}
	for i := range a {
		if a[i].pos != b[i].pos || a[i].hdr != b[i].hdr {
			return false
		}
	}
	return true
}

func c09SameBig(a, b *c09SnapFile) bool {
	return a.big && b.big && a.size == b.size && c09SameHdrs(a.hdrs, b.hdrs)
}

// c09ImgSeen de-duplicates crash images: the verdict of an image is a function of the directory bytes and the
// expected list only, and many transitions (other shard's state, in-memory state) produce the same image.
var c09ImgSeen sync.Map

func c09ImageKey(img *c09Image, bigHdrs map[string][]c09Disk) string {
	return c09ImageKeyKind(img, bigHdrs, img.kind)
}

// c09ImageKeyKind: kind "" gives the key of what the verdict depends on (directory bytes + expectation) only.
func c09ImageKeyKind(img *c09Image, bigHdrs map[string][]c09Disk, kind string) string {
	h := sha256.New()
	var names []string
	for n := range img.files {
		names = append(names, n)
	}
	names = append(names, img.links...)
	sort.Strings(names) // names are creation times: rank is what matters
	for i, n := range names {
		if c, ok := img.files[n]; ok {
			fmt.Fprintf(h, "f%d:%d:", i, len(c))
			h.Write(c)
		} else {
			fmt.Fprintf(h, "L%d:", i)
			for _, d := range bigHdrs[n] {
				h.Write(d.hdr[:])
			}
		}
	}
	fmt.Fprintf(h, "|%s|", kind)
	for _, e := range img.exp {
		fmt.Fprintf(h, "e%d,%v,%d:", e.rec.sec, e.optional, len(e.rec.data))
		if len(e.rec.data) <= 4096 {
			h.Write(e.rec.data)
		}
	}
	for _, e := range img.erased {
		fmt.Fprintf(h, "x%d,%d:", e.sec, len(e.data))
		if len(e.data) <= 4096 {
			h.Write(e.data)
		}
	}
	return string(h.Sum(nil))
}

// c09CheckImage materialises one crash image, reopens it with the real recovery path, drains it and evaluates
// the statement. It returns the violation (nil = held) and a summary of what was re-read (outcome key).
func c09CheckImage(img *c09Image, keepDir string, bigHdrs map[string][]c09Disk) (viol *c09Viol, outcome string) {
	root, err := c09GetDir("i", "0")
	if err != nil {
		return &c09Viol{"INFRA", err.Error()}, ""
	}
	dir := filepath.Join(root, "0")
	defer c09PutDir("i", root, "0")
	for n, c := range img.files {
		if err := os.WriteFile(filepath.Join(dir, n), c, 0o666); err != nil {
			return &c09Viol{"INFRA", err.Error()}, ""
		}
	}
	for _, n := range img.links {
		if err := os.Link(filepath.Join(keepDir, n), filepath.Join(dir, n)); err != nil {
			return &c09Viol{"INFRA", err.Error()}, ""
		}
	}
	defer func() {
		// recovery may have written erase markers into a linked big file: put the headers back
		for _, n := range img.links {
			if f, err := os.OpenFile(filepath.Join(keepDir, n), os.O_RDWR, 0); err == nil {
				for _, h := range bigHdrs[n] {
					_, _ = f.WriteAt(h.hdr[:], h.pos)
				}
				_ = f.Close()
			}
		}
	}()
	fail := func(what, format string, a ...any) *c09Viol {
		return &c09Viol{"C09:" + img.kind + "-" + what, fmt.Sprintf(format, a...) + " | image: " + img.desc}
	}
	// which files carry at least one complete record (independent parse, before recovery touches anything)
	hasRecords := map[string]bool{}
	for n, c := range img.files {
		recs, _ := c09Parse(bytes.NewReader(c), int64(len(c)))
		hasRecords[n] = len(recs) > 0
	}
	for _, n := range img.links {
		hasRecords[n] = len(bigHdrs[n]) > 0
	}
	sh, err := makeDiscCacheShard(dir, c09Logf)
	if err != nil {
		return fail("reopen-error", "reopening failed: %v", c09Stable(err)), ""
	}
	defer sh.Close()
	type gotT struct {
		sec  uint32
		data []byte
		id   int64
	}
	var got []gotT
	var pad []byte
	var sum strings.Builder
	for n := 0; ; n++ {
		sec, id := sh.ReadNextTailSecond()
		if id == 0 {
			break
		}
		if n > 10000 {
			return fail("drain-does-not-end", "ReadNextTailSecond keeps returning seconds"), ""
		}
		if kb := sh.knownBuckets[id]; kb != nil && kb.size > 4096 && img.kind != "restart" && kb.size <= len(c09BigBuf) {
			// the 50 MB second of the rotation part is unchanged in every torn image; its bytes are compared in the
			// "restart" image of the same transition, here only second and length (saves reading 50 MB per image)
			got = append(got, gotT{sec, c09BigBuf[:kb.size], id})
			fmt.Fprintf(&sum, "(%d:%d)", sec, kb.size)
			continue
		}
		data, err := sh.GetBucket(id, sec, &pad)
		if err != nil {
			fmt.Fprintf(&sum, "(%d:unreadable)", sec)
			continue // the cache refused it (and erased it): it counts as not re-read
		}
		if len(data) > 4096 && len(data) <= len(c09BigBuf) && bytes.Equal(data, c09BigBuf[:len(data)]) {
			got = append(got, gotT{sec, c09BigBuf[:len(data)], id}) // do not copy the 50 MB second
		} else {
			got = append(got, gotT{sec, append([]byte(nil), data...), id})
		}
		fmt.Fprintf(&sum, "(%d:%d)", sec, len(data))
		if len(data) <= 4096 {
			// get is an operation of the history after the crash as well: a get of the re-read id that names another
			// second (answered or refused) must leave the second where it is
			kept := got[len(got)-1].data
			_, errW := sh.GetBucket(id, sec+1, &pad)
			again, err2 := sh.GetBucket(id, sec, &pad)
			if err2 != nil || !bytes.Equal(again, kept) {
				how := "answered"
				if errW != nil {
					how = "refused"
				}
				return fail(how+"-get-drops-second", "re-read second %d (id %d, %d bytes) is no longer returned after a %s GetBucket(id %d, second %d): %v", sec, id, len(kept), how, id, sec+1, c09Stable(err2)), sum.String()
			}
		}
	}
	match := func(g gotT, r *c09Rec) bool { return g.sec == r.sec && bytes.Equal(g.data, r.data) }
	missing := func(r *c09Rec) *c09Viol {
		what := "loses-seconds"
		if img.tornFile != "" {
			switch {
			case r.file == img.tornFile && r.pos > img.tornPos:
				what = "drops-later-seconds"
			case r.file == img.tornFile && r.pos < img.tornPos:
				what = "drops-earlier-seconds"
			default:
				what = "loses-seconds-of-other-file"
			}
		}
		return fail(what, "live second %d (%d bytes, record offset %d) is not re-read after reopening; re-read: %s", r.sec, len(r.data), r.pos, sum.String())
	}
	// seconds with equal time and equal bytes (empty payloads) are indistinguishable: accept any alignment of the
	// re-read list with the expected list in which only optional entries are skipped; the greedy walk below is
	// only used to describe a failure
	var align func(i, j int) bool
	align = func(i, j int) bool {
		if i == len(got) {
			for ; j < len(img.exp); j++ {
				if !img.exp[j].optional {
					return false
				}
			}
			return true
		}
		if j == len(img.exp) {
			return false
		}
		if match(got[i], img.exp[j].rec) && align(i+1, j+1) {
			return true
		}
		return img.exp[j].optional && align(i, j+1)
	}
	if !align(0, 0) {
		// Is it only a loss? Name it by where the lost seconds lie relative to the torn write (seconds with equal
		// time and bytes are indistinguishable, so this is decided by alignment, not by the greedy walk).
		saved := append([]c09Exp(nil), img.exp...)
		var firstLost *c09Rec
		relax := func(class func(r *c09Rec) bool) bool {
			for k := range img.exp {
				if !img.exp[k].optional && class(img.exp[k].rec) {
					img.exp[k].optional = true
					if firstLost == nil {
						firstLost = img.exp[k].rec
					}
				}
			}
			return align(0, 0)
		}
		what := ""
		switch {
		case img.tornFile == "" && relax(func(*c09Rec) bool { return true }):
			what = "loses-seconds"
		case img.tornFile == "":
		case relax(func(r *c09Rec) bool { return r.file == img.tornFile && r.pos > img.tornPos }):
			what = "drops-later-seconds"
		case relax(func(r *c09Rec) bool { return r.file == img.tornFile }):
			what = "drops-earlier-seconds"
		case relax(func(*c09Rec) bool { return true }):
			what = "loses-seconds-of-other-file"
		}
		copy(img.exp, saved)
		if what != "" {
			return fail(what, "live seconds are not re-read after reopening (first candidate: second %d, %d bytes, record offset %d); re-read: %s", firstLost.sec, len(firstLost.data), firstLost.pos, sum.String()), sum.String()
		}
	}
	j := 0
	for i := 0; i < len(got) && !align(0, 0); {
		g := got[i]
		if j < len(img.exp) && match(g, img.exp[j].rec) {
			i++
			j++
			continue
		}
		if j < len(img.exp) && img.exp[j].optional {
			j++
			continue
		}
		for _, e := range img.erased {
			if match(g, e) {
				return fail("returns-erased-second", "erased second %d (%d bytes) is re-read after reopening; re-read: %s", g.sec, len(g.data), sum.String()), sum.String()
			}
		}
		later := false
		for k := j + 1; k < len(img.exp); k++ {
			if match(g, img.exp[k].rec) {
				later = true
			}
		}
		if later {
			return missing(img.exp[j].rec), sum.String()
		}
		for k := 0; k < j && k < len(img.exp); k++ {
			if match(g, img.exp[k].rec) {
				return fail("wrong-order", "second %d re-read out of write order or twice; re-read: %s", g.sec, sum.String()), sum.String()
			}
		}
		return fail("returns-corrupted-data", "re-read second %d with %d bytes that no put wrote; re-read: %s", g.sec, len(g.data), sum.String()), sum.String()
	}
	for ; j < len(img.exp) && !align(0, 0); j++ {
		if !img.exp[j].optional {
			return missing(img.exp[j].rec), sum.String()
		}
	}
	if !align(0, 0) {
		return fail("mismatch", "re-read list does not equal the live seconds in write order; re-read: %s", sum.String()), sum.String()
	}
	// accounting after the tail is fully re-read
	var knownBytes int64
	for _, g := range got {
		knownBytes += c09Header + int64(len(g.data))
	}
	total, unsent := sh.TotalFileSize()
	list := c09List(dir)
	var d int64
	for _, f := range list {
		d += f.size
	}
	if total != d {
		return fail("size-total", "reported total size %d, files on disk have %d bytes", total, d), sum.String()
	}
	if unsent != knownBytes {
		return fail("size-unsent", "reported unsent size %d, re-read live seconds are %d bytes", unsent, knownBytes), sum.String()
	}
	for _, f := range list {
		recs, _, _, _ := c09ParseFile(filepath.Join(dir, f.name))
		good := 0
		for _, d := range recs {
			if d.magic == c09MagicGood {
				good++
			}
		}
		if len(recs) > 0 && good == 0 {
			return fail("file-not-deleted", "a file whose %d seconds are all erased still exists after the tail was fully re-read", len(recs)), sum.String()
		}
	}
	// erase everything that was re-read: every file that held seconds must disappear
	for _, g := range got {
		_ = sh.EraseBucket(g.id)
	}
	list = c09List(dir)
	d = 0
	for _, f := range list {
		d += f.size
		if hasRecords[f.name] {
			return fail("file-not-deleted", "after erasing every re-read second a file with seconds (%d bytes) still exists", f.size), sum.String()
		}
	}
	total, unsent = sh.TotalFileSize()
	if total != d || unsent != 0 {
		return fail("size-total", "after erasing everything: reported total %d unsent %d, files on disk have %d bytes", total, unsent, d), sum.String()
	}
	return nil, sum.String()
}

// ---------------------------------------------------------------------------------------------------------
// BFS driver

type c09Part struct {
	name    string
	ops     []c09Op
	prefix  []c09Op
	depth   int
	workers int
}

type c09Counters struct {
	images, dupImages atomic.Int64
	sameAsDiff        atomic.Int64 // call images identical to a diff-based image of the same transition
	mu                sync.Mutex
	notes             map[string]int
	kinds             map[string]int
}

func (w *c09World) expList(s int) (exp []c09Exp, erased []*c09Rec) {
	for _, x := range w.sh[s].recs {
		if x.erased {
			erased = append(erased, x)
		} else {
			exp = append(exp, c09Exp{rec: x})
		}
	}
	return
}

func c09Run(rep *mc.Report, part *c09Part, cnt *c09Counters, hist []int) mc.StepResult {
	w, err := c09NewWorld()
	if err != nil {
		rep.Infra("c09: cannot create world: " + err.Error())
		return mc.StepResult{}
	}
	defer w.destroy()
	bad := func(v *c09Viol) mc.StepResult {
		return mc.StepResult{Applicable: true, Key: "violation", Verdict: mc.Verdict{Violation: v.desc, Sig: v.sig, Detail: map[string]any{"part": part.name, "history": append([]string(nil), w.hist...)}}}
	}
	for _, o := range part.prefix {
		if v := w.apply(o, len(hist) == 0); v != nil {
			return bad(v)
		}
	}
	for i, code := range hist {
		o := part.ops[code]
		if !w.applicable(o) {
			return mc.StepResult{Applicable: false}
		}
		if i < len(hist)-1 {
			if v := w.apply(o, false); v != nil {
				return bad(v) // cannot happen: the parent state was explored without violation
			}
			continue
		}
		// final call: snapshot, apply, diff, tear
		if o.kind == c09Restart || o.kind == c09Clock || o.kind == c09Get {
			// (a get must not touch the disk - apply compares the directory before and after - so there is no
			// write to tear; the image of the unchanged directory was audited by the transition that produced it)
			if v := w.apply(o, true); v != nil {
				return bad(v)
			}
			break
		}
		s := o.shard
		keepDir := filepath.Join(w.root, "keep")
		pre := c09TakeSnap(w.shardDir(s), keepDir)
		preExp, erasedPre := w.expList(s)
		erasedPre = append([]*c09Rec(nil), erasedPre...)
		var target *c09Rec
		if o.kind == c09Erase {
			target = w.sh[s].known[o.id]
		}
		if v := w.apply(o, true); v != nil {
			return bad(v)
		}
		post := c09TakeSnap(w.shardDir(s), "")
		postExp, erasedPost := w.expList(s)
		if target != nil {
			erasedPost = append(erasedPost, target) // its file may be gone already
		}
		var newRec *c09Rec
		if o.kind == c09Put && len(w.sh[s].recs) > 0 {
			newRec = w.sh[s].recs[len(w.sh[s].recs)-1]
		}
		key := w.key()
		nontrivial := len(w.sh[s].recs) >= 2 || len(erasedPost) > 0
		_ = w.d.Close()
		w.d = nil
		var notes []string
		imgs := c09BuildImages(o, pre, post, keepDir, preExp, postExp, erasedPre, erasedPost, newRec, target, &notes)
		var callImgs []c09Image
		if c09OsSeam {
			var explained bool
			callImgs, explained = c09BuildCallImages(o, w.shardDir(s), pre, post, w.calls, preExp, erasedPre, newRec, target, &notes)
			if !explained {
				rep.Infra("c09: the recorded calls of the final operation do not reproduce the post-call directory (recorder incomplete): " + strings.Join(w.hist, " "))
			}
		}
		bigHdrs := map[string][]c09Disk{}
		for n, f := range post {
			if f.big {
				bigHdrs[n] = f.hdrs
			}
		}
		for n, f := range pre {
			if _, ok := bigHdrs[n]; !ok && f.big {
				recs, _, _, _ := c09ParseFile(filepath.Join(keepDir, n))
				bigHdrs[n] = recs
			}
		}
		// a call image whose directory bytes and expectation equal an image the diff-based families built for the
		// same transition has the same verdict: checked once (under the older family's name)
		if len(callImgs) > 0 {
			have := map[string]bool{}
			for k := range imgs {
				have[c09ImageKeyKind(&imgs[k], bigHdrs, "")] = true
			}
			for k := range callImgs {
				ck := c09ImageKeyKind(&callImgs[k], bigHdrs, "")
				if have[ck] {
					cnt.sameAsDiff.Add(1)
					continue
				}
				have[ck] = true
				imgs = append(imgs, callImgs[k])
			}
		}
		cnt.mu.Lock()
		for _, n := range notes {
			cnt.notes[n]++
		}
		cnt.mu.Unlock()
		for k := range imgs {
			if mc.Expired() {
				rep.Cap("wall_budget")
				break
			}
			img := &imgs[k]
			if _, dup := c09ImgSeen.LoadOrStore(c09ImageKey(img, bigHdrs), true); dup {
				cnt.dupImages.Add(1)
				continue
			}
			v, out := c09CheckImage(img, keepDir, bigHdrs)
			cnt.images.Add(1)
			cnt.mu.Lock()
			cnt.kinds[img.kind]++
			cnt.mu.Unlock()
			rep.Outcome(img.kind + ":" + out)
			if v == nil {
				continue
			}
			if v.sig == "INFRA" {
				rep.Infra("c09 image: " + v.desc)
				continue
			}
			// determinism: the same image must fail the same way again
			for r := 0; r < 2; r++ {
				v2, _ := c09CheckImage(img, keepDir, bigHdrs)
				if v2 == nil || v2.sig != v.sig || v2.desc != v.desc {
					rep.Infra(fmt.Sprintf("c09: nondeterministic image verdict: %v then %v", v, v2))
				}
			}
			rep.Violate(v.sig, v.desc+" | history: "+strings.Join(w.hist, " "), map[string]any{"part": part.name, "history": append([]string(nil), w.hist...), "image": img.desc})
		}
		return mc.StepResult{Applicable: true, Key: key, Nontrivial: nontrivial}
	}
	nt := false
	for s := range w.sh {
		_, er := w.expList(s)
		if len(w.sh[s].recs) >= 2 || len(er) > 0 {
			nt = true
		}
	}
	return mc.StepResult{Applicable: true, Key: w.key(), Nontrivial: nt}
}

func c09CoreOps(maxID int, clock bool) []c09Op {
	var ops []c09Op
	for s := 0; s < c09NumShards; s++ {
		// 4 of the 6 (second, size) pairs: both seconds, all three sizes, the same second twice with equal and different sizes
		for _, v := range []c09Op{{sec: 100, size: 0}, {sec: 100, size: 37}, {sec: 101, size: 1}, {sec: 101, size: 37}} {
			ops = append(ops, c09Op{kind: c09Put, shard: s, sec: v.sec, size: v.size})
		}
	}
	for s := 0; s < c09NumShards; s++ {
		for id := 1; id <= maxID; id++ {
			ops = append(ops, c09Op{kind: c09Erase, shard: s, id: int64(id)})
		}
	}
	for s := 0; s < c09NumShards; s++ {
		ops = append(ops, c09Op{kind: c09Tail, shard: s})
	}
	for s := 0; s < c09NumShards; s++ {
		for id := 1; id <= maxID; id++ {
			ops = append(ops, c09Op{kind: c09Get, shard: s, id: int64(id)}, c09Op{kind: c09Get, shard: s, id: int64(id), wrong: true})
		}
	}
	ops = append(ops, c09Op{kind: c09Restart})
	if clock {
		ops = append(ops, c09Op{kind: c09Clock})
	}
	return ops
}

func c09RotOps(maxID int) []c09Op {
	var ops []c09Op
	for _, n := range []int{0, 1, 37} {
		ops = append(ops, c09Op{kind: c09Put, shard: 0, sec: 101, size: n})
	}
	for id := 1; id <= maxID; id++ {
		ops = append(ops, c09Op{kind: c09Erase, shard: 0, id: int64(id)})
		ops = append(ops, c09Op{kind: c09Get, shard: 0, id: int64(id)}, c09Op{kind: c09Get, shard: 0, id: int64(id), wrong: true})
	}
	return append(ops, c09Op{kind: c09Tail, shard: 0}, c09Op{kind: c09Restart})
}

// c09OsSeam: disk_cache.go reaches the file system through internal/verif_c09os (its calls can be recorded).
var c09OsSeam bool

func c09OsSeamActive() bool {
	w, err := c09NewWorld()
	if err != nil {
		return false
	}
	defer w.destroy()
	c09os.Start()
	_, err = w.d.PutBucket(0, 100, []byte{1})
	calls := c09os.Stop()
	return err == nil && len(calls) > 0
}

// c09SeamActive reports whether disk_cache.go names its files from the harness's virtual clock.
func c09SeamActive() bool {
	w, err := c09NewWorld()
	if err != nil {
		return false
	}
	defer w.destroy()
	if _, err := w.d.PutBucket(0, 100, []byte{1}); err != nil {
		return false
	}
	want := time.Unix(0, c09ClockBase+int64(time.Millisecond)).UTC().Format(dtFormat) + ".seconds"
	l := c09List(w.shardDir(0))
	return len(l) == 1 && l[0].name == want
}

func TestVerifC09(t *testing.T) {
	rep := mc.NewReport("C09")
	defer func() {
		if err := rep.Write(); err != nil {
			t.Fatal(err)
		}
	}()
	if err := os.MkdirAll(c09Scratch(), 0o777); err != nil {
		t.Fatal(err)
	}
	defer os.RemoveAll(c09Scratch())
	// self-check of the reference format reader against the package's constants (a format change needs a new harness)
	if magicGoodBucket != c09MagicGood || magicDeletedBucket != c09MagicDeleted || headerSize != c09Header {
		rep.Infra("c09: on-disk format constants changed; the harness's independent reader must be updated")
		return
	}
	seam := c09SeamActive()
	c09OsSeam = c09OsSeamActive()
	if !c09OsSeam {
		rep.Infra("c09: file-system seam inactive (disk_cache.go does not run through internal/verif_c09os): crash images from recorded write calls cannot be built")
	}
	small := fileRotateSize <= c09BigFile // instrumented copy with a small rotation size: rotation is part of the core alphabet
	coreDepth := mc.Pick(4, 6)
	rotDepth := mc.Pick(2, 3)
	bigLen := fileRotateSize - 2*c09Header - 1 // a 1-byte put then fills the file to exactly fileRotateSize
	rep.Rule = "explicit-state BFS over operation histories on the real DiskBucketStorage in a real directory; state = directory bytes + all shard fields + reference; " +
		"in every state GetBucket of every id is compared, and GetBucket(id, stored second | other second) is itself an operation of the history (answered or refused it must leave files, sizes and every later answer unchanged); for the final call of every transition that changed the disk, every crash image (each byte prefix of the appended header+body, each prefix of the erase-marker overwrite, " +
		"each point between file creation/removal, plus length-first zero-tail images of the body; and, from the recorded create/WriteAt(offset, bytes)/remove calls of the operation in issue order, every prefix of the call list with the last applied WriteAt cut at every byte, unwritten bytes of the file zero) is reopened through makeDiscCacheShard/ReadNextTailSecond/GetBucket and compared with the reference list. " +
		"non-trivial = the shard of the final call holds at least two seconds or an erased second (operations interact through the same file)"
	rep.Bounds["core_depth"] = coreDepth
	rep.Bounds["core_alphabet"] = "put(shard 0/1, (second,payload) in {(100,0 B),(100,37 B),(101,1 B),(101,37 B)}), erase(shard,id<=depth-1), readNextTail(shard), get(shard,id<=depth-1,second in {stored, the other one}), restart, clock+1h; GetBucket(every id) as observer in every state; in every crash image each re-read second is also asked for with another second"
	rep.Bounds["file_rotate_size"] = fileRotateSize
	rep.Bounds["clock_seam_active"] = seam
	rep.Bounds["write_call_recorder_active"] = c09OsSeam
	rep.Assume("crash model of the torn-call images: the file-changing calls of the interrupted operation reach the disk in issue order, the last one that reached it possibly only with a byte prefix; a byte of the file that no call wrote yet reads as zero (hole); no reordering between calls, no sub-call reordering")
	rep.Assume("torn-write model of the diff-based images: the appended bytes reach the file front to back; a crash leaves a byte prefix; in-place overwrite of the erase marker leaves a prefix of the overwritten bytes")
	rep.Assume("additional length-first images (file length already final, rest of the BODY zero) exercise the body crc; the same model inside the header is not asserted (statement leaves it open)")
	if seam {
		rep.Assume("disk_cache.go runs as an instrumented copy of the working tree (tools/vinstr): const fileRotateSize rewritten (50 MB -> " + fmt.Sprint(fileRotateSize) + " B) and import time -> harness clock (per-execution virtual clock, +1 ms per reading); nothing else is changed")
		rep.Assume("the clock only moves forward (+1 ms per reading, +1 h operation); wall-clock steps backwards (file names out of creation order) are outside the statement and not explored")
	} else {
		rep.Assume("no clock seam: rotation by age (fileRotateInterval 1 h) and file-name order under wall-clock steps are not reachable; executions last milliseconds")
	}

	cnt := &c09Counters{notes: map[string]int{}, kinds: map[string]int{}}
	parts := []*c09Part{{name: "core", ops: c09CoreOps(coreDepth-1, seam), depth: coreDepth}}
	if !small {
		// fallback when fileRotateSize is the real 50 MB: one genuinely large second makes rotation by size reachable
		rep.Bounds["rot_depth_after_prefix"] = rotDepth
		rep.Bounds["rot_prefix"] = fmt.Sprintf("put(shard 0, second 100, %d B) = fileRotateSize-41", bigLen)
		rep.Bounds["rot_alphabet"] = "put(second 101, payload 0/1/37 B), erase(id), get(id, stored/other second), readNextTail, restart on shard 0; get(every id) as observer"
		rep.Assume("in the rotation part, torn images of writes that land inside the 50 MB file itself are not built (the same writes are torn in the core part); images that contain it unchanged are")
		parts = append(parts, &c09Part{name: "rot", ops: c09RotOps(rotDepth), depth: rotDepth, workers: 4,
			prefix: []c09Op{{kind: c09Put, shard: 0, sec: 100, size: bigLen}}})
	}
	if os.Getenv("VERIF_C09_PART") != "" {
		var sel []*c09Part
		for _, p := range parts {
			if p.name == os.Getenv("VERIF_C09_PART") {
				sel = append(sel, p)
			}
		}
		parts = sel
	}
	for _, p := range parts {
		p := p
		st := mc.BFS(func(h []int) mc.StepResult { return c09Run(rep, p, cnt, h) }, mc.BFSOptions{NumOps: len(p.ops), MaxDepth: p.depth, Workers: p.workers})
		for i, h := range st.Samples {
			var s []string
			for _, c := range h {
				s = append(s, p.ops[c].String())
			}
			if i < 4 {
				rep.Sample(map[string]any{"part": p.name, "history": strings.Join(s, " ")})
			}
		}
		st.Samples = nil
		rep.MergeBFS(p.name, st)
	}
	n := cnt.images.Load()
	rep.AddCounts(n, n, 0, 0)
	rep.Parts["crash_images"] = map[string]any{"images": n, "identical_images_skipped": cnt.dupImages.Load(), "call_images_identical_to_a_diff_image_of_the_same_transition": cnt.sameAsDiff.Load(), "by_kind": cnt.kinds, "transitions_with_limited_tearing": cnt.notes}
	t.Logf("C09: images=%d kinds=%v notes=%v violations=%d", n, cnt.kinds, cnt.notes, rep.NumViolations())
}
