//go:build verif

package agent

// C10 (agent side and API side): shard and replica routing is deterministic and consistent.
//
// Part "shard": full enumeration of sharding configurations x shard counts x by-metric counts x keys x
// timestamps through the real Agent.shard (which calls the real sharding.Shard) and the real API-side
// MetricMetaValue.Sharded/Shard, against the clauses of the statement.
// Part "replica": every (shard count, shard, alive mask over all replicas, timestamp) through the real
// Agent.getShardReplicaForSecond.
//
// The third clause (aggregator rounding) lives in internal/aggregator/verif_c10_test.go (second run).

import (
	"fmt"
	"sync"
	"testing"

	"github.com/VKCOM/statshouse/internal/data_model"
	"github.com/VKCOM/statshouse/internal/format"
	"github.com/VKCOM/statshouse/internal/sharding"
	"github.com/VKCOM/statshouse/internal/verif/mc"
)

// c10NewAgent builds the part of a real Agent that routing reads: the shard list, the by-metric count and
// the replica list (3 per shard, keys as MakeAgent assigns them). Nothing else is touched by
// Agent.shard / Agent.getShardReplicaForSecond.
func c10NewAgent(numShards int, byMetric uint32) *Agent {
	a := &Agent{shardByMetricCount: byMetric}
	for i := 0; i < numShards; i++ {
		a.Shards = append(a.Shards, &Shard{agent: a, ShardNum: i, ShardKey: int32(i) + 1})
	}
	for i := 0; i < numShards*3; i++ {
		r := &ShardReplica{agent: a, ShardReplicaNum: i, ShardKey: int32(i/3) + 1, ReplicaKey: int32(i%3) + 1}
		r.alive.Store(true)
		a.ShardReplicas = append(a.ShardReplicas, r)
	}
	return a
}

type c10Route struct {
	ok     bool
	shard  int
	shard2 int // -1 = none
}

func (r c10Route) String() string {
	return fmt.Sprintf("ok=%v shard=%d shard2=%d", r.ok, r.shard, r.shard2)
}

func c10Shard(a *Agent, key *data_model.Key, meta *format.MetricMetaValue, scratch *[]byte) c10Route {
	s1, ok, s2 := a.shard(key, meta, scratch)
	r := c10Route{ok: ok, shard: -1, shard2: -1}
	if s1 != nil {
		r.shard = s1.ShardNum
	}
	if s2 != nil {
		r.shard2 = s2.ShardNum
	}
	return r
}

func c10ShardPart(rep *mc.Report) {
	strategies := []string{format.ShardByMetricID, format.ShardFixed, format.ShardByTagsHash, format.ShardBuiltinDist, "verif_unknown"}
	maxShards := mc.Pick(5, 7)
	maxFixedKey := uint32(mc.Pick(6, 9))  // 1-based, so reaches beyond every shard count
	maxShardNum := uint32(mc.Pick(5, 8))  // 0-based
	maxFixedKey2 := uint32(mc.Pick(6, 9)) // 1-based
	metrics := []int32{1, 2, 3, 7, 1000003, -1, -5, -1000, 2147483647, -2147483648}
	if !mc.Thorough() {
		metrics = []int32{1, 2, 7, 1000003, -5, -2147483648}
	}
	// tag variants: same metric, different tags (tags_hash must be able to spread them; the others must not care)
	type tagVar struct {
		tags  map[int]int32
		stags map[int]string
	}
	tagVars := []tagVar{
		{},
		{tags: map[int]int32{0: 1}},
		{tags: map[int]int32{1: 77, 2: -3}},
		{tags: map[int]int32{15: 5}, stags: map[int]string{3: "abc"}},
		{stags: map[int]string{47: "z"}},
		{tags: map[int]int32{1: 78, 2: -3}},
	}
	if !mc.Thorough() {
		tagVars = tagVars[:4]
	}
	timestamps := []uint32{0, 1, 2, 3, 1700000000, 1700000001, 1700000002, 4294967295}
	if !mc.Thorough() {
		timestamps = []uint32{0, 1, 1700000000, 1700000002, 4294967295}
	}
	ts2 := []uint32{0, 1700000001} // ShardFixedKey2Timestamp (must not matter for the choice of shards)
	rep.Bounds["shard_counts"] = fmt.Sprintf("1..%d x by-metric count 1..shards", maxShards)
	rep.Bounds["shard_fixed_key"] = fmt.Sprintf("0..%d", maxFixedKey)
	rep.Bounds["shard_num"] = fmt.Sprintf("0..%d", maxShardNum)
	rep.Bounds["shard_fixed_key2"] = fmt.Sprintf("0..%d x timestamp {0,set}", maxFixedKey2)
	rep.Bounds["strategies"] = len(strategies)
	rep.Bounds["metric_ids"] = len(metrics)
	rep.Bounds["tag_variants"] = len(tagVars)
	rep.Bounds["timestamps"] = len(timestamps)

	var tExecs, tNontrivial, tWithSecondary, tHashSpread int64
	var mu sync.Mutex
	var wg sync.WaitGroup
	tOutcomes := map[c10Route]bool{}
	// findings of the parallel units are buffered per unit and folded in unit order, so that the examples kept per
	// signature do not depend on goroutine timing
	type unitKey struct {
		n int
		b uint32
	}
	found := map[unitKey][]mc.FoundViolation{}
	for n := 1; n <= maxShards; n++ {
		for b := uint32(1); b <= uint32(n); b++ {
			wg.Add(1)
			go func(n int, b uint32) { // one unit of work per (shard count, by-metric count); own agent, own counters
				defer wg.Done()
				var execs, nontrivial, withSecondary, hashSpread int64
				outcomes := map[c10Route]bool{}
				scratch := make([]byte, 0, 256)
				a := c10NewAgent(n, b)
				var mine []mc.FoundViolation
				violate := func(sig, msg string, meta *format.MetricMetaValue, n int, b uint32, key *data_model.Key, got c10Route) {
					if len(mine) >= 50 {
						return
					}
					mine = append(mine, mc.FoundViolation{Sig: "C10:" + sig, Desc: fmt.Sprintf("%s: strategy=%q shard(fixed key)=%d shard_num=%d shard2=%d shards=%d by_metric_count=%d metric=%d ts=%d -> %s",
						msg, meta.ShardStrategy, meta.ShardFixedKey, meta.ShardNum, meta.ShardFixedKey2, n, b, key.Metric, key.Timestamp, got),
						Detail: map[string]any{"strategy": meta.ShardStrategy, "shard": meta.ShardFixedKey, "shard_num": meta.ShardNum, "shard2": meta.ShardFixedKey2,
							"shards": n, "by_metric_count": b, "metric": key.Metric, "timestamp": key.Timestamp, "tags": fmt.Sprint(key.Tags[:16])}})
				}
				for _, strategy := range strategies {
					hashShards := map[int]bool{}
					for fk := uint32(0); fk <= maxFixedKey; fk++ {
						for sn := uint32(0); sn <= maxShardNum; sn++ {
							for fk2 := uint32(0); fk2 <= maxFixedKey2; fk2++ {
								for _, t2 := range ts2 {
									if fk2 == 0 && t2 != 0 {
										continue
									}
									for _, metric := range metrics {
										meta := &format.MetricMetaValue{MetricID: metric, Name: "m", ShardStrategy: strategy, ShardNum: sn,
											ShardFixedKey: fk, ShardFixedKey2: fk2, ShardFixedKey2Timestamp: t2}
										for _, tv := range tagVars {
											var first c10Route
											for ti, ts := range timestamps {
												key := data_model.Key{Timestamp: ts, Metric: metric}
												for i, v := range tv.tags {
													key.Tags[i] = v
												}
												for i, v := range tv.stags {
													key.STags[i] = v
												}
												got := c10Shard(a, &key, meta, &scratch)
												execs++
												// determinism: same inputs, no scratch buffer -> same answer
												if again := c10Shard(a, &key, meta, nil); again != got {
													violate("shard-not-deterministic", fmt.Sprintf("second call gives %s", again), meta, n, b, &key, got)
												}
												// clause: within the configured shard count
												if got.shard < 0 || got.shard >= n || (got.shard2 != -1 && (got.shard2 < 0 || got.shard2 >= n)) {
													violate("shard-out-of-range", "agent shard outside the configured shard count", meta, n, b, &key, got)
												}
												// clause: does not depend on the event timestamp
												if ti == 0 {
													first = got
												} else if got != first {
													violate("shard-depends-on-timestamp", fmt.Sprintf("timestamp %d gave %s", timestamps[0], first), meta, n, b, &key, got)
												}
												// clause: a secondary shard, when configured, differs from the primary
												if got.shard2 != -1 && got.shard2 == got.shard {
													violate("secondary-equals-primary", "secondary shard equals the primary", meta, n, b, &key, got)
												}
												// clause: for fixed or by-metric sharding equals the shard the API reads from.
												// API side (chutil.selectCH): if meta.Sharded() { shard = meta.Shard(byMetricCount); if shard >= shards {all shards} }
												fixedOrByMetric := fk > 0 || strategy == format.ShardFixed || strategy == format.ShardByMetricID
												if fixedOrByMetric {
													if !meta.Sharded() {
														violate("api-not-sharded", "API treats a fixed/by-metric metric as not sharded", meta, n, b, &key, got)
													}
													api := meta.Shard(int(b))
													apiInRange := api >= 0 && api < n
													if got.ok && api != got.shard {
														violate("api-shard-differs", fmt.Sprintf("API reads shard %d", api), meta, n, b, &key, got)
													}
													if apiInRange && !got.ok {
														violate("api-shard-differs", fmt.Sprintf("API reads shard %d, agent has no valid shard", api), meta, n, b, &key, got)
													}
												}
												if ti == 0 {
													if got.ok {
														nontrivial++
													}
													if got.ok && got.shard2 != -1 {
														withSecondary++
													}
													if got.ok && fk == 0 && strategy == format.ShardByTagsHash {
														hashShards[got.shard] = true
													}
													outcomes[got] = true
												}
											}
										}
									}
								}
							}
						}
					}
					if strategy == format.ShardByTagsHash && len(hashShards) > 1 {
						hashSpread++
					}
				}
				mu.Lock()
				found[unitKey{n, b}] = mine
				tExecs, tNontrivial, tWithSecondary, tHashSpread = tExecs+execs, tNontrivial+nontrivial, tWithSecondary+withSecondary, tHashSpread+hashSpread
				for o := range outcomes {
					tOutcomes[o] = true
				}
				mu.Unlock()
			}(n, b)
		}
	}
	wg.Wait()
	for n := 1; n <= maxShards; n++ {
		for b := uint32(1); b <= uint32(n); b++ {
			for _, v := range found[unitKey{n, b}] {
				rep.Violate(v.Sig, v.Desc, v.Detail)
			}
		}
	}
	execs, nontrivial, withSecondary, hashSpread := tExecs, tNontrivial, tWithSecondary, tHashSpread
	for o := range tOutcomes {
		rep.Outcome("shard:" + o.String())
	}
	scratch := make([]byte, 0, 256)
	// sharding.Shard directly, through a nil and a non-nil scratch: same result, timestamp-free (this is the function other
	// components call), for the by-metric counts that the caller can pass
	var direct int64
	for _, strategy := range strategies {
		for b := uint32(1); b <= uint32(maxShards); b++ {
			for _, metric := range metrics {
				meta := &format.MetricMetaValue{MetricID: metric, ShardStrategy: strategy, ShardNum: 1}
				var first [2]any
				for ti, ts := range timestamps {
					key := data_model.Key{Timestamp: ts, Metric: metric}
					key.Tags[1] = 5
					s1, ok1 := sharding.Shard(&key, meta, b, nil)
					s2, ok2 := sharding.Shard(&key, meta, b, &scratch)
					direct++
					if s1 != s2 || ok1 != ok2 {
						rep.Violate("C10:shard-not-deterministic", fmt.Sprintf("sharding.Shard with and without scratch: %d/%v vs %d/%v (strategy %q metric %d)", s1, ok1, s2, ok2, strategy, metric), nil)
					}
					if ti == 0 {
						first = [2]any{s1, ok1}
					} else if first != [2]any{s1, ok1} {
						rep.Violate("C10:shard-depends-on-timestamp", fmt.Sprintf("sharding.Shard(strategy %q metric %d count %d): ts %d gives %d/%v, ts %d gives %v", strategy, metric, b, ts, s1, ok1, timestamps[0], first), nil)
					}
					if ok1 && (strategy == format.ShardByMetricID || strategy == format.ShardByTagsHash) && s1 >= b {
						rep.Violate("C10:shard-out-of-range", fmt.Sprintf("sharding.Shard(strategy %q metric %d) = %d with by-metric count %d", strategy, metric, s1, b), nil)
					}
				}
			}
		}
	}
	rep.AddCounts(execs+direct, execs+direct, (execs+direct)/int64(len(timestamps)), nontrivial)
	rep.Parts["shard"] = map[string]any{"agent_shard_calls": execs, "sharding_shard_calls": direct, "configs_with_valid_shard": nontrivial,
		"configs_with_secondary_shard": withSecondary, "tags_hash_settings_spreading_over_more_than_one_shard": hashSpread}
	rep.Sample(map[string]any{"part": "shard", "strategy": "fixed_shard", "shard_num": 2, "shards": 5,
		"agent": c10Shard(c10NewAgent(5, 5), &data_model.Key{Metric: 7}, &format.MetricMetaValue{MetricID: 7, ShardStrategy: format.ShardFixed, ShardNum: 2, ShardFixedKey2: 5}, nil).String(),
		"api":   (&format.MetricMetaValue{MetricID: 7, ShardStrategy: format.ShardFixed, ShardNum: 2}).Shard(5)})
	rep.Sample(map[string]any{"part": "shard", "strategy": "by metric id", "metric": -5, "shards": 5, "by_metric_count": 3,
		"agent": c10Shard(c10NewAgent(5, 3), &data_model.Key{Metric: -5}, &format.MetricMetaValue{MetricID: -5}, nil).String(),
		"api":   (&format.MetricMetaValue{MetricID: -5}).Shard(3)})
}

func c10ReplicaPart(rep *mc.Report) {
	maxShards := mc.Pick(2, 3) // alive mask over ALL replicas: 2^(3*shards)
	bases := []uint32{0, 6, 1700000000, 1700000003, 4294967284}
	span := uint32(mc.Pick(6, 12)) // consecutive seconds per base: covers every timestamp mod 6
	rep.Bounds["replica_shard_counts"] = fmt.Sprintf("1..%d, alive mask over all 3*shards replicas", maxShards)
	rep.Bounds["replica_timestamps"] = fmt.Sprintf("%d bases x %d consecutive seconds", len(bases), span)
	var execs, nontrivial int64
	for n := 1; n <= maxShards; n++ {
		a := c10NewAgent(n, uint32(n))
		total := 3 * n
		for shard := 0; shard < n; shard++ {
			for _, base := range bases {
				// spares seen per primary replica (index 0..2) over the consecutive seconds, with only the primary dead
				var spareSeen [3]map[int]bool
				for i := range spareSeen {
					spareSeen[i] = map[int]bool{}
				}
				for d := uint32(0); d < span; d++ {
					ts := base + d
					// reference: the primary of second ts is the replica that inserts second ts itself, i.e. the
					// aggregator whose replica key is ts%3+1 (aggregator.go goTicker: time%3 == replicaKey-1)
					wantPrimaryKey := int32(ts%3) + 1
					for mask := 0; mask < 1<<total; mask++ {
						for i, r := range a.ShardReplicas {
							r.alive.Store(mask&(1<<i) != 0)
						}
						got, spare := a.getShardReplicaForSecond(shard, ts)
						execs++
						again, spareAgain := a.getShardReplicaForSecond(shard, ts)
						fail := func(sig, msg string) {
							rep.Violate("C10:"+sig, fmt.Sprintf("%s: shards=%d shard=%d ts=%d (ts%%6=%d) alive mask=%0*b -> %s spare=%v", msg, n, shard, ts, ts%6, total, mask, c10ReplicaName(got), spare),
								map[string]any{"shards": n, "shard": shard, "timestamp": ts, "alive_mask": mask})
						}
						if again != got || spareAgain != spare {
							fail("replica-not-deterministic", "second call gives "+c10ReplicaName(again))
						}
						primary := a.ShardReplicas[shard*3+int(wantPrimaryKey-1)]
						primaryAlive := mask&(1<<(shard*3+int(wantPrimaryKey-1))) != 0
						if got != nil && got.ShardKey != int32(shard)+1 {
							fail("replica-of-other-shard", "replica of another shard chosen")
						}
						if primaryAlive {
							// each second goes to one primary replica
							if got != primary || spare {
								fail("primary-not-used", fmt.Sprintf("primary replica %d is alive but not chosen as primary", wantPrimaryKey))
							}
						} else {
							nontrivial++
							if got != nil {
								// its spare is always a different replica
								if got == primary || got.ReplicaKey == wantPrimaryKey {
									fail("spare-equals-primary", "spare replica is the (dead) primary")
								}
								if !spare {
									fail("spare-not-flagged", "a replica other than the primary was chosen but not flagged as spare")
								}
								// the spare of a second is a function of the second alone: compare with the all-others-alive answer
								spareSeen[wantPrimaryKey-1][int(got.ReplicaKey)] = true
							}
						}
						rep.Outcome(fmt.Sprintf("replica:%d:%s:%v", ts%6, c10ReplicaName(got), spare))
					}
				}
				// the two remaining replicas share spare traffic: over >= 6 consecutive seconds each of the two
				// non-primary replicas is the spare of some second with that primary
				for p := 0; p < 3; p++ {
					for other := 1; other <= 3; other++ {
						if other == p+1 {
							continue
						}
						if !spareSeen[p][other] {
							rep.Violate("C10:spare-traffic-not-shared", fmt.Sprintf("shards=%d shard=%d seconds %d..%d: replica %d never serves as spare for primary replica %d (spares seen: %v)",
								n, shard, base, base+span-1, other, p+1, c10Keys(spareSeen[p])), map[string]any{"shards": n, "shard": shard, "base": base, "primary": p + 1, "missing_spare": other})
						}
					}
				}
			}
		}
	}
	rep.AddCounts(execs, execs, execs, nontrivial)
	rep.Parts["replica"] = map[string]any{"calls": execs, "calls_with_dead_primary": nontrivial}
	a := c10NewAgent(1, 1)
	a.ShardReplicas[0].alive.Store(false)
	r0, s0 := a.getShardReplicaForSecond(0, 1700000001) // ts%3 = 0? 1700000001 % 3 == 0
	r3, s3 := a.getShardReplicaForSecond(0, 1700000004)
	rep.Sample(map[string]any{"part": "replica", "dead": "replica 1", "ts": 1700000001, "chosen": c10ReplicaName(r0), "spare": s0, "ts+3": c10ReplicaName(r3), "spare+3": s3})
}

func c10ReplicaName(r *ShardReplica) string {
	if r == nil {
		return "none"
	}
	return fmt.Sprintf("shard%d/replica%d", r.ShardKey, r.ReplicaKey)
}

func c10Keys(m map[int]bool) []int {
	var out []int
	for k := 1; k <= 3; k++ {
		if m[k] {
			out = append(out, k)
		}
	}
	return out
}

func TestVerifC10(t *testing.T) {
	rep := mc.NewReport("C10")
	rep.Rule = "agent/API part: every sharding configuration (5 strategies x shard(fixed key) x shard_num x shard2 x shard2_timestamp) x shard count x by-metric count x metric id x tag variant x timestamp through the real Agent.shard/sharding.Shard and MetricMetaValue.Sharded/Shard; every (shard count, shard, alive mask over all replicas, second) through the real getShardReplicaForSecond. Aggregator part (second run): every (replica key, recent window, oldest second mod 3, sent second - oldest, historic, spare) through the real handleSendSourceBucket. Non-trivial = configuration with a valid agent shard / second whose primary replica is dead / request that the aggregator accepted"
	rep.Assume("API and agents are configured with the same by-metric shard count (aggregator --shard-by-metric-shards == API --shard-by-metric-shards, 0 = all shards)")
	rep.Assume("chutil.selectCH's use of MetricMetaValue.Sharded/Shard (shard >= shards -> read all shards) is modelled, not executed: it needs ClickHouse connections")
	c10ShardPart(rep)
	c10ReplicaPart(rep)
	if err := rep.Write(); err != nil {
		t.Fatal(err)
	}
	t.Logf("C10 agent/API side: violations=%d", rep.NumViolations())
}
