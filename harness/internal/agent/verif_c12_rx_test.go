//go:build verif

package agent

// C12, receive-path family: events reach the agent the way the receivers deliver them.
//
// UDP.Serve, TCP.receiveLoop, the HTTP and the RPC handler each keep ONE tlstatshouse.AddMetricsBatchBytes, ONE data
// buffer and ONE scratch slice and parse every next packet into them; a handler gets &batch.Metrics[i] and everything
// it leaves in MappedMetricHeader (InvalidString, NotFoundTagName, FoundDraftTagName, InvalidRawValue, tag values)
// points into that memory. After HandleMetrics returns, the memory belongs to the receiver again. So what an event
// contributes to the shard bucket - its metric row, or the one ingestion-status record naming the reason - has to be a
// function of the event alone: it must not change when the receiver goes on using its buffers.
//
// Enumerated: every sequence of 1, 2 (and 3) events of an alphabet that has at least two different strings for every
// string-carrying status (invalid UTF-8 tag value / tag name / metric name, corrupted value, unknown metric, unknown
// tag name, draft tag name, unparsable raw value) plus accepted events with mapped, unmapped, host and string-top tag
// values, x every way of cutting the sequence into packets (events of one packet sit in different batch slots) x
// {buffers overwritten only by parsing the next packet, every receiver-owned byte overwritten after every packet}.
// Each packet is serialised to TL (statshouse.addMetricsBatch) into the one receive buffer, parsed with the real
// ReadTL1Boxed into the one batch, and every metric of it goes through the real Agent.Map / ApplyMetric. After the last
// packet every receiver-owned byte (batch strings and arrays up to their capacity, receive buffer, scratch) is
// overwritten; only then is the bucket read.
// Oracle: (1) the bucket - every row and every string-top entry separately, with its strings - equals the merge of what
// each event leaves when it is sent alone through private, never reused memory; (2) the reference of the stated
// semantics (c12Judge) on the rows.

import (
	"fmt"
	"sort"
	"strings"
	"sync"
	"sync/atomic"

	"github.com/VKCOM/statshouse/internal/data_model"
	"github.com/VKCOM/statshouse/internal/data_model/gen2/tlstatshouse"
	"github.com/VKCOM/statshouse/internal/format"
	"github.com/VKCOM/statshouse/internal/verif/mc"
)

// c12Entry is one aggregate of the bucket: a row's tail or one string-top value of it.
type c12Entry struct {
	id    string // row key and top value, strings included
	count float64
	sum   float64
}

func c12EntryID(b *data_model.MetricsBucket, it *data_model.MultiItem, top string) string {
	var sb strings.Builder
	fmt.Fprintf(&sb, "bucket=%d ts=%d metric=%d tags=%v", b.Time, it.Key.Timestamp, it.Key.Metric, it.Key.Tags[:5])
	for i, s := range it.Key.STags {
		if s != "" {
			fmt.Fprintf(&sb, " stag%d=%q", i, s)
		}
	}
	sb.WriteString(" top=" + top)
	return sb.String()
}

// c12CollectFull flushes the whole queue like c12Collect and returns the rows (summed over tail and tops, as the first
// two parts of the check see them) and every tail / string-top entry on its own. Entries are NOT merged by key: a map
// whose key was changed behind its back can hold two entries that read the same.
func c12CollectFull(a *Agent) ([]c12Row, []c12Entry) {
	var rows []c12Row
	var entries []c12Entry
	sh := a.Shards[0]
	for i := 0; i < superQueueLen; i++ {
		sh.FlushAllDataSingleStep(false)
		select {
		case b := <-sh.BucketsToPreprocess:
			for _, it := range b.MultiItems {
				r := c12Row{metric: it.Key.Metric, ts: it.Key.Timestamp, bucket: b.Time}
				copy(r.tags[:], it.Key.Tags[:5])
				add := func(mv *data_model.MultiValue, top string, always bool) {
					r.count += mv.Value.Count()
					r.sum += mv.Value.ValueSum
					r.set = r.set || mv.Value.ValueSet
					r.nonFinite = r.nonFinite || c12NonFinite(&mv.Value)
					if always || mv.Value.Count() != 0 || mv.Value.ValueSet {
						entries = append(entries, c12Entry{id: c12EntryID(b, it, top), count: mv.Value.Count(), sum: mv.Value.ValueSum})
					}
				}
				add(&it.Tail, "<tail>", len(it.Top) == 0)
				for k, mv := range it.Top {
					top := fmt.Sprintf("s:%q", strings.Clone(k.S))
					if k.I != 0 {
						top = fmt.Sprintf("i:%d", k.I)
					}
					add(mv, top, true)
				}
				rows = append(rows, r)
			}
		default:
		}
	}
	sort.Slice(rows, func(i, j int) bool { return fmt.Sprint(rows[i]) < fmt.Sprint(rows[j]) })
	sort.Slice(entries, func(i, j int) bool {
		if entries[i].id != entries[j].id {
			return entries[i].id < entries[j].id
		}
		return entries[i].count < entries[j].count
	})
	return rows, entries
}

// c12BuildRx appends the tag sets and metric kinds of this family behind the alphabet of the first two parts and returns
// the events (full list) and the indices of the reduced list used for triples in the quick tier.
func c12BuildRx(a *c12Alphabet) (events []c12Single, reduced []int) {
	t0 := len(a.tags)
	a.tags = append(a.tags,
		c12Tags{name: "rx-ok", kv: [][2]string{{"1", "10"}, {"2", "b"}}},                                                        // 0
		c12Tags{name: "rx-ok-unmapped-value", kv: [][2]string{{"2", "unmapped-value"}}},                                           // 1
		c12Tags{name: "rx-bad-utf8-value-A", kv: [][2]string{{"1", "10"}, {"2", "b\xff"}}, badValueUTF8: true},                   // 2
		c12Tags{name: "rx-bad-utf8-value-B", kv: [][2]string{{"1", "10"}, {"2", "c\xfe"}}, badValueUTF8: true},                   // 3 same length, same slot as A
		c12Tags{name: "rx-bad-utf8-value-C", kv: [][2]string{{"2", "longer\xfd\xfcvalue"}}, badValueUTF8: true},                  // 4 other length, other slot
		c12Tags{name: "rx-bad-utf8-name-A", kv: [][2]string{{"\xffzz", "b"}}, badNameUTF8: true},                                 // 5
		c12Tags{name: "rx-bad-utf8-name-B", kv: [][2]string{{"\xfeyy", "b"}}, badNameUTF8: true},                                 // 6
		c12Tags{name: "rx-bad-utf8-name-C", kv: [][2]string{{"1", "10"}, {"qq\xfdlonger", "b"}}, badNameUTF8: true},              // 7
		c12Tags{name: "rx-corrupted-A", kv: [][2]string{{"2", c12Sig + "abc"}}, corrupted: true},                                  // 8
		c12Tags{name: "rx-corrupted-B", kv: [][2]string{{"2", "xyz" + c12Sig}}, corrupted: true},                                  // 9
		c12Tags{name: "rx-unknown-name-A", kv: [][2]string{{"nosuchtag", "b"}}, open: true},                                       // 10
		c12Tags{name: "rx-unknown-name-B", kv: [][2]string{{"othertagxx", "b"}}, open: true},                                      // 11
		c12Tags{name: "rx-unparsable-raw-A", kv: [][2]string{{"1", "abc"}}, openOnRaw: true},                                      // 12
		c12Tags{name: "rx-unparsable-raw-B", kv: [][2]string{{"1", "xyz"}}, openOnRaw: true},                                      // 13
		c12Tags{name: "rx-host-and-string-top-A", kv: [][2]string{{"_h", "host1"}, {"_s", "top1"}, {"2", "b"}}},                   // 14
		c12Tags{name: "rx-host-and-string-top-B", kv: [][2]string{{"_h", "host2"}, {"_s", "top2"}, {"2", "b"}}},                   // 15
		c12Tags{name: "rx-draft-name-A", kv: [][2]string{{"drafty", "b"}}, open: true},                                            // 16
		c12Tags{name: "rx-draft-name-B", kv: [][2]string{{"draftz", "b"}}, open: true},                                            // 17
	)
	nT := len(a.tags) - t0
	draft := c12Meta(1206, "c12_draft", format.MetricKindValue, false, false, 1)
	draft.TagsDraft = map[string]format.MetricMetaTag{"drafty": {Name: "drafty"}, "draftz": {Name: "draftz"}}
	k0 := len(a.kinds)
	a.kinds = append(a.kinds,
		c12Kind{name: "rx-draft-tags", meta: draft},
		c12Kind{name: "rx-unknown-B", metaLevel: true, wireName: "c12_other_missing_metric"},
		c12Kind{name: "rx-unknown-bad-utf8-name-B", badName: true, metaLevel: true, wireName: "c12\xfe_missing2"},
	)
	kindIdx := func(name string) int {
		for i := range a.kinds {
			if a.kinds[i].name == name {
				return i
			}
		}
		panic("c12: no kind " + name)
	}
	plain, raw, draftK := kindIdx("plain"), kindIdx("raw-tag"), k0
	const cOne, cNaN = 1, 5 // counter alphabet: "1", "NaN"
	const vPair = 2         // values alphabet: [1 3]
	add := func(kind, tg, counter, values int, red bool) {
		if red {
			reduced = append(reduced, len(events))
		}
		events = append(events, c12Single{e: c12Event{counter: counter, values: values, tags: t0 + tg}, kind: kind})
	}
	redPlain := map[int]bool{0: true, 1: true, 2: true, 3: true, 5: true, 6: true, 8: true, 10: true, 11: true, 14: true, 15: true}
	for tg := 0; tg < nT; tg++ {
		add(plain, tg, cOne, 0, redPlain[tg])
		add(raw, tg, cOne, 0, tg == 12 || tg == 13)
		add(draftK, tg, cOne, 0, tg == 16)
	}
	for _, tg := range []int{0, 1, 2, 10, 14} {
		add(plain, tg, 0, vPair, false)
	}
	for _, tg := range []int{0, 10, 14} {
		add(plain, tg, cNaN, 0, false)
	}
	for _, k := range []int{kindIdx("unknown"), k0 + 1, kindIdx("unknown-bad-utf8-name"), k0 + 2} {
		add(k, 0, cOne, 0, k != k0+2)
		add(k, 2, cOne, 0, false)
	}
	add(kindIdx("disabled"), 0, cOne, 0, false)
	return events, reduced
}

const c12PoisonByte = 'Z'

// c12Poison overwrites every byte the receiver owns: all strings and arrays of the batch up to their capacity (also in
// slots and tags beyond the current lengths), the receive buffer and the scratch slice.
func c12Poison(batch *tlstatshouse.AddMetricsBatchBytes, data []byte, scratch []byte) {
	fill := func(b []byte) {
		b = b[:cap(b)]
		for i := range b {
			b[i] = c12PoisonByte
		}
	}
	ms := batch.Metrics[:cap(batch.Metrics)]
	for i := range ms {
		m := &ms[i]
		fill(m.Name)
		tags := m.Tags[:cap(m.Tags)]
		for j := range tags {
			fill(tags[j].Key)
			fill(tags[j].Value)
		}
		v := m.Value[:cap(m.Value)]
		for j := range v {
			v[j] = 7e30
		}
		u := m.Unique[:cap(m.Unique)]
		for j := range u {
			u[j] = -7
		}
		h := m.Histogram[:cap(m.Histogram)]
		for j := range h {
			h[j] = [2]float64{7e30, 7e30}
		}
	}
	fill(data)
	fill(scratch)
}

// c12RxRun delivers the events seq (indices into rx) to a fresh agent through ONE batch, ONE receive buffer and ONE
// scratch slice. Bit i of cuts: a packet ends after event i. mode 0: the buffers change only by parsing the next packet;
// mode 1: every receiver-owned byte is overwritten after every packet; mode -1: never (private memory: the reference
// run of a single event). In modes 0 and 1 everything is overwritten after the last packet, before the bucket is read.
func c12RxRun(alpha *c12Alphabet, rx []c12Single, seq []int, cuts uint, mode int) ([]c12Row, []c12Entry) {
	a := c12NewAgent(false)
	var batch tlstatshouse.AddMetricsBatchBytes
	var scratch []byte
	data := make([]byte, 0, 2048)
	start := 0
	for i := range seq {
		last := i == len(seq)-1
		if !last && cuts&(1<<uint(i)) == 0 {
			continue
		}
		var src tlstatshouse.AddMetricsBatchBytes
		src.Metrics = make([]tlstatshouse.MetricBytes, i+1-start)
		for j := start; j <= i; j++ {
			s := rx[seq[j]]
			c12FillMetric(&src.Metrics[j-start], alpha, s.e, &alpha.kinds[s.kind])
		}
		data = src.WriteTL1Boxed(data[:0])
		rest, err := batch.ReadTL1Boxed(data)
		if err != nil || len(rest) != 0 || len(batch.Metrics) != i+1-start {
			panic(fmt.Sprintf("c12: TL round trip of a packet failed: %v, %d bytes left, %d metrics", err, len(rest), len(batch.Metrics)))
		}
		for j := start; j <= i; j++ {
			c12HandleMetric(a, &batch.Metrics[j-start], &alpha.kinds[rx[seq[j]].kind], &scratch)
		}
		if mode == 1 || (mode == 0 && last) {
			c12Poison(&batch, data, scratch)
		}
		start = i + 1
	}
	return c12CollectFull(a)
}

func c12MergeEntries(parts ...[]c12Entry) []c12Entry {
	idx := map[string]int{}
	var out []c12Entry
	for _, p := range parts {
		for _, e := range p {
			if i, ok := idx[e.id]; ok {
				out[i].count += e.count
				out[i].sum += e.sum
				continue
			}
			idx[e.id] = len(out)
			out = append(out, e)
		}
	}
	sort.Slice(out, func(i, j int) bool { return out[i].id < out[j].id })
	return out
}

func c12EntriesText(es []c12Entry) []string {
	out := make([]string, len(es))
	for i, e := range es {
		out[i] = fmt.Sprintf("%s count=%v sum=%v", e.id, e.count, e.sum)
	}
	return out
}

// c12CompareEntries: "" if got is want; otherwise what differs (which kind of row, or the totals).
func c12CompareEntries(want, got []c12Entry) string {
	ids := func(es []c12Entry, status bool) string {
		var s []string
		for _, e := range es {
			isStatus := strings.Contains(e.id, fmt.Sprintf(" metric=%d ", c12StatusID)) || strings.Contains(e.id, fmt.Sprintf(" metric=%d ", c12NoShardID))
			if isStatus == status {
				s = append(s, e.id)
			}
		}
		return strings.Join(s, "\n")
	}
	if ids(want, true) != ids(got, true) {
		return "status-record-differs"
	}
	if ids(want, false) != ids(got, false) {
		return "metric-row-differs"
	}
	for i := range want {
		if !c12Close(want[i].count, got[i].count) || !c12Close(want[i].sum, got[i].sum) {
			return "totals-differ"
		}
	}
	return ""
}

func c12HasString(es []c12Entry) bool {
	for _, e := range es {
		if strings.Contains(e.id, " top=s:") || strings.Contains(e.id, " stag") {
			return true
		}
	}
	return false
}

type c12RxCase struct {
	seq  []int
	cuts uint
	mode int
}

func c12RxCases(n int, from []int, modes []int) []c12RxCase {
	var out []c12RxCase
	idx := make([]int, n)
	var rec func(pos int)
	rec = func(pos int) {
		if pos == n {
			for cuts := uint(0); cuts < 1<<uint(n-1); cuts++ {
				for _, mode := range modes {
					out = append(out, c12RxCase{append([]int(nil), idx...), cuts, mode})
				}
			}
			return
		}
		for _, e := range from {
			idx[pos] = e
			rec(pos + 1)
		}
	}
	rec(0)
	return out
}

// c12ReceivePath is the third part of TestVerifC12.
func c12ReceivePath(rep *mc.Report, alpha *c12Alphabet) {
	rx, reduced := c12BuildRx(alpha)
	all := make([]int, len(rx))
	for i := range all {
		all[i] = i
	}
	// reference runs: every event alone through private memory that nobody touches afterwards
	alone := make([][]c12Entry, len(rx))
	for i := range rx {
		_, alone[i] = c12RxRun(alpha, rx, []int{i}, 0, -1)
	}
	var cases []c12RxCase
	cases = append(cases, c12RxCases(1, all, []int{0})...)
	cases = append(cases, c12RxCases(2, all, []int{0, 1})...)
	tripleFrom := reduced
	if mc.Thorough() {
		tripleFrom = all
	}
	cases = append(cases, c12RxCases(3, tripleFrom, []int{0, 1})...)
	rep.Bounds["receive_path_events"] = len(rx)
	rep.Bounds["receive_path_triple_events"] = len(tripleFrom)
	rep.Bounds["receive_path_sequences"] = len(cases)
	rep.Assume("receive-path family: a packet is the TL serialisation of its events written into the one receive buffer and parsed by the real ReadTL1Boxed into the one batch object (as parser.parse does for TL); the other wire formats are C13's subject")

	var mu sync.Mutex
	classes := map[string]int64{}
	var nontrivial, transitions, done int64
	c12Parallel(len(cases), func(ci int) {
		c := cases[ci]
		rows, got := c12RxRun(alpha, rx, c.seq, c.cuts, c.mode)
		parts := make([][]c12Entry, len(c.seq))
		evs := make([]c12Event, len(c.seq))
		kinds := make([]*c12Kind, len(c.seq))
		hasString := false
		for i, e := range c.seq {
			parts[i] = alone[e]
			evs[i] = rx[e].e
			kinds[i] = &alpha.kinds[rx[e].kind]
			hasString = hasString || c12HasString(alone[e])
		}
		atomic.AddInt64(&done, 1)
		atomic.AddInt64(&transitions, int64(len(c.seq)))
		describe := func() map[string]any {
			d := map[string]any{"packet_ends_after_event_mask": c.cuts,
				"buffers": []string{"overwritten by parsing the next packet, and completely after the last one", "completely overwritten after every packet"}[c.mode]}
			for i, e := range c.seq {
				d[fmt.Sprintf("event_%d", i+1)] = alpha.describe(rx[e].e, kinds[i], false)
			}
			return d
		}
		want := c12MergeEntries(parts...)
		if diff := c12CompareEntries(want, got); diff != "" {
			d := describe()
			d["bucket_expected"] = c12EntriesText(want)
			d["bucket_observed"] = c12EntriesText(got)
			var names []string
			for i, e := range c.seq {
				names = append(names, kinds[i].name+"/"+alpha.tags[rx[e].e.tags].name)
			}
			rep.Violate("C12:receive-buffer-reuse:"+diff,
				fmt.Sprintf("events %v delivered through one reused batch/receive buffer (packet cuts %b, %s): the shard bucket differs from the merge of what each event contributes alone; expected %q, observed %q",
					names, c.cuts, d["buffers"], c12EntriesText(want), c12EntriesText(got)), d)
			return
		}
		// the reference of parts 1 and 2 expects one row per metric: usable when the events sent to a metric agree in
		// their tag set (one series); otherwise the comparison above is the whole oracle
		sig, desc, class := "", "", "several-series"
		oneSeries := true
		tagsOf := map[string]int{}
		for i := range evs {
			if t, ok := tagsOf[kinds[i].name]; ok && t != evs[i].tags {
				oneSeries = false
			}
			tagsOf[kinds[i].name] = evs[i].tags
		}
		if oneSeries {
			sig, desc, class = c12Judge(alpha, evs, kinds, rows)
		}
		if sig != "" {
			d := describe()
			d["rows"] = fmt.Sprintf("%+v", rows)
			rep.Violate(sig+"-receive-path", desc+fmt.Sprintf(" | events %v", d), d)
			return
		}
		rep.Outcome(fmt.Sprintf("rx/%d/%s/%d", len(c.seq), class, len(got)))
		mu.Lock()
		classes[class]++
		if hasString {
			nontrivial++
		}
		mu.Unlock()
	})
	rep.AddCounts(done+int64(len(rx)), transitions+int64(len(rx)), done, nontrivial)
	rep.Parts["receive_path"] = map[string]any{"events": len(rx), "sequences": done, "by_class": classes,
		"sequences_with_a_string_carrying_record": nontrivial}
	rep.Sample(map[string]any{"receive_path_event_alone": alpha.describe(rx[reduced[2]].e, &alpha.kinds[rx[reduced[2]].kind], false), "bucket": c12EntriesText(alone[reduced[2]])})
}
