//go:build verif

package agent

// C12: "Ingestion accepts only valid events and accounts for every rejected one".
//
// Full enumeration of event field combinations (counter x values x uniques x histogram x tags x timestamp)
// against metric descriptions (plain, raw tag, percentiles, disabled, unknown), each event on a fresh real
// agent through the real receive path
//     Agent.Map (mapAllTags -> data_model.MapValidateTag, data_model.ValidateMetricData) -> Agent.ApplyMetric
//     -> Shard.ApplyCounter/ApplyValues/ApplyUnique -> MultiValue.ApplyValues/ApplyUnique,
// then the whole queue is flushed (FlushAllDataSingleStep) and every produced row - metric rows and
// ingestion-status rows - is compared with a reference of the stated semantics. A second part enumerates
// ordered pairs of events on one agent (accumulation of accepted rows and of status counts).

import (
	"fmt"
	"math"
	"sort"
	"sync"
	"testing"
	"time"

	"pgregory.net/rand"

	"github.com/VKCOM/statshouse/internal/data_model"
	"github.com/VKCOM/statshouse/internal/data_model/gen2/tl"
	"github.com/VKCOM/statshouse/internal/data_model/gen2/tlstatshouse"
	"github.com/VKCOM/statshouse/internal/format"
	"github.com/VKCOM/statshouse/internal/pcache"
	"github.com/VKCOM/statshouse/internal/verif/mc"
)

const c12Base = uint32(1000 * 24 * 3600)

// bytes 39 02 58 56: what format.ContainsCorruptedBalancerValue looks for in tag values
const c12Sig = "9\x02XV"

// ---------------------------------------------------------------------------------------------------------
// alphabet

type c12Float struct {
	name string
	v    float64
}

type c12Tags struct {
	name string
	kv   [][2]string
	// reference facts
	badValueUTF8 bool // some known tag has a value that is not valid UTF-8
	badNameUTF8  bool // some tag name is not valid UTF-8
	corrupted    bool // some known tag has a value containing the "corrupted by the balancer" signature 39 02 58 56
	open         bool // the statement does not decide (unknown name, set twice, needs normalisation, unparsable raw value...)
	openOnRaw    bool // open only for the metric whose tag 1 is raw
}

type c12Kind struct {
	name       string
	meta       *format.MetricMetaValue // nil: unknown metric
	disabled   bool
	raw        bool
	badName    bool // unknown metric whose name is not valid UTF-8
	builtin    bool // built-in metric that clients are not allowed to send
	unroutable bool // fixed shard beyond the configured shards
	metaLevel  bool // rejected (or diverted) before tags and values are looked at: enumerated on a reduced grid
	wireName   string // unknown metrics of the receive-path family: the name on the wire (default c12_nosuchmetric)
}

type c12Event struct {
	counter int
	values  int
	uniques int
	hist    int
	tags    int
	ts      int // 0: explicit now, 1: absent (receive time), 2: now-1, 3: now+10 (future, clamped)
}

type c12Single struct {
	e      c12Event
	kind   int
	legacy bool
}

type c12Alphabet struct {
	metaLevelTags map[int]bool // tag sets used with metrics that are rejected before tags are looked at
	counters []c12Float
	values   [][]float64
	uniques  [][]int64
	hists    [][][2]float64
	tags     []c12Tags
	kinds    []c12Kind
	// tags[:nTags] and kinds[:nKinds] are the alphabet of the single-event and pair parts; the entries behind them
	// belong to the receive-path family (c12BuildRx) only
	nTags, nKinds int
	// counters[:nCounters], values[:nValues], hists[:nHists] are the alphabet of the full product; the entries behind
	// them belong to the histogram-entry family (c12BuildHistFamily), which is enumerated as its own product
	nCounters, nValues, nHists       int
	famCounters, famValues, famHists []int
	famUniques                       []int
}

var c12Storage = data_model.NewChunkedStorageNop()

func c12Meta(id int32, name string, kind string, rawTag1 bool, disabled bool, shardKey uint32) *format.MetricMetaValue {
	m := &format.MetricMetaValue{MetricID: id, Name: name, Kind: kind, Disable: disabled, ShardFixedKey: shardKey,
		Tags: []format.MetricMetaTag{{}, {}, {}}}
	if rawTag1 {
		m.Tags[1].RawKind = "int"
	}
	if err := m.RestoreCachedInfo(); err != nil {
		panic(err)
	}
	return m
}

func c12BuildAlphabet(thorough bool) *c12Alphabet {
	big := 4e38 // > MaxFloat32, finite
	a := &c12Alphabet{}
	a.counters = []c12Float{{"absent", 0}, {"1", 1}, {"2.5", 2.5}, {"6", 6}, {"-1", -1}, {"NaN", math.NaN()}, {"+Inf", math.Inf(1)},
		{"4e38", big}, {"MaxFloat32", math.MaxFloat32}}
	a.values = [][]float64{nil, {1}, {1, 3}, {1, 2, 3}, {-2.5, 7}, {math.NaN()}, {1, math.Inf(1)}, {big}, {-big}}
	a.uniques = [][]int64{nil, {5}, {5, 5, 6}}
	a.hists = [][][2]float64{nil, {{1, 2}}, {{1, 2}, {4, 0.5}}, {{1, 0}, {2, 1}}, {{math.NaN(), 1}}, {{1, -1}}, {{1, math.NaN()}}, {{big, 1}}}
	if thorough {
		a.counters = append(a.counters, c12Float{"-Inf", math.Inf(-1)}, c12Float{"next-after-MaxFloat32", math.Nextafter(math.MaxFloat32, math.Inf(1))},
			c12Float{"1e-3", 1e-3}, c12Float{"-0", math.Copysign(0, -1)})
		a.values = append(a.values, []float64{math.MaxFloat32}, []float64{-math.MaxFloat32}, []float64{0}, []float64{math.Inf(-1), 1}, []float64{2, 2, 2, 2, 7})
		a.uniques = append(a.uniques, []int64{-7, math.MaxInt64})
		a.hists = append(a.hists, [][2]float64{{1, big}}, [][2]float64{{1, math.Inf(1)}}, [][2]float64{{1, 0}}, [][2]float64{{-3, 3}, {3, 3}})
	}
	long := make([]byte, 200)
	for i := range long {
		long[i] = 'x'
	}
	a.tags = []c12Tags{
		{name: "ok", kv: [][2]string{{"1", "10"}, {"2", "b"}}},
		{name: "none"},
		{name: "bad-utf8-value", kv: [][2]string{{"1", "10"}, {"2", "b\xff"}}, badValueUTF8: true},
		{name: "bad-utf8-name", kv: [][2]string{{"1", "10"}, {"\xffzz", "b"}}, badNameUTF8: true},
		{name: "unknown-name", kv: [][2]string{{"1", "10"}, {"nosuchtag", "b"}}, open: true},
		{name: "set-twice", kv: [][2]string{{"1", "10"}, {"1", "11"}}, open: true},
		{name: "over-long-value", kv: [][2]string{{"2", string(long)}}, open: true},
		{name: "unparsable-raw", kv: [][2]string{{"1", "abc"}, {"2", "b"}}, openOnRaw: true},
		{name: "host-and-string-top", kv: [][2]string{{"_h", "host1"}, {"_s", "top1"}, {"2", "b"}}},
		// the signature format.ContainsCorruptedBalancerValue looks for, inside an otherwise valid value
		{name: "corrupted-at-start", kv: [][2]string{{"1", "10"}, {"2", c12Sig + "abc"}}, corrupted: true},
		{name: "corrupted-in-middle", kv: [][2]string{{"2", "ab" + c12Sig + "cd"}, {"1", "10"}}, corrupted: true},
		{name: "corrupted-at-end", kv: [][2]string{{"2", "abc" + c12Sig}}, corrupted: true},
		{name: "corrupted-and-needs-normalisation", kv: [][2]string{{"1", "10"}, {"2", "  a\tb  " + c12Sig + " c  "}}, corrupted: true},
	}
	if thorough {
		a.tags = append(a.tags,
			c12Tags{name: "bad-utf8-value-then-unknown-name", kv: [][2]string{{"1", "\xc3\x28"}, {"nosuchtag", "b"}}, badValueUTF8: true},
			c12Tags{name: "needs-trim", kv: [][2]string{{"2", "  b  c "}}, open: true},
			c12Tags{name: "legacy-name", kv: [][2]string{{"key1", "10"}}, open: true},
			c12Tags{name: "bad-utf8-value-of-unknown-tag", kv: [][2]string{{"nosuchtag", "\xff"}}, open: true},
			c12Tags{name: "empty-value", kv: [][2]string{{"1", ""}, {"2", "b"}}},
			c12Tags{name: "corrupted-only", kv: [][2]string{{"2", c12Sig}}, corrupted: true},
			c12Tags{name: "corrupted-beyond-truncation", kv: [][2]string{{"2", string(long[:150]) + c12Sig}}, corrupted: true},
			c12Tags{name: "corrupted-host-tag", kv: [][2]string{{"_h", "h" + c12Sig}, {"2", "b"}}, corrupted: true},
			c12Tags{name: "corrupted-string-top", kv: [][2]string{{"_s", c12Sig + "t"}}, corrupted: true},
			c12Tags{name: "corrupted-tag-1", kv: [][2]string{{"1", "1" + c12Sig}}, corrupted: true},
			c12Tags{name: "corrupted-and-bad-utf8", kv: [][2]string{{"2", c12Sig + "\xff"}}, corrupted: true, badValueUTF8: true},
			c12Tags{name: "corrupted-value-of-unknown-tag", kv: [][2]string{{"nosuchtag", c12Sig}}, open: true},
			c12Tags{name: "near-miss-signature", kv: [][2]string{{"2", "9XV 39025856"}}},
		)
	}
	a.metaLevelTags = map[int]bool{}
	for i, tg := range a.tags {
		switch tg.name {
		case "ok", "none", "bad-utf8-value", "corrupted-in-middle":
			a.metaLevelTags[i] = true
		}
	}
	a.kinds = []c12Kind{
		{name: "plain", meta: c12Meta(1201, "c12_plain", format.MetricKindValue, false, false, 1)},
		{name: "raw-tag", meta: c12Meta(1202, "c12_raw", format.MetricKindValue, true, false, 1), raw: true},
		{name: "percentiles", meta: c12Meta(1203, "c12_perc", format.MetricKindValuePercentiles, false, false, 1)},
		{name: "disabled", meta: c12Meta(1204, "c12_disabled", format.MetricKindValue, false, true, 1), disabled: true, metaLevel: true},
		{name: "unknown", metaLevel: true},
		{name: "unknown-bad-utf8-name", badName: true, metaLevel: true},
		{name: "unroutable", meta: c12Meta(1205, "c12_unroutable", format.MetricKindValue, false, false, 3), unroutable: true, metaLevel: true},
	}
	// a built-in metric that clients may not send, sharded by metric id (first by name, so the choice is stable)
	var names []string
	for n, m := range format.BuiltinMetricByName {
		if !m.BuiltinAllowedToReceive && m.ShardStrategy == format.ShardByMetricID && m.ShardFixedKey == 0 && m.ShardFixedKey2 == 0 {
			names = append(names, n)
		}
	}
	sort.Strings(names)
	if len(names) != 0 {
		a.kinds = append(a.kinds, c12Kind{name: "builtin-not-receivable", meta: format.BuiltinMetricByName[names[0]], builtin: true, metaLevel: true})
	}
	a.nTags, a.nKinds = len(a.tags), len(a.kinds)
	a.nCounters, a.nValues, a.nHists = len(a.counters), len(a.values), len(a.hists)
	c12BuildHistFamily(a)
	return a
}

// c12BuildHistFamily: the histogram dimension of the quantifier, entry by entry. A histogram entry is a pair
// (value, weight); the statement demands of BOTH that they are finite and within +/-MaxFloat32 (weights also
// non-negative), for EVERY entry, whatever the other component is. Entry alphabet = every value class the
// validation distinguishes x every weight class (in particular weight 0 and -0, which add nothing to count and
// sum and therefore invite "harmless" short cuts), each entry alone, before and behind a valid entry, and twice
// in a row; the histograms are combined with {no values, plain values} x {counter absent, explicitly 0, 2.5} x
// {no uniques, uniques} below (TestVerifC12).
func c12BuildHistFamily(a *c12Alphabet) {
	big := 4e38
	next := math.Nextafter(math.MaxFloat32, math.Inf(1))
	vals := []float64{1, -3, 0, math.NaN(), math.Inf(1), math.Inf(-1), big, -big, 1e300, math.MaxFloat32, -math.MaxFloat32, next, -next}
	weights := []float64{0, math.Copysign(0, -1), 2, 0.5, -1, math.NaN(), math.Inf(1), math.Inf(-1), big, math.MaxFloat32, next}
	valid := [2]float64{2, 1}
	for _, v := range vals {
		for _, w := range weights {
			e := [2]float64{v, w}
			for _, h := range [][][2]float64{{e}, {e, valid}, {valid, e}, {e, e}} {
				a.famHists = append(a.famHists, len(a.hists))
				a.hists = append(a.hists, h)
			}
		}
	}
	a.famCounters = []int{0, len(a.counters), 2} // absent, present with value 0 (field mask set), 2.5
	a.counters = append(a.counters, c12Float{"explicit-0", 0})
	a.famValues = []int{0, 2, len(a.values)} // none, {1,3}, {0}
	a.values = append(a.values, []float64{0})
	a.famUniques = []int{0, 1}
}

// ---------------------------------------------------------------------------------------------------------
// reference of the stated semantics

const (
	c12OK        = format.TagValueIDSrcIngestionStatusOKCached
	c12StatusID  = format.BuiltinMetricIDIngestionStatus
	c12NoShardID = format.BuiltinMetricIDIngestionStatusNoShard
)

var c12ErrCodes = map[int32]string{
	format.TagValueIDSrcIngestionStatusErrMetricNotFound:        "err_metric_not_found",
	format.TagValueIDSrcIngestionStatusErrNanInfValue:           "err_nan_inf_value",
	format.TagValueIDSrcIngestionStatusErrNanInfCounter:         "err_nan_inf_counter",
	format.TagValueIDSrcIngestionStatusErrNegativeCounter:       "err_negative_counter",
	format.TagValueIDSrcIngestionStatusErrMapInvalidRawTagValue: "err_map_invalid_raw_tag_value",
	format.TagValueIDSrcIngestionStatusErrMapTagValueCached:     "err_map_tag_value_cached",
	format.TagValueIDSrcIngestionStatusErrMapTagValue:           "err_map_tag_value",
	format.TagValueIDSrcIngestionStatusErrMapTagValueEncoding:   "err_map_tag_value_encoding",
	format.TagValueIDSrcIngestionStatusErrMetricDisabled:        "err_metric_disabled",
	format.TagValueIDSrcIngestionStatusErrMetricNameEncoding:    "err_metric_name_encoding",
	format.TagValueIDSrcIngestionStatusErrMapTagNameEncoding:    "err_map_tag_name_encoding",
	format.TagValueIDSrcIngestionStatusErrValueUniqueBothSet:    "err_value_unique_both_set",
	format.TagValueIDSrcIngestionStatusErrShardingFailed:        "err_sharding_failed",
	format.TagValueIDSrcIngestionStatusErrMetricBuiltin:         "err_metric_builtin",
	format.TagValueIDSrcIngestionStatusErrTooBigCounter:         "err_too_big_counter",
	format.TagValueIDSrcIngestionStatusErrTooBigValue:           "err_too_big_value",
	format.TagValueIDSrcIngestionStatusErrZeroCounter:           "err_zero_counter",
	format.TagValueIDSrcIngestionStatusErrMapTagValueCorrupted:  "err_map_tag_value_corrupted",
}

type c12Ref struct {
	reasons map[int32]bool // reasons the statement gives for rejecting this event
	soft    map[int32]bool // reasons a status record may name although the statement does not force a rejection
	open    bool           // acceptance is not decided by the statement
	skip    bool           // nothing is asserted (zero total weight)
	count   float64        // if accepted
	sum     float64
	hasSum  bool
}

func c12CounterReasons(r map[int32]bool, c float64) {
	switch {
	case math.IsNaN(c):
		r[format.TagValueIDSrcIngestionStatusErrNanInfCounter] = true
	case math.IsInf(c, 1):
		r[format.TagValueIDSrcIngestionStatusErrNanInfCounter] = true
		r[format.TagValueIDSrcIngestionStatusErrTooBigCounter] = true
	case math.IsInf(c, -1):
		r[format.TagValueIDSrcIngestionStatusErrNanInfCounter] = true
		r[format.TagValueIDSrcIngestionStatusErrNegativeCounter] = true
	case c < 0:
		r[format.TagValueIDSrcIngestionStatusErrNegativeCounter] = true
	case c > math.MaxFloat32:
		r[format.TagValueIDSrcIngestionStatusErrTooBigCounter] = true
	}
}

func c12ValueReasons(r map[int32]bool, v float64) {
	switch {
	case math.IsNaN(v):
		r[format.TagValueIDSrcIngestionStatusErrNanInfValue] = true
	case math.IsInf(v, 0):
		r[format.TagValueIDSrcIngestionStatusErrNanInfValue] = true
		r[format.TagValueIDSrcIngestionStatusErrTooBigValue] = true
	case v > math.MaxFloat32 || v < -math.MaxFloat32:
		r[format.TagValueIDSrcIngestionStatusErrTooBigValue] = true
	}
}

func (a *c12Alphabet) reference(e c12Event, k *c12Kind) c12Ref {
	ref := c12Ref{reasons: map[int32]bool{}, soft: map[int32]bool{}}
	counter := a.counters[e.counter].v
	values, uniques, hist, tags := a.values[e.values], a.uniques[e.uniques], a.hists[e.hist], &a.tags[e.tags]
	c12CounterReasons(ref.reasons, counter)
	for _, v := range values {
		c12ValueReasons(ref.reasons, v)
	}
	for _, kv := range hist {
		c12ValueReasons(ref.reasons, kv[0])
		c12CounterReasons(ref.reasons, kv[1])
	}
	if len(values) != 0 && len(uniques) != 0 {
		ref.reasons[format.TagValueIDSrcIngestionStatusErrValueUniqueBothSet] = true
	}
	if len(values) == 0 && len(hist) != 0 && len(uniques) != 0 {
		// the statement speaks of "values and uniques"; whether histogram entries count as values is left open
		ref.soft[format.TagValueIDSrcIngestionStatusErrValueUniqueBothSet] = true
	}
	if len(values) == 0 && len(uniques) == 0 && len(hist) == 0 && counter == 0 {
		ref.reasons[format.TagValueIDSrcIngestionStatusErrZeroCounter] = true
	}
	switch {
	case k.meta == nil && k.badName:
		ref.reasons[format.TagValueIDSrcIngestionStatusErrMetricNameEncoding] = true
	case k.meta == nil:
		ref.reasons[format.TagValueIDSrcIngestionStatusErrMetricNotFound] = true
	case k.disabled:
		ref.reasons[format.TagValueIDSrcIngestionStatusErrMetricDisabled] = true
	case k.builtin:
		ref.reasons[format.TagValueIDSrcIngestionStatusErrMetricBuiltin] = true
	default:
		// tags are looked at only for a known, enabled metric
		if tags.badValueUTF8 {
			ref.reasons[format.TagValueIDSrcIngestionStatusErrMapTagValueEncoding] = true
		}
		if tags.badNameUTF8 {
			ref.reasons[format.TagValueIDSrcIngestionStatusErrMapTagNameEncoding] = true
		}
		if tags.corrupted {
			ref.reasons[format.TagValueIDSrcIngestionStatusErrMapTagValueCorrupted] = true
		}
		if tags.open || (tags.openOnRaw && k.raw) {
			ref.open = true
		}
		if k.unroutable {
			// the statement does not mention metrics whose shard does not exist: a status record may name this reason,
			// and only the generic accounting invariant is required
			ref.soft[format.TagValueIDSrcIngestionStatusErrShardingFailed] = true
		}
	}
	// documented weighting
	total := float64(len(values))
	s := 0.0
	for _, v := range values {
		s += v
	}
	for _, kv := range hist {
		total += kv[1]
		s += kv[0] * kv[1]
	}
	if len(uniques) != 0 {
		total = float64(len(uniques))
		s = 0
		for _, u := range uniques {
			s += float64(u)
		}
	}
	switch {
	case len(values)+len(hist)+len(uniques) == 0:
		ref.count = counter
	default:
		ref.hasSum = true
		if total == 0 {
			ref.skip = true // zero total weight: the statement does not say what such an event is
		}
		ref.count = total
		ref.sum = s
		if counter != 0 {
			ref.count = counter
			ref.sum = s * counter / total // "as if every value was observed counter/len times": average unchanged
		}
	}
	return ref
}

// ---------------------------------------------------------------------------------------------------------
// real agent

func c12NewAgent(legacy bool) *Agent {
	config := Config{LegacyApplyValues: legacy}
	cache := pcache.NewMappingsCache(c12Storage, 1024*1024, 86400)
	cache.AddValues(c12Base+1000000, []pcache.MappingPair{{Str: "b", Value: 7001}})
	a := &Agent{
		config:             config,
		logF:               func(f string, a ...any) {},
		mappingsCache:      cache,
		shardByMetricCount: 1,
		componentTag:       format.TagValueIDComponentAgent,
		beforeFlushTime:    c12Base,
		startTimestamp:     c12Base,
	}
	sh := &Shard{
		config:              config,
		agent:               a,
		ShardNum:            0,
		ShardKey:            1,
		rng:                 rand.New(1),
		CurrentTime:         c12Base,
		SendTime:            c12Base - 2,
		BucketsToPreprocess: make(chan *data_model.MetricsBucket, 1),
	}
	buckets := make([]data_model.MetricsBucket, superQueueLen)
	for j := 0; j < superQueueLen; j++ {
		sh.SuperQueue[j] = &buckets[j]
	}
	sh.cond = sync.NewCond(&sh.mu)
	a.Shards = append(a.Shards, sh)
	// ApplyMetric records its duration here; the other built-in values are not touched by this harness
	a.TimingsApplyMetric = &BuiltInItemValue{}
	return a
}

// c12Handle mirrors cmd/statshouse worker.HandleMetrics (fillTime, fillMetricMeta, Map | MapEnvironment,
// ApplyMetric); the metric lookup is a one-entry table instead of the journal.
func c12Handle(a *Agent, alpha *c12Alphabet, e c12Event, k *c12Kind, scratch *[]byte) {
	var m tlstatshouse.MetricBytes
	c12FillMetric(&m, alpha, e, k)
	c12HandleMetric(a, &m, k, scratch)
}

// c12FillMetric writes the event into m the way a client library does (field mask bits for the present fields).
func c12FillMetric(mp *tlstatshouse.MetricBytes, alpha *c12Alphabet, e c12Event, k *c12Kind) {
	name := "c12_nosuchmetric"
	if k.badName {
		name = "c12_\xffnosuch"
	}
	if k.wireName != "" {
		name = k.wireName
	}
	if k.meta != nil {
		name = k.meta.Name
	}
	tg := &alpha.tags[e.tags]
	m := tlstatshouse.MetricBytes{Name: []byte(name)}
	if e.counter != 0 { // element 0 of the counter alphabet is "absent"
		m.SetCounter(alpha.counters[e.counter].v)
	}
	for _, kv := range tg.kv {
		m.Tags = append(m.Tags, tl.DictFieldStringStringBytes{Key: []byte(kv[0]), Value: []byte(kv[1])})
	}
	if e.values != 0 {
		m.SetValue(append([]float64(nil), alpha.values[e.values]...))
	}
	if e.uniques != 0 {
		m.SetUnique(append([]int64(nil), alpha.uniques[e.uniques]...))
	}
	if e.hist != 0 {
		m.SetHistogram(append([][2]float64(nil), alpha.hists[e.hist]...))
	}
	switch e.ts {
	case 0:
		m.SetTs(c12Base)
	case 2:
		m.SetTs(c12Base - 1)
	case 3:
		m.SetTs(c12Base + 10)
	}
	*mp = m
}

// c12HandleMetric is the part of worker.HandleMetrics that follows the parsing: m is the (receiver-owned) parsed metric.
func c12HandleMetric(a *Agent, m *tlstatshouse.MetricBytes, k *c12Kind, scratch *[]byte) {
	now := time.Unix(int64(c12Base), 0)
	var h data_model.MappedMetricHeader
	h.ReceiveTime = now
	if m.Ts != 0 {
		h.Key.Timestamp = m.Ts
	} else {
		h.Key.Timestamp = uint32(now.Unix())
	}
	args := data_model.HandlerArgs{MetricBytes: m, Scratch: scratch}
	metaOk := false
	if k.meta != nil {
		h.MetricMeta = k.meta
		h.Key.Metric = k.meta.MetricID
		if k.builtin { // fillMetricMeta: found in format.BuiltinMetricByName, !BuiltinAllowedToReceive
			h.IngestionStatus = format.TagValueIDSrcIngestionStatusErrMetricBuiltin
		} else if k.meta.Disable {
			h.IngestionStatus = format.TagValueIDSrcIngestionStatusErrMetricDisabled
		} else {
			metaOk = true
		}
	} else {
		validName, err := format.AppendValidStringValue(m.Name[:0], m.Name)
		if err == nil {
			m.Name = validName
			h.InvalidString = m.Name
			h.IngestionStatus = format.TagValueIDSrcIngestionStatusErrMetricNotFound
		} else {
			m.Name = format.AppendHexStringValue(m.Name[:0], m.Name)
			h.InvalidString = m.Name
			h.IngestionStatus = format.TagValueIDSrcIngestionStatusErrMetricNameEncoding
		}
	}
	if metaOk {
		a.Map(args, &h, nil)
	} else {
		a.MapEnvironment(m, &h)
	}
	a.ApplyMetric(m, &h, scratch)
}

type c12Row struct {
	metric int32
	tags   [5]int32
	count  float64
	sum    float64
	set    bool
	ts     uint32
	bucket uint32
	// some aggregate of the row (count, sum, sum of squares, min, max) is NaN or infinite: impossible when only
	// events whose numbers are all finite and within +/-MaxFloat32 contribute
	nonFinite bool
}

func c12NonFinite(v *data_model.ItemValue) bool {
	for _, f := range []float64{v.Count(), v.ValueSum, v.ValueSumSquare, v.ValueMin, v.ValueMax} {
		if math.IsNaN(f) || math.IsInf(f, 0) {
			return true
		}
	}
	return false
}

// c12Collect flushes the whole queue the way Agent.FlushAllData does and returns every row.
func c12Collect(a *Agent) []c12Row {
	var rows []c12Row
	sh := a.Shards[0]
	for i := 0; i < superQueueLen; i++ {
		sh.FlushAllDataSingleStep(false)
		select {
		case b := <-sh.BucketsToPreprocess:
			for _, it := range b.MultiItems {
				r := c12Row{metric: it.Key.Metric, ts: it.Key.Timestamp, bucket: b.Time}
				copy(r.tags[:], it.Key.Tags[:5])
				add := func(mv *data_model.MultiValue) {
					r.count += mv.Value.Count()
					r.sum += mv.Value.ValueSum
					r.set = r.set || mv.Value.ValueSet
					r.nonFinite = r.nonFinite || c12NonFinite(&mv.Value)
				}
				add(&it.Tail)
				for _, mv := range it.Top {
					add(mv)
				}
				rows = append(rows, r)
			}
		default:
		}
	}
	sort.Slice(rows, func(i, j int) bool { return fmt.Sprint(rows[i]) < fmt.Sprint(rows[j]) })
	return rows
}

func c12Close(a, b float64) bool {
	if a == b {
		return true
	}
	d := math.Abs(a - b)
	return d <= 1e-9*math.Max(math.Abs(a), math.Abs(b))
}

func (a *c12Alphabet) describe(e c12Event, k *c12Kind, legacy bool) map[string]any {
	return map[string]any{"metric": k.name, "counter": a.counters[e.counter].name, "values": fmt.Sprint(a.values[e.values]),
		"uniques": fmt.Sprint(a.uniques[e.uniques]), "histogram": fmt.Sprint(a.hists[e.hist]), "tags": a.tags[e.tags].name,
		"tags_kv": fmt.Sprintf("%q", a.tags[e.tags].kv), "ts": []string{"now", "absent", "now-1", "now+10"}[e.ts], "legacy_apply_values": legacy}
}

func c12Reasons(m map[int32]bool) string {
	var s []string
	for k := range m {
		s = append(s, c12ErrCodes[k])
	}
	sort.Strings(s)
	return fmt.Sprint(s)
}

// c12Judge compares the rows produced by a sequence of events with the reference. Returns (sig, description).
func c12Judge(alpha *c12Alphabet, evs []c12Event, kinds []*c12Kind, rows []c12Row) (string, string, string) {
	type exp struct {
		count, sum float64
		hasSum     bool
		n          int
	}
	metricExp := map[int32]*exp{}
	var mustReject, mayReject int
	allReasons := map[int32]bool{}
	perReasonMax := map[int32]int{}
	anyOpen := false
	for i, e := range evs {
		ref := alpha.reference(e, kinds[i])
		if ref.skip && len(ref.reasons) == 0 {
			return "", "", "skip"
		}
		for r := range ref.reasons {
			allReasons[r] = true
			perReasonMax[r]++
		}
		for r := range ref.soft {
			allReasons[r] = true
			perReasonMax[r]++
		}
		if len(ref.reasons) != 0 {
			mustReject++
			continue
		}
		if ref.open || len(ref.soft) != 0 {
			anyOpen = true
			mayReject++
			if kinds[i].meta == nil {
				continue
			}
		}
		id := kinds[i].meta.MetricID
		x := metricExp[id]
		if x == nil {
			x = &exp{}
			metricExp[id] = x
		}
		x.count += ref.count
		x.sum += ref.sum
		x.hasSum = x.hasSum || ref.hasSum
		x.n++
	}
	// observed
	errRows := 0
	errCount := 0.0
	obsMetric := map[int32][]c12Row{}
	perReason := map[int32]float64{}
	nonFinite := ""
	for _, r := range rows {
		switch r.metric {
		case c12StatusID, c12NoShardID:
			code := r.tags[2]
			if _, isErr := c12ErrCodes[code]; isErr {
				errRows++
				errCount += r.count
				perReason[code] += r.count
				if !allReasons[code] {
					return "C12:status-names-wrong-reason", fmt.Sprintf("ingestion-status record names reason %s (%d) which does not apply to any event; applicable: %s", c12ErrCodes[code], code, c12Reasons(allReasons)), ""
				}
			}
		default:
			obsMetric[r.metric] = append(obsMetric[r.metric], r)
			if r.nonFinite && nonFinite == "" {
				nonFinite = fmt.Sprintf("metric %d: the row has a NaN or infinite aggregate (count %v, sum %v) although only events whose counter, values and histogram entries are finite and within +/-MaxFloat32 may contribute", r.metric, r.count, r.sum)
			}
		}
	}
	if anyOpen {
		if nonFinite != "" {
			return "C12:non-finite-aggregate", nonFinite, ""
		}
		// open cases: only the generic accounting invariant, event by event, is decidable for single events
		if len(evs) != 1 {
			return "", "", "skip"
		}
		id := int32(0)
		if kinds[0].meta != nil {
			id = kinds[0].meta.MetricID
		}
		contributes := len(obsMetric[id]) != 0
		switch {
		case contributes && errRows != 0:
			return "C12:contributes-and-rejected", "the event contributes to its metric and is also reported as rejected", ""
		case !contributes && (errRows != 1 || errCount != 1):
			return "C12:rejected-without-single-status", fmt.Sprintf("the event does not contribute to its metric but there are %d error status records (count %v) instead of exactly one", errRows, errCount), ""
		case !contributes && len(rows) != 1:
			return "C12:rejected-leaves-other-rows", fmt.Sprintf("the rejected event produced %d rows, expected only the status record", len(rows)), ""
		}
		return "", "", "open"
	}
	// every rejected event: exactly one status record naming an applicable reason, nothing else
	if float64(mustReject) != errCount {
		if errCount < float64(mustReject) {
			var got []string
			for id, rs := range obsMetric {
				got = append(got, fmt.Sprintf("metric %d: %d row(s), count %v", id, len(rs), rs[0].count))
			}
			sort.Strings(got)
			return "C12:invalid-event-not-rejected", fmt.Sprintf("%d event(s) must be rejected (%s) but the error status records count %v; metric rows: %v", mustReject, c12Reasons(allReasons), errCount, got), ""
		}
		return "C12:valid-event-rejected", fmt.Sprintf("%d event(s) are invalid but the error status records count %v", mustReject, errCount), ""
	}
	if nonFinite != "" {
		return "C12:non-finite-aggregate", nonFinite, ""
	}
	for code, c := range perReason {
		if c > float64(perReasonMax[code]) {
			return "C12:status-names-wrong-reason", fmt.Sprintf("reason %s is recorded %v times but applies to %d event(s)", c12ErrCodes[code], c, perReasonMax[code]), ""
		}
	}
	for id, rs := range obsMetric {
		if metricExp[id] == nil {
			return "C12:rejected-event-contributes", fmt.Sprintf("metric %d received a row (count %v, sum %v) although every event sent to it must be rejected (%s)", id, rs[0].count, rs[0].sum, c12Reasons(allReasons)), ""
		}
	}
	if len(metricExp) == 0 && len(rows) != errRows {
		return "C12:rejected-leaves-other-rows", fmt.Sprintf("all events are rejected but %d rows besides the %d error status records exist: %+v", len(rows)-errRows, errRows, rows), ""
	}
	for id, x := range metricExp {
		rs := obsMetric[id]
		if len(rs) != 1 {
			return "C12:accepted-event-row-count", fmt.Sprintf("metric %d: %d valid event(s) of one series produced %d rows", id, x.n, len(rs)), ""
		}
		if !c12Close(rs[0].count, x.count) {
			return "C12:count-differs-from-documented", fmt.Sprintf("metric %d: count %v, documented semantics give %v", id, rs[0].count, x.count), ""
		}
		if x.hasSum && x.count != 0 && !c12Close(rs[0].sum/rs[0].count, x.sum/x.count) {
			return "C12:average-differs-from-documented", fmt.Sprintf("metric %d: sum %v / count %v = average %v, documented semantics give %v", id, rs[0].sum, rs[0].count, rs[0].sum/rs[0].count, x.sum/x.count), ""
		}
	}
	if mustReject != 0 && len(metricExp) != 0 {
		return "", "", "mixed"
	}
	if mustReject != 0 {
		return "", "", "rejected"
	}
	return "", "", "accepted"
}

// ---------------------------------------------------------------------------------------------------------

func c12Parallel(n int, f func(i int)) {
	var wg sync.WaitGroup
	ch := make(chan int, 1024)
	for w := 0; w < 16; w++ {
		wg.Add(1)
		go func() {
			defer wg.Done()
			for i := range ch {
				f(i)
			}
		}()
	}
	for i := 0; i < n; i++ {
		if i%4096 == 0 && mc.Expired() {
			break
		}
		ch <- i
	}
	close(ch)
	wg.Wait()
}

func TestVerifC12(t *testing.T) {
	rep := mc.NewReport("C12")
	rep.Rule = "every combination of counter x values x uniques x histogram x tags x metric description (x timestamp form, x LegacyApplyValues where values exist) is sent alone to a fresh real agent through Agent.Map/ApplyMetric, the queue is flushed and all rows compared with the reference; then every ordered pair of a reduced event set is sent to one agent; then every sequence of 1, 2 (and 3 over a reduced set; thorough: all) receive-path events x every cut into TL packets x {overwritten by the next parse, overwritten completely after every packet} goes through ONE reused batch / receive buffer / scratch into one agent, all receiver-owned bytes are overwritten, and the bucket (rows and string-top entries with their strings) is compared with the merge of the buckets the events leave alone. A case is non-trivial when the event is rejected, or carries an explicit counter together with values/uniques/histogram, or the statement leaves its acceptance open; a receive-path sequence when at least one of its events leaves a string in the bucket."
	alpha := c12BuildAlphabet(mc.Thorough())
	rep.Bounds["counters"] = alpha.nCounters
	rep.Bounds["values"] = alpha.nValues
	rep.Bounds["uniques"] = len(alpha.uniques)
	rep.Bounds["histograms"] = alpha.nHists
	rep.Bounds["histogram_entry_family"] = fmt.Sprintf("%d histograms = {value in 1,-3,0,NaN,+Inf,-Inf,+-4e38,1e300,+-MaxFloat32,+-next after MaxFloat32} x {weight in 0,-0,2,0.5,-1,NaN,+Inf,-Inf,4e38,MaxFloat32,next after MaxFloat32} x {alone, before a valid entry, behind a valid entry, twice}; x %d counters (absent, explicitly 0, 2.5) x %d values (none, {1,3}, {0}) x %d uniques x plain/raw-tag/percentiles metric x LegacyApplyValues",
		len(alpha.famHists), len(alpha.famCounters), len(alpha.famValues), len(alpha.famUniques))
	rep.Bounds["tag_sets"] = alpha.nTags
	rep.Bounds["metric_kinds"] = alpha.nKinds
	rep.Assume("cmd/statshouse worker.HandleMetrics (fillTime, fillMetricMeta, Map|MapEnvironment, ApplyMetric) is mirrored by the harness with a one-entry metric table; disabled/unknown metrics get the status that fillMetricMeta assigns")
	rep.Assume("rows are observed in the shard buckets handed to BucketsToPreprocess (before sampling and TL serialisation)")
	rep.Assume("valid tag name/value = valid UTF-8 (what the strict normaliser accepts); values that are only normalised (trimmed, truncated), unknown tag names, tags set twice, unparsable raw values, histogram+uniques and zero total weight are left open by the statement and only checked for consistent accounting")

	var singles []c12Single
	for ki := 0; ki < alpha.nKinds; ki++ {
		for c := 0; c < alpha.nCounters; c++ {
			for v := 0; v < alpha.nValues; v++ {
				for u := range alpha.uniques {
					for h := 0; h < alpha.nHists; h++ {
						for tg := 0; tg < alpha.nTags; tg++ {
							if alpha.kinds[ki].metaLevel && (h > 1 || !alpha.metaLevelTags[tg]) {
								continue // tags and histogram are never looked at for these metrics: reduced grid
							}
							e := c12Event{counter: c, values: v, uniques: u, hist: h, tags: tg}
							singles = append(singles, c12Single{e, ki, false})
							tgs := &alpha.tags[tg]
							if (v != 0 || h != 0) && !alpha.kinds[ki].metaLevel && !tgs.badValueUTF8 && !tgs.badNameUTF8 && !tgs.corrupted {
								singles = append(singles, c12Single{e, ki, true})
							}
						}
					}
				}
			}
		}
	}
	// histogram-entry family: every (value class, weight class) entry in every position, with and without plain
	// values / explicit counter / uniques; the reference is the same accept/reject table (c12ValueReasons for the
	// value and c12CounterReasons for the weight of EVERY entry)
	nFamily := 0
	for ki := 0; ki < alpha.nKinds; ki++ {
		if alpha.kinds[ki].metaLevel {
			continue
		}
		for _, c := range alpha.famCounters {
			for _, v := range alpha.famValues {
				for _, u := range alpha.famUniques {
					for _, h := range alpha.famHists {
						e := c12Event{counter: c, values: v, uniques: u, hist: h, tags: 0}
						singles = append(singles, c12Single{e, ki, false}, c12Single{e, ki, true})
						nFamily += 2
					}
				}
			}
		}
	}
	rep.Bounds["histogram_entry_family_cases"] = nFamily
	// timestamp forms on a reduced grid
	for ki := 0; ki < alpha.nKinds; ki++ {
		for c := 0; c < 5; c++ {
			for v := 0; v < 5; v++ {
				for u := 0; u < 2; u++ {
					for ts := 1; ts <= 3; ts++ {
						singles = append(singles, c12Single{c12Event{counter: c, values: v, uniques: u, tags: 0, ts: ts}, ki, false})
					}
				}
			}
		}
	}
	var mu sync.Mutex
	var nontrivial int64
	classes := map[string]int64{}
	c12Parallel(len(singles), func(i int) {
		s := singles[i]
		k := &alpha.kinds[s.kind]
		a := c12NewAgent(s.legacy)
		var scratch []byte
		c12Handle(a, alpha, s.e, k, &scratch)
		rows := c12Collect(a)
		sig, desc, class := c12Judge(alpha, []c12Event{s.e}, []*c12Kind{k}, rows)
		if sig != "" {
			d := alpha.describe(s.e, k, s.legacy)
			d["rows"] = fmt.Sprintf("%+v", rows)
			if s.e.hist >= alpha.nHists {
				sig += ":histogram-entry" // found by the histogram-entry family
			}
			rep.Violate(sig, desc+fmt.Sprintf(" | event %v", d), d)
			return
		}
		nt := class == "rejected" || class == "open" || (alpha.counters[s.e.counter].v != 0 && (s.e.values != 0 || s.e.uniques != 0 || s.e.hist != 0))
		rep.Outcome(fmt.Sprintf("%s/%s/%v", class, k.name, len(rows)))
		mu.Lock()
		classes[class]++
		if nt {
			nontrivial++
		}
		mu.Unlock()
	})
	rep.AddCounts(int64(len(singles)), int64(len(singles)), int64(len(singles)), nontrivial)
	rep.Parts["single_events"] = map[string]any{"cases": len(singles), "by_class": classes}
	for _, i := range []int{1, len(singles) / 3, len(singles) / 2, len(singles) - 7} {
		s := singles[i]
		rep.Sample(alpha.describe(s.e, &alpha.kinds[s.kind], s.legacy))
	}

	// pairs on one agent: accepted rows accumulate, rejected events only add status counts
	var red []c12Single
	for ki := 0; ki < 3; ki++ {
		for _, c := range []int{0, 1, 2, 4, 5} {
			for _, v := range []int{0, 2, 4, 5} {
				for _, u := range []int{0, 1} {
					for _, h := range []int{0, 1, 5} {
						for _, tg := range []int{0, 2, 10} { // valid, invalid UTF-8 value, corrupted-in-middle
							red = append(red, c12Single{c12Event{counter: c, values: v, uniques: u, hist: h, tags: tg}, ki, false})
						}
					}
				}
			}
		}
	}
	if !mc.Thorough() {
		// quick: every ninth event as the first of the pair
		var r2 []c12Single
		for i, s := range red {
			if i%9 == 0 {
				r2 = append(r2, s)
			}
		}
		rep.Bounds["pair_first_events"] = len(r2)
		rep.Bounds["pair_second_events"] = len(red)
		pairClasses := map[string]int64{}
		var nt2 int64
		c12Parallel(len(r2)*len(red), func(i int) {
			c12Pair(rep, alpha, r2[i/len(red)], red[i%len(red)], &mu, pairClasses, &nt2)
		})
		n := int64(len(r2) * len(red))
		rep.AddCounts(n, 2*n, n, nt2)
		rep.Parts["pairs"] = map[string]any{"cases": n, "by_class": pairClasses}
	} else {
		rep.Bounds["pair_first_events"] = len(red)
		rep.Bounds["pair_second_events"] = len(red)
		pairClasses := map[string]int64{}
		var nt2 int64
		c12Parallel(len(red)*len(red), func(i int) {
			c12Pair(rep, alpha, red[i/len(red)], red[i%len(red)], &mu, pairClasses, &nt2)
		})
		n := int64(len(red) * len(red))
		rep.AddCounts(n, 2*n, n, nt2)
		rep.Parts["pairs"] = map[string]any{"cases": n, "by_class": pairClasses}
	}
	// third part: sequences of events through one reused batch / receive buffer / scratch, as the receivers deliver them
	c12ReceivePath(rep, alpha)
	if mc.Expired() {
		rep.Cap("wall_budget")
	}
	if err := rep.Write(); err != nil {
		t.Fatal(err)
	}
}

func c12Pair(rep *mc.Report, alpha *c12Alphabet, s1, s2 c12Single, mu *sync.Mutex, classes map[string]int64, nt *int64) {
	k1, k2 := &alpha.kinds[s1.kind], &alpha.kinds[s2.kind]
	a := c12NewAgent(false)
	var scratch []byte
	c12Handle(a, alpha, s1.e, k1, &scratch)
	c12Handle(a, alpha, s2.e, k2, &scratch)
	rows := c12Collect(a)
	sig, desc, class := c12Judge(alpha, []c12Event{s1.e, s2.e}, []*c12Kind{k1, k2}, rows)
	if sig != "" {
		d := map[string]any{"first": alpha.describe(s1.e, k1, false), "second": alpha.describe(s2.e, k2, false), "rows": fmt.Sprintf("%+v", rows)}
		rep.Violate(sig+"-pair", desc+fmt.Sprintf(" | events %v", d), d)
		return
	}
	rep.Outcome(fmt.Sprintf("pair/%s/%v", class, len(rows)))
	mu.Lock()
	classes[class]++
	if class == "mixed" || class == "rejected" {
		*nt++
	}
	mu.Unlock()
}
