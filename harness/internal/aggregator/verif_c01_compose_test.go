//go:build verif

package aggregator

// C01 (composition): the real agent sender side and three real aggregator replicas in ONE controlled
// execution. The agent's rpc.Client is a seam whose Do hands the request bytes to the addressed
// replica's real handleSendSourceBucket3 and blocks, scheduler-visibly, until that long poll is
// answered. ClickHouse is the RoundTripper stub. Faults (explorer choices): insert fails, request lost
// before the handler, response lost after the handler. Oracle: an agent is told to discard a second only
// after a successful insert held its rows, and by the horizon every produced second is in ClickHouse.

import (
	"bytes"
	"context"
	"encoding/binary"
	"fmt"
	"io"
	"log"
	"net/http"
	"os"
	"path/filepath"
	"strings"
	"testing"
	"time"

	"github.com/VKCOM/tl/pkg/rpc"

	"github.com/VKCOM/statshouse/internal/agent"
	"github.com/VKCOM/statshouse/internal/compress"
	"github.com/VKCOM/statshouse/internal/data_model"
	"github.com/VKCOM/statshouse/internal/data_model/gen2/tlstatshouse"
	"github.com/VKCOM/statshouse/internal/verif/mc"
	"github.com/VKCOM/statshouse/internal/verif/vsched"
	"github.com/VKCOM/statshouse/internal/verif/vsync"
	"github.com/VKCOM/statshouse/internal/verif/vtime"
	"github.com/VKCOM/statshouse/internal/vkgo/semaphore"
)

type c01cCall struct {
	done bool
	body []byte
	err  error
	lp   bool
}

type c01cSys struct {
	x        *mc.Exec
	faults   bool
	aggs     [3]*Aggregator
	conns    [3]*c01cConn
	marker   map[int32]uint32 // marker metric -> produced second
	inserted map[uint32]int   // produced second -> successful inserts holding its marker row
	events   []string
	nfaults  int
	qid      int64
	viol     string
	sig      string
}

func (s *c01cSys) fail(sig, msg string) {
	if s.viol == "" {
		s.sig, s.viol = sig, msg
	}
}

type c01cConn struct {
	c01AggConn // address methods
	sys        *c01cSys
	calls      map[int64]*c01cCall
	hctxs      map[int64]*rpc.HandlerContext
}

func (c *c01cConn) StartLongpoll(hctx *rpc.HandlerContext, canceller rpc.LongpollCanceller) (rpc.LongpollHandle, error) {
	q := hctx.QueryID()
	if call := c.calls[q]; call != nil {
		call.lp = true
	}
	c.hctxs[q] = hctx
	return rpc.LongpollHandle{QueryID: q, CommonConn: c}, nil
}
func (c *c01cConn) FinishLongpoll(lh rpc.LongpollHandle) (*rpc.HandlerContext, error) {
	hctx := c.hctxs[lh.QueryID]
	if hctx == nil {
		return nil, nil
	}
	delete(c.hctxs, lh.QueryID)
	hctx.Response = hctx.Response[:0]
	return hctx, nil
}
func (c *c01cConn) SendResponse(hctx *rpc.HandlerContext, err error) {
	call := c.calls[hctx.QueryID()]
	if call == nil {
		return
	}
	if call.done {
		c.sys.fail("C01:compose-longpoll-answered-twice", fmt.Sprintf("query %d answered twice", hctx.QueryID()))
		return
	}
	call.body, call.err, call.done = append([]byte{}, hctx.Response...), err, true
}

// c01cClient is the agent's rpc.Client.
type c01cClient struct{ sys *c01cSys }

func (c *c01cClient) GetRequest() *rpc.Request        { return &rpc.Request{} }
func (c *c01cClient) PutResponse(*rpc.Response)       {}
func (c *c01cClient) ResetReconnectDelay(rpc.NetAddr) {}
func (c *c01cClient) Logf(format string, args ...any) {}
func (c *c01cClient) Close() error                    { return nil }
func (c *c01cClient) Multi(n int) *rpc.Multi          { return nil }
func (c *c01cClient) DoMulti(context.Context, []rpc.NetAddr, func(rpc.NetAddr, *rpc.Request) error, func(rpc.NetAddr, *rpc.Response, error) error) error {
	return fmt.Errorf("not supported")
}
func (c *c01cClient) DoCallback(context.Context, string, string, *rpc.Request, rpc.ClientCallback, any) (rpc.CallbackContext, error) {
	return rpc.CallbackContext{}, fmt.Errorf("not supported")
}

func (c *c01cClient) Do(ctx context.Context, network string, address string, req *rpc.Request) (*rpc.Response, error) {
	s := c.sys
	idx := int(address[len(address)-1] - '1')
	var args tlstatshouse.SendSourceBucket3
	if _, err := args.ReadTL1Boxed(req.Body); err != nil {
		return nil, err
	}
	kind := "recent"
	if args.IsSetHistoric() {
		kind = "historic"
	}
	vsched.Point("rpc " + address)
	if ctx.Err() != nil {
		return nil, ctx.Err()
	}
	timeout := time.Duration(data_model.MaxConveyorDelay) * time.Second
	if s.faults && s.x.Choose(2, "request lost") == 1 {
		s.nfaults++
		s.events = append(s.events, fmt.Sprintf("%s:%d->%s:request-lost", kind, args.Time, address))
		vtime.Sleep(timeout)
		return nil, fmt.Errorf("scripted timeout (request lost)")
	}
	s.qid++
	q := s.qid
	conn := s.conns[idx]
	call := &c01cCall{}
	conn.calls[q] = call
	hctx := &rpc.HandlerContext{}
	hctx.ResetTo(conn, q)
	hctx.Request = append([]byte{}, req.Body[4:]...) // the server strips the function tag
	err := s.aggs[idx].handleSendSourceBucket3(ctx, hctx)
	if call.lp {
		if t := vsched.Self(); t != nil {
			t.Block(&vsched.Op{Label: "await long poll " + address, Enabled: func() bool { return call.done }})
		}
	} else {
		call.body, call.err, call.done = append([]byte{}, hctx.Response...), err, true
	}
	if s.faults && s.x.Choose(2, "response lost") == 1 {
		s.nfaults++
		s.events = append(s.events, fmt.Sprintf("%s:%d->%s:response-lost", kind, args.Time, address))
		vtime.Sleep(timeout)
		return nil, fmt.Errorf("scripted timeout (response lost)")
	}
	if call.err != nil {
		s.events = append(s.events, fmt.Sprintf("%s:%d->%s:rpc-error", kind, args.Time, address))
		return nil, call.err
	}
	var resp tlstatshouse.SendSourceBucket3Response
	if _, perr := args.ReadResultTL1(call.body, &resp); perr != nil {
		s.fail("C01:compose-unreadable-response", perr.Error())
		return nil, perr
	}
	s.events = append(s.events, fmt.Sprintf("%s:%d->%s:discard=%v", kind, args.Time, address, resp.IsSetDiscard()))
	if resp.IsSetDiscard() && s.inserted[args.Time] == 0 {
		s.fail("C01:compose-discard-without-successful-insert", fmt.Sprintf("agent was told to discard second %d (%s send to %s, warning %q) but no successful insert held its rows; events %v", args.Time, kind, address, resp.Warning, s.events))
	}
	return &rpc.Response{Body: call.body}, nil
}

type c01cRT struct{ sys *c01cSys }

func (rt c01cRT) RoundTrip(req *http.Request) (*http.Response, error) {
	s := rt.sys
	body, _ := io.ReadAll(req.Body)
	vsched.Point("clickhouse insert")
	ok := true
	if s.faults && vsched.Self() != nil && s.x.Choose(2, "insert fails") == 1 {
		ok = false
		s.nfaults++
	}
	var held []string
	for m, t := range s.marker {
		var pat [5]byte
		binary.LittleEndian.PutUint32(pat[1:], uint32(m))
		if bytes.Contains(body, pat[:]) {
			held = append(held, fmt.Sprint(t))
			if ok {
				s.inserted[t]++
			}
		}
	}
	s.events = append(s.events, fmt.Sprintf("insert(ok=%v seconds %s)", ok, strings.Join(held, ",")))
	if !ok {
		return &http.Response{StatusCode: 500, Header: http.Header{"X-Clickhouse-Exception-Code": []string{"241"}}, Body: io.NopCloser(strings.NewReader("scripted failure")), Request: req}, nil
	}
	return &http.Response{StatusCode: 200, Header: http.Header{}, Body: io.NopCloser(strings.NewReader("")), Request: req}, nil
}

type c01cScenario struct {
	name    string
	seconds int
	faults  bool
	save    bool
}

var c01cDirSeq int

func c01cRun(x *mc.Exec, sc c01cScenario, rep *mc.Report) mc.Verdict {
	c01cDirSeq++
	dir := filepath.Join(os.Getenv("VERIF_SCRATCH"), fmt.Sprintf("c01c_%d", c01cDirSeq))
	_ = os.RemoveAll(dir)
	_ = os.MkdirAll(dir, 0o755)
	defer os.RemoveAll(dir)
	s := &c01cSys{x: x, faults: sc.faults, marker: map[int32]uint32{}, inserted: map[uint32]int{}}
	c01RT = c01cRT{sys: s}
	var sender *agent.VerifC01Sender
	var produced []uint32
	finished := false
	cleanup := func() {
		if sender != nil {
			sender.Cleanup()
		}
		for _, a := range s.aggs {
			if a != nil && a.bucketsToSend != nil {
				func() {
					defer func() { recover() }()
					close(a.bucketsToSend)
				}()
			}
		}
	}
	res := vsched.Run(x, vsched.Config{Horizon: 20 * time.Minute, MaxSteps: 1000000, Cleanup: cleanup, SwitchCost: 3}, func() {
		now := vtime.Now()
		for i := 0; i < 3; i++ {
			a, err := c01NewAggregator(c01AggScenario{replica: int32(i) + 1, inserter: 1}, now)
			if err != nil {
				panic(c01AggInfra("cannot build aggregator: " + err.Error()))
			}
			a.insertsSemaSize = 1
			a.insertsSema = semaphore.NewWeighted(1)
			_ = a.insertsSema.Acquire(context.Background(), 1)
			s.aggs[i] = a
			s.conns[i] = &c01cConn{sys: s, calls: map[int64]*c01cCall{}, hctxs: map[int64]*rpc.HandlerContext{}}
			vsched.GoNamed(fmt.Sprintf("ticker%d", i+1), true, a.goTicker)
			vsched.GoNamed(fmt.Sprintf("inserter%d", i+1), true, func() { a.goInsert(a.insertsSema, a.cancelInsertsCtx, a.bucketsToSend, 0) })
		}
		var err error
		sender, err = agent.VerifC01NewSender(dir, sc.save, &c01cClient{sys: s}, uint32(now.Unix()))
		if err != nil {
			panic(c01AggInfra("cannot build agent: " + err.Error()))
		}
		var wg vsync.WaitGroup
		sender.Start(2, 1, &wg)
		for i := 0; i < sc.seconds; i++ {
			t := uint32(vtime.Now().Unix())
			m := int32(40001 + i)
			s.marker[m] = t
			produced = append(produced, t)
			sb := tlstatshouse.SourceBucket3{}
			item := tlstatshouse.MultiItem{Metric: m, Keys: []int32{0, 5, 6}}
			item.Tail.SetCounterEq1(true, &item.FieldsMask)
			sb.Metrics = append(sb.Metrics, item)
			sender.Produce(t, compress.CompressAndFrame(sb.WriteTL1Boxed(nil)))
			vtime.Sleep(time.Second)
		}
		vtime.Sleep(25 * time.Second)
		s.faults = false // fault budget spent
		vtime.Sleep(30 * time.Second)
		for _, t := range produced {
			if s.inserted[t] == 0 {
				s.fail("C01:compose-second-never-inserted", fmt.Sprintf("second %d (offset %d) is in no successful insert although it stayed inside the historic window and nothing fails any more since 30 s; events %v", t, int64(t)-int64(produced[0]), s.events))
				break
			}
		}
		finished = true
	})
	if sender != nil {
		sender.CloseDisk()
	}
	if res.Panic != nil {
		if inf, ok := res.Panic.(c01AggInfra); ok {
			panic(inf)
		}
		return mc.Verdict{Violation: fmt.Sprintf("%s: panic in code under test: %v", sc.name, res.Panic), Sig: "C01:compose-panic", Detail: res.PanicStack}
	}
	if s.viol != "" {
		return mc.Verdict{Violation: sc.name + ": " + s.viol, Sig: s.sig, Detail: map[string]any{"scenario": sc.name, "events": s.events}}
	}
	if res.Deadlock || res.StepCap || res.Horizon || !finished {
		return mc.Verdict{Violation: fmt.Sprintf("%s: execution did not finish (%+v); events %v", sc.name, res, s.events), Sig: "C01:compose-stuck", Detail: map[string]any{"scenario": sc.name, "blocked": res.Blocked}}
	}
	if res.Leaked > 0 && !vsched.NoteLeak(res.Leaked) {
		panic(c01AggInfra(fmt.Sprintf("too many leaked goroutines (%d more in scenario %s)", res.Leaked, sc.name)))
	}
	key := sc.name + "|" + strings.Join(s.events, ",")
	rep.State(key)
	rep.Outcome(fmt.Sprintf("%s|faults=%d|events=%d", sc.name, s.nfaults, len(s.events)))
	if s.nfaults > 0 || x.Deviations() > 0 {
		rep.Nontrivial(key)
	}
	if s.nfaults > 0 {
		rep.Sample(map[string]any{"scenario": sc.name, "events": s.events})
	}
	return mc.Verdict{}
}

func TestVerifC01Compose(t *testing.T) {
	log.SetOutput(io.Discard)
	rep := mc.NewReport("C01")
	if os.Getenv("VERIF_FREERUN") == "1" {
		rep.AddCounts(1, 1, 1, 0)
		rep.Rule = "not applicable"
		rep.Sample("skipped")
		rep.Write()
		return
	}
	scs := []c01cScenario{
		{name: "composed: 3 seconds, faults", seconds: 3, faults: true},
	}
	if mc.Thorough() {
		scs = append(scs,
			c01cScenario{name: "composed: 3 seconds, save immediately, faults", seconds: 3, faults: true, save: true},
			c01cScenario{name: "composed: 4 seconds, faults", seconds: 4, faults: true})
	}
	bound := mc.Pick(1, 2)
	rep.Bounds["compose_deviation_bound"] = bound
	rep.Bounds["compose_scenarios"] = len(scs)
	rep.Bounds["compose_schedule_switch_cost"] = 3
	rep.Rule = "composition: real agent sender side + three real aggregator replicas (handler, ticker, inserter each) + ClickHouse stub in one controlled execution under virtual time; every execution with at most B fault deviations (insert fails / request lost / response lost at any send or insert; a thread switch or timer-first choice costs 3, i.e. schedule deviations enter only at bound >= 3). Non-trivial = execution with at least one fault"
	shard, shards := mc.ShardFromEnv()
	body := func(x *mc.Exec) mc.Verdict {
		si := x.ChooseFree(len(scs), "scenario")
		return c01cRun(x, scs[si], rep)
	}
	st := mc.Explore(body, mc.Options{Bound: bound, Workers: 1, SplitDepth: 4, Shard: shard, Shards: shards})
	rep.MergeExplore("composition", st)
	if err := rep.Write(); err != nil {
		t.Fatal(err)
	}
	t.Logf("C01 composition: %+v", st)
}
