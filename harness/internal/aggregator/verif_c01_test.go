//go:build verif

package aggregator

// C01 (aggregator half): an aggregator acknowledges (discard) a second only after an insert containing
// that second's rows succeeded or after it deliberately rejected it; every long poll is answered exactly
// once; accepted seconds are answered within the recent window / the next historic insert.
//
// Real handleSendSourceBucket3 (through a real rpc.HandlerContext bound by ResetTo to a recording
// connection), real goTicker / advanceRecentBuckets, real goInsert / popOldestHistoricBucket /
// rowDataMarshalAppendPositions / sendToClickhouse, all instrumented by tools/vinstr (modelled mutexes,
// virtual time, controlled goroutines, scheduler-owned selects). ClickHouse is the redirected
// makeHTTPClient: an in-process RoundTripper that scans the RowBinary body for the marker rows of the
// scripted seconds and answers 200 or 500 by explorer choice. Scripted agents send {on-time recent,
// late recent, historic, spare, beyond the historic window, too far in the future, wrong shard,
// undecodable}.

import (
	"bytes"
	"context"
	"encoding/binary"
	"fmt"
	"io"
	"log"
	"net"
	"net/http"
	"os"
	"strings"
	"testing"
	"time"

	"github.com/VKCOM/tl/pkg/rpc"

	"github.com/VKCOM/statshouse/internal/agent"
	"github.com/VKCOM/statshouse/internal/data_model"
	"github.com/VKCOM/statshouse/internal/data_model/gen2/tlstatshouse"
	"github.com/VKCOM/statshouse/internal/format"
	"github.com/VKCOM/statshouse/internal/metajournal"
	"github.com/VKCOM/statshouse/internal/pcache"
	"github.com/VKCOM/statshouse/internal/verif/mc"
	"github.com/VKCOM/statshouse/internal/verif/vsched"
	"github.com/VKCOM/statshouse/internal/verif/vsync"
	"github.com/VKCOM/statshouse/internal/verif/vtime"
	"github.com/VKCOM/statshouse/internal/vkgo/semaphore"
)

const (
	c01Recent       = iota // on-time recent second (now-1)
	c01RecentLate          // recent second older than the recent window: must be answered keep
	c01Historic            // historic second inside the historic window
	c01Spare               // recent second of another replica sent to us as spare
	c01TooOld              // historic second beyond the historic window: deliberate discard
	c01Future              // second beyond the future window: deliberate discard
	c01WrongShard          // header names another shard*replica: deliberate discard
	c01Undecodable         // body is not a source bucket: deliberate discard
	c01HistoricEdge        // historic second at the very edge of the historic window: accepted now, it may leave the window while it waits
)

var c01KindName = []string{"recent", "recent-late", "historic", "spare", "too-old", "future", "wrong-shard", "undecodable", "historic-edge"}

type c01Req struct {
	kind  int
	delay time.Duration // virtual sleep before sending
	pause time.Duration // the whole aggregator process is frozen for this long first (missed ticks)
}

type c01AggScenario struct {
	name     string
	agents   [][]c01Req
	fails    bool // ClickHouse failures are explorer choices
	replica  int32
	inserter int
}

func c01AggScenarios(thorough bool) []c01AggScenario {
	R := func(kind int, d time.Duration) c01Req { return c01Req{kind: kind, delay: d} }
	s := time.Second
	out := []c01AggScenario{
		{name: "recent and historic", replica: 1, inserter: 1, agents: [][]c01Req{{R(c01Recent, 0), R(c01Recent, s)}, {R(c01Historic, 0)}}},
		{name: "late recent, spare, rejects", replica: 2, inserter: 1, agents: [][]c01Req{{R(c01RecentLate, 0), R(c01Spare, s)}, {R(c01TooOld, 0), R(c01Future, 0)}}},
		{name: "wrong shard and undecodable", replica: 3, inserter: 1, agents: [][]c01Req{{R(c01WrongShard, 0), R(c01Recent, 0)}, {R(c01Undecodable, 0), R(c01Historic, s)}}},
		{name: "insert failures: recent and historic", replica: 1, inserter: 1, fails: true, agents: [][]c01Req{{R(c01Recent, 0), R(c01Recent, 3*s)}, {R(c01Historic, 0)}}},
		{name: "insert failures: two inserters", replica: 2, inserter: 2, fails: true, agents: [][]c01Req{{R(c01Recent, 0), R(c01Historic, s)}, {R(c01Recent, 2*s), R(c01Spare, 0)}}},
	}
	P := func(kind int, d, pause time.Duration) c01Req { return c01Req{kind: kind, delay: d, pause: pause} }
	out = append(out,
		c01AggScenario{name: "ticker misses 8 s then recent and historic", replica: 1, inserter: 1, agents: [][]c01Req{{R(c01Recent, 0), P(c01Recent, s, 8*s), R(c01Recent, 3*s)}, {R(c01Historic, 12*s)}}},
		// a historic second that is accepted at the edge of the window and leaves it while it waits for an
		// inserter (answered "discarded before historic window" without an insert: allowed, it did not stay
		// inside the window); the historic seconds sent AFTER that round must still be inserted
		c01AggScenario{name: "historic second leaves the window while waiting, then historic", replica: 1, inserter: 1, agents: [][]c01Req{{R(c01HistoricEdge, 0), R(c01Historic, 7*s), R(c01Historic, 4*s)}, {R(c01Recent, 0), R(c01Recent, 5*s)}}},
		c01AggScenario{name: "ticker misses 3 s twice", replica: 2, inserter: 1, agents: [][]c01Req{{P(c01Recent, 0, 3*s), P(c01Recent, s, 3*s), R(c01Recent, 2*s)}, {R(c01RecentLate, 9*s)}}},
	)
	if thorough {
		out = append(out,
			c01AggScenario{name: "three agents", replica: 1, inserter: 2, fails: true, agents: [][]c01Req{{R(c01Recent, 0), R(c01Historic, s)}, {R(c01Recent, 0), R(c01RecentLate, 0)}, {R(c01Historic, 0), R(c01Recent, 3*s)}}},
			c01AggScenario{name: "two edge seconds, two inserters, failures", replica: 2, inserter: 2, fails: true, agents: [][]c01Req{{R(c01HistoricEdge, 0), R(c01HistoricEdge, s), R(c01Historic, 9*s)}, {R(c01Recent, 0), R(c01Historic, 12*s)}}},
			c01AggScenario{name: "historic only with failures", replica: 3, inserter: 1, fails: true, agents: [][]c01Req{{R(c01Historic, 0), R(c01Historic, s)}, {R(c01Historic, 0), R(c01TooOld, 0)}}},
		)
	}
	return out
}

// c01Sent is one scripted request and everything observed about it.
type c01Sent struct {
	id         int
	kind       int
	time       uint32 // args.Time
	marker     int32  // metric id of the marker row
	longpoll   bool
	answers    int
	discard    bool
	warning    string
	rpcErr     string
	answerAt   time.Duration
	sentAt     time.Duration
	insertsOK  int  // successful inserts whose body held the marker row of this request
	leftWindow bool // historic-edge request answered "discarded before historic window"
}

type c01AggConn struct {
	w        *c01World
	byQuery  map[int64]*c01Sent
	hctxs    map[int64]*rpc.HandlerContext
	finished map[int64]int
}

type c01World struct {
	x        *mc.Exec
	fails    bool
	reqs     []*c01Sent
	conn     *c01AggConn
	inserts  []string
	viol     string
	sig      string
	failures int
}

func (w *c01World) fail(sig, msg string) {
	if w.viol == "" {
		w.sig, w.viol = sig, msg
	}
}

func (c *c01AggConn) StartLongpoll(hctx *rpc.HandlerContext, canceller rpc.LongpollCanceller) (rpc.LongpollHandle, error) {
	q := hctx.QueryID()
	if r := c.byQuery[q]; r != nil {
		r.longpoll = true
	}
	c.hctxs[q] = hctx
	return rpc.LongpollHandle{QueryID: q, CommonConn: c}, nil
}
func (c *c01AggConn) CancelLongpoll(queryID int64) (rpc.LongpollCanceller, int64) { return nil, 0 }
func (c *c01AggConn) FinishLongpoll(lh rpc.LongpollHandle) (*rpc.HandlerContext, error) {
	c.finished[lh.QueryID]++
	hctx := c.hctxs[lh.QueryID]
	if hctx == nil {
		return nil, nil // already answered: a second answer must not go out
	}
	delete(c.hctxs, lh.QueryID)
	hctx.Response = hctx.Response[:0] // the mock cannot mark the context as long-polling, so the handler left its immediate answer here
	return hctx, nil
}
func (c *c01AggConn) DebugName() string { return "c01" }
func (c *c01AggConn) SendResponse(hctx *rpc.HandlerContext, err error) {
	r := c.byQuery[hctx.QueryID()]
	if r == nil {
		return
	}
	c.w.answer(r, hctx.Response, err)
}
func (c *c01AggConn) SendEmptyResponse(lh rpc.LongpollHandle)                  {}
func (c *c01AggConn) AccountResponseMem(hctx *rpc.HandlerContext, n int) error { return nil }
func (c *c01AggConn) ListenAddr() net.Addr {
	return &net.TCPAddr{IP: net.IPv4(127, 0, 0, 1), Port: 13336}
}
func (c *c01AggConn) LocalAddr() net.Addr {
	return &net.TCPAddr{IP: net.IPv4(127, 0, 0, 1), Port: 13336}
}
func (c *c01AggConn) RemoteAddr() net.Addr {
	return &net.TCPAddr{IP: net.IPv4(10, 1, 2, 3), Port: 40000}
}
func (c *c01AggConn) KeyID() [4]byte            { return [4]byte{} }
func (c *c01AggConn) ProtocolVersion() uint32   { return rpc.LatestProtocolVersion }
func (c *c01AggConn) ProtocolTransportID() byte { return 0 }
func (c *c01AggConn) ConnectionID() uintptr     { return 1 }

// answer records the answer to a request and checks S2 (discard only after a successful insert or a deliberate reject).
func (w *c01World) answer(r *c01Sent, body []byte, rpcErr error) {
	r.answers++
	if s := vsched.Active(); s != nil {
		r.answerAt = s.Elapsed()
	}
	if r.answers > 1 {
		w.fail("C01:agg-request-answered-twice", fmt.Sprintf("request #%d (%s second %d) was answered %d times", r.id, c01KindName[r.kind], r.time, r.answers))
		return
	}
	if rpcErr != nil {
		r.rpcErr = rpcErr.Error()
		return // an rpc error never lets the agent forget the second
	}
	var resp tlstatshouse.SendSourceBucket3ResponseBytes
	var args tlstatshouse.SendSourceBucket3Bytes
	if _, err := args.ReadResultTL1(body, &resp); err != nil {
		w.fail("C01:agg-unreadable-response", fmt.Sprintf("request #%d: response does not parse: %v", r.id, err))
		return
	}
	r.discard, r.warning = resp.IsSetDiscard(), string(resp.Warning)
	if !r.discard {
		return
	}
	deliberate := r.kind == c01TooOld || r.kind == c01Future || r.kind == c01WrongShard || r.kind == c01Undecodable
	if deliberate {
		return
	}
	if r.kind == c01HistoricEdge && strings.Contains(r.warning, "before historic window") {
		r.leftWindow = true
		return // it left the historic window while waiting: a stated, deliberate discard
	}
	if r.insertsOK == 0 {
		w.fail("C01:agg-discard-without-successful-insert", fmt.Sprintf("request #%d (%s second %d, long poll %v) was answered discard (warning %q) although no successful insert contained its rows; inserts so far: %v", r.id, c01KindName[r.kind], r.time, r.longpoll, r.warning, w.inserts))
	}
}

type c01RoundTripper struct{ w *c01World }

func (rt c01RoundTripper) RoundTrip(req *http.Request) (*http.Response, error) {
	w := rt.w
	body, _ := io.ReadAll(req.Body)
	vsched.Point("clickhouse insert")
	ok := true
	failKind := 0
	if w.fails && vsched.Self() != nil {
		// 0 = stored; 1 = ClickHouse refuses (500 with its exception header); 2 = something in front of ClickHouse
		// answers (503, no ClickHouse header); 3 = the connection breaks (transport error)
		if failKind = w.x.Choose(4, "insert answer"); failKind != 0 {
			ok = false
			w.failures++
		}
	}
	var held []string
	for _, r := range w.reqs {
		var pat [9]byte
		binary.LittleEndian.PutUint32(pat[1:], uint32(r.marker))
		binary.LittleEndian.PutUint32(pat[5:], r.time)
		if bytes.Contains(body, pat[:]) {
			held = append(held, fmt.Sprint(r.id))
			if ok {
				r.insertsOK++
			}
		}
	}
	w.inserts = append(w.inserts, fmt.Sprintf("insert(ok=%v rows of #%s)", ok, strings.Join(held, ",")))
	switch failKind {
	case 1:
		return &http.Response{StatusCode: 500, Header: http.Header{"X-Clickhouse-Exception-Code": []string{"241"}}, Body: io.NopCloser(strings.NewReader("scripted failure")), Request: req}, nil
	case 2:
		return &http.Response{StatusCode: 503, Header: http.Header{}, Body: io.NopCloser(strings.NewReader("upstream unavailable")), Request: req}, nil
	case 3:
		return nil, fmt.Errorf("scripted transport error")
	}
	return &http.Response{StatusCode: 200, Header: http.Header{}, Body: io.NopCloser(strings.NewReader("")), Request: req}, nil
}

var c01CurWorld *c01World

// c01RT is the ClickHouse stub of the harness that is currently running (aggregator half or composition).
var c01RT http.RoundTripper

type c01RTProxy struct{}

func (c01RTProxy) RoundTrip(req *http.Request) (*http.Response, error) { return c01RT.RoundTrip(req) }

// makeHTTPClient replaces the redirected original (tools/vinstr -redirect makeHTTPClient).
func makeHTTPClient() *http.Client {
	return &http.Client{Transport: c01RTProxy{}}
}

var (
	c01Mappings      = metajournal.MakeMappings(context.Background(), 0, false, 0, []*data_model.ChunkedStorage2{data_model.NewChunkedStorageNop()})
	c01MappingsCache = pcache.NewMappingsCache(data_model.NewChunkedStorageNop(), 1<<20, 86400)
)

const c01AggShard = 1
const c01HistoricWindow = 120

func c01NewAggregator(sc c01AggScenario, now time.Time) (*Aggregator, error) {
	config := DefaultConfigAggregator()
	config.RemoteInitial.ClusterShardsAddrs = []string{"", "", ""}
	config.KHAddr = "clickhouse:8123"
	config.ShardByMetricShards = 1
	config.RemoteInitial.DenyOldAgents = false // test builds have no commit timestamp
	config.RecentInserters = sc.inserter
	config.DisableRemoteConfig = true
	a := &Aggregator{
		bucketsToSend:     make(chan *aggregatorBucket),
		hostBudgetCache:   map[data_model.TagUnion][]tlstatshouse.MetricBudget{},
		historicBuckets:   map[uint32]*aggregatorBucket{},
		historicHosts:     [2][2]map[data_model.TagUnion]int64{{map[data_model.TagUnion]int64{}, map[data_model.TagUnion]int64{}}, {map[data_model.TagUnion]int64{}, map[data_model.TagUnion]int64{}}},
		config:            config,
		configR:           config.RemoteInitial,
		cfgNotifier:       NewConfigChangeNotifier(),
		orgMetricSize:     data_model.NewExpDecayMetrics(config.RemoteInitial.OriginalSizeDecayHalfLife),
		shardKey:          c01AggShard,
		replicaKey:        sc.replica,
		mappingsStorage:   c01Mappings,
		aggregatorHostTag: data_model.TagUnion{I: 77},
		metricStorage:     metajournal.MakeMetricsStorage(nil),
	}
	a.cancelInsertsCtx, a.cancelInsertsFunc = context.WithCancel(context.Background())
	a.tagsMapper3 = &tagsMapper3{agg: a, metricStorage: a.metricStorage, unknownTags: map[string]unknownTag{}, createTags: map[string]createMappingExtra{}, config: a.configR.configTagsMapper3}
	agentConfig := agent.DefaultConfig()
	agentConfig.Cluster = config.Cluster
	agentConfig.HistoricWindow = c01HistoricWindow
	getConfigResult := a.getConfigResult3Locked()
	sh2, err := agent.MakeAgent("tcp4", "", "", nil, agentConfig, "c01-aggregator-host", format.TagValueIDComponentAggregator,
		nil, c01MappingsCache,
		func() (int64, string) { return 0, "" }, func() (int64, string) { return 0, "" },
		func(string, ...interface{}) {}, nil, &getConfigResult, nil)
	if err != nil {
		return nil, err
	}
	a.sh2 = sh2
	a.estimator.Init()
	a.startTimestamp = uint32(now.Unix())
	_ = a.advanceRecentBuckets(now, true)
	return a, nil
}

func c01AggRun(x *mc.Exec, sc c01AggScenario, rep *mc.Report) mc.Verdict {
	w := &c01World{x: x, fails: sc.fails}
	w.conn = &c01AggConn{w: w, byQuery: map[int64]*c01Sent{}, hctxs: map[int64]*rpc.HandlerContext{}, finished: map[int64]int{}}
	c01CurWorld = w
	c01RT = c01RoundTripper{w: w}
	finished := false
	var agg *Aggregator
	cleanup := func() {
		if agg != nil && agg.bucketsToSend != nil {
			func() {
				defer func() { recover() }()
				close(agg.bucketsToSend) // releases inserters parked on the channel
			}()
		}
	}
	res := vsched.Run(x, vsched.Config{Horizon: 10 * time.Minute, MaxSteps: 300000, Cleanup: cleanup}, func() {
		a, err := c01NewAggregator(sc, vtime.Now())
		agg = a
		if err != nil {
			panic(c01AggInfra("cannot build aggregator: " + err.Error()))
		}
		a.insertsSemaSize = int64(a.config.RecentInserters)
		a.insertsSema = semaphore.NewWeighted(a.insertsSemaSize)
		_ = a.insertsSema.Acquire(context.Background(), a.insertsSemaSize)
		vsched.GoNamed("ticker", true, a.goTicker)
		for i := 0; i < a.config.RecentInserters; i++ {
			i := i
			vsched.GoNamed(fmt.Sprintf("inserter%d", i), true, func() { a.goInsert(a.insertsSema, a.cancelInsertsCtx, a.bucketsToSend, i) })
		}
		var wg vsync.WaitGroup
		nextID := 0
		for ai, prog := range sc.agents {
			ai, prog := ai, prog
			wg.Add(1)
			vsched.GoNamed(fmt.Sprintf("agent%d", ai), false, func() {
				defer wg.Done()
				for _, rq := range prog {
					if rq.delay > 0 {
						vtime.Sleep(rq.delay)
					} else {
						vsched.Point("send")
					}
					if rq.pause > 0 {
						// process pause / clock step: the ticker misses ticks, then catches up
						vsched.Active().JumpClock(rq.pause)
						vtime.Sleep(1500 * time.Millisecond)
					}
					nextID++
					c01Send(w, a, sc, nextID, rq.kind, ai)
				}
			})
		}
		wg.Wait()
		// bounded liveness: after the last request the recent window passes and the next own-replica
		// inserts take the historic seconds along
		vtime.Sleep(time.Duration(a.configR.ShortWindow+data_model.FutureWindow+12) * time.Second)
		w.fails = false // fault budget spent
		vtime.Sleep(12 * time.Second)
		for _, r := range w.reqs {
			accepted := r.kind == c01Recent || r.kind == c01Historic || r.kind == c01Spare
			switch {
			case r.answers == 0:
				w.fail("C01:agg-request-never-answered", fmt.Sprintf("request #%d (%s second %d, long poll %v) sent at %v was never answered; inserts: %v", r.id, c01KindName[r.kind], r.time, r.longpoll, r.sentAt, w.inserts))
			case r.kind == c01RecentLate && (r.discard || r.rpcErr != ""):
				if r.discard {
					w.fail("C01:agg-late-recent-discarded", fmt.Sprintf("late recent request #%d (second %d) was answered discard (%q): the agent forgets a second that was never inserted", r.id, r.time, r.warning))
				}
			case r.kind == c01HistoricEdge && w.failures == 0 && !r.leftWindow && !(r.discard && r.insertsOK > 0):
				w.fail("C01:agg-accepted-second-not-inserted", fmt.Sprintf("edge-of-window historic request #%d (second %d) ended as discard=%v warning=%q rpc error=%q with %d successful inserts: neither inserted nor discarded as having left the historic window; inserts: %v", r.id, r.time, r.discard, r.warning, r.rpcErr, r.insertsOK, w.inserts))
			case accepted && w.failures == 0 && !(r.discard && r.insertsOK > 0):
				w.fail("C01:agg-accepted-second-not-inserted", fmt.Sprintf("request #%d (%s second %d) was accepted but ended as discard=%v warning=%q rpc error=%q with %d successful inserts of its rows although ClickHouse never failed; inserts: %v", r.id, c01KindName[r.kind], r.time, r.discard, r.warning, r.rpcErr, r.insertsOK, w.inserts))
			}
		}
		finished = true
	})
	if res.Panic != nil {
		if inf, ok := res.Panic.(c01AggInfra); ok {
			panic(inf)
		}
		return mc.Verdict{Violation: fmt.Sprintf("%s: panic in code under test: %v", sc.name, res.Panic), Sig: "C01:agg-panic", Detail: res.PanicStack}
	}
	if w.viol != "" {
		return mc.Verdict{Violation: sc.name + ": " + w.viol, Sig: w.sig, Detail: map[string]any{"scenario": sc.name, "inserts": w.inserts}}
	}
	if res.Deadlock || res.StepCap || res.Horizon || !finished {
		return mc.Verdict{Violation: fmt.Sprintf("%s: execution did not finish (%+v)", sc.name, res), Sig: "C01:agg-stuck", Detail: map[string]any{"scenario": sc.name, "blocked": res.Blocked}}
	}
	if res.Leaked > 0 && !vsched.NoteLeak(res.Leaked) {
		panic(c01AggInfra(fmt.Sprintf("too many leaked goroutines (%d more in scenario %s)", res.Leaked, sc.name)))
	}
	var obs []string
	for _, r := range w.reqs {
		obs = append(obs, fmt.Sprintf("#%d:%s:lp=%v:discard=%v:ok=%d:err=%v", r.id, c01KindName[r.kind], r.longpoll, r.discard, r.insertsOK, r.rpcErr != ""))
	}
	key := sc.name + "|" + strings.Join(obs, ",") + "|" + strings.Join(w.inserts, ",")
	rep.State(key)
	rep.Outcome(sc.name + "|" + strings.Join(obs, ","))
	if w.failures > 0 || x.Deviations() > 0 {
		rep.Nontrivial(key)
	}
	if w.failures > 0 {
		rep.Sample(map[string]any{"scenario": sc.name, "requests": obs, "inserts": w.inserts})
	}
	return mc.Verdict{}
}

// c01Send builds one scripted request, runs the real handler and records an immediate answer.
func c01Send(w *c01World, a *Aggregator, sc c01AggScenario, id int, kind int, agentIdx int) {
	now := uint32(vtime.Now().Unix())
	a.mu.Lock()
	oldest := a.recentBuckets[0].time
	newest := a.recentBuckets[len(a.recentBuckets)-1].time
	a.mu.Unlock()
	own := func(t uint32) uint32 { // largest second <= t that is this replica's own
		for t%3 != uint32(sc.replica-1) {
			t--
		}
		return t
	}
	r := &c01Sent{id: id, kind: kind, marker: 40000 + int32(id)}
	historic, spare := false, false
	switch kind {
	case c01Recent:
		r.time = own(now - 1)
	case c01RecentLate:
		r.time = own(oldest - 3)
	case c01Historic:
		r.time, historic = own(oldest-30), true
	case c01Spare:
		r.time, spare = own(now-1)-1, true // the previous replica's second, rounded up to ours
	case c01HistoricEdge:
		r.time, historic = own(oldest-c01HistoricWindow+2), true // in [oldest-window, oldest-window+2]: the oldest seconds the handler still accepts
	case c01TooOld:
		r.time, historic = own(oldest-c01HistoricWindow-30), true
	case c01Future:
		r.time = own(newest + 9)
	case c01WrongShard, c01Undecodable:
		r.time = own(now - 1)
	}
	if s := vsched.Active(); s != nil {
		r.sentAt = s.Elapsed()
	}
	w.reqs = append(w.reqs, r)
	var bucket tlstatshouse.SourceBucket3Bytes
	item := tlstatshouse.MultiItemBytes{Metric: r.marker, Keys: []int32{0, 5, 6}}
	item.Tail.SetCounterEq1(true, &item.FieldsMask)
	bucket.Metrics = append(bucket.Metrics, item)
	body := bucket.WriteTL1Boxed(nil)
	if kind == c01Undecodable {
		body = []byte{1, 2, 3, 4, 5, 6, 7, 8}
	}
	var args tlstatshouse.SendSourceBucket3Bytes
	args.Time = r.time
	args.SetHistoric(historic)
	args.SetSpare(spare)
	args.Header.ShardReplica = (c01AggShard-1)*3 + (sc.replica - 1)
	if kind == c01WrongShard {
		args.Header.ShardReplica = (args.Header.ShardReplica + 1) % 3
	}
	args.Header.ShardReplicaTotal = 3
	args.Header.HostName = []byte(fmt.Sprintf("agent-host-%d", agentIdx))
	args.Header.ComponentTag = format.TagValueIDComponentAgent
	args.BuildCommitTs = format.LeastAllowedAgentCommitTs
	args.OriginalSize = uint32(len(body))
	args.CompressedData = body
	hctx := &rpc.HandlerContext{}
	q := int64(1000 + id)
	hctx.ResetTo(w.conn, q)
	w.conn.byQuery[q] = r
	hctx.Request = args.WriteTL1(nil)
	err := a.handleSendSourceBucket3(context.Background(), hctx)
	if r.longpoll {
		if err != nil {
			w.fail("C01:agg-longpoll-and-error", fmt.Sprintf("request #%d: long poll started and error %v returned", id, err))
		}
		return // answered later through the connection
	}
	w.answer(r, hctx.Response, err)
}

type c01AggInfra string

func (c c01AggInfra) MCInfra() string { return string(c) }

func TestVerifC01Agg(t *testing.T) {
	log.SetOutput(io.Discard)
	rep := mc.NewReport("C01")
	if os.Getenv("VERIF_FREERUN") == "1" {
		rep.AddCounts(1, 1, 1, 0)
		rep.Rule = "free-running race pass not applicable to the virtual-time aggregator harness"
		rep.Sample("skipped")
		rep.Write()
		return
	}
	scs := c01AggScenarios(mc.Thorough())
	bound := mc.Pick(1, 2)
	rep.Bounds["aggregator_deviation_bound"] = bound
	rep.Bounds["aggregator_scenarios"] = len(scs)
	rep.Rule = "aggregator half: every execution with at most B deviations (ClickHouse insert answers 500 with its exception header / 503 without one / a transport error instead of 200; another thread than the default one runs; a due timer fires first; non-source-order select probe) of every scenario (2-3 scripted agents sending on-time recent / late recent / historic / historic at the edge of the window / spare / beyond-historic-window / far-future / wrong-shard / undecodable requests, replica 1-3, 1-2 inserters), real handler + ticker + inserters under virtual time. Non-trivial = execution with an insert failure or a schedule deviation"
	shard, shards := mc.ShardFromEnv()
	body := func(x *mc.Exec) mc.Verdict {
		si := x.ChooseFree(len(scs), "scenario")
		return c01AggRun(x, scs[si], rep)
	}
	st := mc.Explore(body, mc.Options{Bound: bound, Workers: 1, SplitDepth: 4, Shard: shard, Shards: shards})
	rep.MergeExplore("aggregator", st)
	if err := rep.Write(); err != nil {
		t.Fatal(err)
	}
	t.Logf("C01 aggregator: %+v", st)
}
