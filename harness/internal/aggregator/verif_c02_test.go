//go:build verif

package aggregator

// C02, second and third seam (both live in this test binary; the second needs nothing unexported of this package, it
// is here only to save building a third binary).
// Second seam (c02gAgentSeam): rows written through the real Shard.ApplyCounter / ApplyValues / ApplyUnique and sent by
// the real Shard.sampleBucket (agent.VerifC02Send) are parsed and rebuilt by data_model.VerifC02Receive.
// Third seam: the bytes produced by the real agent (Shard.Apply* -> sampleBucket -> WriteTL1Boxed, framed with the
// real compress.CompressAndFrame and wrapped into a real statshouse.sendSourceBucket3 request) go through the real
// Aggregator.handleSendSourceBucket3 (decompression, ReadTL1Boxed, key reconstruction, string-tag / string-top /
// host-string mapping, MergeWithTLMultiItem into the aggregator's own bucket shards). The aggregator is a struct
// literal with the fields the handler touches, driven through rpc.HandlerContext.ResetTo with a stub connection
// (no rpc.Server, no network). The rows the handler stored are observed in aggregatorBucket.shards.
// Oracle and event alphabet are those of the data_model harness; where the aggregator knows a mapping for a string
// (tag value, top key, host) the expectation is the mapped id.

import (
	"context"
	"fmt"
	"net"
	"sync"
	"testing"

	"github.com/VKCOM/tl/pkg/rpc"
	"pgregory.net/rand"

	"github.com/VKCOM/statshouse/internal/agent"
	"github.com/VKCOM/statshouse/internal/compress"
	"github.com/VKCOM/statshouse/internal/data_model"
	"github.com/VKCOM/statshouse/internal/data_model/gen2/tlstatshouse"
	"github.com/VKCOM/statshouse/internal/format"
	"github.com/VKCOM/statshouse/internal/metajournal"
	"github.com/VKCOM/statshouse/internal/verif/mc"
)

type c02gHook struct {
	x *mc.Exec
}

func (h *c02gHook) Uint64n(n uint64) uint64 {
	if n <= 1 {
		return 0
	}
	if h.x.ChooseFree(2, "rand.Uint64n{0,n-1}") == 0 {
		return 0
	}
	return n - 1
}
func (h *c02gHook) Float64() float64 {
	return (float64(h.x.ChooseFree(2, "rand.Float64{.25,.75}")) + 0.5) / 2
}
func (h *c02gHook) Uint64() uint64 { return uint64(h.x.ChooseFree(2, "rand.Uint64")) }

// c02gConn is the connection of the request: the handler only starts a longpoll on it and asks for the remote address.
type c02gConn struct{}

func (c02gConn) StartLongpoll(*rpc.HandlerContext, rpc.LongpollCanceller) (rpc.LongpollHandle, error) {
	return rpc.LongpollHandle{}, nil
}
func (c02gConn) CancelLongpoll(int64) (rpc.LongpollCanceller, int64)            { return nil, 0 }
func (c02gConn) FinishLongpoll(rpc.LongpollHandle) (*rpc.HandlerContext, error) { return nil, nil }
func (c02gConn) DebugName() string                                              { return "c02" }
func (c02gConn) SendResponse(*rpc.HandlerContext, error)                        {}
func (c02gConn) SendEmptyResponse(rpc.LongpollHandle)                           {}
func (c02gConn) AccountResponseMem(*rpc.HandlerContext, int) error              { return nil }
func (c02gConn) ListenAddr() net.Addr                                           { return &net.TCPAddr{IP: net.IPv4(127, 0, 0, 1), Port: 1} }
func (c02gConn) LocalAddr() net.Addr                                            { return &net.TCPAddr{IP: net.IPv4(127, 0, 0, 1), Port: 1} }
func (c02gConn) RemoteAddr() net.Addr                                           { return &net.TCPAddr{IP: net.IPv4(127, 0, 0, 2), Port: 2} }
func (c02gConn) KeyID() [4]byte                                                 { return [4]byte{} }
func (c02gConn) ProtocolVersion() uint32                                        { return 0 }
func (c02gConn) ProtocolTransportID() byte                                      { return 0 }
func (c02gConn) ConnectionID() uintptr                                          { return 1 }

const c02gAgentHost = "agent-host"

var c02gMapping = map[string]int32{"str": 501, "hb": 502, "a": 503, c02gAgentHost: 504}

func c02gMappings(t *testing.T, full bool) *metajournal.MappingsStorage {
	ms := metajournal.MakeMappings(context.Background(), 0, false, 64, []*data_model.ChunkedStorage2{data_model.NewChunkedStorageNop()})
	if !full {
		return ms
	}
	loader := func(ctx context.Context, lastVersion int32, returnIfEmpty bool) ([]tlstatshouse.Mapping, int32, int32, error) {
		var out []tlstatshouse.Mapping
		for s, v := range c02gMapping {
			out = append(out, tlstatshouse.Mapping{Str: s, Value: v})
		}
		return out, 600, 600, nil
	}
	if err := ms.UpdateMappingsUntilVersion(600, format.TagValueIDComponentAggregator, loader); err != nil {
		t.Fatal(err)
	}
	for s, v := range c02gMapping {
		if got, ok := ms.GetValue(s); !ok || got != v {
			t.Fatalf("mapping %q not loaded", s)
		}
	}
	return ms
}

func c02gBaseKey() data_model.Key {
	k := data_model.Key{Metric: data_model.VerifC02Metric}
	k.Tags[0] = 3
	k.Tags[2] = -5
	k.STags[4] = "str"
	return k
}

// c02gAdmit: at most 3 distinct choice sequences per signature are handed to the explorer, the rest is counted
// (same reasoning as c02Admit in the data_model harness).
func c02gAdmit(x *mc.Exec, sig string, bySig map[string]int64, admitted map[string]map[string]bool, mu *sync.Mutex) bool {
	if len(x.Labels) != 0 {
		return true
	}
	key := fmt.Sprint(x.Choices)
	mu.Lock()
	defer mu.Unlock()
	if admitted[sig][key] {
		return true
	}
	bySig[sig]++
	if len(admitted[sig]) >= 3 {
		return false
	}
	if admitted[sig] == nil {
		admitted[sig] = map[string]bool{}
	}
	admitted[sig][key] = true
	return true
}

// c02gFrame frames the bucket with the real compress.CompressAndFrame. The frame is a pure function of the bucket
// bytes and the same bucket is sent many times (with/without mappings on the aggregator, every delivery), so it is
// computed once per distinct bucket: lz4.CompressBlockHC clears ~1 MB of tables per call, which was more than half of
// the CPU time of this test. The request bytes are built from the (immutable) string for every execution.
var c02gFrames sync.Map // string(bucket bytes) -> c02gFramed

type c02gFramed struct {
	originalSize uint32
	compressed   string
}

func c02gFrame(wire []byte) (uint32, string) {
	if v, ok := c02gFrames.Load(string(wire)); ok {
		f := v.(c02gFramed)
		return f.originalSize, f.compressed
	}
	originalSize, compressedData, _ := compress.DeFrame(compress.CompressAndFrame(wire))
	f := c02gFramed{originalSize, string(compressedData)}
	c02gFrames.Store(string(wire), f)
	return f.originalSize, f.compressed
}

// c02gDelivery: how a bucket reaches an aggregator. An agent sends the bucket of second t to the replica that owns t
// (t%3 == replicaKey-1); when that replica is marked dead it goes to a spare replica (the "spare" flag set, t%3 !=
// replicaKey-1), buckets that could not be delivered in time are resent through the historic conveyor (flag "historic",
// to the owner or to a spare), and old agents send every bucket to every replica. The handler rounds the bucket's second
// up to the next second its replica owns to choose the aggregatorBucket; a historic bucket whose rounded second has
// already left the recent window is collected in historicBuckets. None of this may change a row: the key (with the
// timestamp the agent gave the row, implicit = the bucket's own second) and the aggregates are the same wherever and
// however the bucket arrives. The family: every bucket x every replica (3) x {recent, historic still inside the recent
// window, historic older than the window} x spare flag on/off.
type c02gDelivery struct {
	replica  int32 // replicaKey of the receiving aggregator, 1..3
	spare    bool
	historic bool
	old      bool // historic only: the second the replica rounds the bucket to is older than its recent window
}

func (d c02gDelivery) String() string {
	s := fmt.Sprintf("replica%d", d.replica)
	if d.historic {
		s += "/historic"
		if d.old {
			s += "-old"
		}
	} else {
		s += "/recent"
	}
	if d.spare {
		s += "/spare"
	}
	return s
}

// c02gDeliveryOwner is the only delivery the check used before: bucket second owned by the receiving replica (for the
// on-time bucket; the late bucket's second is not), recent conveyor, recent window of exactly that second.
var c02gDeliveryOwner = []c02gDelivery{{replica: 1}}

func c02gAllDeliveries() []c02gDelivery {
	var out []c02gDelivery
	for r := int32(1); r <= 3; r++ {
		for _, spare := range []bool{false, true} {
			out = append(out, c02gDelivery{replica: r, spare: spare})
			out = append(out, c02gDelivery{replica: r, spare: spare, historic: true})
			out = append(out, c02gDelivery{replica: r, spare: spare, historic: true, old: true})
		}
	}
	return out
}

// c02gAgentSeam is the second seam (agent bytes rebuilt by data_model.VerifC02Receive, no handler).
func c02gAgentSeam(rep *mc.Report) {
	maxLen := 2
	set := "deep"
	hosts := []int{0, 1, 2}
	rep.Bounds["agent_seam_max_events"] = mc.Pick(2, 3)
	shard, shards := mc.ShardFromEnv()
	sender := data_model.TagUnion{I: 999}

	var mu sync.Mutex
	states, outcomes, nontrivial := map[uint64]struct{}{}, map[uint64]struct{}{}, map[uint64]struct{}{}
	bySig := map[string]int64{}
	admitted := map[string]map[string]bool{}
	var discarded int64

	run := func(part string, set string, hosts []int, maxLen int, workers int) {
		letters := data_model.VerifC02Alphabet(set, hosts, []int{0, 1, 2})
		body := func(x *mc.Exec) mc.Verdict {
			pct := x.ChooseFree(2, "percentiles") == 1
			variant := x.ChooseFree(3, "variant")
			late := x.ChooseFree(2, "late") == 1
			var evs []data_model.VerifC02Event
			for i := 0; i < maxLen; i++ {
				n := len(letters) + 1
				if i == 0 {
					n = len(letters)
				}
				k := x.ChooseFree(n, "event")
				if i > 0 {
					if k == 0 {
						break
					}
					k--
				}
				evs = append(evs, letters[k])
			}
			desc := fmt.Sprintf("events=%s percentiles=%v variant=%d late=%v", data_model.VerifC02Describe(evs), pct, variant, late)
			fail := func(sig, msg string) mc.Verdict {
				if !c02gAdmit(x, sig, bySig, admitted, &mu) {
					return mc.Verdict{}
				}
				return mc.Verdict{Sig: sig, Violation: "agent seam: " + msg + " | " + desc, Detail: map[string]any{"case": desc}}
			}
			hook := &c02gHook{x: x}
			shardRng, sampleRng, aggRng := rand.New(1), rand.New(2), rand.New(3)
			shardRng.Hook, sampleRng.Hook, aggRng.Hook = hook, hook, hook
			sent, err := agent.VerifC02Send(evs, c02gBaseKey(), pct, variant, late, shardRng, sampleRng)
			if err != nil {
				panic(mc.Divergence{Msg: "harness: " + err.Error() + " | " + desc})
			}
			recv, sig, msg := data_model.VerifC02Receive(sent.Wire, sent.BucketTime, sender, aggRng)
			if sig != "" {
				return fail(sig, msg)
			}
			if len(recv) != sent.WireRows {
				return fail("C02:wire-unreadable", fmt.Sprintf("%d rows after parsing, %d sent", len(recv), sent.WireRows))
			}
			wantSF := [...]float64{1, 2, 3.5}[variant]
			matched := 0
			for ri, row := range sent.Rows {
				if sig, msg := data_model.VerifC02CheckAgentRow(evs, row.Row, pct); sig != "" {
					return fail(sig, msg)
				}
				wantKey := c02gBaseKey()
				wantKey.Timestamp = agent.VerifC02Now
				if late {
					wantKey.Timestamp = agent.VerifC02Now - 5
				}
				if ri == 1 {
					wantKey.Tags[1] = 9
				}
				if sig, msg := data_model.VerifC02CompareKey(&wantKey, &row.Key); sig != "" {
					return fail("C02:agent-row-key-wrong", msg)
				}
				// find the row on the aggregator side by its tags (the timestamp is compared below)
				var r *data_model.VerifC02Received
				for i := range recv {
					if recv[i].Key.Tags == row.Key.Tags && recv[i].Key.STags == row.Key.STags && recv[i].Key.Metric == row.Key.Metric {
						if r != nil {
							return fail("C02:duplicate-row-on-wire", "two aggregator rows for "+data_model.VerifC02KeyString(&row.Key))
						}
						r = &recv[i]
					}
				}
				if r == nil {
					if variant != 1 {
						return fail("C02:row-not-sent", "no row for "+data_model.VerifC02KeyString(&row.Key)+" on the wire although nothing may be sampled")
					}
					mu.Lock()
					discarded++
					mu.Unlock()
					continue
				}
				matched++
				if row.SF != wantSF {
					panic(mc.Divergence{Msg: fmt.Sprintf("harness: variant %d produced sf %v (size %d) | %s", variant, row.SF, row.Size, desc)})
				}
				stKey := data_model.VerifC02RowString(row.Row) + fmt.Sprint(row.SF, pct, late)
				mu.Lock()
				states[mc.Hash(stKey)] = struct{}{}
				outcomes[mc.Hash(r.Shape+data_model.VerifC02RowString(r.Row))] = struct{}{}
				if data_model.VerifC02Collides(evs) || row.SF != 1 {
					nontrivial[mc.Hash(stKey)] = struct{}{}
				}
				mu.Unlock()
				if sig, msg := data_model.VerifC02CompareKey(&row.Key, &r.Key); sig != "" {
					return fail(sig, msg)
				}
				if sig, msg := data_model.VerifC02CompareRows(row.Row, r.Row, r.WireHasMax, row.SF, sender, pct); sig != "" {
					return fail(sig, msg)
				}
			}
			if matched != len(recv) {
				return fail("C02:unexpected-row-on-wire", fmt.Sprintf("%d rows on the wire, %d belong to rows the agent held", len(recv), matched))
			}
			return mc.Verdict{}
		}
		stats := mc.Explore(body, mc.Options{Bound: -1, SplitDepth: 4, Shard: shard, Shards: shards, Workers: workers})
		rep.MergeExplore(part, stats)
	}
	if shard == 0 {
		run("agent_shortest_len1_serial", set, hosts, 1, 1)
	}
	if mc.Thorough() {
		run("agent_len2_12kinds_3hosts", set, hosts, 2, 0)
		run("agent_len3_4kinds_2hosts", "tiny", []int{0, 1}, 3, 0)
	} else {
		run("agent_len2_6kinds_2hosts", "small", []int{0, 1}, maxLen, 0)
	}
	for h := range states {
		rep.State(fmt.Sprintf("a%x", h))
	}
	for h := range nontrivial {
		rep.Nontrivial(fmt.Sprintf("a%x", h))
	}
	for h := range outcomes {
		rep.Outcome(fmt.Sprintf("a%x", h))
	}
	rep.Bounds["agent_seam_rows_discarded_by_sampler"] = discarded
	rep.Bounds["agent_seam_violating_executions"] = bySig
}

func TestVerifC02Aggregator(t *testing.T) {
	rep := mc.NewReport("C02")
	rep.Rule = data_model.VerifC02Rule + ". Seam 3 (aggregator: the agent bytes through the real handleSendSourceBucket3, mappings known/unknown) additionally x 18 deliveries: receiving replica 1..3 (owner of the bucket's second or not) x {recent, historic inside the recent window, historic older than the window} x spare flag"
	c02gAgentSeam(rep) // seam 2 runs in this binary too (one test binary less to build)
	shard, shards := mc.ShardFromEnv()
	msEmpty, msFull := c02gMappings(t, false), c02gMappings(t, true)
	// sh2 only collects the handler's own statistics; one per explorer worker, otherwise all workers queue on its shard lock
	var sh2s [256]*agent.Agent
	for i := range sh2s {
		sh2s[i] = nil
	}
	var sh2mu sync.Mutex
	getSh2 := func(worker int) *agent.Agent {
		sh2mu.Lock()
		defer sh2mu.Unlock()
		w := worker % len(sh2s)
		if sh2s[w] == nil {
			sh2s[w] = agent.VerifC02MakeBareAgent(format.TagValueIDComponentAggregator)
		}
		return sh2s[w]
	}

	var mu sync.Mutex
	states, outcomes, nontrivial := map[uint64]struct{}{}, map[uint64]struct{}{}, map[uint64]struct{}{}
	bySig := map[string]int64{}
	admitted := map[string]map[string]bool{}
	var discarded int64

	// sending variant x late: quick leaves out the late row for the two sampled variants
	sendVariants := [][2]int{{0, 0}, {0, 1}, {1, 0}, {2, 0}}
	if mc.Thorough() {
		sendVariants = append(sendVariants, [2]int{1, 1}, [2]int{2, 1})
	}
	var deliveriesSeen sync.Map // delivery + where the handler put the rows
	run := func(part string, set string, hosts []int, maxLen int, workers int, deliveries []c02gDelivery) {
		letters := data_model.VerifC02Alphabet(set, hosts, []int{0, 1, 2})
		body := func(x *mc.Exec) mc.Verdict {
			pct := x.ChooseFree(2, "percentiles") == 1
			sv := sendVariants[x.ChooseFree(len(sendVariants), "variant x late")]
			variant, late := sv[0], sv[1] == 1
			mapped := x.ChooseFree(2, "aggregator knows string mappings") == 1
			dlv := deliveries[0]
			if len(deliveries) > 1 {
				dlv = deliveries[x.ChooseFree(len(deliveries), "delivery")]
			}
			var evs []data_model.VerifC02Event
			for i := 0; i < maxLen; i++ {
				n := len(letters) + 1
				if i == 0 {
					n = len(letters)
				}
				k := x.ChooseFree(n, "event")
				if i > 0 {
					if k == 0 {
						break
					}
					k--
				}
				evs = append(evs, letters[k])
			}
			desc := fmt.Sprintf("events=%s percentiles=%v variant=%d late=%v mappings=%v", data_model.VerifC02Describe(evs), pct, variant, late, mapped)
			if len(deliveries) > 1 {
				desc += " delivery=" + dlv.String()
			}
			fail := func(sig, msg string) mc.Verdict {
				if !c02gAdmit(x, sig, bySig, admitted, &mu) {
					return mc.Verdict{}
				}
				return mc.Verdict{Sig: sig, Violation: "aggregator seam: " + msg + " | " + desc, Detail: map[string]any{"case": desc}}
			}
			hook := &c02gHook{x: x}
			shardRng, sampleRng := rand.New(1), rand.New(2)
			shardRng.Hook, sampleRng.Hook = hook, hook
			sent, err := agent.VerifC02Send(evs, c02gBaseKey(), pct, variant, late, shardRng, sampleRng)
			if err != nil {
				panic(mc.Divergence{Msg: "harness: " + err.Error() + " | " + desc})
			}
			wireInfo, err := data_model.VerifC02WireInfo(sent.Wire, sent.BucketTime)
			if err != nil {
				return fail("C02:wire-unreadable", err.Error())
			}
			// the request as ShardReplica.sendSourceBucket3Compressed builds it
			originalSize, compressedData := c02gFrame(sent.Wire)
			args := tlstatshouse.SendSourceBucket3{
				Time:           sent.BucketTime,
				BuildCommit:    "0123456789abcdef",
				BuildCommitTs:  format.LeastAllowedAgentCommitTs + 1,
				OriginalSize:   originalSize,
				CompressedData: compressedData,
			}
			args.Header.HostName = c02gAgentHost
			args.Header.ComponentTag = format.TagValueIDComponentAgent
			args.Header.ShardReplica = 0
			args.Header.ShardReplicaTotal = 3
			args.SetSpare(dlv.spare)
			args.SetHistoric(dlv.historic)
			// a fresh aggregator: what handleSendSourceBucket touches
			rounded := sent.BucketTime // the second the receiving replica collects this bucket in
			for rounded%3 != uint32(dlv.replica-1) {
				rounded++
			}
			var recent []*aggregatorBucket
			switch {
			case len(deliveries) == 1: // as before: a window of exactly that second
				recent = []*aggregatorBucket{newAggregatorBucket(rounded)}
			case dlv.old: // the window has moved past the second
				recent = []*aggregatorBucket{newAggregatorBucket(rounded + 1), newAggregatorBucket(rounded + 2)}
			default: // consecutive seconds around it (as goTicker keeps them)
				recent = []*aggregatorBucket{newAggregatorBucket(rounded - 1), newAggregatorBucket(rounded), newAggregatorBucket(rounded + 1)}
			}
			a := &Aggregator{
				recentBuckets:   recent,
				historicBuckets: map[uint32]*aggregatorBucket{},
				historicHosts:   [2][2]map[data_model.TagUnion]int64{{map[data_model.TagUnion]int64{}, map[data_model.TagUnion]int64{}}, {map[data_model.TagUnion]int64{}, map[data_model.TagUnion]int64{}}},
				bucketsToSend:   make(chan *aggregatorBucket, 1),
				withoutCluster:  true,
				shardKey:        1,
				replicaKey:      dlv.replica,
				sh2:             getSh2(x.Worker),
				mappingsStorage: msEmpty,
			}
			mapping := map[string]int32{}
			if mapped {
				a.mappingsStorage = msFull
				mapping = c02gMapping
			}
			a.estimator.Init()
			var hctx rpc.HandlerContext
			hctx.ResetTo(c02gConn{}, 1)
			hctx.Request = args.WriteTL1(nil)
			if err := a.handleSendSourceBucket3(context.Background(), &hctx); err != nil {
				return fail("C02:handler-error", "handleSendSourceBucket3: "+err.Error())
			}
			// The stub connection does not mark the context as long-polling, so the handler also writes its immediate
			// answer: an accepted bucket has no warning and no discard order (those mean the bucket was refused).
			var resp tlstatshouse.SendSourceBucket3ResponseBytes
			var rargs tlstatshouse.SendSourceBucket3Bytes
			if _, err := rargs.ReadResultTL1(hctx.Response, &resp); err != nil {
				return fail("C02:handler-error", "unreadable response: "+err.Error())
			}
			if len(resp.Warning) != 0 || resp.IsSetDiscard() {
				return fail("C02:bucket-refused", fmt.Sprintf("the aggregator refused the bucket: warning %q discard %v", resp.Warning, resp.IsSetDiscard()))
			}
			// rows of our metric the handler stored, wherever it put them (the property is about the rows, not about
			// the aggregatorBucket they wait in)
			var got []*data_model.MultiItem
			where := ""
			collect := func(name string, aggBucket *aggregatorBucket) {
				for si := range aggBucket.shards {
					for _, mi := range aggBucket.shards[si].MultiItems {
						if mi.Key.Metric == data_model.VerifC02Metric {
							got = append(got, mi)
							where = name
						}
					}
				}
			}
			for i, b := range a.recentBuckets {
				collect(fmt.Sprintf("recent[%d]", i), b)
			}
			for _, b := range a.historicBuckets {
				collect("historicBuckets", b)
			}
			if len(deliveries) > 1 && len(got) != 0 {
				deliveriesSeen.Store(fmt.Sprintf("%s late=%v -> %s", dlv, late, where), true)
			}
			sender := data_model.VerifC02MapTag(data_model.TagUnion{S: c02gAgentHost}, mapping)
			wantSF := [...]float64{1, 2, 3.5}[variant]
			matched := 0
			for _, row := range sent.Rows {
				if sig, msg := data_model.VerifC02CheckAgentRow(evs, row.Row, pct); sig != "" {
					return fail(sig, msg)
				}
				wantKey := data_model.VerifC02MapKey(row.Key, mapping)
				var mi *data_model.MultiItem
				for _, g := range got {
					if g.Key.Tags == wantKey.Tags && g.Key.STags == wantKey.STags {
						if mi != nil {
							return fail("C02:duplicate-row-on-aggregator", "two aggregator rows for "+data_model.VerifC02KeyString(&wantKey))
						}
						mi = g
					}
				}
				onWire := wireInfo[data_model.VerifC02KeyString(&row.Key)]
				if mi == nil {
					if onWire != nil {
						return fail("C02:key-mismatch", fmt.Sprintf("the row %s is on the wire but the aggregator holds no row with key %s", data_model.VerifC02KeyString(&row.Key), data_model.VerifC02KeyString(&wantKey)))
					}
					if variant != 1 {
						return fail("C02:row-not-sent", "no row for "+data_model.VerifC02KeyString(&row.Key)+" on the wire although nothing may be sampled")
					}
					mu.Lock()
					discarded++
					mu.Unlock()
					continue
				}
				matched++
				if row.SF != wantSF {
					panic(mc.Divergence{Msg: fmt.Sprintf("harness: variant %d produced sf %v | %s", variant, row.SF, desc)})
				}
				aggRow := data_model.VerifC02SnapRow(mi)
				agentRow := data_model.VerifC02MapRow(row.Row, mapping)
				stKey := data_model.VerifC02RowString(agentRow) + fmt.Sprint(row.SF, pct, late, mapped)
				outKey := data_model.VerifC02RowString(aggRow)
				if len(deliveries) > 1 { // a state is also the way the bucket arrives, an outcome also where and with which timestamp the row is kept
					stKey += dlv.String()
					outKey += fmt.Sprint(where, mi.Key.Timestamp)
				}
				mu.Lock()
				states[mc.Hash(stKey)] = struct{}{}
				outcomes[mc.Hash(outKey)] = struct{}{}
				if data_model.VerifC02Collides(evs) || row.SF != 1 {
					nontrivial[mc.Hash(stKey)] = struct{}{}
				}
				mu.Unlock()
				if sig, msg := data_model.VerifC02CompareKey(&wantKey, &mi.Key); sig != "" {
					return fail(sig, msg)
				}
				if sig, msg := data_model.VerifC02CompareRows(agentRow, aggRow, data_model.VerifC02MapWireInfo(onWire, mapping), row.SF, sender, pct); sig != "" {
					return fail(sig, msg)
				}
			}
			if matched != len(got) {
				return fail("C02:unexpected-row-on-aggregator", fmt.Sprintf("the aggregator holds %d rows of the metric, %d belong to rows the agent held", len(got), matched))
			}
			return mc.Verdict{}
		}
		stats := mc.Explore(body, mc.Options{Bound: -1, SplitDepth: 4, Shard: shard, Shards: shards, Workers: workers})
		rep.MergeExplore(part, stats)
	}
	if shard == 0 {
		run("aggregator_shortest_len1_serial", "small", []int{0, 1, 2}, 1, 1, c02gDeliveryOwner)
	}
	if mc.Thorough() {
		run("aggregator_len2_6kinds_3hosts", "small", []int{0, 1, 2}, 2, 0, c02gDeliveryOwner)
		run("aggregator_delivery_len2_4kinds_2hosts", "tiny", []int{0, 2}, 2, 0, c02gAllDeliveries())
	} else {
		run("aggregator_len2_4kinds_2hosts", "tiny", []int{0, 2}, 2, 0, c02gDeliveryOwner)
		run("aggregator_delivery_len1_6kinds_3hosts", "small", []int{0, 1, 2}, 1, 0, c02gAllDeliveries())
	}
	nDeliveries := 0
	deliveriesSeen.Range(func(k, v any) bool { nDeliveries++; return true })
	rep.Bounds["aggregator_seam_deliveries"] = len(c02gAllDeliveries())
	rep.Bounds["aggregator_seam_delivery_x_late_outcomes_with_rows"] = nDeliveries
	for h := range states {
		rep.State(fmt.Sprintf("g%x", h))
	}
	for h := range nontrivial {
		rep.Nontrivial(fmt.Sprintf("g%x", h))
	}
	for h := range outcomes {
		rep.Outcome(fmt.Sprintf("g%x", h))
	}
	rep.Bounds["aggregator_seam_max_events"] = 2
	rep.Bounds["aggregator_seam_rows_discarded_by_sampler"] = discarded
	rep.Bounds["aggregator_seam_violating_executions"] = bySig
	if err := rep.Write(); err != nil {
		t.Fatal(err)
	}
	t.Logf("C02 aggregator: states=%d outcomes=%d discarded=%d violations=%d", len(states), len(outcomes), discarded, rep.NumViolations())
}
