//go:build verif

package aggregator

// C03, part "insert-body-adversarial-unique": the clause "unique-count estimates are exact while a row holds fewer
// distinct values than the sketch's exact-mode limit", attacked with hashes chosen against the sketch's hash table.
//
// The uniq state is an open-addressing table of 2^d slots, home slot (h >> 15) & (2^d - 1), linear probing that
// wraps around the end, doubled when more than half full. For every size degree d of the tier the harness searches
// small integers (with its own copy of intHash32, c03Hash32) for values whose hashes
//
//	a      have their home in the LAST slot of the degree-d table and bit d of (h>>15) set (they move to the new
//	       last slot when the table doubles),
//	b1..b3 have their home in the last slot and bit d clear (they stay at slot 2^d-1),
//	c0     have their home in slot 0,
//	base / grow / grow2 / jump: fillers with homes away from both table ends: 2^(d-2)+1 values that put a
//	       sketch at degree d (none for d = 4), 2^(d-1) more (the union crosses one doubling), 2^d more (second
//	       doubling), 2^d+2 more (an incoming state larger than the table: MergeRead's multi-degree resize).
//
// Agent sketches are built by inserting the listed values in order (order decides who owns the last slot and who
// wraps to slot 0, 1, 2), serialized, sent as TL `uniques`, and merged by the aggregator (MergeRead; the first one
// is deserialized in slot order, which re-creates a wrap-around chain in the aggregator's own table).
// Enumerated: first contribution = base + every ordered selection of 1..3 of {a,b1,b2,c0} + seven ordered 4-chains
// (47), followed by every sequence of 1..2 further contributions from {a},{b1},{b2},{b3},{c0}, grow, grow2, jump
// and the 12 ordered pairs of {a,b1,b2,c0} (20), and every sequence of 3 over the 8 single/filler sketches.
// All contributions carry the same explicit host, so no rng draw multiplies the cases.
//
// Oracle (c03RunCase): the row's written state holds no hash twice, decodes through chutil.ColUnique /
// ChUnique.ReadFrom to the same items, and its estimate and the aggregator's in-memory estimate equal the number
// of distinct hashes received.

import (
	"fmt"
	"strings"
	"testing"

	"github.com/VKCOM/statshouse/internal/data_model/gen2/tlstatshouse"
	"github.com/VKCOM/statshouse/internal/verif/mc"
)

const c03AdvCore = 8 // the first 8 further sketches are the singles and filler blocks

type c03AdvFamily struct {
	d      uint32
	nFirst int
	tmpls  []c03Tmpl // nFirst first-contribution sketches, then the further ones
	items  [][]byte
	sample map[string]any
}

func c03AdvTmpl(name string, vals []int64) c03Tmpl {
	mi, ma := vals[0], vals[0]
	var sum, sq float64
	for _, v := range vals {
		if v < mi {
			mi = v
		}
		if v > ma {
			ma = v
		}
		sum += float64(v)
		sq += float64(v) * float64(v)
	}
	val := c03Val{counter: float64(len(vals)), valueSet: true, min: float64(mi), uniq: vals, maxHost: c03Host{i: 7}}
	if mi != ma {
		val.hasMax, val.max, val.sum, val.sumsq = true, float64(ma), sum, sq
	} else if len(vals) != 1 {
		panic("harness: equal values")
	}
	return c03Tmpl{name: name, metric: 1001, tags: map[int]int32{1: 10}, tail: val}
}

// c03AdvMakeFamily searches 1, 2, 3, ... for the values of degree d (deterministic).
func c03AdvMakeFamily(d uint32) (*c03AdvFamily, error) {
	mask := uint32(1)<<d - 1
	last := mask
	used := map[uint32]bool{0: true}
	var a, b, c0, fill []int64
	nBase := 0
	if d > 4 {
		nBase = 1<<(d-2) + 1
	}
	nGrow, nGrow2, nJump := 1<<(d-1), 1<<d, 1<<d+2
	nFill := nBase + nGrow + nGrow2 + nJump
	for v := int64(1); v < 1<<22; v++ {
		x := c03Hash32(uint64(v))
		if used[x] {
			continue
		}
		q := x >> 15 // UniquesHashSet: the 15 low bits are reserved for thinning, the table uses the bits above
		slot, bit := q&mask, (q>>d)&1
		switch {
		case slot == last && bit == 1 && len(a) < 1:
			a = append(a, v)
		case slot == last && bit == 0 && len(b) < 3:
			b = append(b, v)
		case slot == 0 && bit == 0 && len(c0) < 1:
			c0 = append(c0, v)
		case slot >= 3 && slot+3 <= last && len(fill) < nFill:
			fill = append(fill, v)
		default:
			continue
		}
		used[x] = true
		if len(a) == 1 && len(b) == 3 && len(c0) == 1 && len(fill) == nFill {
			break
		}
	}
	if len(a) != 1 || len(b) != 3 || len(c0) != 1 || len(fill) != nFill {
		return nil, fmt.Errorf("degree %d: value search incomplete", d)
	}
	base, grow, grow2, jump := fill[:nBase], fill[nBase:nBase+nGrow], fill[nBase+nGrow:nBase+nGrow+nGrow2], fill[nBase+nGrow+nGrow2:]
	named := map[string]int64{"a": a[0], "b1": b[0], "b2": b[1], "b3": b[2], "c0": c0[0]}
	pool := []string{"a", "b1", "b2", "c0"}
	f := &c03AdvFamily{d: d, sample: map[string]any{"part": "insert-body-adversarial-unique", "degree": d, "a": a[0], "b1": b[0], "b2": b[1], "b3": b[2], "c0": c0[0]}}
	addFirst := func(sel []string) {
		vals := append([]int64{}, base...)
		for _, n := range sel {
			vals = append(vals, named[n])
		}
		f.tmpls = append(f.tmpls, c03AdvTmpl(fmt.Sprintf("d%d:base(%d)+[%s]", d, len(base), strings.Join(sel, ",")), vals))
	}
	var rec func(sel []string)
	rec = func(sel []string) {
		if len(sel) > 0 {
			addFirst(sel)
		}
		if len(sel) == 3 {
			return
		}
	next:
		for _, n := range pool {
			for _, k := range sel {
				if k == n {
					continue next
				}
			}
			rec(append(append([]string{}, sel...), n))
		}
	}
	rec(nil)
	for _, ch := range [][]string{{"a", "b1", "b2", "b3"}, {"b1", "a", "b2", "b3"}, {"b1", "b2", "a", "b3"}, {"b1", "b2", "b3", "a"},
		{"c0", "a", "b1", "b2"}, {"a", "c0", "b1", "b2"}, {"a", "b1", "c0", "b2"}} {
		addFirst(ch)
	}
	f.nFirst = len(f.tmpls)
	for _, n := range []string{"a", "b1", "b2", "b3", "c0"} {
		f.tmpls = append(f.tmpls, c03AdvTmpl(fmt.Sprintf("d%d:{%s}", d, n), []int64{named[n]}))
	}
	f.tmpls = append(f.tmpls, c03AdvTmpl(fmt.Sprintf("d%d:grow(%d)", d, len(grow)), grow),
		c03AdvTmpl(fmt.Sprintf("d%d:grow2(%d)", d, len(grow2)), grow2),
		c03AdvTmpl(fmt.Sprintf("d%d:jump(%d)", d, len(jump)), jump))
	for _, x := range pool {
		for _, y := range pool {
			if x != y {
				f.tmpls = append(f.tmpls, c03AdvTmpl(fmt.Sprintf("d%d:[%s,%s]", d, x, y), []int64{named[x], named[y]}))
			}
		}
	}
	f.items = make([][]byte, len(f.tmpls))
	for i := range f.tmpls {
		it, err := c03BuildItem(&f.tmpls[i])
		if err != nil {
			return nil, fmt.Errorf("template %s: %v", f.tmpls[i].name, err)
		}
		bk := tlstatshouse.SourceBucket3Bytes{Metrics: []tlstatshouse.MultiItemBytes{it}}
		f.items[i] = bk.WriteTL1Boxed(nil)
	}
	return f, nil
}

func c03AdversarialPart(t *testing.T, rep *mc.Report, decs []*c03Dec) (mc.Stats, *c03Stats) {
	degrees := mc.Pick([]uint32{4, 5, 6}, []uint32{4, 5, 6, 7, 8})
	rep.Bounds["adversarial_size_degrees"] = fmt.Sprint(degrees)
	fams := make([]*c03AdvFamily, len(degrees))
	for i, d := range degrees {
		f, err := c03AdvMakeFamily(d)
		if err != nil {
			t.Fatal(err)
		}
		fams[i] = f
	}
	rep.Sample(fams[0].sample)
	rep.Bounds["adversarial_first_sketches"] = fams[0].nFirst
	rep.Bounds["adversarial_further_sketches"] = len(fams[0].tmpls) - fams[0].nFirst
	stat := &c03Stats{rep: rep}
	body := func(x *mc.Exec) mc.Verdict {
		f := fams[x.ChooseFree(len(fams), "size degree")]
		seq := [][2]int{{0, x.ChooseFree(f.nFirst, "first sketch")}}
		L := 1 + x.ChooseFree(3, "number of further contributions")
		nMore := len(f.tmpls) - f.nFirst
		if L == 3 {
			nMore = c03AdvCore
		}
		for i := 0; i < L; i++ {
			seq = append(seq, [2]int{0, f.nFirst + x.ChooseFree(nMore, "further sketch")})
		}
		return c03RunCase(x, decs[x.Worker], f.tmpls, f.items, seq, 0.5, stat)
	}
	k, n := mc.ShardFromEnv()
	st := mc.Explore(body, mc.Options{Bound: -1, SplitDepth: 3, Shard: k, Shards: n})
	rep.MergeExplore("insert-body-adversarial-unique", st)
	stat.nontrivial += stat.nontrivialDup / 2
	rep.AddCounts(0, 0, 0, stat.nontrivial)
	return st, stat
}
