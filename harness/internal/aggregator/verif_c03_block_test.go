//go:build verif

package aggregator

// C03, family "host columns read back as blocks": the API does not decode one state at a time. ch-go hands the
// min_host / max_host / max_count_host column of a query result to ONE column object per column, block after block:
// for every block `col.Reset()` then `col.DecodeColumn(reader, rowsOfTheBlock)` on the same reader
// (ch-go proto.Results.DecodeResult), and the API copies the decoded elements out (`row.minHostStr = c.minHostV3[i]`,
// api/handler.go rowAt) and keeps them while later blocks are decoded. So everything the column reader shares between
// the rows of a block (its scratch buffer) and between the blocks of a result (the column's elements) is part of the
// read path of the statement's clause "the min/max host arguments it writes are decoded by the API's column readers
// into the same values".
//
// For every insert body judged by c03RunCasePlan (all parts) the written host states of the body's user rows are
// therefore also read back like a query result: rows in every order (all permutations up to 3 rows; beyond that all
// rotations of the canonical and of the reversed order), cut into every sequence of consecutive blocks (all
// compositions up to 4 rows; beyond that one block, one block per row, every cut into two), each column through one
// reused column object, elements copied out after each block and compared only after the LAST block was decoded.
// Oracle unchanged: decoded (string | int32, value) == independent parse of the written bytes (which the per-row
// checks tie to what the aggregator held and to the reference merge).
//
// Part insert-body-host-block adds the alphabet this needs: two (thorough: three) keys x {string max/min hosts of equal length "aa"/"bb"
// (both ways round), a long string host (8 bytes, longer than the reader's initial scratch) with an int min host,
// counter only (empty min/max states), value without explicit hosts (agent's int or string host)} x two agents.

import (
	"fmt"
	"sort"
	"strings"
	"sync"
	"sync/atomic"

	"github.com/VKCOM/statshouse/internal/chutil"
	"github.com/VKCOM/statshouse/internal/data_model"
)

type c03BlockViol struct{ sig, msg, cs string }

type c03BlockStats struct {
	mu        sync.Mutex
	viol      []c03BlockViol
	violCount map[string]int64
	results   int64 // (row order, block cut, column) combinations decoded
	multiRow  int64 // of those: some block held at least two rows
	multiBlk  int64 // of those: at least two blocks
	twoStr    int64 // of those: some block held two different string hosts
}

var c03Block = &c03BlockStats{violCount: map[string]int64{}}

func (s *c03BlockStats) add(v c03BlockViol) {
	s.mu.Lock()
	defer s.mu.Unlock()
	s.violCount[v.sig]++
	for _, x := range s.viol {
		if x == v {
			return
		}
	}
	s.viol = append(s.viol, v)
	n, worst := 0, -1
	for i, x := range s.viol {
		if x.sig == v.sig {
			n++
			if worst < 0 || x.cs+x.msg > s.viol[worst].cs+s.viol[worst].msg {
				worst = i
			}
		}
	}
	if n > 3 { // keep the three smallest per signature: independent of worker scheduling
		s.viol = append(s.viol[:worst], s.viol[worst+1:]...)
	}
}

func c03Perms(n int) [][]int {
	if n <= 3 {
		var out [][]int
		var rec func(cur []int, used uint)
		rec = func(cur []int, used uint) {
			if len(cur) == n {
				out = append(out, append([]int{}, cur...))
				return
			}
			for i := 0; i < n; i++ {
				if used&(1<<uint(i)) == 0 {
					rec(append(cur, i), used|1<<uint(i))
				}
			}
		}
		rec(nil, 0)
		return out
	}
	var out [][]int
	for rev := 0; rev < 2; rev++ {
		for s := 0; s < n; s++ {
			p := make([]int, n)
			for i := range p {
				j := (s + i) % n
				if rev == 1 {
					j = n - 1 - j
				}
				p[i] = j
			}
			out = append(out, p)
		}
	}
	return out
}

// c03Cuts: sequences of block sizes summing to n.
func c03Cuts(n int) [][]int {
	var out [][]int
	if n <= 4 {
		for m := 0; m < 1<<uint(n-1); m++ { // bit i set: a block ends after row i
			var c []int
			sz := 0
			for i := 0; i < n; i++ {
				sz++
				if i == n-1 || m&(1<<uint(i)) != 0 {
					c = append(c, sz)
					sz = 0
				}
			}
			out = append(out, c)
		}
		return out
	}
	out = append(out, []int{n})
	ones := make([]int, n)
	for i := range ones {
		ones[i] = 1
	}
	out = append(out, ones)
	for a := 1; a < n; a++ {
		out = append(out, []int{a, n - a})
	}
	return out
}

var (
	c03PermCache sync.Map
	c03CutCache  sync.Map
)

func c03PermsCached(n int) [][]int {
	if v, ok := c03PermCache.Load(n); ok {
		return v.([][]int)
	}
	p := c03Perms(n)
	c03PermCache.Store(n, p)
	return p
}

func c03CutsCached(n int) [][]int {
	if v, ok := c03CutCache.Load(n); ok {
		return v.([][]int)
	}
	p := c03Cuts(n)
	c03CutCache.Store(n, p)
	return p
}

// c03BlockReadBack reads the three host columns of the body's user rows back as query results (see the file comment).
// rows are in canonical (sorted key) order. Findings go to c03Block; they are published by TestVerifC03 at the end.
func c03BlockReadBack(dec *c03Dec, rows []c03Row, caseName string) {
	n := len(rows)
	if n == 0 {
		return
	}
	colNames := [3]string{"min_host", "max_host", "max_count_host"}
	raw := func(ri, ci int) *c03RawArg {
		switch ci {
		case 0:
			return &rows[ri].minHost
		case 1:
			return &rows[ri].maxHost
		}
		return &rows[ri].cntHost
	}
	var results, multiRow, multiBlk, twoStr int64
	var buf []byte
	got := make([]data_model.ArgMinMaxStringFloat32, 0, n)
	stale := make([]bool, 0, n)
	for _, perm := range c03PermsCached(n) {
		for _, cut := range c03CutsCached(n) {
			for ci := 0; ci < 3; ci++ {
				results++
				if len(cut) > 1 {
					multiBlk++
				}
				buf = buf[:0]
				for _, ri := range perm {
					buf = append(buf, raw(ri, ci).bytes...)
				}
				rd := dec.feed(buf)
				got, stale = got[:0], stale[:0]
				var colMin chutil.ColArgMinStringFloat32 // ONE column object for all blocks of the result
				var colMax chutil.ColArgMaxStringFloat32
				var prev []data_model.ArgMinMaxStringFloat32 // the column's elements after the previous block
				var err error
				off := 0
				for bi, sz := range cut {
					if sz > 1 {
						multiRow++
						strs := map[string]bool{}
						for j := 0; j < sz; j++ {
							if a := raw(perm[off+j], ci); a.isStr {
								strs[a.str] = true
							}
						}
						if len(strs) > 1 {
							twoStr++
						}
					}
					var cur []data_model.ArgMinMaxStringFloat32
					if ci == 0 {
						colMin.Reset()
						if err = colMin.DecodeColumn(rd, sz); err == nil {
							for j := range colMin {
								cur = append(cur, colMin[j].ArgMinMaxStringFloat32)
							}
						}
					} else {
						colMax.Reset()
						if err = colMax.DecodeColumn(rd, sz); err == nil {
							for j := range colMax {
								cur = append(cur, colMax[j].ArgMinMaxStringFloat32)
							}
						}
					}
					if err != nil || len(cur) != sz {
						break
					}
					for j := range cur {
						// copied out as the API's rowAt does, judged after the last block
						got = append(got, cur[j])
						// is a difference explained by what the slot held before this block?
						exp := raw(perm[off+j], ci)
						st := false
						if bi > 0 && j < len(prev) {
							expVal := float32(0)
							if exp.hasVal {
								expVal = exp.val
							}
							st = (cur[j].AsString == exp.str || cur[j].AsString == prev[j].AsString) &&
								(cur[j].AsInt32 == exp.i32 || cur[j].AsInt32 == prev[j].AsInt32) &&
								(cur[j].Val == expVal || cur[j].Val == prev[j].Val)
						}
						stale = append(stale, st)
					}
					for j := range cur { // the column keeps its elements (and capacity) for the next block
						if j < len(prev) {
							prev[j] = cur[j]
						} else {
							prev = append(prev, cur[j])
						}
					}
					off += sz
				}
				drained := dec.drained()
				desc := func() string {
					var sb strings.Builder
					fmt.Fprintf(&sb, "column %s read as blocks of %v rows, states in order", colNames[ci], cut)
					for _, ri := range perm {
						a := raw(ri, ci)
						switch {
						case a.empty:
							sb.WriteString(" <empty>")
						case a.isStr:
							fmt.Fprintf(&sb, " %q", a.str)
						default:
							fmt.Fprintf(&sb, " #%d", a.i32)
						}
					}
					return sb.String()
				}
				if err != nil || len(got) != n || !drained {
					c03Block.add(c03BlockViol{"host-block-decode-error", fmt.Sprintf("%s: decoded %d of %d rows, consumed all bytes: %v, error: %v", desc(), len(got), n, drained, err), caseName})
					continue
				}
				for i, ri := range perm {
					a := raw(ri, ci)
					g := got[i]
					expVal := float32(0)
					if a.hasVal {
						expVal = a.val
					}
					if g.AsString == a.str && g.AsInt32 == a.i32 && g.Val == expVal {
						continue
					}
					sig := "host-block-decoded-differs"
					if stale[i] {
						sig = "host-column-keeps-previous-block-value"
					}
					c03Block.add(c03BlockViol{sig, fmt.Sprintf("%s: row %d (key {%s}) came back as (%q,%d,%v), the written bytes % x hold (%q,%d,%v)",
						desc(), i, rows[ri].key, g.AsString, g.AsInt32, g.Val, a.bytes, a.str, a.i32, expVal), caseName})
					break
				}
			}
		}
	}
	atomic.AddInt64(&c03Block.results, results)
	atomic.AddInt64(&c03Block.multiRow, multiRow)
	atomic.AddInt64(&c03Block.multiBlk, multiBlk)
	atomic.AddInt64(&c03Block.twoStr, twoStr)
}

// c03HostBlockTemplates: see the file comment. Values differ per key and shape so that which contribution holds the
// min / max of a merged row is decided by the values.
func c03HostBlockTemplates(keys int) []c03Tmpl {
	var out []c03Tmpl
	for k := 0; k < keys; k++ {
		tags := map[int]int32{1: int32(11 + k)}
		kn := fmt.Sprintf("H%d", k+1)
		out = append(out,
			c03Tmpl{name: kn + ":val5x2,max=s:aa,min=s:bb", metric: 1001, tags: tags, tail: c03Val{counter: 2, valueSet: true, min: 5,
				maxHost: c03Host{s: "aa"}, minHost: c03Host{s: "bb"}}},
			c03Tmpl{name: kn + ":val[3..6]x2,max=s:bb,min=s:aa", metric: 1001, tags: tags, tail: c03Val{counter: 2, valueSet: true, min: 3, hasMax: true, max: 6, sum: 9, sumsq: 45,
				maxHost: c03Host{s: "bb"}, minHost: c03Host{s: "aa"}}},
			c03Tmpl{name: kn + ":val7x1,max=s:cccccccc,min=i:9", metric: 1001, tags: tags, tail: c03Val{counter: 1, valueSet: true, min: 7,
				maxHost: c03Host{s: "cccccccc"}, minHost: c03Host{i: 9}}},
			c03Tmpl{name: kn + ":cnt3", metric: 1001, tags: tags, tail: c03Val{counter: 3}},
			c03Tmpl{name: kn + ":val4x1", metric: 1001, tags: tags, tail: c03Val{counter: 1, valueSet: true, min: 4}},
		)
	}
	return out
}

// c03PublishBlockFindings writes the block family's findings and counts into the report.
func c03PublishBlockFindings(stat *c03Stats) {
	rep := stat.rep
	s := c03Block
	s.mu.Lock()
	defer s.mu.Unlock()
	sort.Slice(s.viol, func(i, j int) bool {
		if s.viol[i].sig != s.viol[j].sig {
			return s.viol[i].sig < s.viol[j].sig
		}
		return s.viol[i].cs+s.viol[i].msg < s.viol[j].cs+s.viol[j].msg
	})
	for _, v := range s.viol {
		rep.Violate("C03:"+v.sig, v.msg+" [contributions: "+v.cs+"]", map[string]any{"contributions": v.cs, "family": "host columns read back as blocks",
			"executions_with_this_signature": s.violCount[v.sig]})
	}
	rep.Rule += "; plus every sequence of 1..3 contributions of 2 agents x (2, thorough 3 keys) x 5 host shapes (string max/min hosts of equal length both ways round, an 8-byte string host with an int host, counter only = empty states, agent host); and for every body of every part the min_host / max_host / max_count_host states of all user rows read back as a query result: one column object per column, rows in every order x every cut into consecutive blocks (Reset + DecodeColumn per block), compared after the last block"
	rep.Assume("the API reads host columns as ch-go delivers them: one column object per column, Reset() + DecodeColumn(rows) per block, elements copied out after each block (proto.Results.DecodeResult, api/handler.go rowAt)")
	rep.Bounds["host_block_results_decoded"] = s.results
	rep.Bounds["host_block_results_with_a_block_of_2+_rows"] = s.multiRow
	rep.Bounds["host_block_results_with_2+_blocks"] = s.multiBlk
	rep.Bounds["host_block_blocks_holding_two_different_string_hosts"] = s.twoStr
}
