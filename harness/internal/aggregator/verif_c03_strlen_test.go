//go:build verif

package aggregator

// C03, length-prefixed columns at their length boundaries.
//
// Every string-carrying column of the insert body (unmapped string tags, the string-top key, string min/max hosts)
// and the length-prefixed unique state are written behind a length prefix whose encoding changes size at a boundary
// (RowBinary strings: LEB128, one byte up to 127, two from 128 = format.MaxStringLen, the longest value validation
// accepts; host strings: Int32 size of the argMin/argMax state; uniq: LEB128 item count). The other parts only use
// strings of 1..40 bytes. Alphabet: for every such column a template per length in {1, 127, 128} (length 0 = the
// column is empty, which is what all other templates of the part have there), each column kind on a key of its own so
// that bodies hold the boundary value in the first, a middle or the last row and next to each other; plus unique sets
// of 127 and 128 values. Every sequence of 1..3 contributions; the oracle is the one of every other part (independent
// RowBinary walk of the whole body, every key exactly once, aggregates equal to the reference merge, states decoded by
// the API's column readers): a mis-sized prefix makes that row and everything behind it unreadable.

import (
	"fmt"
	"strings"

	"github.com/VKCOM/statshouse/internal/format"
)

func c03StringLenTemplates() []c03Tmpl {
	lens := []int{1, 127, format.MaxStringLen}
	out := []c03Tmpl{{name: "L0:cnt1 (no string anywhere)", metric: 1001, tags: map[int]int32{1: 10}, tail: c03Val{counter: 1}}}
	for li, n := range lens {
		letter := string(rune('p' + li))
		s := strings.Repeat(letter, n)
		out = append(out,
			c03Tmpl{name: fmt.Sprintf("LT(skey3 of %d bytes):val5x2", n), metric: 1001, tags: map[int]int32{1: 10}, skeys: map[int]string{3: s},
				tail: c03Val{counter: 2, valueSet: true, min: 5}},
			c03Tmpl{name: fmt.Sprintf("LS(K1+top key of %d bytes:cnt2),tail1", n), metric: 1001, tags: map[int]int32{1: 10}, tail: c03Val{counter: 1},
				top: []c03Top{{stag: s, val: c03Val{counter: 2}}}},
			c03Tmpl{name: fmt.Sprintf("LH(max host of %d bytes, min host int):val7x1", n), metric: 1001, tags: map[int]int32{1: 10, 2: 21},
				tail: c03Val{counter: 1, valueSet: true, min: 7, maxHost: c03Host{s: s}, minHost: c03Host{i: 9}}},
			c03Tmpl{name: fmt.Sprintf("LM(min host of %d bytes):val[3..6]x2", n), metric: 1001, tags: map[int]int32{1: 10, 2: 22},
				tail: c03Val{counter: 2, valueSet: true, min: 3, hasMax: true, max: 6, sum: 9, sumsq: 45, minHost: c03Host{s: s}}},
		)
	}
	u127 := c03UniqRange("LU:uniq[1000,1127) (127 values)", 1000, 1127)
	u128 := c03UniqRange("LU:uniq[2000,2128) (128 values)", 2000, 2128)
	u127.tags, u128.tags = map[int]int32{1: 10, 2: 23}, map[int]int32{1: 10, 2: 23}
	return append(out, u127, u128)
}
