//go:build verif

package aggregator

// C03: inserted rows equal the merge of all contributions and read back intact.
//
// Every sequence of <=L contributions (agent x item template; templates share a small key pool so keys
// collide: same key from two agents, keys differing only in one tag / a string tag / the string-top tag /
// the timestamp) is pushed through the handler's real per-key merge (KeyFromStatshouseMultiItem, XXHash ->
// shard, aggregatorBucket.lockShard, GetOrCreateMultiItem, MergeWithTLMultiItem; every rng outcome of the
// host choice enumerated), then the real row encoder Aggregator.rowDataMarshalAppendPositions runs with an
// insert budget that cannot bind. The body is walked in getTableDesc() column order by an independent
// RowBinary parser of the harness; the aggregate-state columns are handed, byte for byte, to the API's real
// column decoders (chutil.ColTDigest, chutil.ColUnique -> ChUnique.ReadFrom, chutil.ColArgMin/MaxStringFloat32).
//
// Oracle: (1) every (time, metric, tags, string-top) key of the reference appears exactly once and no other
// user-metric row exists; (2) count/min/max/sum/sumsquare equal the reference merge of the received TL values;
// (3) what the decoders return equals what the independent parser reads from the same bytes and what the
// aggregator held in memory; unique estimate equals the exact number of distinct values; min/max/max-count
// host arguments are admissible hosts of the reference.

import (
	"encoding/binary"
	"fmt"
	"io"
	"math"
	"runtime"
	"sort"
	"strings"
	"sync/atomic"
	"testing"

	"github.com/ClickHouse/ch-go/proto"
	"pgregory.net/rand"

	"github.com/VKCOM/statshouse/internal/chutil"
	"github.com/VKCOM/statshouse/internal/data_model"
	"github.com/VKCOM/statshouse/internal/data_model/gen2/tlstatshouse"
	"github.com/VKCOM/statshouse/internal/format"
	"github.com/VKCOM/statshouse/internal/metajournal"
	"github.com/VKCOM/statshouse/internal/verif/mc"
)

const c03Time = uint32(1_700_000_001) // bucket second (replica 1: time%3 == 0 is irrelevant for this seam)

// ---------------------------------------------------------------------------------------------
// contribution templates (what an agent sends), described once and turned into (a) real TL items,
// (b) the reference model

type c03Host struct {
	i int32
	s string
}

func (h c03Host) empty() bool { return h.i == 0 && h.s == "" }
func (h c03Host) String() string {
	if h.i != 0 {
		return fmt.Sprintf("i:%d", h.i)
	}
	if h.s != "" {
		return "s:" + h.s
	}
	return "-"
}

type c03Centroid struct{ v, c float32 }

type c03Val struct {
	counter   float64
	valueSet  bool
	min       float64
	hasMax    bool
	max       float64
	sum       float64
	sumsq     float64
	uniq      []int64
	centroids []c03Centroid
	implicit  bool // ImplicitCentroid flag
	maxHost   c03Host
	minHost   c03Host
	cntHost   c03Host
}

type c03Top struct {
	stag string
	tag  int32
	val  c03Val
}

type c03Tmpl struct {
	name   string
	metric int32
	tags   map[int]int32
	skeys  map[int]string
	tDelta int // 0: no T field; -1: T = bucket time - 1
	tail   c03Val
	top    []c03Top
}

func c03Templates() []c03Tmpl {
	k1 := map[int]int32{1: 10}
	return []c03Tmpl{
		{name: "K1:cnt1", metric: 1001, tags: k1, tail: c03Val{counter: 1}},
		{name: "K1:val5x2,maxhost7", metric: 1001, tags: k1, tail: c03Val{counter: 2, valueSet: true, min: 5, maxHost: c03Host{i: 7}}},
		{name: "K1:val[-2..5]x3,hosts", metric: 1001, tags: k1, tail: c03Val{counter: 3, valueSet: true, min: -2, hasMax: true, max: 5, sum: 8, sumsq: 54,
			maxHost: c03Host{i: 9}, minHost: c03Host{s: "mh"}, cntHost: c03Host{i: 11}}},
		{name: "K1:uniq{7,9}x2", metric: 1001, tags: k1, tail: c03Val{counter: 2, valueSet: true, min: 7, hasMax: true, max: 9, sum: 16, sumsq: 130, uniq: []int64{7, 9}}},
		{name: "K1:uniq{7}x1,maxhost-s", metric: 1001, tags: k1, tail: c03Val{counter: 1, valueSet: true, min: 7, uniq: []int64{7}, maxHost: c03Host{s: "uh"}}},
		{name: "K1:pct[(5,1),(-2,2)]", metric: 1001, tags: k1, tail: c03Val{counter: 3, valueSet: true, min: -2, hasMax: true, max: 5, sum: 1, sumsq: 33,
			centroids: []c03Centroid{{5, 1}, {-2, 2}}}},
		{name: "K1:pct-implicit5x2", metric: 1001, tags: k1, tail: c03Val{counter: 2, valueSet: true, min: 5, implicit: true}},
		{name: "K2:cnt3", metric: 1001, tags: map[int]int32{1: 10, 2: 20}, tail: c03Val{counter: 3}},
		{name: "K1+top{a:cnt2},tail0", metric: 1001, tags: k1, top: []c03Top{{stag: "a", val: c03Val{counter: 2}}}},
		{name: "K1+top{a:val5x1,#7:cnt1},tail1", metric: 1001, tags: k1, tail: c03Val{counter: 1},
			top: []c03Top{{stag: "a", val: c03Val{counter: 1, valueSet: true, min: 5, maxHost: c03Host{i: 7}}}, {tag: 7, val: c03Val{counter: 1}}}},
		{name: "K1@t-1:cnt1", metric: 1001, tags: k1, tDelta: -1, tail: c03Val{counter: 1}},
		{name: "K3(skey3=str):val0x1", metric: 1001, tags: k1, skeys: map[int]string{3: "str"}, tail: c03Val{counter: 1, valueSet: true, min: 0}},
	}
}

// c03Hash32 is ClickHouse's intHash32 (dbms/src/Common/HashTable/Hash.h), written down independently of
// data_model.ChUnique.uintHash32: the reference counts distinct 32-bit hashes, because two values with
// equal hashes are one element of a uniq state by definition.
func c03Hash32(key uint64) uint32 {
	key = (^key) + (key << 18)
	key ^= (key >> 31) | (key << 33)
	key *= 21
	key ^= (key >> 11) | (key << 53)
	key += key << 6
	key ^= (key >> 22) | (key << 42)
	return uint32(key)
}

const c03ExactLimit = 1 << 16 // UniquesHashSet: more than 65536 elements start thinning

func c03RangeVals(lo, hi int64) []int64 {
	out := make([]int64, 0, hi-lo)
	for v := lo; v < hi; v++ {
		out = append(out, v)
	}
	return out
}

func c03UniqRange(name string, lo, hi int64) c03Tmpl {
	n := float64(hi - lo)
	var sum, sq float64
	for v := lo; v < hi; v++ {
		sum += float64(v)
		sq += float64(v) * float64(v)
	}
	return c03Tmpl{name: name, metric: 1001, tags: map[int]int32{1: 10},
		tail: c03Val{counter: n, valueSet: true, min: float64(lo), hasMax: true, max: float64(hi - 1), sum: sum, sumsq: sq, uniq: c03RangeVals(lo, hi)}}
}

// c03LargeUniqueTemplates: unique sets whose unions approach the exact-mode limit from below
// (40000 + 25535 = 65535 distinct values), overlap, or exceed it.
func c03LargeUniqueTemplates() []c03Tmpl {
	return []c03Tmpl{
		c03UniqRange("K1:uniq[0,40000)", 0, 40000),
		c03UniqRange("K1:uniq[40000,65535)", 40000, 65535),
		c03UniqRange("K1:uniq[30000,50000)", 30000, 50000),
		{name: "K1:uniq{7}x1", metric: 1001, tags: map[int]int32{1: 10}, tail: c03Val{counter: 1, valueSet: true, min: 7, uniq: []int64{7}}},
		c03UniqRange("K1:uniq[65535,70000)", 65535, 70000),
	}
}

// c03KeyShapeTemplates: keys whose marshalled identities (Key.MarshalAppend: ts, metric, #tags, tags, #stags,
// zero-terminated string tags) have different lengths and leave different bytes at every offset of a reused scratch:
// two keys with an unmapped string tag (25 and 45 bytes), short keys without string tags (18 and 30 bytes, the longer
// one with no zero byte in its tags), a key with all 47 ordinary tags set to -1 (198 bytes, 188 of them 0xff) and a key with a long
// string tag (68 bytes). Values are small integers so that merges are exact.
func c03KeyShapeTemplates() []c03Tmpl {
	all := map[int]int32{}
	for i := 0; i < format.StringTopTagIndexV3; i++ { // the last tag is the string-top tag: never set in a row key
		all[i] = -1
	}
	return []c03Tmpl{
		{name: "S1(skey3=str):val5x2", metric: 1001, tags: map[int]int32{1: 10}, skeys: map[int]string{3: "str"}, tail: c03Val{counter: 2, valueSet: true, min: 5}},
		{name: "S2(skey5=tokyo-osaka-kyoto):cnt3", metric: 1001, tags: map[int]int32{1: 10}, skeys: map[int]string{5: "tokyo-osaka-kyoto"}, tail: c03Val{counter: 3}},
		{name: "N1:cnt1", metric: 1001, tags: map[int]int32{1: 10}, tail: c03Val{counter: 1}},
		{name: "N2(5 tags):val[-2..5]x3", metric: 1001, tags: map[int]int32{1: 0x01020304, 2: 0x05060708, 3: 0x090a0b0c, 4: 0x55555555},
			tail: c03Val{counter: 3, valueSet: true, min: -2, hasMax: true, max: 5, sum: 8, sumsq: 54}},
		{name: "P(47 tags -1):cnt1", metric: 1001, tags: all, tail: c03Val{counter: 1}},
		{name: "Q(skey2=z*40):val7x1", metric: 1001, tags: map[int]int32{1: 10}, skeys: map[int]string{2: strings.Repeat("z", 40)}, tail: c03Val{counter: 1, valueSet: true, min: 7}},
	}
}

var c03Agents = []c03Host{{i: 101}, {s: "hostB"}}

func c03SetHost(set func(int32, *uint32), setS func([]byte, *uint32), h c03Host, fm *uint32) {
	if h.i != 0 {
		set(h.i, fm)
	} else if h.s != "" {
		setS([]byte(h.s), fm)
	}
}

func c03FillValue(dst *tlstatshouse.MultiValueBytes, v *c03Val, fm *uint32) {
	if v.counter == 0 {
		return
	}
	if v.counter == 1 {
		dst.SetCounterEq1(true, fm)
	} else {
		dst.SetCounter(v.counter, fm)
	}
	c03SetHost(dst.SetMaxHostTag, dst.SetMaxHostStag, v.maxHost, fm)
	c03SetHost(dst.SetMinHostTag, dst.SetMinHostStag, v.minHost, fm)
	c03SetHost(dst.SetMaxCounterHostTag, dst.SetMaxCounterHostStag, v.cntHost, fm)
	if len(v.uniq) != 0 {
		var u data_model.ChUnique
		for _, x := range v.uniq {
			u.Insert(uint64(x))
		}
		dst.SetUniques(u.MarshallAppend(nil), fm)
	}
	if !v.valueSet {
		return
	}
	dst.SetValueSet(true, fm)
	if v.min != 0 {
		dst.SetValueMin(v.min, fm)
	}
	if v.hasMax {
		dst.SetValueMax(v.max, fm)
		dst.SetValueSum(v.sum, fm)
		dst.SetValueSumSquare(v.sumsq, fm)
	}
	if len(v.centroids) != 0 {
		cc := make([]tlstatshouse.CentroidFloat, len(v.centroids))
		for i, c := range v.centroids {
			cc[i] = tlstatshouse.CentroidFloat{Value: c.v, Count: c.c}
		}
		dst.SetCentroids(cc, fm)
	}
	if v.implicit {
		dst.SetImplicitCentroid(true, fm)
	}
}

// c03BuildItem builds the TL item of a template the way an agent serializes it (fields masks through the
// generated setters), writes it in a SourceBucket3 and reads it back with the Bytes reader the aggregator uses.
func c03BuildItem(t *c03Tmpl) (tlstatshouse.MultiItemBytes, error) {
	var it tlstatshouse.MultiItemBytes
	it.Metric = t.metric
	maxTag := -1
	for i := range t.tags {
		if i > maxTag {
			maxTag = i
		}
	}
	it.Keys = make([]int32, maxTag+1)
	for i, v := range t.tags {
		it.Keys[i] = v
	}
	if len(t.skeys) != 0 {
		maxS := -1
		for i := range t.skeys {
			if i > maxS {
				maxS = i
			}
		}
		sk := make([][]byte, maxS+1)
		for i, v := range t.skeys {
			sk[i] = []byte(v)
		}
		it.SetSkeys(sk)
	}
	if t.tDelta != 0 {
		it.SetT(uint32(int64(c03Time) + int64(t.tDelta)))
	}
	c03FillValue(&it.Tail, &t.tail, &it.FieldsMask)
	if len(t.top) != 0 {
		tops := make([]tlstatshouse.TopElementBytes, len(t.top))
		for i := range t.top {
			tops[i].Stag = []byte(t.top[i].stag)
			if t.top[i].tag != 0 {
				tops[i].SetTag(t.top[i].tag)
			}
			c03FillValue(&tops[i].Value, &t.top[i].val, &tops[i].FieldsMask)
		}
		it.SetTop(tops)
	}
	b := tlstatshouse.SourceBucket3Bytes{Metrics: []tlstatshouse.MultiItemBytes{it}}
	wire := b.WriteTL1Boxed(nil)
	var back tlstatshouse.SourceBucket3Bytes
	if _, err := back.ReadTL1Boxed(wire); err != nil {
		return it, err
	}
	if len(back.Metrics) != 1 {
		return it, fmt.Errorf("round trip lost the item")
	}
	return back.Metrics[0], nil
}

// ---------------------------------------------------------------------------------------------
// reference model

type c03RowKey struct {
	ts     uint32
	metric int32
	tags   [format.MaxTags]int32
	stags  [format.MaxTags]string
}

func (k c03RowKey) String() string {
	var sb strings.Builder
	fmt.Fprintf(&sb, "t=%d m=%d", k.ts, k.metric)
	for i := 0; i < format.MaxTags; i++ {
		if k.tags[i] != 0 {
			fmt.Fprintf(&sb, " %d=%d", i, k.tags[i])
		}
		if k.stags[i] != "" {
			fmt.Fprintf(&sb, " %d=%q", i, k.stags[i])
		}
	}
	return sb.String()
}

type c03RefRow struct {
	count      float64
	hasVal     bool
	min, max   float64
	sum, sumsq float64
	uniq       map[uint32]struct{} // distinct 32-bit hashes of the values received
	cent       map[float32]float64 // mean -> weight
	minHosts   []c03Host           // filled by finish()
	maxHosts   []c03Host
	cntHosts   []c03Host
	vals       []c03RefVal
}

type c03RefVal struct {
	min, max            float64
	hasVal              bool
	minHost, maxHost    c03Host
	cntHost             c03Host
}

func (r *c03RefRow) add(v *c03Val, agent c03Host) {
	if v.counter == 0 {
		return // MergeWithTL2 ignores a value without count
	}
	maxHost := v.maxHost
	if maxHost.empty() {
		maxHost = agent
	}
	minHost := v.minHost
	if minHost.empty() {
		minHost = maxHost
	}
	cntHost := v.cntHost
	if cntHost.empty() {
		cntHost = maxHost
	}
	r.count += v.counter
	for _, u := range v.uniq {
		r.uniq[c03Hash32(uint64(u))] = struct{}{}
	}
	rv := c03RefVal{hasVal: v.valueSet, minHost: minHost, maxHost: maxHost, cntHost: cntHost}
	if v.valueSet {
		mi, ma, su, sq := v.min, v.min, v.min*v.counter, v.min*v.counter*v.min
		if v.hasMax {
			ma, su, sq = v.max, v.sum, v.sumsq
		}
		rv.min, rv.max = mi, ma
		if !r.hasVal || mi < r.min {
			r.min = mi
		}
		if !r.hasVal || ma > r.max {
			r.max = ma
		}
		r.hasVal = true
		r.sum += su
		r.sumsq += sq
		for _, c := range v.centroids {
			r.cent[c.v] += float64(c.c)
		}
		if v.implicit {
			r.cent[float32(v.min)] += v.counter
		}
	}
	r.vals = append(r.vals, rv)
}

func (r *c03RefRow) finish() {
	for _, v := range r.vals {
		r.cntHosts = append(r.cntHosts, v.cntHost)
		if v.hasVal && v.min == r.min {
			r.minHosts = append(r.minHosts, v.minHost)
		}
		if v.hasVal && v.max == r.max {
			r.maxHosts = append(r.maxHosts, v.maxHost)
		}
	}
}

func c03Reference(tmpls []c03Tmpl, seq [][2]int) map[c03RowKey]*c03RefRow {
	out := map[c03RowKey]*c03RefRow{}
	get := func(k c03RowKey) *c03RefRow {
		r := out[k]
		if r == nil {
			r = &c03RefRow{uniq: map[uint32]struct{}{}, cent: map[float32]float64{}}
			out[k] = r
		}
		return r
	}
	for _, c := range seq {
		agent, t := c03Agents[c[0]], &tmpls[c[1]]
		k := c03RowKey{ts: uint32(int64(c03Time) + int64(t.tDelta)), metric: t.metric}
		for i, v := range t.tags {
			k.tags[i] = v
		}
		for i, v := range t.skeys {
			k.stags[i] = v
		}
		get(k).add(&t.tail, agent)
		for i := range t.top {
			kt := k
			kt.tags[format.StringTopTagIndexV3] = t.top[i].tag
			if t.top[i].tag == 0 {
				kt.stags[format.StringTopTagIndexV3] = t.top[i].stag
			}
			get(kt).add(&t.top[i].val, agent)
		}
	}
	for k, r := range out {
		if r.count <= 0 {
			delete(out, k) // nothing received for this key: no row
			continue
		}
		r.finish()
	}
	return out
}

// ---------------------------------------------------------------------------------------------
// independent RowBinary walker

type c03RawArg struct {
	empty  bool
	isStr  bool
	str    string
	i32    int32
	hasVal bool
	val    float32
	bytes  []byte
}

type c03Row struct {
	key                                    c03RowKey
	indexType                              uint8
	count, maxCount, min, max, sum, sumsq float64
	centRaw                                []c03Centroid
	centBytes                              []byte
	uniqSkip                               uint8
	uniqHashes                             []uint32
	uniqBytes                              []byte
	minHost, maxHost, cntHost              c03RawArg
}

type c03Parser struct {
	b   []byte
	pos int
	err error
}

func (p *c03Parser) need(n int) bool {
	if p.err != nil {
		return false
	}
	if p.pos+n > len(p.b) {
		p.err = fmt.Errorf("body truncated at offset %d (need %d more bytes of %d)", p.pos, n, len(p.b))
		return false
	}
	return true
}
func (p *c03Parser) u8() uint8 {
	if !p.need(1) {
		return 0
	}
	v := p.b[p.pos]
	p.pos++
	return v
}
func (p *c03Parser) u32() uint32 {
	if !p.need(4) {
		return 0
	}
	v := binary.LittleEndian.Uint32(p.b[p.pos:])
	p.pos += 4
	return v
}
func (p *c03Parser) f64() float64 {
	if !p.need(8) {
		return 0
	}
	v := math.Float64frombits(binary.LittleEndian.Uint64(p.b[p.pos:]))
	p.pos += 8
	return v
}
func (p *c03Parser) f32() float32 { return math.Float32frombits(p.u32()) }
func (p *c03Parser) uvarint() uint64 {
	if p.err != nil {
		return 0
	}
	v, n := binary.Uvarint(p.b[p.pos:])
	if n <= 0 {
		p.err = fmt.Errorf("bad varint at offset %d", p.pos)
		return 0
	}
	p.pos += n
	return v
}
func (p *c03Parser) str() string {
	n := int(p.uvarint())
	if !p.need(n) {
		return ""
	}
	s := string(p.b[p.pos : p.pos+n])
	p.pos += n
	return s
}

// arg parses AggregateFunction(argMin/argMax, String, Float32): SingleValueDataString (Int32 size incl. the
// terminating zero, -1 = no value; bytes) followed by SingleValueDataFixed<Float32> (UInt8 has; Float32).
func (p *c03Parser) arg() c03RawArg {
	start := p.pos
	var a c03RawArg
	size := int32(p.u32())
	if size < 0 {
		a.empty = true
	} else {
		if !p.need(int(size)) {
			return a
		}
		raw := p.b[p.pos : p.pos+int(size)]
		p.pos += int(size)
		if len(raw) < 2 || raw[len(raw)-1] != 0 {
			p.err = fmt.Errorf("arg string state at offset %d is not zero terminated: % x", start, raw)
			return a
		}
		switch raw[0] {
		case 0:
			if len(raw) != 6 {
				p.err = fmt.Errorf("int-flavoured arg state at offset %d has %d bytes", start, len(raw))
				return a
			}
			a.i32 = int32(binary.LittleEndian.Uint32(raw[1:5]))
		case 1:
			a.isStr = true
			a.str = string(raw[1 : len(raw)-1])
		default:
			p.err = fmt.Errorf("unknown arg marker %d at offset %d", raw[0], start)
			return a
		}
	}
	if p.u8() != 0 {
		a.hasVal = true
		a.val = p.f32()
	}
	if p.err == nil {
		a.bytes = p.b[start:p.pos]
	}
	return a
}

func (p *c03Parser) row() c03Row {
	var r c03Row
	r.indexType = p.u8()
	r.key.metric = int32(p.u32())
	r.key.ts = p.u32()
	for i := 0; i < format.MaxTags; i++ { // tag0,stag0,...,tag47,stag47 in table order
		r.key.tags[i] = int32(p.u32())
		r.key.stags[i] = p.str()
	}
	r.count, r.maxCount, r.min, r.max, r.sum, r.sumsq = p.f64(), p.f64(), p.f64(), p.f64(), p.f64(), p.f64()
	// percentiles: quantilesTDigest state = varint n, n x (Float32 mean, Float32 weight)
	start := p.pos
	n := p.uvarint()
	for i := uint64(0); i < n && p.err == nil; i++ {
		r.centRaw = append(r.centRaw, c03Centroid{v: p.f32(), c: p.f32()})
	}
	if p.err == nil {
		r.centBytes = p.b[start:p.pos]
	}
	// uniq_state: UInt8 skip degree, varint n, n x UInt32 hashes
	start = p.pos
	r.uniqSkip = p.u8()
	n = p.uvarint()
	for i := uint64(0); i < n && p.err == nil; i++ {
		r.uniqHashes = append(r.uniqHashes, p.u32())
	}
	if p.err == nil {
		r.uniqBytes = p.b[start:p.pos]
	}
	r.minHost = p.arg()
	r.maxHost = p.arg()
	r.cntHost = p.arg()
	return r
}

// ---------------------------------------------------------------------------------------------
// the seam

// c03FixedRand answers the insert path's draws (host skew, sampler) deterministically.
type c03FixedRand struct{ f float64 }

func (r c03FixedRand) Float64() float64        { return r.f }
func (r c03FixedRand) Uint64n(n uint64) uint64 { return 0 }
func (r c03FixedRand) Uint64() uint64          { return 0 }

func c03NewAggregator() *Aggregator {
	cfg := DefaultConfigAggregator()
	a := &Aggregator{
		aggregatorHostTag: data_model.TagUnion{I: 900},
		shardKey:          1,
		replicaKey:        1,
		config:            cfg,
		configR:           cfg.RemoteInitial,
		metricStorage:     metajournal.MakeMetricsStorage(nil),
	}
	a.configR.InsertBudget = 1 << 24       // bytes per contributor
	a.configR.MinInsertBudget = 1 << 40    // the budget cannot bind
	a.configR.StringTopCountInsert = 1000  // no string-top entry is folded into the tail
	a.tagsMapper3 = &tagsMapper3{agg: a, metricStorage: a.metricStorage, unknownTags: map[string]unknownTag{}, createTags: map[string]createMappingExtra{}, config: a.configR.configTagsMapper3}
	return a
}

// c03Ingest is the per-item core of Aggregator.handleSendSourceBucket (aggregator_handlers.go, loop over
// bucket.Metrics): key, string tags kept unmapped, hash -> shard, lock, GetOrCreateMultiItem, MergeWithTLMultiItem.
// keyBytes is the handler's key scratch buffer: the handler declares it once per request (`var stackBuf [1024]byte;
// keyBytes := stackBuf[:0]`) and hands the SAME buffer to Key.XXHash for every row of the request, so from the second
// row on it holds the bytes of the rows before. The caller owns it (one per request) for that reason.
// selfMarshal: the row is aggregated by ONE MultiItemMap that marshals the key itself into its own reused keysBuffer
// (GetOrCreateMultiItem with keyBytes == nil, the entry point the estimator and the agent shards use; after a
// successful lookup the tail of that buffer is given back but keeps the bytes of the looked-up key).
func c03Ingest(aggBucket *aggregatorBucket, rng *rand.Rand, item *tlstatshouse.MultiItemBytes, hostTag data_model.TagUnion, keyBytes *[]byte, selfMarshal bool) int32 {
	lockedShard := -1
	locks := 0
	k, _ := data_model.KeyFromStatshouseMultiItem(item, aggBucket.time)
	for i, str := range item.Skeys {
		if i >= format.MaxTags {
			break
		}
		k.STags[i] = string(str)
	}
	var mi *data_model.MultiItem
	if selfMarshal {
		s := aggBucket.lockShard(&lockedShard, 0, &locks)
		mi, _ = s.GetOrCreateMultiItem(&k, nil, nil)
	} else {
		var hash uint64
		*keyBytes, hash = k.XXHash(*keyBytes)
		sID := int(hash % data_model.AggregationShardsPerSecond)
		s := aggBucket.lockShard(&lockedShard, sID, &locks)
		mi, _ = s.GetOrCreateMultiItem(&k, nil, *keyBytes)
	}
	is := mi.MergeWithTLMultiItem(rng, data_model.AggregatorStringTopCapacity, item, hostTag)
	aggBucket.lockShard(&lockedShard, -1, &locks)
	return is
}

// c03NewRequestScratch is the key scratch of a new request as the handler declares it (1024 zero bytes, length 0).
func c03NewRequestScratch() []byte {
	return make([]byte, 0, 1024)
}

// c03PrecedingRow leaves in the scratch what a row of ANOTHER series, handled just before in the same request, leaves
// there: the real Key.XXHash marshals a key of the same metric whose 47 ordinary tags are all 0x01010101*p (198 bytes,
// every byte from offset 9 to 196 equals p). That row itself is not aggregated (a row of another series does not take part
// in the rows judged here); only its trace in the scratch matters. p == 0: no preceding row (untouched zeroed scratch).
func c03PrecedingRow(keyBytes *[]byte, p int) {
	if p == 0 {
		return
	}
	pk := data_model.Key{Timestamp: c03Time, Metric: 1001}
	for i := 0; i < format.StringTopTagIndexV3; i++ {
		pk.Tags[i] = int32(uint32(0x01010101) * uint32(p&0xff))
	}
	*keyBytes, _ = pk.XXHash(*keyBytes)
}

// c03Plan: how the contributions of a sequence are grouped into requests (part insert-body-key-scratch).
type c03Plan struct {
	newReq      []bool // newReq[i]: contribution i is the first row of a new request (another agent); newReq[0] is true
	selfMarshal bool   // all rows are aggregated by one self-marshalling MultiItemMap (see c03Ingest)
}

type c03Mem struct { // what the aggregator holds for one row before encoding
	v      data_model.ItemValue
	size   uint64
	items  int
	cent   map[float32]float64
	hasDig bool
}

func c03Snapshot(b *aggregatorBucket) map[c03RowKey]c03Mem {
	out := map[c03RowKey]c03Mem{}
	one := func(k data_model.Key, top data_model.TagUnion, mv *data_model.MultiValue) {
		if mv.Empty() {
			return
		}
		rk := c03RowKey{ts: k.Timestamp, metric: k.Metric, tags: k.Tags, stags: k.STags}
		rk.tags[format.StringTopTagIndexV3] = top.I
		rk.stags[format.StringTopTagIndexV3] = ""
		if top.I == 0 {
			rk.stags[format.StringTopTagIndexV3] = top.S
		}
		m := c03Mem{v: mv.Value, size: mv.HLL.Size(false), items: mv.HLL.ItemsCount(), cent: map[float32]float64{}}
		if mv.ValueTDigest != nil {
			m.hasDig = true
			for _, c := range mv.ValueTDigest.Centroids() {
				m.cent[float32(c.Mean)] += float64(float32(c.Weight))
			}
		}
		out[rk] = m
	}
	for si := range b.shards {
		for _, item := range b.shards[si].MultiItems {
			one(item.Key, data_model.TagUnion{}, &item.Tail)
			for tk, tv := range item.Top {
				one(item.Key, tk, tv)
			}
		}
	}
	return out
}

func c03TagHost(t data_model.TagUnion) c03Host { return c03Host{i: t.I, s: t.S} }

func c03InHosts(h c03Host, set []c03Host) bool {
	for _, s := range set {
		if s == h {
			return true
		}
	}
	return false
}

func c03CentEqual(a, b map[float32]float64) bool {
	if len(a) != len(b) {
		return false
	}
	for k, v := range a {
		if w, ok := b[k]; !ok || w != v {
			return false
		}
	}
	return true
}

func c03CentStr(m map[float32]float64) string {
	ks := make([]float64, 0, len(m))
	for k := range m {
		ks = append(ks, float64(k))
	}
	sort.Float64s(ks)
	var sb strings.Builder
	for _, k := range ks {
		fmt.Fprintf(&sb, "(%v x%v)", k, m[float32(k)])
	}
	return sb.String()
}

// c03Dec feeds byte slices to the API's column decoders through one reusable proto.Reader per worker
// (proto.NewReader allocates a large buffer). drained() also tells whether the decoder consumed exactly the
// bytes of the column.
type c03Src struct{ b []byte }

func (s *c03Src) Read(p []byte) (int, error) {
	if len(s.b) == 0 {
		return 0, io.EOF
	}
	n := copy(p, s.b)
	s.b = s.b[n:]
	return n, nil
}

type c03Dec struct {
	src c03Src
	r   *proto.Reader
}

func c03NewDecs() []*c03Dec {
	out := make([]*c03Dec, runtime.GOMAXPROCS(0)+1)
	for i := range out {
		d := &c03Dec{}
		d.r = proto.NewReader(&d.src)
		out[i] = d
	}
	return out
}

func (d *c03Dec) feed(b []byte) *proto.Reader {
	d.src.b = b
	return d.r
}

// drained reports whether nothing of the fed bytes is left unread (and resets the reader for the next feed).
func (d *c03Dec) drained() bool {
	left := 0
	for {
		if _, err := d.r.ReadByte(); err != nil {
			break
		}
		left++
	}
	return left == 0
}

// c03RunCase pushes one contribution sequence through the seam and judges the body. Every contribution is a request
// of its own; contribution number i (0-based) is preceded in its request by a row of another series that leaves byte
// value i at offsets 9..196 of the handler's key scratch (c03PrecedingRow; the first contribution finds the untouched
// zeroed scratch), so the same key is marshalled over different stale bytes every time it is contributed.
func c03RunCase(x *mc.Exec, dec *c03Dec, tmpls []c03Tmpl, items [][]byte, seq [][2]int, f float64, stat *c03Stats) mc.Verdict {
	return c03RunCasePlan(x, dec, tmpls, items, seq, f, stat, nil)
}

// c03RunCasePlan: plan != nil groups the contributions into requests whose rows share one key scratch (real carry-over
// of the bytes of the rows before, nothing else is put into the scratch).
func c03RunCasePlan(x *mc.Exec, dec *c03Dec, tmpls []c03Tmpl, items [][]byte, seq [][2]int, f float64, stat *c03Stats, plan *c03Plan) mc.Verdict {
	names := make([]string, len(seq))
	for i, c := range seq {
		names[i] = c03Agents[c[0]].String() + ">" + tmpls[c[1]].name
		if plan != nil && !plan.selfMarshal && !plan.newReq[i] {
			names[i] = "(same request) " + tmpls[c[1]].name
		}
	}
	caseName := strings.Join(names, " ; ")
	if plan != nil && plan.selfMarshal {
		caseName += " (one self-marshalling MultiItemMap)"
	}
	bad := func(sig, msg string) mc.Verdict {
		return mc.Verdict{Sig: "C03:" + sig, Violation: msg + " [contributions: " + caseName + "]", Detail: map[string]any{"contributions": names, "skew_draw": f}}
	}
	a := c03NewAggregator()
	aggBucket := newAggregatorBucket(c03Time)
	mergeRng := rand.New(1)
	mergeRng.Hook = &mc.ChoiceRand{X: x, Free: true, MaxN: stat.rngCap}
	var keyBytes []byte
	for ci, c := range seq {
		// a fresh copy of the received bytes: the handler's merge mutates the TL item
		var b tlstatshouse.SourceBucket3Bytes
		if _, err := b.ReadTL1Boxed(items[c[1]]); err != nil {
			stat.rep.Infra("harness: " + err.Error())
			return mc.Verdict{}
		}
		agent := c03Agents[c[0]]
		selfMarshal := false
		if plan == nil {
			keyBytes = c03NewRequestScratch()
			c03PrecedingRow(&keyBytes, ci)
		} else {
			selfMarshal = plan.selfMarshal
			if plan.newReq[ci] {
				keyBytes = c03NewRequestScratch()
			}
		}
		if is := c03Ingest(aggBucket, mergeRng, &b.Metrics[0], data_model.TagUnion{I: agent.i, S: agent.s}, &keyBytes, selfMarshal); is != 0 {
			return bad("merge-rejected-valid-item", fmt.Sprintf("MergeWithTLMultiItem returned ingestion status %d for a valid item", is))
		}
	}
	mem := c03Snapshot(aggBucket)
	insertRng := rand.New(1)
	insertRng.Hook = c03FixedRand{f: f}
	body, _, _, _ := a.rowDataMarshalAppendPositions([]*aggregatorBucket{aggBucket}, data_model.SamplerBuffers{}, insertRng, nil)
	for si := range aggBucket.shards {
		for _, item := range aggBucket.shards[si].MultiItems {
			if item.SF != 1 {
				stat.rep.Infra(fmt.Sprintf("harness: insert budget did bind (SF=%v) for %s", item.SF, caseName))
				return mc.Verdict{}
			}
		}
	}
	ref := c03Reference(tmpls, seq)

	// walk the body
	p := &c03Parser{b: body}
	seen := map[c03RowKey]int{}
	var rows []c03Row
	for p.pos < len(p.b) {
		r := p.row()
		if p.err != nil {
			return bad("body-not-rowbinary", "insert body cannot be walked in table column order: "+p.err.Error())
		}
		if r.key.metric < 0 {
			continue // aggregator's own built-in rows (contributors log): parsed, not judged
		}
		seen[r.key]++
		rows = append(rows, r)
	}
	atomic.AddInt64(&stat.rows, int64(len(rows)))
	// rows come in map order: judge them in a canonical order so that the reported violation is reproducible
	sort.SliceStable(rows, func(i, j int) bool { return rows[i].key.String() < rows[j].key.String() })
	for i := range rows {
		k := rows[i].key
		if n := seen[k]; n > 1 {
			return bad("duplicate-key-row", fmt.Sprintf("key {%s} appears %d times in the insert body", k, n))
		}
		if ref[k] == nil {
			return bad("unexpected-row", fmt.Sprintf("row {%s} does not correspond to any received key", k))
		}
	}
	refKeys := make([]c03RowKey, 0, len(ref))
	for k := range ref {
		refKeys = append(refKeys, k)
	}
	sort.Slice(refKeys, func(i, j int) bool { return refKeys[i].String() < refKeys[j].String() })
	for _, k := range refKeys {
		if seen[k] == 0 {
			return bad("missing-row", fmt.Sprintf("no row for received key {%s}", k))
		}
	}
	for i := range rows {
		r := &rows[i]
		e := ref[r.key]
		m, okMem := mem[r.key]
		if !okMem {
			stat.rep.Infra("harness: row without in-memory item " + r.key.String() + " in " + caseName)
			return mc.Verdict{}
		}
		if r.indexType != 0 {
			return bad("index-type", fmt.Sprintf("row {%s}: index_type %d", r.key, r.indexType))
		}
		if r.count != e.count {
			return bad("count-differs", fmt.Sprintf("row {%s}: count %v, merge of contributions is %v", r.key, r.count, e.count))
		}
		wantMin, wantMax, wantSum, wantSq := 0.0, 0.0, 0.0, 0.0
		if e.hasVal {
			wantMin, wantMax, wantSum, wantSq = e.min, e.max, e.sum, e.sumsq
		}
		if r.min != wantMin {
			return bad("min-differs", fmt.Sprintf("row {%s}: min %v, merge of contributions is %v", r.key, r.min, wantMin))
		}
		if r.max != wantMax {
			return bad("max-differs", fmt.Sprintf("row {%s}: max %v, merge of contributions is %v", r.key, r.max, wantMax))
		}
		if r.sum != wantSum {
			return bad("sum-differs", fmt.Sprintf("row {%s}: sum %v, merge of contributions is %v", r.key, r.sum, wantSum))
		}
		if r.sumsq != wantSq {
			return bad("sumsquare-differs", fmt.Sprintf("row {%s}: sumsquare %v, merge of contributions is %v", r.key, r.sumsq, wantSq))
		}

		// percentiles through the API decoder
		var colT chutil.ColTDigest
		if err := colT.DecodeColumn(dec.feed(r.centBytes), 1); err != nil {
			dec.drained()
			return bad("percentiles-decode-error", fmt.Sprintf("row {%s}: ColTDigest cannot decode the written state: %v", r.key, err))
		}
		if !dec.drained() {
			return bad("percentiles-decode-error", fmt.Sprintf("row {%s}: ColTDigest did not consume the whole written state % x", r.key, r.centBytes))
		}
		decCent := map[float32]float64{}
		for _, c := range colT[0].Centroids() {
			decCent[float32(c.Mean)] += c.Weight
		}
		raw := map[float32]float64{}
		for _, c := range r.centRaw {
			raw[c.v] += float64(c.c)
		}
		if !c03CentEqual(decCent, raw) {
			return bad("percentiles-decoded-differ", fmt.Sprintf("row {%s}: decoded centroids %s, written bytes hold %s", r.key, c03CentStr(decCent), c03CentStr(raw)))
		}
		if !c03CentEqual(raw, m.cent) {
			return bad("percentiles-written-differ", fmt.Sprintf("row {%s}: written centroids %s, aggregator held %s", r.key, c03CentStr(raw), c03CentStr(m.cent)))
		}
		// (that the centroids equal the contributions' centroids is C02's clause; C03 states the round trip only)

		// unique state through the API decoder
		var colU chutil.ColUnique
		if err := colU.DecodeColumn(dec.feed(r.uniqBytes), 1); err != nil {
			dec.drained()
			return bad("unique-decode-error", fmt.Sprintf("row {%s}: ColUnique cannot decode the written state: %v", r.key, err))
		}
		if !dec.drained() {
			return bad("unique-decode-error", fmt.Sprintf("row {%s}: ColUnique did not consume the whole written state % x", r.key, r.uniqBytes))
		}
		du := &colU[0]
		if du.ItemsCount() != len(r.uniqHashes) {
			return bad("unique-decoded-differs", fmt.Sprintf("row {%s}: decoded sketch holds %d items, written bytes hold %d", r.key, du.ItemsCount(), len(r.uniqHashes)))
		}
		back := du.MarshallAppend(nil)
		pb := &c03Parser{b: back}
		bSkip := pb.u8()
		bn := pb.uvarint()
		bh := make([]uint32, 0, bn)
		for j := uint64(0); j < bn; j++ {
			bh = append(bh, pb.u32())
		}
		wh := append([]uint32{}, r.uniqHashes...)
		sort.Slice(bh, func(i, j int) bool { return bh[i] < bh[j] })
		sort.Slice(wh, func(i, j int) bool { return wh[i] < wh[j] })
		for j := 1; j < len(wh); j++ {
			if wh[j] == wh[j-1] {
				return bad("unique-duplicate-hash", fmt.Sprintf("row {%s}: the written uniq state holds hash %#x twice (%d items for %d distinct values received)", r.key, wh[j], len(wh), len(e.uniq)))
			}
		}
		same := pb.err == nil && bSkip == r.uniqSkip && len(bh) == len(wh)
		for j := 0; same && j < len(bh); j++ {
			same = bh[j] == wh[j]
		}
		if !same {
			if len(bh) > 8 {
				bh = bh[:8]
			}
			if len(wh) > 8 {
				wh = wh[:8]
			}
			return bad("unique-decoded-differs", fmt.Sprintf("row {%s}: decoded sketch (skip %d, first hashes %v) differs from the written state (skip %d, first hashes %v)", r.key, bSkip, bh, r.uniqSkip, wh))
		}
		if len(e.uniq) < c03ExactLimit { // the statement: exact while fewer distinct values than the exact-mode limit
			if got := du.Size(false); got != uint64(len(e.uniq)) {
				return bad("unique-estimate-not-exact", fmt.Sprintf("row {%s}: decoded unique estimate %d, contributions hold %d distinct values (below the exact-mode limit %d)", r.key, got, len(e.uniq), c03ExactLimit))
			}
			if m.size != uint64(len(e.uniq)) {
				return bad("unique-estimate-not-exact", fmt.Sprintf("row {%s}: aggregator's sketch estimates %d, contributions hold %d distinct values (below the exact-mode limit %d)", r.key, m.size, len(e.uniq), c03ExactLimit))
			}
		} else if du.Size(false) != m.size {
			return bad("unique-decoded-differs", fmt.Sprintf("row {%s}: decoded unique estimate %d, the aggregator's sketch estimated %d", r.key, du.Size(false), m.size))
		}

		// host arguments through the API decoders
		type hostCol struct {
			name    string
			raw     *c03RawArg
			ok      []c03Host
			held    data_model.TagUnion
			present bool
		}
		cols := []hostCol{
			{name: "min_host", raw: &r.minHost, ok: e.minHosts, held: m.v.MinHostTag, present: e.hasVal},
			{name: "max_host", raw: &r.maxHost, ok: e.maxHosts, held: m.v.MaxHostTag, present: e.hasVal},
			{name: "max_count_host", raw: &r.cntHost, ok: e.cntHosts, held: m.v.MaxCounterHostTag, present: true},
		}
		for ci, hc := range cols {
			var arg data_model.ArgMinMaxStringFloat32
			var err error
			if ci == 0 {
				var col chutil.ColArgMinStringFloat32
				err = col.DecodeColumn(dec.feed(hc.raw.bytes), 1)
				if err == nil {
					arg = col[0].ArgMinMaxStringFloat32
				}
			} else {
				var col chutil.ColArgMaxStringFloat32
				err = col.DecodeColumn(dec.feed(hc.raw.bytes), 1)
				if err == nil {
					arg = col[0].ArgMinMaxStringFloat32
				}
			}
			if drained := dec.drained(); err != nil || !drained {
				return bad("host-decode-error", fmt.Sprintf("row {%s}: %s state % x cannot be decoded (consumed all bytes: %v): %v", r.key, hc.name, hc.raw.bytes, drained, err))
			}
			// decoder == independent parse of the same bytes
			if arg.AsString != hc.raw.str || arg.AsInt32 != hc.raw.i32 || (hc.raw.hasVal && arg.Val != hc.raw.val) || (!hc.raw.hasVal && arg.Val != 0) {
				return bad("host-decoded-differs", fmt.Sprintf("row {%s}: %s decoded as (%q,%d,%v), the written bytes % x hold (%q,%d,%v)", r.key, hc.name, arg.AsString, arg.AsInt32, arg.Val, hc.raw.bytes, hc.raw.str, hc.raw.i32, hc.raw.val))
			}
			got := c03Host{i: arg.AsInt32, s: arg.AsString}
			if !hc.present {
				continue // no value received: the encoder writes an empty state; nothing stated about it
			}
			// what was written is what the aggregator held
			if got != c03TagHost(hc.held) {
				return bad("host-written-differs", fmt.Sprintf("row {%s}: %s decoded as %s, the aggregator held %s", r.key, hc.name, got, c03TagHost(hc.held)))
			}
			if !c03InHosts(got, hc.ok) {
				return bad("host-not-contributor", fmt.Sprintf("row {%s}: %s %s is not an admissible host %v", r.key, hc.name, got, hc.ok))
			}
			// the numeric value next to the host is deliberately randomized by the encoder (SkewMinMaxHost /
			// SkewMaxCounterHost); the statement only requires that it is read back as written (checked above)
		}
		stat.outcome(r, e)
	}
	// the host columns of all rows, read back the way the API reads a query result (blocks through reused column objects)
	c03BlockReadBack(dec, rows, caseName)
	for _, e := range ref { // non-trivial: some row merged >= 2 contributions
		if len(e.vals) >= 2 {
			// mc.Explore runs the all-default execution of a work unit twice (SplitDepth 3): count those half
			dup := true
			for i := 3; i < len(x.Choices); i++ {
				if x.Choices[i] != 0 {
					dup = false
				}
			}
			if dup {
				atomic.AddInt64(&stat.nontrivialDup, 1)
			} else {
				atomic.AddInt64(&stat.nontrivial, 1)
			}
			break
		}
	}
	return mc.Verdict{}
}

type c03Stats struct {
	rows          int64
	nontrivial    int64
	nontrivialDup int64
	rep           *mc.Report
	rngCap        int // cap of the fan-out of one host-choice draw (0 = every outcome)
}

func (s *c03Stats) outcome(r *c03Row, e *c03RefRow) {
	s.rep.State(fmt.Sprintf("%s|%v|%v|%v|%v|%v|%d|%d|%s|%s|%s", r.key, r.count, r.min, r.max, r.sum, r.sumsq, len(r.centRaw), len(r.uniqHashes),
		c03Host{i: r.minHost.i32, s: r.minHost.str}, c03Host{i: r.maxHost.i32, s: r.maxHost.str}, c03Host{i: r.cntHost.i32, s: r.cntHost.str}))
	s.rep.Outcome(fmt.Sprintf("%s|%d|%s", r.key, len(e.vals), c03Host{i: r.cntHost.i32, s: r.cntHost.str}))
}

func TestVerifC03(t *testing.T) {
	rep := mc.NewReport("C03")
	rep.Rule = "every sequence of 1..L contributions (agent in {int host, string host}) x (12 item templates over a colliding key pool: same key as counter / single value / min-max value with explicit hosts / unique / centroids / implicit centroid, key with one more tag, key with a string tag, key at another timestamp, string-top entries by string and by int) merged through the handler's per-key path with every rng outcome of the host choice, then encoded by rowDataMarshalAppendPositions (budget cannot bind), for skew draws f in {0.5, 0} (sequences of 4, thorough tier: over 8 core templates, f = 0.5 only); plus every sequence of 1..3 contributions of 5 unique-set templates on one key whose unions approach (65535 values), overlap or exceed the exact-mode limit (host-choice draws capped to 4 evenly spread outcomes there); plus, for every table size degree of the tier, unique sets whose hashes collide in the last slot / slot 0 of the sketch's hash table (wrap-around chains of length 1-3 in every insertion order) followed by every sequence of 1-3 further contributions that grow the set across one or two table resizes and repeat the wrapped values; in all of these contribution number i is marshalled over the bytes a preceding row of another series (47 tags = 0x01010101*i) left in the request's key scratch; plus every sequence of 1..K rows over 6 key shapes of different marshalled length (with and without string tags) x every grouping of the rows into requests that share one key scratch, and the same sequences aggregated by one self-marshalling MultiItemMap. Non-trivial = some row received at least two contributions"
	rep.Assume("seam: the per-item core of handleSendSourceBucket (key, hash->shard, lockShard, GetOrCreateMultiItem, MergeWithTLMultiItem) is replicated in the harness; the RPC handler around it (shard/replica checks, tag mapping, long poll) is not driven")
	rep.Assume("metric meta is 'missing' for the user metric (no skip-host / skip-sumsquare flags); string tags stay unmapped")
	rep.Assume("RowBinary layout of the aggregate states (quantilesTDigest, uniq, argMin/argMax(String,Float32)) is taken from ClickHouse's serialization as re-implemented by the harness parser")
	tmpls := c03Templates()
	items := make([][]byte, len(tmpls))
	for i := range tmpls {
		it, err := c03BuildItem(&tmpls[i])
		if err != nil {
			t.Fatalf("template %s: %v", tmpls[i].name, err)
		}
		b := tlstatshouse.SourceBucket3Bytes{Metrics: []tlstatshouse.MultiItemBytes{it}}
		items[i] = b.WriteTL1Boxed(nil)
	}
	maxL := mc.Pick(3, 4)
	rep.Bounds["templates"] = len(tmpls)
	rep.Bounds["agents"] = len(c03Agents)
	rep.Bounds["max_contributions"] = maxL
	fs := []float64{0.5, 0}
	rep.Bounds["skew_draws"] = fmt.Sprint(fs)
	nc := len(tmpls) * len(c03Agents)
	// templates used for sequences of 4: counter, single value, min/max value with hosts, unique, centroids,
	// other-tag key, tail + string/int tops, other timestamp
	core4 := []int{0, 1, 2, 3, 5, 7, 9, 10}
	if maxL > 3 {
		var ns []string
		for _, i := range core4 {
			ns = append(ns, tmpls[i].name)
		}
		rep.Bounds["core_templates_for_4_contributions"] = strings.Join(ns, " | ")
	}
	stat := &c03Stats{rep: rep}
	decs := c03NewDecs()
	k, n := mc.ShardFromEnv()
	// unique sets near the exact-mode limit (every sequence of 1..3 contributions of 5 templates); run first
	// because it is small and must not be starved by the wall budget of the main part
	big := c03LargeUniqueTemplates()
	bigItems := make([][]byte, len(big))
	for i := range big {
		it, err := c03BuildItem(&big[i])
		if err != nil {
			t.Fatalf("template %s: %v", big[i].name, err)
		}
		b := tlstatshouse.SourceBucket3Bytes{Metrics: []tlstatshouse.MultiItemBytes{it}}
		bigItems[i] = b.WriteTL1Boxed(nil)
	}
	rep.Bounds["large_unique_templates"] = len(big)
	rep.Bounds["large_unique_max_contributions"] = 3
	stat2 := &c03Stats{rep: rep, rngCap: 4}
	body2 := func(x *mc.Exec) mc.Verdict {
		L := 1 + x.ChooseFree(3, "number of contributions")
		seq := make([][2]int, L)
		for i := range seq {
			seq[i] = [2]int{i % len(c03Agents), x.ChooseFree(len(big), "contribution")}
		}
		return c03RunCase(x, decs[x.Worker], big, bigItems, seq, 0.5, stat2)
	}
	st2 := mc.Explore(body2, mc.Options{Bound: -1, SplitDepth: 3, Shard: k, Shards: n})
	rep.MergeExplore("insert-body-large-unique", st2)
	stat2.nontrivial += stat2.nontrivialDup / 2
	rep.AddCounts(0, 0, 0, stat2.nontrivial)
	// key identity over a reused key scratch: rows grouped into requests (the handler's scratch is shared by the rows
	// of a request) and rows aggregated by one self-marshalling MultiItemMap (its keysBuffer is reused)
	shapes := c03KeyShapeTemplates()
	shapeItems := make([][]byte, len(shapes))
	for i := range shapes {
		it, err := c03BuildItem(&shapes[i])
		if err != nil {
			t.Fatalf("template %s: %v", shapes[i].name, err)
		}
		b := tlstatshouse.SourceBucket3Bytes{Metrics: []tlstatshouse.MultiItemBytes{it}}
		shapeItems[i] = b.WriteTL1Boxed(nil)
	}
	maxLK := mc.Pick(4, 5)
	rep.Bounds["key_scratch_templates"] = len(shapes)
	rep.Bounds["key_scratch_max_rows"] = maxLK
	stat4 := &c03Stats{rep: rep}
	body4 := func(x *mc.Exec) mc.Verdict {
		L := 1 + x.ChooseFree(maxLK, "number of rows")
		plan := &c03Plan{newReq: make([]bool, L), selfMarshal: x.ChooseFree(2, "aggregated by {handler path, self-marshalling map}") == 1}
		seq := make([][2]int, L)
		req := 0
		for i := range seq {
			switch {
			case i == 0 || plan.selfMarshal: // one contribution per agent call
				plan.newReq[i] = true
				req = i
			case x.ChooseFree(2, "row starts a new request") == 1:
				plan.newReq[i] = true
				req++
			}
			seq[i] = [2]int{req % len(c03Agents), x.ChooseFree(len(shapes), "row")}
		}
		return c03RunCasePlan(x, decs[x.Worker], shapes, shapeItems, seq, 0.5, stat4, plan)
	}
	st4 := mc.Explore(body4, mc.Options{Bound: -1, SplitDepth: 3, Shard: k, Shards: n})
	rep.MergeExplore("insert-body-key-scratch", st4)
	stat4.nontrivial += stat4.nontrivialDup / 2
	rep.AddCounts(0, 0, 0, stat4.nontrivial)
	// host arguments of several rows read back as blocks (string hosts of equal and different lengths, int hosts, empty
	// states in one column), see verif_c03_block_test.go
	hostT := c03HostBlockTemplates(mc.Pick(2, 3)) // bodies of more rows with string hosts also arise in the main part
	hostItems := make([][]byte, len(hostT))
	for i := range hostT {
		it, err := c03BuildItem(&hostT[i])
		if err != nil {
			t.Fatalf("template %s: %v", hostT[i].name, err)
		}
		b := tlstatshouse.SourceBucket3Bytes{Metrics: []tlstatshouse.MultiItemBytes{it}}
		hostItems[i] = b.WriteTL1Boxed(nil)
	}
	maxLH := 3 // both tiers: 30^4 sequences x host-choice draws would not fit the thorough budget
	rep.Bounds["host_block_templates"] = len(hostT)
	rep.Bounds["host_block_max_contributions"] = maxLH
	stat5 := &c03Stats{rep: rep}
	body5 := func(x *mc.Exec) mc.Verdict {
		L := 1 + x.ChooseFree(maxLH, "number of contributions")
		seq := make([][2]int, L)
		for i := range seq {
			c := x.ChooseFree(len(hostT)*len(c03Agents), "contribution")
			seq[i] = [2]int{c % len(c03Agents), c / len(c03Agents)}
		}
		return c03RunCase(x, decs[x.Worker], hostT, hostItems, seq, 0.5, stat5)
	}
	st5 := mc.Explore(body5, mc.Options{Bound: -1, SplitDepth: 3, Shard: k, Shards: n})
	rep.MergeExplore("insert-body-host-block", st5)
	stat5.nontrivial += stat5.nontrivialDup / 2
	rep.AddCounts(0, 0, 0, stat5.nontrivial)
	// length-prefixed columns at their length boundaries (string tags, string top, string hosts of 1 / 127 / 128 bytes,
	// unique sets of 127 / 128 values), see verif_c03_strlen_test.go
	lenT := c03StringLenTemplates()
	lenItems := make([][]byte, len(lenT))
	for i := range lenT {
		it, err := c03BuildItem(&lenT[i])
		if err != nil {
			t.Fatalf("template %s: %v", lenT[i].name, err)
		}
		b := tlstatshouse.SourceBucket3Bytes{Metrics: []tlstatshouse.MultiItemBytes{it}}
		lenItems[i] = b.WriteTL1Boxed(nil)
	}
	rep.Bounds["string_length_templates"] = len(lenT)
	rep.Bounds["string_length_max_contributions"] = 3
	rep.Bounds["string_length_alphabet"] = "0 (absent), 1, 127, 128 (format.MaxStringLen) bytes in: unmapped string tag, string-top key, max host, min host; unique sets of 127 and 128 values"
	stat6 := &c03Stats{rep: rep}
	lenAgents := mc.Pick(1, len(c03Agents)) // quick: the agent alternates with the position; thorough: every agent at every position
	body6 := func(x *mc.Exec) mc.Verdict {
		L := 1 + x.ChooseFree(3, "number of contributions")
		seq := make([][2]int, L)
		for i := range seq {
			c := x.ChooseFree(len(lenT)*lenAgents, "contribution")
			if lenAgents == 1 {
				seq[i] = [2]int{i % len(c03Agents), c}
			} else {
				seq[i] = [2]int{c % len(c03Agents), c / len(c03Agents)}
			}
		}
		return c03RunCase(x, decs[x.Worker], lenT, lenItems, seq, 0.5, stat6)
	}
	st6 := mc.Explore(body6, mc.Options{Bound: -1, SplitDepth: 3, Shard: k, Shards: n})
	rep.MergeExplore("insert-body-string-length", st6)
	stat6.nontrivial += stat6.nontrivialDup / 2
	rep.AddCounts(0, 0, 0, stat6.nontrivial)
	// hashes chosen against the sketch's hash table (wrap-around chains across resizes), see verif_c03_adv_test.go
	st3, stat3 := c03AdversarialPart(t, rep, decs)
	body := func(x *mc.Exec) mc.Verdict {
		L := 1 + x.ChooseFree(maxL, "number of contributions")
		fi := 0
		if L <= 3 { // both skew draws up to 3 contributions; sequences of 4 (thorough) with f = 0.5 only
			fi = x.ChooseFree(len(fs), "skew draw")
		}
		seq := make([][2]int, L)
		for i := range seq {
			if L <= 3 {
				c := x.ChooseFree(nc, "contribution")
				seq[i] = [2]int{c % len(c03Agents), c / len(c03Agents)}
			} else { // sequences of 4 (thorough): over the core templates
				c := x.ChooseFree(len(core4)*len(c03Agents), "contribution (core)")
				seq[i] = [2]int{c % len(c03Agents), core4[c/len(c03Agents)]}
			}
		}
		return c03RunCase(x, decs[x.Worker], tmpls, items, seq, fs[fi], stat)
	}
	st := mc.Explore(body, mc.Options{Bound: -1, SplitDepth: 3, Shard: k, Shards: n})
	rep.MergeExplore("insert-body", st)
	stat.nontrivial += stat.nontrivialDup / 2
	rep.AddCounts(0, 0, 0, stat.nontrivial)

	rep.Sample(map[string]any{"templates": func() []string {
		var ns []string
		for _, tt := range tmpls {
			ns = append(ns, tt.name)
		}
		return ns
	}()})
	c03PublishBlockFindings(stat)
	if err := rep.Write(); err != nil {
		t.Fatal(err)
	}
	t.Logf("C03: executions=%d+%d+%d+%d+%d (main, large-unique, adversarial-unique, key-scratch, host-block; string-length %d) rows judged=%d+%d+%d+%d+%d nontrivial=%d+%d+%d+%d+%d host-block results decoded=%d violations=%d", st.Executions, st2.Executions, st3.Executions, st4.Executions, st5.Executions, st6.Executions, stat.rows, stat2.rows, stat3.rows, stat4.rows, stat5.rows, stat.nontrivial, stat2.nontrivial, stat3.nontrivial, stat4.nontrivial, stat5.nontrivial, c03Block.results, rep.NumViolations())
}
