//go:build verif

package aggregator

// C06 (second run): quota-mode budgets handed back to agents by the real Aggregator.calcHostMetricBudgets.
//
// Full enumeration of reported original sizes (metric x host -> bytes) over a small metric world held in a
// real metajournal.MetricsStorage (namespaces / groups / metrics with weights, loaded through journal events),
// all total budgets of a set and all combinations of SampleNamespaces / SampleGroups. The host budget lists
// the aggregator returns are compared with an independent water-filling reference in integer fractions.

import (
	"fmt"
	"sort"
	"strings"
	"sync"
	"testing"
	"time"

	"github.com/VKCOM/statshouse/internal/agent"
	"github.com/VKCOM/statshouse/internal/data_model"
	"github.com/VKCOM/statshouse/internal/data_model/gen2/tlmetadata"
	"github.com/VKCOM/statshouse/internal/data_model/gen2/tlstatshouse"
	"github.com/VKCOM/statshouse/internal/format"
	"github.com/VKCOM/statshouse/internal/metajournal"
	"github.com/VKCOM/statshouse/internal/verif/mc"
)

type c06aWorld struct {
	name    string
	nsW     [2]float64 // namespaces 1,2
	grW     [3]float64 // groups 11 (ns1), 12 (ns1), 21 (ns2)
	mW      [4]float64 // metrics 101 (g11), 102 (g11), 103 (g12), 104 (g21)
	storage *metajournal.MetricsStorage
}

var c06aMetricIDs = [4]int32{101, 102, 103, 104}

func c06aBuildWorld(w *c06aWorld) error {
	ms := metajournal.MakeMetricsStorage(nil)
	var ev []tlmetadata.Event
	version := int64(1)
	add := func(typ int32, id int64, name string, nsID int64, data string) {
		e := tlmetadata.Event{Id: id, Name: name, EventType: typ, Version: version, Data: data}
		if nsID != 0 {
			e.SetNamespaceId(nsID)
		}
		version++
		ev = append(ev, e)
	}
	add(format.NamespaceEvent, 1, "nsa", 0, fmt.Sprintf(`{"weight":%v}`, w.nsW[0]))
	add(format.NamespaceEvent, 2, "nsb", 0, fmt.Sprintf(`{"weight":%v}`, w.nsW[1]))
	add(format.MetricsGroupEvent, 11, "nsa:ga_", 1, fmt.Sprintf(`{"weight":%v}`, w.grW[0]))
	add(format.MetricsGroupEvent, 12, "nsa:gb_", 1, fmt.Sprintf(`{"weight":%v}`, w.grW[1]))
	add(format.MetricsGroupEvent, 21, "nsb:ga_", 2, fmt.Sprintf(`{"weight":%v}`, w.grW[2]))
	add(format.MetricEvent, 101, "nsa:ga_m1", 1, fmt.Sprintf(`{"weight":%v,"kind":"counter"}`, w.mW[0]))
	add(format.MetricEvent, 102, "nsa:ga_m2", 1, fmt.Sprintf(`{"weight":%v,"kind":"counter"}`, w.mW[1]))
	add(format.MetricEvent, 103, "nsa:gb_m1", 1, fmt.Sprintf(`{"weight":%v,"kind":"counter"}`, w.mW[2]))
	add(format.MetricEvent, 104, "nsb:ga_m1", 2, fmt.Sprintf(`{"weight":%v,"kind":"counter"}`, w.mW[3]))
	ms.ApplyEvent(ev)
	// the harness reads the hierarchy back from the storage; sanity-check that the world is what it intends
	want := map[int32][2]int32{101: {1, 11}, 102: {1, 11}, 103: {1, 12}, 104: {2, 21}}
	for id, ng := range want {
		m := ms.GetMetaMetric(id)
		if m == nil {
			return fmt.Errorf("metric %d not loaded", id)
		}
		if m.NamespaceID != ng[0] || m.GroupID != ng[1] {
			return fmt.Errorf("metric %d: namespace %d group %d, want %d %d", id, m.NamespaceID, m.GroupID, ng[0], ng[1])
		}
		if ms.GetGroup(m.GroupID) == nil || ms.GetNamespace(m.NamespaceID) == nil {
			return fmt.Errorf("metric %d: group or namespace meta missing", id)
		}
	}
	w.storage = ms
	return nil
}

type c06aRow struct {
	metric int32
	host   int32
	size   uint32
	// observed
	seen   int
	budget uint32
	q      int64 // quota before the "fits fully" encouragement doubling
}

type c06aNode struct {
	name   string
	kids   []*c06aNode
	rows   []int
	size   int64
	weight int64
	whole  bool
}

func c06aMarkWhole(n *c06aNode) {
	n.whole = true
	for _, k := range n.kids {
		c06aMarkWhole(k)
	}
}

// reference water-filling (see the data_model harness for the argument about ties). Nested budgets are the
// floor of the exact share: calcHostMetricBudgets rounds them randomly (floor or floor+1, its own unseeded
// generator), and a partition that fits under the floor also fits under floor+1, so the "within share" set
// computed here is a subset of the real one under every rounding outcome. *frac counts nested partitions whose
// share is fractional (their rounding is random), *nested all nested over-share partitions.
func c06aFill(p *c06aNode, B int64, frac, nested *int) {
	act := append([]*c06aNode{}, p.kids...)
	sort.SliceStable(act, func(i, j int) bool { return act[i].size*act[j].weight < act[j].size*act[i].weight })
	rem := B
	var W int64
	for _, k := range act {
		W += k.weight
	}
	i := 0
	for ; i < len(act); i++ {
		k := act[i]
		if k.size*W <= rem*k.weight {
			c06aMarkWhole(k)
			rem -= k.size
			W -= k.weight
			continue
		}
		break
	}
	for ; i < len(act); i++ {
		if k := act[i]; len(k.kids) > 0 {
			*nested++
			if (rem*k.weight)%W != 0 {
				*frac++
			}
			c06aFill(k, rem*k.weight/W, frac, nested)
		}
	}
}

func TestVerifC06Agg(t *testing.T) {
	rep := mc.NewReport("C06")
	rep.Rule = "aggregator run: every assignment of reported original sizes from {absent,S...} to (metric,host) pairs of 4 metrics (2 namespaces, 3 groups) x up to 2 hosts, every total receive budget of a set, all 4 combinations of SampleNamespaces/SampleGroups, several weight worlds held in a real MetricsStorage; through the real Aggregator.calcHostMetricBudgets. Non-trivial = reported sizes exceed the total budget and at least two metrics report"
	worlds := []*c06aWorld{
		{name: "equal", nsW: [2]float64{1, 1}, grW: [3]float64{1, 1, 1}, mW: [4]float64{1, 1, 1, 1}},
		{name: "skewed", nsW: [2]float64{1, 3}, grW: [3]float64{2, 1, 1}, mW: [4]float64{1, 3, 1, 2}},
	}
	if mc.Thorough() {
		worlds = append(worlds, &c06aWorld{name: "skewed2", nsW: [2]float64{2, 1}, grW: [3]float64{1, 3, 1}, mW: [4]float64{3, 1, 2, 1}})
	}
	for _, w := range worlds {
		if err := c06aBuildWorld(w); err != nil {
			t.Fatalf("world %s: %v", w.name, err)
		}
	}
	sizeAlpha := mc.Pick([]uint32{0, 4, 20}, []uint32{0, 4, 10, 40})
	budgets := mc.Pick([]int{0, 8, 20, 48, 100000}, []int{0, 1, 8, 12, 20, 30, 48, 64, 100, 100000})
	rep.Bounds["agg_worlds"] = len(worlds)
	rep.Bounds["agg_reported_size_alphabet_0_is_absent"] = fmt.Sprint(sizeAlpha)
	rep.Bounds["agg_total_budgets"] = fmt.Sprint(budgets)
	rep.Bounds["agg_pairs"] = "4 metrics x 2 hosts"
	rep.Assume("calcHostMetricBudgets doubles the quota of a (metric,host) pair whose reported size fits the quota ('We encourage good metrics that fully fit in quota', a deliberate and commented behaviour): the proportionality and sum clauses are decided on the quotas before that doubling; how often the doubled lists exceed the total is reported in bounds, not alarmed")
	rep.Assume("calcHostMetricBudgets rounds nested budgets with its own unseeded generator (floor or floor+1): every clause is evaluated so that its verdict is the same under both outcomes (within-share set from floored budgets; sum clause with one byte of slack per nested partition); outcomes of such cases are not hashed")
	rep.Assume("ReceiveBudgetWarming = 0 (no ramp: the ramp multiplies the total by a time-dependent factor and is outside the property)")

	now := uint32(1_700_000_000)
	sh2 := agent.VerifC06NewAgent(agent.DefaultConfig(), now)
	var gExecs, gNontrivial, gLiteralOver, gRandomRounded int64
	gOutcomes := map[string]struct{}{}
	var gmu sync.Mutex
	var wg sync.WaitGroup
	hosts := []int32{7, 9}
	npairs := len(c06aMetricIDs) * len(hosts)
	for _, w := range worlds {
		for flags := 0; flags < 4; flags++ {
			w, flags := w, flags
			wg.Add(1)
			go func() {
				defer wg.Done()
				var execs, nontrivial, literalOver, randomRounded int64
				outcomes := map[string]struct{}{}
				assign := make([]int, npairs)
				sampleNS, sampleGroups := flags&1 != 0, flags&2 != 0
				var rec func(p int)
				rec = func(p int) {
					if p < npairs {
						for a := range sizeAlpha {
							assign[p] = a
							rec(p + 1)
						}
						return
					}
					for _, B := range budgets {
						if mc.Expired() {
							rep.Cap("wall_budget")
							return
						}
						// ---- build the case
						var rows []c06aRow
						orig := map[int32]map[data_model.TagUnion]uint32{}
						for pi := 0; pi < npairs; pi++ {
							sz := sizeAlpha[assign[pi]]
							if sz == 0 {
								continue
							}
							m, h := c06aMetricIDs[pi/len(hosts)], hosts[pi%len(hosts)]
							rows = append(rows, c06aRow{metric: m, host: h, size: sz})
							if orig[m] == nil {
								orig[m] = map[data_model.TagUnion]uint32{}
							}
							orig[m][data_model.TagUnion{I: h}] = sz
						}
						a := &Aggregator{metricStorage: w.storage, sh2: sh2, startTimestamp: now,
							orgMetricSize: data_model.NewExpDecayMetrics(time.Minute)}
						b := newAggregatorBucket(now)
						b.originalMetricSize = orig
						out := map[data_model.TagUnion][]tlstatshouse.MetricBudget{}
						a.calcHostMetricBudgets(ConfigAggregatorRemote{ReceiveSampleBudget: B, SampleNamespaces: sampleNS, SampleGroups: sampleGroups}, b, out)
						execs++
						desc := func() string {
							var sb strings.Builder
							fmt.Fprintf(&sb, "world=%s budget=%d SampleNamespaces=%v SampleGroups=%v reported:", w.name, B, sampleNS, sampleGroups)
							for _, r := range rows {
								fmt.Fprintf(&sb, " m%d@h%d=%d", r.metric, r.host, r.size)
							}
							sb.WriteString(" -> handed back:")
							for _, r := range rows {
								fmt.Fprintf(&sb, " m%d@h%d=%d", r.metric, r.host, r.budget)
							}
							return sb.String()
						}
						viol := func(sig, f string, args ...any) {
							rep.Violate("C06:agg-"+sig, fmt.Sprintf(f, args...)+" | "+desc(), nil)
						}
						// ---- observe
						for host, list := range out {
							for _, mb := range list {
								found := false
								for i := range rows {
									if rows[i].metric == mb.MetricId && rows[i].host == host.I && host.S == "" {
										rows[i].seen++
										rows[i].budget = mb.Budget
										found = true
									}
								}
								if !found {
									viol("budget-for-unreported-pair", "budget %d handed back for metric %d host %v which reported nothing", mb.Budget, mb.MetricId, host)
								}
							}
						}
						var total, sumQ, sumLiteral int64
						for i := range rows {
							r := &rows[i]
							total += int64(r.size)
							if r.seen > 1 {
								viol("duplicate-budget", "metric %d host %d got %d budget entries", r.metric, r.host, r.seen)
							}
							// undo the encouragement doubling: doubled iff size <= budget/2 (see notes: the decode is unambiguous)
							r.q = int64(r.budget)
							if r.budget%2 == 0 && int64(r.size) <= int64(r.budget)/2 {
								r.q = int64(r.budget) / 2
							}
							sumQ += r.q
							sumLiteral += int64(r.budget)
							if r.q > int64(r.size) {
								viol("quota-exceeds-reported-size", "metric %d host %d: quota %d > reported size %d", r.metric, r.host, r.q, r.size)
							}
						}
						if sumLiteral > int64(B) {
							literalOver++
						}
						// ---- reference tree
						root := &c06aNode{}
						find := func(p *c06aNode, name string, weight int64) *c06aNode {
							for _, k := range p.kids {
								if k.name == name {
									return k
								}
							}
							if weight < 1 {
								weight = 1
							}
							k := &c06aNode{name: name, weight: weight}
							p.kids = append(p.kids, k)
							return k
						}
						for i, r := range rows {
							meta := w.storage.GetMetaMetric(r.metric)
							path := []*c06aNode{root}
							p := root
							if sampleNS {
								p = find(p, fmt.Sprintf("ns%d", meta.NamespaceID), w.storage.GetNamespace(meta.NamespaceID).EffectiveWeight)
								path = append(path, p)
							}
							if sampleGroups {
								p = find(p, fmt.Sprintf("group%d", meta.GroupID), w.storage.GetGroup(meta.GroupID).EffectiveWeight)
								path = append(path, p)
							}
							p = find(p, fmt.Sprintf("metric%d", r.metric), meta.EffectiveWeight)
							path = append(path, p)
							for _, n := range path {
								n.rows = append(n.rows, i)
								n.size += int64(r.size)
							}
						}
						var frac, nested int
						c06aFill(root, int64(B), &frac, &nested)
						// clause: within-share partition gets its full reported size for every host
						var walk func(n *c06aNode)
						walk = func(n *c06aNode) {
							if n != root && n.whole {
								for _, i := range n.rows {
									if rows[i].seen != 1 || rows[i].q != int64(rows[i].size) {
										viol("within-share-partition-not-granted-in-full", "partition %s (size %d, weight %d) is within its share, but metric %d host %d (reported %d) got quota %d", n.name, n.size, n.weight, rows[i].metric, rows[i].host, rows[i].size, rows[i].q)
										return
									}
								}
								return
							}
							for _, k := range n.kids {
								walk(k)
							}
						}
						walk(root)
						if total <= int64(B) {
							for i := range rows {
								if rows[i].q != int64(rows[i].size) {
									viol("everything-fits-but-cut", "reported sizes sum to %d <= total %d but metric %d host %d got quota %d of %d", total, B, rows[i].metric, rows[i].host, rows[i].q, rows[i].size)
									break
								}
							}
						}
						// clause: sum of quotas <= total
						// (each randomly rounded nested budget may exceed its exact share by less than one byte)
						slack := int64(0)
						var cnt func(n *c06aNode)
						cnt = func(n *c06aNode) {
							if n != root && len(n.kids) > 0 {
								slack++
							}
							for _, k := range n.kids {
								cnt(k)
							}
						}
						cnt(root)
						if sumQ > int64(B)+slack {
							viol("quota-sum-exceeds-total", "quotas (before the fits-fully doubling) sum to %d > total budget %d (+%d byte(s) of nested rounding)", sumQ, B, slack)
						}
						// clause: proportional to reported sizes inside a metric: one c with q = floor(c*size) for all its hosts
						for _, mid := range c06aMetricIDs {
							var loN, loD, hiN, hiD int64 = 0, 1, 1, 0
							n := 0
							for i := range rows {
								if rows[i].metric != mid {
									continue
								}
								n++
								q, sz := rows[i].q, int64(rows[i].size)
								if q*loD > loN*sz {
									loN, loD = q, sz
								}
								if hiD == 0 || (q+1)*hiD < hiN*sz {
									hiN, hiD = q+1, sz
								}
							}
							if n > 0 && !(loN*hiD < hiN*loD) {
								viol("quota-not-proportional-to-sizes", "metric %d: no constant c with quota = floor(c*size) for all hosts", mid)
							}
						}
						if total > int64(B) && len(orig) > 1 {
							nontrivial++
						}
						var ob strings.Builder
						for _, r := range rows {
							fmt.Fprintf(&ob, "%d/%d,", r.q, r.size)
						}
						if frac == 0 { // outcomes of cases with random nested rounding are not hashed (they vary between runs)
							outcomes[ob.String()] = struct{}{}
						} else {
							randomRounded++
						}
						if execs%50021 == 7 && total > int64(B) {
							rep.Sample(map[string]any{"aggregator_case": desc()})
						}
					}
				}
				rec(0)
				gmu.Lock()
				gExecs += execs
				gNontrivial += nontrivial
				gLiteralOver += literalOver
				gRandomRounded += randomRounded
				for k := range outcomes {
					gOutcomes[k] = struct{}{}
				}
				gmu.Unlock()
			}()
		}
	}
	wg.Wait()
	execs, nontrivial, literalOver, outcomes := gExecs, gNontrivial, gLiteralOver, gOutcomes
	for k := range outcomes {
		rep.Outcome("agg:" + k)
	}
	rep.AddCounts(execs, execs, execs, nontrivial)
	rep.Bounds["agg_cases_where_doubled_lists_exceed_total_not_alarmed"] = literalOver
	rep.Bounds["agg_cases_with_random_nested_rounding"] = gRandomRounded
	if err := rep.Write(); err != nil {
		t.Fatal(err)
	}
	t.Logf("C06 aggregator run: %d executions, %d non-trivial, %d outcomes, %d cases where the doubled lists exceed the total, violations=%d", execs, nontrivial, len(outcomes), literalOver, rep.NumViolations())
}
