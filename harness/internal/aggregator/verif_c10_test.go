//go:build verif

package aggregator

// C10 (aggregator side): "the aggregator files every accepted second into a bucket it will itself insert at
// most two seconds later, or into its historic queue".
//
// The real RPC handler handleSendSourceBucket3 (which calls handleSendSourceBucket with its inline
// roundedToOurTime logic) is driven on a real Aggregator built without network: the recent window is created
// by the real advanceRecentBuckets with an injected `now`, the request arrives through a real
// rpc.HandlerContext bound (ResetTo) to a mock connection that records which bucket the long poll was
// parked on. Nothing of the aggregator is started (no ticker, no inserters, no RPC server).

import (
	"context"
	"fmt"
	"net"
	"runtime"
	"sort"
	"strings"
	"sync"
	"sync/atomic"
	"testing"
	"time"

	"github.com/VKCOM/tl/pkg/rpc"

	"github.com/VKCOM/statshouse/internal/agent"
	"github.com/VKCOM/statshouse/internal/data_model"
	"github.com/VKCOM/statshouse/internal/data_model/gen2/tlstatshouse"
	"github.com/VKCOM/statshouse/internal/format"
	"github.com/VKCOM/statshouse/internal/metajournal"
	"github.com/VKCOM/statshouse/internal/pcache"
	"github.com/VKCOM/statshouse/internal/verif/mc"
)

// c10Conn is a mock rpc connection: it only records long polls.
type c10Conn struct {
	started   []rpc.LongpollCanceller
	responses int
}

func (c *c10Conn) StartLongpoll(hctx *rpc.HandlerContext, canceller rpc.LongpollCanceller) (rpc.LongpollHandle, error) {
	c.started = append(c.started, canceller)
	return rpc.LongpollHandle{QueryID: hctx.QueryID(), CommonConn: c}, nil
}
func (c *c10Conn) CancelLongpoll(queryID int64) (rpc.LongpollCanceller, int64)    { return nil, 0 }
func (c *c10Conn) FinishLongpoll(rpc.LongpollHandle) (*rpc.HandlerContext, error) { return nil, nil }
func (c *c10Conn) DebugName() string                                              { return "c10" }
func (c *c10Conn) SendResponse(hctx *rpc.HandlerContext, err error)               { c.responses++ }
func (c *c10Conn) SendEmptyResponse(lh rpc.LongpollHandle)                        {}
func (c *c10Conn) AccountResponseMem(hctx *rpc.HandlerContext, n int) error       { return nil }
func (c *c10Conn) ListenAddr() net.Addr                                           { return &net.TCPAddr{IP: net.IPv4(127, 0, 0, 1), Port: 13336} }
func (c *c10Conn) LocalAddr() net.Addr                                            { return &net.TCPAddr{IP: net.IPv4(127, 0, 0, 1), Port: 13336} }
func (c *c10Conn) RemoteAddr() net.Addr                                           { return &net.TCPAddr{IP: net.IPv4(10, 1, 2, 3), Port: 40000} }
func (c *c10Conn) KeyID() [4]byte                                                 { return [4]byte{} }
func (c *c10Conn) ProtocolVersion() uint32                                        { return rpc.LatestProtocolVersion }
func (c *c10Conn) ProtocolTransportID() byte                                      { return 0 }
func (c *c10Conn) ConnectionID() uintptr                                          { return 1 }

const c10Shard = 2 // the aggregator under test is shard 2 of a 2-shard cluster (so shard*replica checks are not all zero)

// Empty, never written mapping tables (memory-only storage). Shared by all cases: the handler only looks strings up
// in them (every lookup misses), and a Nop chunked storage allocates a large scratch buffer.
var (
	c10Mappings      = metajournal.MakeMappings(context.Background(), 0, false, 0, []*data_model.ChunkedStorage2{data_model.NewChunkedStorageNop()})
	c10MappingsCache = pcache.NewMappingsCache(data_model.NewChunkedStorageNop(), 1<<20, 86400)
)

// c10NewAggregator builds the state handleSendSourceBucket reads, with the constructors the real
// MakeAggregator uses where they work without network.
func c10NewAggregator(replicaKey int32, shortWindow int, historicWindow uint, now time.Time) (*Aggregator, error) {
	config := DefaultConfigAggregator()
	config.RemoteInitial.ShortWindow = shortWindow
	config.RemoteInitial.ClusterShardsAddrs = []string{"", "", "", "", "", ""}
	config.ShardByMetricShards = 2
	a := &Aggregator{
		bucketsToSend:     make(chan *aggregatorBucket),
		hostBudgetCache:   map[data_model.TagUnion][]tlstatshouse.MetricBudget{},
		historicBuckets:   map[uint32]*aggregatorBucket{},
		historicHosts:     [2][2]map[data_model.TagUnion]int64{{map[data_model.TagUnion]int64{}, map[data_model.TagUnion]int64{}}, {map[data_model.TagUnion]int64{}, map[data_model.TagUnion]int64{}}},
		config:            config,
		configR:           config.RemoteInitial,
		cfgNotifier:       NewConfigChangeNotifier(),
		orgMetricSize:     data_model.NewExpDecayMetrics(config.RemoteInitial.OriginalSizeDecayHalfLife),
		withoutCluster:    false, // shard*replica of the request is checked
		shardKey:          c10Shard,
		replicaKey:        replicaKey,
		mappingsStorage:   c10Mappings,
		aggregatorHostTag: data_model.TagUnion{I: 77},
	}
	agentConfig := agent.DefaultConfig()
	agentConfig.Cluster = config.Cluster
	agentConfig.HistoricWindow = historicWindow
	getConfigResult := a.getConfigResult3Locked()
	sh2, err := agent.MakeAgent("tcp4", "", "", nil, agentConfig, "c10-aggregator-host", format.TagValueIDComponentAggregator,
		nil, c10MappingsCache,
		func() (int64, string) { return 0, "" }, func() (int64, string) { return 0, "" },
		func(string, ...interface{}) {}, nil, &getConfigResult, nil)
	if err != nil {
		return nil, err
	}
	a.sh2 = sh2
	a.estimator.Init()
	a.startTimestamp = uint32(now.Unix())
	_ = a.advanceRecentBuckets(now, true) // the real construction of the recent window
	return a, nil
}

type c10Case struct {
	replicaKey     int32
	shortWindow    int
	historicWindow uint
	oldest         uint32 // time of recentBuckets[0] after construction
	sent           uint32 // args.Time
	historic       bool
	spare          bool
}

func (c c10Case) String() string {
	return fmt.Sprintf("replica=%d short_window=%d historic_window=%d oldest=%d (mod3=%d) sent=%d (oldest%+d) historic=%v spare=%v",
		c.replicaKey, c.shortWindow, c.historicWindow, c.oldest, c.oldest%3, c.sent, int64(c.sent)-int64(c.oldest), c.historic, c.spare)
}

const c10Metric = 1234567

// c10Rec buffers what one case reports, so that the parallel workers' findings are folded into the report in case
// order (the report keeps the first three examples per signature: they must not depend on goroutine timing).
type c10Rec struct {
	violations []mc.FoundViolation
	infra      []string
}

func (r *c10Rec) Violate(sig, desc string, detail any) {
	r.violations = append(r.violations, mc.FoundViolation{Sig: sig, Desc: desc, Detail: detail})
}
func (r *c10Rec) Infra(msg string) { r.infra = append(r.infra, msg) }

// c10Run executes one request on a fresh aggregator and returns a description of where it went.
// outcome: "recent" / "historic" / "rejected:<reason>"
func c10Run(rep *c10Rec, c c10Case) (outcome string, ok bool) {
	now := time.Unix(int64(c.oldest)+int64(c.shortWindow), 0)
	a, err := c10NewAggregator(c.replicaKey, c.shortWindow, c.historicWindow, now)
	if err != nil {
		rep.Infra("cannot build aggregator: " + err.Error())
		return "", false
	}
	if a.recentBuckets[0].time != c.oldest || len(a.recentBuckets) != c.shortWindow+data_model.FutureWindow {
		rep.Infra(fmt.Sprintf("recent window is %d..+%d, expected oldest %d", a.recentBuckets[0].time, len(a.recentBuckets), c.oldest))
		return "", false
	}
	// request
	var bucket tlstatshouse.SourceBucket3Bytes
	item := tlstatshouse.MultiItemBytes{Metric: c10Metric, Keys: []int32{0, 5, 6}}
	item.Tail.SetCounterEq1(true, &item.FieldsMask)
	bucket.Metrics = append(bucket.Metrics, item)
	body := bucket.WriteTL1Boxed(nil)
	var args tlstatshouse.SendSourceBucket3Bytes
	args.Time = c.sent
	args.SetHistoric(c.historic)
	args.SetSpare(c.spare)
	args.Header.ShardReplica = (c10Shard-1)*3 + (c.replicaKey - 1)
	args.Header.ShardReplicaTotal = 6
	args.Header.HostName = []byte("agent-host")
	args.Header.ComponentTag = format.TagValueIDComponentAgent
	args.BuildCommitTs = format.LeastAllowedAgentCommitTs
	args.OriginalSize = uint32(len(body))
	args.CompressedData = body // Decompress passes data through when sizes are equal
	conn := &c10Conn{}
	hctx := &rpc.HandlerContext{}
	hctx.ResetTo(conn, 4242)
	hctx.Request = args.WriteTL1(nil)

	// the rounding loop is unbounded in the code under test: a watchdog turns "does not return" into an
	// infrastructure error (never a verdict by itself)
	done := make(chan error, 1)
	go func() {
		defer func() {
			if p := recover(); p != nil {
				done <- fmt.Errorf("panic: %v", p)
			}
		}()
		done <- a.handleSendSourceBucket3(context.Background(), hctx)
	}()
	select {
	case err = <-done:
	case <-time.After(30 * time.Second):
		rep.Infra("handleSendSourceBucket3 did not return within 30 s for " + c.String())
		return "", false
	}
	if err != nil {
		rep.Violate("C10:agg-handler-error", fmt.Sprintf("handler failed: %v for %s", err, c), nil)
		return "error", true
	}

	// observe: every bucket that holds the contribution (long poll parked on it / contributor registered / rows merged)
	type place struct {
		where string // "recent" or "historic"
		b     *aggregatorBucket
	}
	holds := func(b *aggregatorBucket) bool {
		if len(b.contributors3) != 0 || len(b.contributors) != 0 || len(b.contributorsSimulatedErrors) != 0 || b.contributorsCount() != 0 {
			return true
		}
		for i := range b.shards {
			for _, mi := range b.shards[i].MultiItems {
				if mi.Key.Metric == c10Metric {
					return true
				}
			}
		}
		return false
	}
	var places []place
	for _, b := range a.recentBuckets {
		if holds(b) {
			places = append(places, place{"recent", b})
		}
	}
	var hkeys []uint32
	for k := range a.historicBuckets {
		hkeys = append(hkeys, k)
	}
	sort.Slice(hkeys, func(i, j int) bool { return hkeys[i] < hkeys[j] })
	for _, k := range hkeys {
		if b := a.historicBuckets[k]; holds(b) {
			places = append(places, place{"historic", b})
		}
	}
	accepted := len(conn.started) != 0 || len(places) != 0
	fail := func(sig, msg string) {
		rep.Violate("C10:"+sig, fmt.Sprintf("%s: %s", msg, c), map[string]any{"replica": c.replicaKey, "short_window": c.shortWindow, "historic_window": c.historicWindow,
			"oldest": c.oldest, "sent": c.sent, "historic": c.historic, "spare": c.spare})
	}
	if !accepted {
		// answered at once; which requests must be refused is not part of the statement
		var resp tlstatshouse.SendSourceBucket3ResponseBytes
		var dummy tlstatshouse.SendSourceBucket3Bytes
		if _, err := dummy.ReadResultTL1(hctx.Response, &resp); err != nil {
			rep.Infra("cannot parse immediate response: " + err.Error())
			return "", false
		}
		return fmt.Sprintf("rejected:discard=%v:%s", resp.IsSetDiscard(), resp.Warning), true
	}
	if len(places) != 1 {
		fail("agg-second-filed-in-several-buckets", fmt.Sprintf("the accepted second is held by %d buckets", len(places)))
		return "accepted-odd", true
	}
	p := places[0]
	for _, cn := range conn.started {
		if cn != rpc.LongpollCanceller(p.b) {
			fail("agg-longpoll-on-other-bucket", "the response is parked on a bucket other than the one holding the data")
		}
	}
	if p.where == "historic" {
		return "historic", true // "or into its historic queue"
	}
	// a recent bucket: the aggregator must insert it itself (goTicker sends a bucket only if time%3 == replicaKey-1
	// and panics if a bucket of another replica has contributors), and its second is at most two later than the sent one
	if p.b.time%3 != uint32(c.replicaKey-1) {
		fail("agg-bucket-of-other-replica", fmt.Sprintf("accepted second filed into recent bucket %d (mod 3 = %d) which replica %d never inserts", p.b.time, p.b.time%3, c.replicaKey))
	}
	if p.b.time < c.sent || p.b.time > c.sent+2 {
		fail("agg-bucket-not-within-two-seconds", fmt.Sprintf("accepted second filed into recent bucket %d, not within [sent, sent+2]", p.b.time))
	}
	// the bucket leaves the recent window through the real advanceRecentBuckets exactly once, when its short window closed
	seen := 0
	var at uint32
	for t := uint32(now.Unix()) + 1; t <= uint32(now.Unix())+uint32(c.shortWindow+data_model.FutureWindow)+3; t++ {
		for _, rb := range a.advanceRecentBuckets(time.Unix(int64(t), 0), false) {
			if rb == p.b {
				seen++
				at = t
			}
		}
	}
	if seen != 1 || at != p.b.time+uint32(c.shortWindow)+1 {
		fail("agg-bucket-never-ready", fmt.Sprintf("bucket %d was handed to the inserter %d times (at %d), expected once at %d", p.b.time, seen, at, p.b.time+uint32(c.shortWindow)+1))
	}
	return fmt.Sprintf("recent:+%d", p.b.time-c.sent), true
}

func TestVerifC10Agg(t *testing.T) {
	rep := mc.NewReport("C10")
	rep.Rule = "agent/API part (first run): every sharding configuration (5 strategies x shard(fixed key) x shard_num x shard2 x shard2_timestamp) x shard count x by-metric count x metric id x tag variant x timestamp through the real Agent.shard/sharding.Shard and MetricMetaValue.Sharded/Shard; every (shard count, shard, alive mask over all replicas, second) through the real getShardReplicaForSecond. Aggregator part: every (replica key, recent window, oldest second mod 3, sent second - oldest, historic, spare) through the real handleSendSourceBucket3 of a fresh aggregator; and every history (BFS, bounded depth) of goTicker iterations (clock step x remote short-window config delivered through the journal) on one living aggregator (real updateConfigRemotelyExperimental + advanceRecentBuckets), with every (sent second around the window, historic, spare) sent through the real handler after every iteration. Non-trivial = configuration with a valid agent shard / second whose primary replica is dead / request that the aggregator accepted"
	shortWindows := []int{3, 4, 5} // config.go: 3 <= short-window <= MaxShortWindow
	historicWindows := []uint{6, 20}
	if mc.Thorough() {
		historicWindows = []uint{0, 6, 7, 8, 20}
	}
	bases := []uint32{1700000001, 1700000002, 1700000003} // oldest second, one per residue mod 3
	if mc.Thorough() {
		bases = append(bases, 30, 31, 32, 4294967040, 4294967041, 4294967042)
	}
	rep.Bounds["agg_replica_keys"] = "1..3"
	rep.Bounds["agg_short_windows"] = fmt.Sprint(shortWindows)
	rep.Bounds["agg_historic_windows"] = fmt.Sprint(historicWindows)
	rep.Bounds["agg_oldest_seconds"] = fmt.Sprint(bases)
	rep.Bounds["agg_sent_minus_oldest"] = "-(historic window + 4) .. short window + 4 (future window) + 3"
	rep.Assume("goTicker's rule 'a ready bucket is inserted iff time%3 == replicaKey-1' is replicated in the oracle (goTicker itself runs on wall-clock ticks); the hand-over of the bucket is driven through the real advanceRecentBuckets")
	var cases []c10Case
	for _, replica := range []int32{1, 2, 3} {
		for _, sw := range shortWindows {
			for _, hw := range historicWindows {
				for _, oldest := range bases {
					lo := int64(oldest) - int64(hw) - 4
					if lo < 0 {
						lo = 0
					}
					hi := int64(oldest) + int64(sw) + data_model.FutureWindow + 3
					for sent := lo; sent <= hi; sent++ {
						for _, historic := range []bool{false, true} {
							for _, spare := range []bool{false, true} {
								cases = append(cases, c10Case{replica, sw, hw, oldest, uint32(sent), historic, spare})
							}
						}
					}
				}
			}
		}
	}
	// every case builds its own aggregator, so cases run in parallel; results are folded in case order
	results := make([]string, len(cases))
	recs := make([]c10Rec, len(cases))
	oks := make([]bool, len(cases))
	var wg sync.WaitGroup
	var next, stop atomic.Int64
	for w := 0; w < runtime.GOMAXPROCS(0); w++ {
		wg.Add(1)
		go func() {
			defer wg.Done()
			for stop.Load() == 0 {
				i := int(next.Add(1) - 1)
				if i >= len(cases) {
					return
				}
				results[i], oks[i] = c10Run(&recs[i], cases[i])
				if !oks[i] {
					stop.Store(1)
				}
			}
		}()
	}
	wg.Wait()
	var execs, accepted int64
	outcomes := map[string]int{}
	for i, c := range cases {
		out := results[i]
		for _, v := range recs[i].violations {
			rep.Violate(v.Sig, v.Desc, v.Detail)
		}
		for _, m := range recs[i].infra {
			rep.Infra(m)
		}
		if !oks[i] {
			if stop.Load() != 0 {
				rep.Cap("infrastructure")
			}
			continue
		}
		execs++
		outcomes[out]++
		rep.Outcome("agg:" + out)
		if out == "historic" || strings.HasPrefix(out, "recent") {
			accepted++
			if accepted%97 == 1 {
				rep.Sample(map[string]any{"part": "aggregator", "case": c.String(), "filed": out})
			}
		}
	}
	rep.AddCounts(execs, execs, execs, accepted)
	rep.Parts["aggregator"] = map[string]any{"requests": execs, "accepted": accepted, "outcomes": outcomes}
	if stop.Load() == 0 {
		c10Window(rep) // second family: histories of ticks, clock steps and remote-config changes on one living aggregator (verif_c10_window_test.go)
	}
	if err := rep.Write(); err != nil {
		t.Fatal(err)
	}
	t.Logf("C10 aggregator side: requests=%d accepted=%d outcomes=%v violations=%d", execs, accepted, outcomes, rep.NumViolations())
}
