//go:build verif

package aggregator

// C10 (aggregator side), second family: the recent window as a *living* object.
//
// The first family (verif_c10_test.go) sends one request to a freshly built aggregator whose window never
// changed. The clause "the aggregator files every accepted second into a bucket it will itself insert at most
// two seconds later" is however kept by two cooperating sites: handleSendSourceBucket indexes
// recentBuckets[roundedToOurTime-oldestTime] and so relies on what advanceRecentBuckets has made of the window
// over the whole life of the process. This family explores histories of goTicker iterations on one real
// Aggregator. One iteration is (what the clock says at the tick) x (what the journal says about the remote
// config), executed as goTicker does:
//
//	updateConfigRemotelyExperimental()   real: a real MetricsStorage gets the journal event of the metric
//	                                     statshouse_aggregator_remote_config ("--short-window=N"), the real
//	                                     parsing / validation / publication into a.configR runs
//	advanceRecentBuckets(now, false)     real, with the injected now
//	own-second test on every ready bucket (goTicker's `time%3 != replicaKey-1` rule, replicated)
//
// and after every iteration a request for every second around the window (x historic x spare) goes through the
// real RPC handler handleSendSourceBucket3 of the same, still living aggregator.
//
// Explored with mc.BFS (explicit-state, every history replayed on a fresh real aggregator): all histories up to
// the depth bound over the full operation alphabet, from every world (replica key, initial short window, initial
// second mod 3).

import (
	"context"
	"fmt"
	"io"
	"log"
	"sort"
	"strings"
	"sync"
	"sync/atomic"
	"time"

	"github.com/VKCOM/tl/pkg/rpc"

	"github.com/VKCOM/statshouse/internal/data_model/gen2/tlmetadata"
	"github.com/VKCOM/statshouse/internal/data_model/gen2/tlstatshouse"
	"github.com/VKCOM/statshouse/internal/format"
	"github.com/VKCOM/statshouse/internal/metajournal"
	"github.com/VKCOM/statshouse/internal/metarqlite"
	"github.com/VKCOM/statshouse/internal/verif/mc"
)

// what the clock says at the next tick, relative to the previous tick: the normal second, the same second again
// and a step back (clock corrected), a stalled ticker (2, 3 seconds), a jump beyond the whole window.
var (
	c10wDeltasQuick    = []int64{+1, 0, -1, +2, +3, +13}
	c10wDeltasThorough = []int64{+1, 0, -1, -2, +2, +3, +4, +13}
)

// what the journal says about the remote config at the next tick. "" = no new journal event.
const c10wErase = "<erased>" // a journal event with an empty description: back to the command-line configuration
var (
	c10wConfigsQuick    = []string{"", "--short-window=3", "--short-window=4", "--short-window=5"}
	c10wConfigsThorough = []string{"", "--short-window=3", "--short-window=4", "--short-window=5", "--short-window=2", "--short-window=6", c10wErase}
)

type c10wWorld struct {
	replica int32
	sw0     int    // command-line short window
	hw      uint   // historic window of the built-in agent
	now0    uint32 // second of the first advanceRecentBuckets (initial=true)
}

func (w c10wWorld) String() string {
	return fmt.Sprintf("replica=%d initial_short_window=%d historic_window=%d first_second=%d (mod3=%d)", w.replica, w.sw0, w.hw, w.now0, w.now0%3)
}

// c10wLive is one living aggregator plus what the harness remembers about it.
type c10wLive struct {
	w          c10wWorld
	a          *Aggregator
	now        uint32
	evVer      int64
	qid        int64
	accepted   map[*aggregatorBucket][]uint32 // recent bucket -> seconds accepted into it
	order      []*aggregatorBucket            // keys of accepted, in order of first acceptance
	ready      map[*aggregatorBucket]int      // how many times advanceRecentBuckets handed the bucket over
	conn       *c10Conn
	body       []byte
	probes     int64
	nAccept    int64
	outcomes   map[string]struct{}
	viol       *mc.Verdict // first violation
	windowViol *mc.Verdict // window invariant broken by the last tick (see tick)

	eraseInAlphabet bool
}

func (l *c10wLive) fail(sig, msg string, detail map[string]any) {
	if l.viol != nil {
		return
	}
	if detail == nil {
		detail = map[string]any{}
	}
	detail["world"] = l.w.String()
	detail["window"] = l.windowString()
	detail["now"] = l.now
	detail["short_window"] = l.a.configR.ShortWindow
	l.viol = &mc.Verdict{Sig: "C10:" + sig, Violation: fmt.Sprintf("%s [window %s, now=%d, short-window=%d; %s]", msg, l.windowString(), l.now, l.a.configR.ShortWindow, l.w), Detail: detail}
}

func (l *c10wLive) windowString() string {
	var sb strings.Builder
	sb.WriteByte('[')
	for i, b := range l.a.recentBuckets {
		if i != 0 {
			sb.WriteByte(' ')
		}
		fmt.Fprintf(&sb, "%d", b.time)
	}
	sb.WriteByte(']')
	return sb.String()
}

func c10wHolds(b *aggregatorBucket) bool {
	return len(b.contributors3) != 0 || len(b.contributors) != 0 || len(b.contributorsSimulatedErrors) != 0
}

func c10wNewLive(w c10wWorld) (*c10wLive, error) {
	a, err := c10NewAggregator(w.replica, w.sw0, w.hw, time.Unix(int64(w.now0), 0))
	if err != nil {
		return nil, err
	}
	// what updateConfigRemotelyExperimental touches, built with the constructors MakeAggregator uses (no network:
	// no rqlite address, no metadata client; nothing is started)
	a.config.DisableRemoteConfig = false
	a.metricStorage = metajournal.MakeMetricsStorage(nil)
	a.metricMetaLoader = metarqlite.NewRQliteLoader("", time.Second, nil)
	a.tagsMapper3 = NewTagsMapper3(a, a.sh2, a.metricStorage, a.metricMetaLoader)
	var bucket tlstatshouse.SourceBucket3Bytes
	item := tlstatshouse.MultiItemBytes{Metric: c10Metric, Keys: []int32{0, 5, 6}}
	item.Tail.SetCounterEq1(true, &item.FieldsMask)
	bucket.Metrics = append(bucket.Metrics, item)
	return &c10wLive{w: w, a: a, now: w.now0, accepted: map[*aggregatorBucket][]uint32{}, ready: map[*aggregatorBucket]int{},
		conn: &c10Conn{}, body: bucket.WriteTL1Boxed(nil), outcomes: map[string]struct{}{}}, nil
}

// tick is one goTicker iteration. description "" = the journal brought nothing new.
func (l *c10wLive) tick(delta int64, description string) {
	a := l.a
	if description != "" {
		if description == c10wErase {
			description = ""
		}
		l.evVer++
		a.metricStorage.ApplyEvent([]tlmetadata.Event{{Id: 7777, Name: format.StatshouseAggregatorRemoteConfigMetric, EventType: format.MetricEvent,
			Version: l.evVer, Data: fmt.Sprintf(`{"description":%q}`, description)}})
	}
	l.now = uint32(int64(l.now) + delta)
	// ---- goTicker's loop body ----
	a.updateConfigRemotelyExperimental()
	readyBuckets := a.advanceRecentBuckets(time.Unix(int64(l.now), 0), false)
	for _, b := range readyBuckets {
		l.ready[b]++
		if l.ready[b] > 1 {
			l.fail("agg-bucket-never-ready", fmt.Sprintf("bucket %d was handed to the inserter %d times", b.time, l.ready[b]), nil)
		}
		if b.time%3 != uint32(a.replicaKey-1) && c10wHolds(b) { // goTicker: log.Panicf("not our (%d) bucket %d has %d (%d, %d) contributors")
			l.fail("agg-ready-bucket-of-other-replica", fmt.Sprintf("ready bucket %d (mod 3 = %d) holds accepted seconds %v but replica %d never inserts it (goTicker panics 'not our bucket')",
				b.time, b.time%3, l.accepted[b], a.replicaKey), map[string]any{"bucket": b.time, "accepted_seconds": l.accepted[b]})
		}
	}
	// the invariant handleSendSourceBucket's index arithmetic relies on. Kept aside (windowViol): the requests of this
	// step are still sent, and a second that is actually misfiled is the finding reported for the history; the broken
	// window alone is reported only if no request of this step was misfiled.
	if l.viol == nil && l.windowViol == nil {
		for i, b := range a.recentBuckets {
			if b.time != a.recentBuckets[0].time+uint32(i) {
				l.fail("agg-window-not-contiguous", fmt.Sprintf("recentBuckets[%d].time = %d, but the handler indexes the window as %d + %d = %d",
					i, b.time, a.recentBuckets[0].time, i, a.recentBuckets[0].time+uint32(i)), map[string]any{"index": i})
				break
			}
		}
		l.windowViol, l.viol = l.viol, nil
	}
}

// probe sends one request through the real RPC handler of the living aggregator and checks where it was filed.
func (l *c10wLive) probe(sent uint32, historic, spare bool) {
	a := l.a
	var args tlstatshouse.SendSourceBucket3Bytes
	args.Time = sent
	args.SetHistoric(historic)
	args.SetSpare(spare)
	args.Header.ShardReplica = (c10Shard-1)*3 + (l.w.replica - 1)
	args.Header.ShardReplicaTotal = 6
	args.Header.HostName = []byte("agent-host")
	args.Header.ComponentTag = format.TagValueIDComponentAgent
	args.BuildCommitTs = format.LeastAllowedAgentCommitTs
	args.OriginalSize = uint32(len(l.body))
	args.CompressedData = l.body
	l.qid++
	l.conn.started = l.conn.started[:0]
	hctx := &rpc.HandlerContext{}
	hctx.ResetTo(l.conn, l.qid)
	hctx.Request = args.WriteTL1(nil)
	total := func() (n int) {
		for _, b := range a.recentBuckets {
			n += len(b.contributors3)
		}
		for _, b := range a.historicBuckets {
			n += len(b.contributors3)
		}
		return
	}
	before := total()
	oldest := a.recentBuckets[0].time
	l.probes++
	what := fmt.Sprintf("request for second %d (oldest%+d) historic=%v spare=%v", sent, int64(sent)-int64(oldest), historic, spare)
	detail := map[string]any{"sent": sent, "historic": historic, "spare": spare}
	if err := a.handleSendSourceBucket3(context.Background(), hctx); err != nil {
		l.fail("agg-handler-error", fmt.Sprintf("handler failed: %v for %s", err, what), detail)
		return
	}
	after := total()
	rel := fmt.Sprintf("h=%v s=%v d=%d", historic, spare, int64(sent)-int64(oldest))
	if len(l.conn.started) == 0 {
		if after != before {
			l.fail("agg-second-filed-in-several-buckets", fmt.Sprintf("%s was answered at once but %d contributors were registered", what, after-before), detail)
		}
		l.outcomes["w:rejected:"+rel] = struct{}{}
		return // which requests must be refused is not part of the statement
	}
	l.nAccept++
	if len(l.conn.started) != 1 || after != before+1 {
		l.fail("agg-second-filed-in-several-buckets", fmt.Sprintf("%s: %d long polls started, %d contributors registered", what, len(l.conn.started), after-before), detail)
		return
	}
	b, _ := l.conn.started[0].(*aggregatorBucket)
	lh := rpc.LongpollHandle{QueryID: l.qid, CommonConn: l.conn}
	if _, ok := b.contributors3[lh]; !ok {
		l.fail("agg-longpoll-on-other-bucket", fmt.Sprintf("%s: the response is parked on bucket %d which did not register the contributor", what, b.time), detail)
		return
	}
	if hb, ok := a.historicBuckets[b.time]; ok && hb == b {
		l.outcomes["w:historic:"+rel] = struct{}{}
		return // "or into its historic queue"
	}
	inWindow := false
	for _, rb := range a.recentBuckets {
		inWindow = inWindow || rb == b
	}
	if !inWindow {
		l.fail("agg-second-filed-outside-window-and-queue", fmt.Sprintf("%s was accepted into bucket %d which is neither in the recent window nor in the historic queue", what, b.time), detail)
		return
	}
	detail["bucket"] = b.time
	if b.time%3 != uint32(l.w.replica-1) {
		l.fail("agg-bucket-of-other-replica", fmt.Sprintf("%s was accepted into recent bucket %d (mod 3 = %d) which replica %d never inserts", what, b.time, b.time%3, l.w.replica), detail)
		return
	}
	if b.time < sent || b.time > sent+2 {
		l.fail("agg-bucket-not-within-two-seconds", fmt.Sprintf("%s was accepted into recent bucket %d, not within [sent, sent+2]", what, b.time), detail)
		return
	}
	if _, ok := l.accepted[b]; !ok {
		l.order = append(l.order, b)
	}
	l.accepted[b] = append(l.accepted[b], sent)
	l.outcomes[fmt.Sprintf("w:recent:+%d:%s", b.time-sent, rel)] = struct{}{}
}

// probeAll: every second from before the historic window to beyond the future window. full=false sends only the
// plain recent request per second (used for the already verified prefix of a replayed history: it leaves the same
// buckets occupied).
func (l *c10wLive) probeAll(full bool) {
	a := l.a
	oldest := a.recentBuckets[0].time
	newest := oldest + uint32(len(a.recentBuckets)) - 1
	if t := a.recentBuckets[len(a.recentBuckets)-1].time; t > newest {
		newest = t
	}
	for sent := oldest - uint32(l.w.hw) - 3; sent <= newest+3; sent++ {
		if !full {
			if sent+2 >= oldest {
				l.probe(sent, false, false)
			}
			continue
		}
		for _, historic := range []bool{false, true} {
			for _, spare := range []bool{false, true} {
				l.probe(sent, historic, spare)
				if l.viol != nil {
					return
				}
			}
		}
	}
}

// drain lets the clock run normally until every bucket that accepted a second was handed over.
func (l *c10wLive) drain() {
	pending := func() *aggregatorBucket {
		for _, b := range l.order {
			if l.ready[b] == 0 {
				return b
			}
		}
		return nil
	}
	for i := 0; i < 64 && l.viol == nil && l.windowViol == nil && pending() != nil; i++ {
		l.tick(+1, "")
	}
	if l.viol == nil {
		l.viol = l.windowViol
	}
	if b := pending(); b != nil && l.viol == nil {
		l.fail("agg-bucket-never-ready", fmt.Sprintf("bucket %d accepted seconds %v but was not handed to the inserter within 64 further seconds", b.time, l.accepted[b]), map[string]any{"bucket": b.time})
	}
}

// key: everything the future of the window depends on. Times only relative to the oldest bucket and mod 3 (the code
// computes with differences and time%3 only; uint32 wrap-around is out of scope); the published short window; the
// command-line short window if the alphabet can erase the description (only then is it ever read again); which buckets of the window are occupied (the
// hand-over oracle). Historic buckets and the contents of occupied buckets are left out: nothing in
// advanceRecentBuckets or in the handler's choice of bucket reads them, and every filing is checked when it happens.
func (l *c10wLive) key() string {
	a := l.a
	var sb strings.Builder
	oldest := a.recentBuckets[0].time
	fmt.Fprintf(&sb, "r%d h%d sw%d now%+d m%d", l.w.replica, l.w.hw, a.configR.ShortWindow, int64(l.now)-int64(oldest), oldest%3)
	if l.eraseInAlphabet {
		fmt.Fprintf(&sb, " i%d", l.w.sw0)
	}
	for _, b := range a.recentBuckets {
		fmt.Fprintf(&sb, " %d", int64(b.time)-int64(oldest))
		if c10wHolds(b) {
			sb.WriteByte('*')
		}
	}
	return sb.String()
}

type c10wTotals struct {
	mu       sync.Mutex
	probes   int64
	accepted int64
	outcomes map[string]struct{}
	infra    []string
	dead     atomic.Bool
	sample   []string
}

func c10Window(rep *mc.Report) {
	deltas := mc.Pick(c10wDeltasQuick, c10wDeltasThorough)
	configs := mc.Pick(c10wConfigsQuick, c10wConfigsThorough)
	depth := mc.Pick(3, 5)
	historicWindows := mc.Pick([]uint{6}, []uint{6, 20})
	var worlds []c10wWorld
	for _, replica := range []int32{1, 2, 3} {
		for _, sw0 := range []int{3, 4, 5} {
			for _, hw := range historicWindows {
				for _, now0 := range []uint32{1700000004, 1700000005, 1700000006} {
					worlds = append(worlds, c10wWorld{replica, sw0, hw, now0})
				}
			}
		}
	}
	eraseInAlphabet := false
	for _, c := range configs {
		eraseInAlphabet = eraseInAlphabet || c == c10wErase
	}
	numOps := len(deltas) * len(configs)
	if numOps < len(worlds) {
		numOps = len(worlds) // the first element of a history selects the world
	}
	rep.Bounds["agg_window_worlds"] = fmt.Sprintf("replica 1..3 x command-line short window 3..5 x historic window %v x first second mod 3 (%d worlds)", historicWindows, len(worlds))
	rep.Bounds["agg_window_clock_steps"] = fmt.Sprint(deltas)
	rep.Bounds["agg_window_remote_configs"] = fmt.Sprintf("%q", configs)
	rep.Bounds["agg_window_history_depth"] = fmt.Sprint(depth)
	rep.Bounds["agg_window_requests_per_state"] = "sent second from oldest-(historic window+3) to newest+3, x historic x spare"
	rep.Assume("goTicker's loop body (updateConfigRemotelyExperimental; advanceRecentBuckets(now); own-second test of ready buckets) is replicated with an injected clock, the three callees are real; the remote config arrives as a journal event applied to a real MetricsStorage")

	prevLog := log.Writer()
	log.SetOutput(io.Discard) // updateConfigRemotelyExperimental logs every description
	defer log.SetOutput(prevLog)

	tot := &c10wTotals{outcomes: map[string]struct{}{}}
	run := func(history []int) (res mc.StepResult) {
		if len(history) == 0 {
			return mc.StepResult{Applicable: true, Key: "root"}
		}
		if history[0] >= len(worlds) || tot.dead.Load() {
			return mc.StepResult{}
		}
		for _, op := range history[1:] {
			if op >= len(deltas)*len(configs) {
				return mc.StepResult{}
			}
		}
		type out struct {
			res mc.StepResult
			l   *c10wLive
			err error
		}
		done := make(chan out, 1)
		go func() { // the rounding loop of the handler is unbounded: watchdog, as in the first family
			var o out
			defer func() {
				if p := recover(); p != nil {
					o.res = mc.StepResult{Applicable: true, Key: fmt.Sprintf("panic:%v", history), Verdict: mc.Verdict{Sig: "C10:agg-window-panic", Violation: fmt.Sprintf("panic: %v (world %s)", p, worlds[history[0]])}}
				}
				done <- o
			}()
			l, err := c10wNewLive(worlds[history[0]])
			if err != nil {
				o.err = err
				return
			}
			o.l = l
			l.eraseInAlphabet = eraseInAlphabet
			steps := history[1:]
			if len(steps) == 0 {
				l.probeAll(true)
			} else {
				l.probeAll(false)
			}
			for i, op := range steps {
				if l.viol != nil {
					break
				}
				l.tick(deltas[op/len(configs)], configs[op%len(configs)])
				if l.viol != nil || (l.windowViol != nil && i != len(steps)-1) {
					break
				}
				if i == len(steps)-1 {
					l.probes, l.nAccept, l.outcomes = 0, 0, map[string]struct{}{} // count the last step only: the prefix was counted when it was the last step
					l.probeAll(true)
				} else {
					l.probeAll(false)
				}
			}
			if l.viol == nil {
				l.viol = l.windowViol
			}
			key := ""
			if l.viol == nil {
				key = l.key()
				l.drain()
			}
			o.res = mc.StepResult{Applicable: true, Key: key, Nontrivial: l.nAccept != 0}
			if l.viol != nil {
				o.res.Verdict = *l.viol
				o.res.Key = fmt.Sprintf("violation:%v", history)
			}
		}()
		select {
		case o := <-done:
			if o.err != nil {
				tot.mu.Lock()
				tot.infra = append(tot.infra, "cannot build aggregator: "+o.err.Error())
				tot.mu.Unlock()
				tot.dead.Store(true)
				return mc.StepResult{}
			}
			if o.l != nil {
				tot.mu.Lock()
				tot.probes += o.l.probes
				tot.accepted += o.l.nAccept
				for k := range o.l.outcomes {
					tot.outcomes[k] = struct{}{}
				}
				tot.mu.Unlock()
			}
			return o.res
		case <-time.After(60 * time.Second):
			if !tot.dead.Swap(true) {
				tot.mu.Lock()
				tot.infra = append(tot.infra, fmt.Sprintf("window history %v of world %s did not finish within 60 s", history, worlds[history[0]]))
				tot.mu.Unlock()
			}
			return mc.StepResult{}
		}
	}
	stats := mc.BFS(run, mc.BFSOptions{NumOps: numOps, MaxDepth: depth + 1})
	for i := range stats.Violations { // make the history readable
		v := &stats.Violations[i]
		if len(v.Choices) > 0 && v.Choices[0] < len(worlds) {
			var hs []string
			for _, op := range v.Choices[1:] {
				c := configs[op%len(configs)]
				if c == "" {
					c = "no new config"
				}
				hs = append(hs, fmt.Sprintf("tick(clock%+d, %s)", deltas[op/len(configs)], c))
			}
			v.Desc += " after history " + strings.Join(hs, " ")
		}
	}
	rep.MergeBFS("aggregator_window", stats)
	for _, m := range tot.infra {
		rep.Infra(m)
	}
	var outs []string
	for k := range tot.outcomes {
		outs = append(outs, k)
	}
	sort.Strings(outs)
	for _, k := range outs {
		rep.Outcome("agg:" + k)
	}
	rep.AddCounts(tot.probes, tot.probes, 0, tot.accepted)
	if p, ok := rep.Parts["aggregator_window"].(map[string]any); ok {
		p["handler_requests"] = tot.probes
		p["accepted"] = tot.accepted
		p["distinct_relative_outcomes"] = len(outs)
	}
}
