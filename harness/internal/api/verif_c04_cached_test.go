//go:build verif

package api

// C04 (API part), family "cached rows are owned by the cache".
//
// The series loop of promql.go takes the first row of a tag set from the time series cache by
// value (`tagV.tsValues = data[i][j].tsValues`) and merges the following rows into that copy with
// tsValues.merge; the rows stay in the cache and are served again by the next query. The part
// "api-tsValues" decodes a fresh row for every leaf of every evaluation, so it cannot see a merge
// that writes into the memory of a cached row. Here the rows of one multiset are decoded ONCE (the
// cache) and every permutation x ordered binary tree is evaluated, twice, over struct copies of
// these same rows (a struct copy shares the sketch's table with the cached row, as in the real loop).
//
// Oracle: every evaluation - also the second, third ... over the same cache - gives the reference
// computed from the row specifications; after every evaluation every cached row still holds what
// was decoded (aggregates, host arguments, sketch header, estimate and the set of stored hashes as
// MarshallAppend writes them, order-independent).

import (
	"encoding/binary"
	"fmt"
	"math"
	"runtime"
	"sort"
	"strings"
	"sync"
	"sync/atomic"
	"testing"

	"github.com/VKCOM/statshouse/internal/data_model"
	"github.com/VKCOM/statshouse/internal/verif/mc"
)

type c04ApiCachedSnap struct {
	min, max, sum, count, sumsquare, cardinality float64
	mergeCount                                   int
	minHost                                      data_model.ArgMinInt32Float32
	maxHost                                      data_model.ArgMaxInt32Float32
	minHostStr, maxHostStr                       string
	size                                         uint64
	items                                        int
	state                                        string // skip degree, item count, sorted hashes
}

func c04ApiCachedSketchState(u *data_model.ChUnique) string {
	b := u.MarshallAppend(nil)
	if len(b) < 2 {
		return fmt.Sprintf("short:%x", b)
	}
	ic, k := binary.Uvarint(b[1:])
	if k <= 0 {
		return fmt.Sprintf("bad:%x", b[:2])
	}
	rest := b[1+k:]
	hs := make([]uint32, 0, len(rest)/4)
	for i := 0; i+4 <= len(rest); i += 4 {
		hs = append(hs, binary.LittleEndian.Uint32(rest[i:]))
	}
	sort.Slice(hs, func(i, j int) bool { return hs[i] < hs[j] })
	h := uint64(14695981039346656037)
	for _, x := range hs {
		h = (h ^ uint64(x)) * 1099511628211
		h ^= h >> 31
	}
	return fmt.Sprintf("skip=%d header-items=%d written-hashes=%d hash=%x tail=%d", b[0], ic, len(hs), h, len(rest)%4)
}

func c04ApiCachedSnapOf(v *tsValues) c04ApiCachedSnap {
	return c04ApiCachedSnap{min: v.min, max: v.max, sum: v.sum, count: v.count, sumsquare: v.sumsquare, cardinality: v.cardinality,
		mergeCount: v.mergeCount, minHost: v.minHost, maxHost: v.maxHost,
		minHostStr: fmt.Sprintf("%q/%d/%v", v.minHostStr.AsString, v.minHostStr.AsInt32, v.minHostStr.Val),
		maxHostStr: fmt.Sprintf("%q/%d/%v", v.maxHostStr.AsString, v.maxHostStr.AsInt32, v.maxHostStr.Val),
		size:       v.unique.Size(false), items: v.unique.ItemsCount(), state: c04ApiCachedSketchState(&v.unique)}
}

func (a c04ApiCachedSnap) diff(b c04ApiCachedSnap) string {
	if a == b {
		return ""
	}
	var d []string
	if a.size != b.size {
		d = append(d, fmt.Sprintf("unique estimate %d -> %d", a.size, b.size))
	}
	if a.items != b.items {
		d = append(d, fmt.Sprintf("item count %d -> %d", a.items, b.items))
	}
	if a.state != b.state {
		d = append(d, fmt.Sprintf("serialized sketch [%s] -> [%s]", a.state, b.state))
	}
	a.size, a.items, a.state = b.size, b.items, b.state
	if a != b {
		d = append(d, fmt.Sprintf("aggregates/hosts %+v -> %+v", a, b))
	}
	return strings.Join(d, ", ")
}

func c04ApiCachedPart(t *testing.T, rep *mc.Report) {
	fam := []c04ApiSketch{
		{name: "none"},
		c04ApiMakeSketch("{42}", 42, 43),
		c04ApiMakeSketch("{1,2,3}", 1, 4),
		c04ApiMakeSketch("{3,4,5,6}", 3, 7),           // overlaps the previous one
		c04ApiMakeSketch("fill-limit{100..107}", 100, 108), // 8 items: a 16-slot table exactly at its fill limit
		c04ApiMakeSketch("1001@1e6", 1_000_000, 1_001_001),
	}
	rows := []c04ApiRow{
		{name: "c0[-2..5]x2,none", min: -2, max: 5, sum: 3, count: 2, sumsquare: 29, cardinality: 1, sketch: 0, minArg: 1, maxArg: 2, minStr: "a", minHostVal: -2, maxHostVal: 5},
		{name: "c1[5..5]x1,{42}", min: 5, max: 5, sum: 5, count: 1, sumsquare: 25, cardinality: 1, sketch: 1, minArg: 2, maxArg: 3, maxStr: "b", minHostVal: 5, maxHostVal: 5},
		{name: "c2[-2..0]x3,{1,2,3}", min: -2, max: 0, sum: -4, count: 3, sumsquare: 8, cardinality: 2, sketch: 2, minArg: 3, maxArg: 1, minHostVal: -2, maxHostVal: 0.5},
		{name: "c3[3..6]x4,{3,4,5,6}", min: 3, max: 6, sum: 18, count: 4, sumsquare: 86, cardinality: 1, sketch: 3, minArg: 4, maxArg: 4, minStr: "c", maxStr: "c", minHostVal: 3, maxHostVal: 6},
		{name: "c4[0..9]x8,fill-limit", min: 0, max: 9, sum: 36, count: 8, sumsquare: 204, cardinality: 1, sketch: 4, minArg: 1, maxArg: 5, minHostVal: 0.25, maxHostVal: 9},
		{name: "c5[1..7]x4,1001", min: 1, max: 7, sum: 16, count: 4, sumsquare: 84, cardinality: 3, sketch: 5, minArg: 5, maxArg: 2, minStr: "d", minHostVal: 1, maxHostVal: 7},
	}
	if mc.Thorough() {
		fam = append(fam, c04ApiMakeSketch("70000@0", 0, 70_000)) // thinned
		rows = append(rows, c04ApiRow{name: "c6[2..2]x2,70000", min: 2, max: 2, sum: 4, count: 2, sumsquare: 8, cardinality: 1, sketch: 6, minArg: 6, maxArg: 6, minHostVal: 2, maxHostVal: 2})
	}
	maxN := mc.Pick(3, 4)
	const passes = 2
	var rowNames []string
	for _, r := range rows {
		rowNames = append(rowNames, r.name)
	}
	rep.Bounds["api_cached_rows"] = strings.Join(rowNames, " ")
	rep.Bounds["api_cached_max_rows_merged"] = maxN
	rep.Bounds["api_cached_passes_over_the_same_cache"] = passes
	multisets := c04ApiMultisets(len(rows), maxN)
	{
		// the row with the thinned sketch (every merge and every snapshot of it costs milliseconds) only in
		// multisets of at most 3
		kept := multisets[:0]
		for _, ms := range multisets {
			big := false
			for _, ri := range ms {
				big = big || fam[rows[ri].sketch].skip
			}
			if !big || len(ms) <= 3 {
				kept = append(kept, ms)
			}
		}
		multisets = kept
	}
	trees := make([][]*c04ApiTree, maxN+1)
	for n := 1; n <= maxN; n++ {
		trees[n] = c04ApiTrees(0, n)
	}
	type pending struct {
		n             int
		ms, sig, desc string
		detail        any
	}
	var pend []pending
	var mu sync.Mutex
	var execs, merges, nontrivial int64
	shardK, shardN := mc.ShardFromEnv()
	work := make(chan int, len(multisets))
	for i := range multisets {
		if i%shardN == shardK {
			work <- i
		}
	}
	close(work)
	var capped atomic.Bool
	var wg sync.WaitGroup
	for w := 0; w < runtime.GOMAXPROCS(0); w++ {
		wg.Add(1)
		go func() {
			defer wg.Done()
			for mi := range work {
				if mc.Expired() {
					capped.Store(true)
					continue
				}
				ms := multisets[mi]
				n := len(ms)
				names := make([]string, n)
				ref := struct{ min, max, sum, count, sumsq, card float64 }{min: math.Inf(1), max: math.Inf(-1)}
				minVal, maxVal := float32(math.Inf(1)), float32(math.Inf(-1))
				union := map[uint64]struct{}{}
				thinned := false
				for i, ri := range ms {
					r := rows[ri]
					names[i] = r.name
					ref.min, ref.max = math.Min(ref.min, r.min), math.Max(ref.max, r.max)
					ref.sum += r.sum
					ref.count += r.count
					ref.sumsq += r.sumsquare
					ref.card += r.cardinality
					if r.minHostVal < minVal {
						minVal = r.minHostVal
					}
					if r.maxHostVal > maxVal {
						maxVal = r.maxHostVal
					}
					s := fam[r.sketch]
					if s.skip {
						thinned = true
					} else {
						for v := s.lo; v < s.hi; v++ {
							union[v] = struct{}{}
						}
					}
				}
				okMinArg, okMaxArg := map[int32]bool{}, map[int32]bool{}
				for _, ri := range ms {
					r := rows[ri]
					if r.minHostVal == minVal {
						okMinArg[r.minArg] = true
					}
					if r.maxHostVal == maxVal {
						okMaxArg[r.maxArg] = true
					}
				}
				msName := "{" + strings.Join(names, ", ") + "}"
				// the cache: rows decoded once, shared by every evaluation below
				cache := make([]tsValues, n)
				snaps := make([]c04ApiCachedSnap, n)
				for i, ri := range ms {
					v, err := c04ApiBuild(&rows[ri], fam)
					if err != nil {
						rep.Infra("ReadFrom failed on MarshallAppend output: " + err.Error())
						return
					}
					cache[i] = v
					snaps[i] = c04ApiCachedSnapOf(&cache[i])
				}
				var lexecs, lmerges int64
				var firstSize uint64
				var firstHow string
				seen := map[string]bool{}
				var lpend []pending
				add := func(sig, desc string, detail any) {
					if !seen[sig] {
						seen[sig] = true
						lpend = append(lpend, pending{n, msName, sig, desc, detail})
					}
				}
				// Once a cached row was changed, its sketch is in a state no merge was written for (two
				// headers share one table, item counts go stale, the table can fill up and the insertion
				// probe never ends). The remaining evaluations are carried out only when that cannot
				// happen: nothing thinned and at most 7 distinct values in all rows together, so that no
				// table (>= 16 slots) can ever hold more than 7. Otherwise the multiset ends here.
				safeAfterMutation := !thinned && len(union) <= 7
			evaluations:
				for pass := 0; pass < passes; pass++ {
					for _, perm := range c04ApiPerms(ms) {
						leafRow := make([]int, n)
						used := make([]bool, n)
						for p, k := range perm {
							for j := range ms {
								if ms[j] == k && !used[j] {
									used[j], leafRow[p] = true, j
									break
								}
							}
						}
						for _, tr := range trees[n] {
							var eval func(t *c04ApiTree) tsValues
							eval = func(t *c04ApiTree) tsValues {
								if t.left == nil {
									return cache[leafRow[t.leaf]] // struct copy of the cached row, as promql.go takes it
								}
								l := eval(t.left)
								r := eval(t.right)
								l.merge(r)
								lmerges++
								return l
							}
							got := eval(tr)
							lexecs++
							how := fmt.Sprintf("query %d over the same cache: %s", pass+1, tr.str(func(p int) string { return rows[perm[p]].name }))
							size := got.unique.Size(false)
							if firstHow == "" {
								firstSize, firstHow = size, how
							}
							bad := func(what string) {
								add("C04:api-cached-rows-"+what, fmt.Sprintf("rows %s stay in the cache and are merged again and again: %s gives %s that differs from what the rows add up to (count %v/%v min %v/%v max %v/%v sum %v/%v sumsquare %v/%v min host (%d,%v) max host (%d,%v))",
									msName, how, what, got.count, ref.count, got.min, ref.min, got.max, ref.max, got.sum, ref.sum, got.sumsquare, ref.sumsq, got.minHost.Arg, got.minHost.Val, got.maxHost.Arg, got.maxHost.Val),
									map[string]any{"rows": msName, "order": how})
							}
							switch {
							case got.count != ref.count:
								bad("count-differs")
							case got.min != ref.min:
								bad("min-differs")
							case got.max != ref.max:
								bad("max-differs")
							case got.sum != ref.sum:
								bad("sum-differs")
							case got.sumsquare != ref.sumsq:
								bad("sumsquare-differs")
							case got.minHost.Val != minVal || !okMinArg[got.minHost.Arg]:
								bad("min-host-not-contributor")
							case got.maxHost.Val != maxVal || !okMaxArg[got.maxHost.Arg]:
								bad("max-host-not-contributor")
							}
							if !thinned && size != uint64(len(union)) {
								add("C04:api-cached-rows-unique-wrong", fmt.Sprintf("rows %s stay in the cache and are merged again and again: %s reports %d unique values, the rows hold %d distinct values (first evaluation: %s = %d)",
									msName, how, size, len(union), firstHow, firstSize), map[string]any{"rows": msName, "order": how, "estimate": size, "true_distinct": len(union)})
							} else if size != firstSize {
								add("C04:api-cached-rows-unique-order-dependent", fmt.Sprintf("rows %s stay in the cache and are merged again and again: %s = %d but %s = %d",
									msName, firstHow, firstSize, how, size), map[string]any{"rows": msName, "order_a": firstHow, "estimate_a": firstSize, "order_b": how, "estimate_b": size})
							}
							mutated := false
							for i := range cache {
								if d := snaps[i].diff(c04ApiCachedSnapOf(&cache[i])); d != "" {
									mutated = true
									add("C04:api-merge-mutates-cached-row", fmt.Sprintf("after %s the cached row %s (only ever copied by value and passed to tsValues.merge) no longer holds what was decoded: %s; the next query over the same cache merges different rows",
										how, rows[ms[i]].name, d), map[string]any{"rows": msName, "order": how, "row": rows[ms[i]].name, "change": d})
								}
							}
							if mutated && !safeAfterMutation {
								break evaluations
							}
						}
					}
				}
				rep.Outcome(fmt.Sprintf("ac|%s|%d", msName, firstSize))
				mu.Lock()
				pend = append(pend, lpend...)
				execs += lexecs
				merges += lmerges
				if n >= 2 {
					nontrivial += lexecs
				}
				mu.Unlock()
			}
		}()
	}
	wg.Wait()
	sort.SliceStable(pend, func(i, j int) bool {
		if pend[i].n != pend[j].n {
			return pend[i].n < pend[j].n
		}
		if pend[i].ms != pend[j].ms {
			return pend[i].ms < pend[j].ms
		}
		return pend[i].sig < pend[j].sig
	})
	for _, v := range pend {
		rep.Violate(v.sig, v.desc, v.detail)
	}
	if capped.Load() {
		rep.Cap("api-cached:wall_budget")
	}
	rep.AddCounts(execs, merges, 0, nontrivial)
	rep.Parts["api-cached-rows"] = map[string]any{"executions": execs, "merges": merges, "multisets": len(multisets), "exhaustive": !capped.Load()}
	rep.Sample(map[string]any{"part": "api-cached-rows", "rows": rowNames})
	t.Logf("C04 api cached-rows part: multisets=%d executions=%d merges=%d", len(multisets), execs, merges)
}
