//go:build verif

package api

// C04 (API part): tsValues.merge — the row merge of the query path — gives the same aggregates for
// every order and grouping of the same multiset of rows.
//
// Every multiset of <=N rows from a small alphabet (value aggregates, unique sketches of a size
// family whose thinning levels differ, int32 and string host arguments) x every distinct
// permutation x every ordered binary merge tree. A leaf is a struct copy of a "cached" row whose
// sketch was decoded with ChUnique.ReadFrom from the bytes MarshallAppend wrote (the way rows reach
// the API); an inner node is left.merge(right).

import (
	"bytes"
	"fmt"
	"math"
	"runtime"
	"sort"
	"strings"
	"sync"
	"sync/atomic"
	"testing"

	"github.com/VKCOM/statshouse/internal/data_model"
	"github.com/VKCOM/statshouse/internal/verif/mc"
)

type c04ApiRow struct {
	name                  string
	min, max, sum, count  float64
	sumsquare             float64
	cardinality           float64
	sketch                int // index into the sketch family
	minArg, maxArg        int32
	minStr, maxStr        string // string host ("" = use the int32 argument also in the string flavour)
	minHostVal, maxHostVal float32
}

type c04ApiSketch struct {
	name   string
	state  []byte // MarshallAppend output
	lo, hi uint64
	skip   bool // thinned
	n      int
}

func c04ApiMakeSketch(name string, lo, hi uint64) c04ApiSketch {
	var u data_model.ChUnique
	for v := lo; v < hi; v++ {
		u.Insert(v)
	}
	s := c04ApiSketch{name: name, lo: lo, hi: hi, n: int(hi - lo)}
	s.state = u.MarshallAppend(nil)
	s.skip = len(s.state) > 0 && s.state[0] != 0
	return s
}

func c04ApiSketches() []c04ApiSketch {
	f := []c04ApiSketch{
		{name: "none"}, // zero ChUnique (column not selected / no unique values)
		c04ApiMakeSketch("{42}", 42, 43),
		c04ApiMakeSketch("{1,2,3}", 1, 4),
		c04ApiMakeSketch("1001@1e6", 1_000_000, 1_001_001),
		c04ApiMakeSketch("70000@0", 0, 70_000),
		c04ApiMakeSketch("150000@50000", 50_000, 200_000),
	}
	return f
}

func c04ApiRows() []c04ApiRow {
	return []c04ApiRow{
		{name: "r0[-2..5]x2,none", min: -2, max: 5, sum: 3, count: 2, sumsquare: 29, cardinality: 1, sketch: 0, minArg: 1, maxArg: 2, minStr: "a", minHostVal: -2, maxHostVal: 5},
		{name: "r1[5..5]x1,{42}", min: 5, max: 5, sum: 5, count: 1, sumsquare: 25, cardinality: 1, sketch: 1, minArg: 2, maxArg: 3, maxStr: "b", minHostVal: 5, maxHostVal: 5},
		{name: "r2[-2..0]x3,{1,2,3}", min: -2, max: 0, sum: -4, count: 3, sumsquare: 8, cardinality: 2, sketch: 2, minArg: 3, maxArg: 1, minHostVal: -2, maxHostVal: 0.5},
		{name: "r3[1..7]x4,1001", min: 1, max: 7, sum: 16, count: 4, sumsquare: 84, cardinality: 1, sketch: 3, minArg: 4, maxArg: 4, minStr: "c", maxStr: "c", minHostVal: 1, maxHostVal: 7},
		{name: "r4[0..9]x2,70000", min: 0, max: 9, sum: 9, count: 2, sumsquare: 81, cardinality: 1, sketch: 4, minArg: 1, maxArg: 5, minHostVal: 0.25, maxHostVal: 9},
		{name: "r5[3..3]x8,150000", min: 3, max: 3, sum: 24, count: 8, sumsquare: 72, cardinality: 3, sketch: 5, minArg: 5, maxArg: 2, minStr: "d", minHostVal: 3, maxHostVal: 3},
	}
}

func c04ApiBuild(r *c04ApiRow, fam []c04ApiSketch) (tsValues, error) {
	v := tsValues{min: r.min, max: r.max, sum: r.sum, count: r.count, sumsquare: r.sumsquare, cardinality: r.cardinality}
	if st := fam[r.sketch].state; st != nil {
		if err := v.unique.ReadFrom(bytes.NewReader(st)); err != nil {
			return v, err
		}
	}
	v.minHost.Arg, v.minHost.Val = r.minArg, r.minHostVal
	v.maxHost.Arg, v.maxHost.Val = r.maxArg, r.maxHostVal
	if r.minStr != "" {
		v.minHostStr.AsString = r.minStr
	} else {
		v.minHostStr.AsInt32 = r.minArg
	}
	v.minHostStr.Val = r.minHostVal
	if r.maxStr != "" {
		v.maxHostStr.AsString = r.maxStr
	} else {
		v.maxHostStr.AsInt32 = r.maxArg
	}
	v.maxHostStr.Val = r.maxHostVal
	return v, nil
}

func c04ApiMultisets(k, maxN int) [][]int {
	var out [][]int
	var rec func(cur []int, from int)
	rec = func(cur []int, from int) {
		if len(cur) > 0 {
			out = append(out, append([]int{}, cur...))
		}
		if len(cur) == maxN {
			return
		}
		for i := from; i < k; i++ {
			rec(append(cur, i), i)
		}
	}
	rec(nil, 0)
	return out
}

func c04ApiPerms(ms []int) [][]int {
	cur := append([]int{}, ms...)
	sort.Ints(cur)
	var out [][]int
	for {
		out = append(out, append([]int{}, cur...))
		i := len(cur) - 2
		for i >= 0 && cur[i] >= cur[i+1] {
			i--
		}
		if i < 0 {
			return out
		}
		j := len(cur) - 1
		for cur[j] <= cur[i] {
			j--
		}
		cur[i], cur[j] = cur[j], cur[i]
		for l, r := i+1, len(cur)-1; l < r; l, r = l+1, r-1 {
			cur[l], cur[r] = cur[r], cur[l]
		}
	}
}

type c04ApiTree struct {
	leaf        int
	left, right *c04ApiTree
}

func c04ApiTrees(lo, hi int) []*c04ApiTree {
	if hi-lo == 1 {
		return []*c04ApiTree{{leaf: lo}}
	}
	var out []*c04ApiTree
	for mid := lo + 1; mid < hi; mid++ {
		for _, l := range c04ApiTrees(lo, mid) {
			for _, r := range c04ApiTrees(mid, hi) {
				out = append(out, &c04ApiTree{leaf: -1, left: l, right: r})
			}
		}
	}
	return out
}

func (t *c04ApiTree) str(name func(int) string) string {
	if t.left == nil {
		return name(t.leaf)
	}
	return "(" + t.left.str(name) + " <- " + t.right.str(name) + ")"
}

func TestVerifC04API(t *testing.T) {
	rep := mc.NewReport("C04")
	rep.Rule = "" // the rule text of the property is written by the data_model run (the driver keeps the last non-empty one)
	fam := c04ApiSketches()
	rows := c04ApiRows()
	maxN := mc.Pick(3, 4)
	rep.Bounds["api_rows"] = len(rows)
	rep.Bounds["api_max_rows_merged"] = maxN
	multisets := c04ApiMultisets(len(rows), maxN)
	trees := make([][]*c04ApiTree, maxN+1)
	for n := 1; n <= maxN; n++ {
		trees[n] = c04ApiTrees(0, n)
	}
	// hashes are not visible from this package: the exact reference for small unions counts distinct
	// input values (value ranges of the family members are disjoint or overlapping ranges of integers)
	unionSize := func(ms []int) (int, bool) {
		set := map[uint64]struct{}{}
		thinned := false
		for _, ri := range ms {
			s := fam[rows[ri].sketch]
			if s.skip {
				thinned = true
			}
			if s.n > 2000 {
				continue
			}
			for v := s.lo; v < s.hi; v++ {
				set[v] = struct{}{}
			}
		}
		return len(set), thinned
	}
	var execs, merges, nontrivial int64
	var mu sync.Mutex
	// violations are collected and reported smallest multiset first (minimal, reproducible examples)
	type pending struct {
		n             int
		ms, sig, desc string
		detail        any
	}
	var pend []pending
	addViol := func(n int, ms, sig, desc string, detail any) {
		mu.Lock()
		pend = append(pend, pending{n, ms, sig, desc, detail})
		mu.Unlock()
	}
	shardK, shardN := mc.ShardFromEnv()
	work := make(chan int, len(multisets))
	for i := range multisets {
		if i%shardN == shardK {
			work <- i
		}
	}
	close(work)
	var capped atomic.Bool
	var wg sync.WaitGroup
	for w := 0; w < runtime.GOMAXPROCS(0); w++ {
		wg.Add(1)
		go func() {
			defer wg.Done()
			for mi := range work {
				if mc.Expired() {
					capped.Store(true)
					continue
				}
				ms := multisets[mi]
				n := len(ms)
				names := make([]string, n)
				for i, ri := range ms {
					names[i] = rows[ri].name
				}
				msName := "{" + strings.Join(names, ", ") + "}"
				// reference from the row specifications
				ref := struct{ min, max, sum, count, sumsq, card float64 }{min: math.Inf(1), max: math.Inf(-1)}
				minVal, maxVal := float32(math.Inf(1)), float32(math.Inf(-1))
				for _, ri := range ms {
					r := rows[ri]
					ref.min, ref.max = math.Min(ref.min, r.min), math.Max(ref.max, r.max)
					ref.sum += r.sum
					ref.count += r.count
					ref.sumsq += r.sumsquare
					ref.card += r.cardinality
					if r.minHostVal < minVal {
						minVal = r.minHostVal
					}
					if r.maxHostVal > maxVal {
						maxVal = r.maxHostVal
					}
				}
				okMinArg, okMaxArg := map[int32]bool{}, map[int32]bool{}
				okMinStr, okMaxStr := map[string]bool{}, map[string]bool{}
				for _, ri := range ms {
					r := rows[ri]
					if r.minHostVal == minVal {
						okMinArg[r.minArg] = true
						if r.minStr != "" {
							okMinStr["s:"+r.minStr] = true
						} else {
							okMinStr[fmt.Sprint("i:", r.minArg)] = true
						}
					}
					if r.maxHostVal == maxVal {
						okMaxArg[r.maxArg] = true
						if r.maxStr != "" {
							okMaxStr["s:"+r.maxStr] = true
						} else {
							okMaxStr[fmt.Sprint("i:", r.maxArg)] = true
						}
					}
				}
				strKey := func(a data_model.ArgMinMaxStringFloat32) string {
					if a.AsString != "" {
						return "s:" + a.AsString
					}
					return fmt.Sprint("i:", a.AsInt32)
				}
				exactUnion, thinned := unionSize(ms)
				var firstSize uint64
				var firstHow string
				reported := false
				var lexecs, lmerges int64
				for _, perm := range c04ApiPerms(ms) {
					for _, tr := range trees[n] {
						var infra error
						var eval func(t *c04ApiTree) tsValues
						eval = func(t *c04ApiTree) tsValues {
							if t.left == nil {
								v, err := c04ApiBuild(&rows[perm[t.leaf]], fam)
								if err != nil {
									infra = err
								}
								return v // struct copy, as promql.go takes it from the cache
							}
							l := eval(t.left)
							r := eval(t.right)
							l.merge(r)
							lmerges++
							return l
						}
						got := eval(tr)
						lexecs++
						if infra != nil {
							rep.Infra("ReadFrom failed on MarshallAppend output: " + infra.Error())
							return
						}
						how := tr.str(func(p int) string { return rows[perm[p]].name })
						bad := func(sig, msg string) {
							addViol(n, msName, "C04:api-"+sig, msg+" ["+how+"]", map[string]any{"rows": msName, "order": how})
						}
						if got.count != ref.count {
							bad("count-differs", fmt.Sprintf("count %v, rows add up to %v", got.count, ref.count))
						}
						if got.min != ref.min {
							bad("min-differs", fmt.Sprintf("min %v, rows' min is %v", got.min, ref.min))
						}
						if got.max != ref.max {
							bad("max-differs", fmt.Sprintf("max %v, rows' max is %v", got.max, ref.max))
						}
						if got.sum != ref.sum {
							bad("sum-differs", fmt.Sprintf("sum %v, rows add up to %v", got.sum, ref.sum))
						}
						if got.sumsquare != ref.sumsq {
							bad("sumsquare-differs", fmt.Sprintf("sumsquare %v, rows add up to %v", got.sumsquare, ref.sumsq))
						}
						if got.minHost.Val != minVal || !okMinArg[got.minHost.Arg] {
							bad("min-host-not-contributor", fmt.Sprintf("min host (%d,%v) is not a host of a row with the smallest value %v", got.minHost.Arg, got.minHost.Val, minVal))
						}
						if got.maxHost.Val != maxVal || !okMaxArg[got.maxHost.Arg] {
							bad("max-host-not-contributor", fmt.Sprintf("max host (%d,%v) is not a host of a row with the largest value %v", got.maxHost.Arg, got.maxHost.Val, maxVal))
						}
						if got.minHostStr.Val != minVal || !okMinStr[strKey(got.minHostStr.ArgMinMaxStringFloat32)] {
							bad("min-host-not-contributor", fmt.Sprintf("min host (%s,%v) is not a host of a row with the smallest value %v", strKey(got.minHostStr.ArgMinMaxStringFloat32), got.minHostStr.Val, minVal))
						}
						if got.maxHostStr.Val != maxVal || !okMaxStr[strKey(got.maxHostStr.ArgMinMaxStringFloat32)] {
							bad("max-host-not-contributor", fmt.Sprintf("max host (%s,%v) is not a host of a row with the largest value %v", strKey(got.maxHostStr.ArgMinMaxStringFloat32), got.maxHostStr.Val, maxVal))
						}
						size := got.unique.Size(false)
						if firstHow == "" {
							firstSize, firstHow = size, how
						} else if size != firstSize && !reported {
							reported = true
							if thinned {
								addViol(n, msName, "C04:unique-merge-order-dependent", fmt.Sprintf("API row merge: unique estimate of rows %s depends on merge order/grouping once a thinned sketch is involved: %s = %d but %s = %d", msName, firstHow, firstSize, how, size),
									map[string]any{"rows": msName, "order_a": firstHow, "estimate_a": firstSize, "order_b": how, "estimate_b": size})
							} else {
								addViol(n, msName, "C04:api-unique-exact-merge-order-dependent", fmt.Sprintf("API row merge: unique count of rows %s (exact mode) depends on merge order/grouping: %s = %d but %s = %d", msName, firstHow, firstSize, how, size),
									map[string]any{"rows": msName, "order_a": firstHow, "estimate_a": firstSize, "order_b": how, "estimate_b": size})
							}
						}
						if !thinned && size != uint64(exactUnion) {
							bad("unique-small-union-wrong", fmt.Sprintf("unique count %d, the rows hold %d distinct values", size, exactUnion))
						}
						rep.State(fmt.Sprintf("a|%v|%v|%v|%v|%v|%d|%d|%s", got.count, got.min, got.max, got.sum, got.sumsquare, size, got.minHost.Arg, strKey(got.maxHostStr.ArgMinMaxStringFloat32)))
					}
				}
				rep.Outcome(fmt.Sprintf("a|%s|%d", msName, firstSize))
				mu.Lock()
				execs += lexecs
				merges += lmerges
				if n >= 2 {
					nontrivial += lexecs
				}
				mu.Unlock()
			}
		}()
	}
	wg.Wait()
	sort.SliceStable(pend, func(i, j int) bool {
		if pend[i].n != pend[j].n {
			return pend[i].n < pend[j].n
		}
		if pend[i].ms != pend[j].ms {
			return pend[i].ms < pend[j].ms
		}
		return pend[i].sig < pend[j].sig
	})
	for _, v := range pend {
		rep.Violate(v.sig, v.desc, v.detail)
	}
	if capped.Load() {
		rep.Cap("api:wall_budget")
	}
	rep.AddCounts(execs, merges, 0, nontrivial)
	rep.Parts["api-tsValues"] = map[string]any{"executions": execs, "merges": merges, "multisets": len(multisets), "exhaustive": !capped.Load()}
	rep.Sample(map[string]any{"part": "api-tsValues", "rows": func() []string {
		var ns []string
		for _, r := range rows {
			ns = append(ns, r.name)
		}
		return ns
	}()})
	c04ApiCachedPart(t, rep)
	if err := rep.Write(); err != nil {
		t.Fatal(err)
	}
	t.Logf("C04 api part: multisets=%d executions=%d merges=%d violations=%d", len(multisets), execs, merges, rep.NumViolations())
}
