//go:build verif

package api

// C22 (internal/api part): calcUTCOffset, the API copy of roundTime, shiftTimestamp, and the
// path the handlers take: calcUTCOffset -> data_model.GetLODs -> per-level ranges (as
// handleGetTable re-maps them with shiftTimestamp). The big boundary grid over
// GetTimescale lives in internal/data_model (TestVerifC22); the offsets it feeds in are the
// values proven here to be what calcUTCOffset returns.

import (
	"fmt"
	"sort"
	"testing"
	"time"

	"github.com/VKCOM/statshouse/internal/data_model"
	"github.com/VKCOM/statshouse/internal/format"
	"github.com/VKCOM/statshouse/internal/verif/mc"
)

const (
	c22Day   = int64(86400)
	c22Week  = 7 * c22Day
	c22Month = 31 * c22Day
)

var c22Steps = []int64{1, 5, 15, 60, 300, 900, 3600, 4 * 3600, c22Day, c22Week, c22Month}

func c22FloorMod(a, b int64) int64 {
	m := a % b
	if m < 0 {
		m += b
	}
	return m
}

type c22Zone struct {
	name string
	loc  *time.Location
	std  int64
	dst  []int64
}

func c22LoadZone(name string) (*c22Zone, error) {
	loc, err := time.LoadLocation(name)
	if err != nil {
		return nil, err
	}
	z := &c22Zone{name: name, loc: loc}
	_, o1 := time.Date(2024, 1, 15, 12, 0, 0, 0, time.UTC).In(loc).Zone()
	_, o2 := time.Date(2024, 7, 15, 12, 0, 0, 0, time.UTC).In(loc).Zone()
	z.std = int64(o1)
	if int64(o2) < z.std {
		z.std = int64(o2)
	}
	off := func(t int64) int {
		_, o := time.Unix(t, 0).In(loc).Zone()
		return o
	}
	from := time.Date(2024, 1, 1, 0, 0, 0, 0, time.UTC).Unix()
	to := time.Date(2025, 1, 1, 0, 0, 0, 0, time.UTC).Unix()
	for t := from; t < to; t += 3600 {
		if off(t) != off(t+3600) {
			lo, hi := t, t+3600
			for hi-lo > 1 {
				mid := (lo + hi) / 2
				if off(mid) == off(lo) {
					lo = mid
				} else {
					hi = mid
				}
			}
			z.dst = append(z.dst, hi)
		}
	}
	return z, nil
}

func c22Month0(t int64, z *c22Zone) int {
	tt := time.Unix(t, 0).In(z.loc)
	return tt.Year()*12 + int(tt.Month()) - 1
}

// alignment in the zone's local standard time (weeks begin on ws), months = first instant of
// a calendar month of the location
func c22Aligned(t, step int64, z *c22Zone, ws int) bool {
	if step == c22Month {
		return c22Month0(t-1, z) != c22Month0(t, z)
	}
	l := t + z.std
	if step == c22Week {
		if c22FloorMod(l, c22Day) != 0 {
			return false
		}
		d := (l - c22FloorMod(l, c22Day)) / c22Day
		return c22FloorMod(4+d, 7) == int64(ws)
	}
	return c22FloorMod(l, step) == 0
}

func c22Next(t, step int64, z *c22Zone) int64 {
	if step != c22Month {
		return t + step
	}
	tt := time.Unix(t, 0).In(z.loc)
	return time.Date(tt.Year(), tt.Month()+1, 1, 0, 0, 0, 0, z.loc).Unix()
}

func c22Anchors(z *c22Zone) []int64 {
	stdMid := func(y int, m time.Month, d int) int64 {
		return time.Date(y, m, d, 0, 0, 0, 0, time.UTC).Unix() - z.std
	}
	loc := func(y int, m time.Month, d int) int64 { return time.Date(y, m, d, 0, 0, 0, 0, z.loc).Unix() }
	a := []int64{stdMid(2024, 6, 12), stdMid(2024, 6, 10), stdMid(2024, 6, 9), loc(2024, 6, 12), loc(2024, 1, 10),
		loc(2024, 3, 1), loc(2024, 5, 1), loc(2025, 1, 1), 0, 1<<31 - 1}
	a = append(a, z.dst...)
	sort.Slice(a, func(i, j int) bool { return a[i] < a[j] })
	return a
}

func TestVerifC22Api(t *testing.T) {
	rep := mc.NewReport("C22")
	rep.Rule = "internal/api part: calcUTCOffset for 5 zones x 7 week starts against the zone's standard offset and the weekday rule; roundTime on boundary timestamps (incl. negative) x table steps x those offsets; shiftTimestamp on month starts x +-25 months and on all boundary timestamps with shift 0 and second shifts; handler path calcUTCOffset -> data_model.GetLODs -> shiftTimestamp(.,0) on anchor pairs x steps x now"
	zoneNames := []string{"UTC", "Europe/Moscow", "America/New_York", "Asia/Kolkata", "Pacific/Chatham"}
	var execs, nontrivial int64
	viol := func(sig, msg string) { rep.Violate("C22:"+sig, msg, nil) }
	for _, zn := range zoneNames {
		z, err := c22LoadZone(zn)
		if err != nil {
			t.Fatal(err)
		}
		anchors := c22Anchors(z)
		for ws := 0; ws < 7; ws++ {
			utc := calcUTCOffset(z.loc, time.Weekday(ws))
			execs++
			if want := z.std + int64(4-ws)*c22Day; utc != want {
				viol("utc-offset", fmt.Sprintf("calcUTCOffset(%s, week start %d) = %d, want standard offset %d + %d days = %d", zn, ws, utc, z.std, 4-ws, want))
			}
			rep.Outcome(fmt.Sprintf("utc %s %d %d", zn, ws, utc))
			// --- roundTime with that offset: the aligned point at or before t
			for _, st := range c22Steps[:len(c22Steps)-1] {
				for _, a := range anchors {
					for _, d := range []int64{-st, -1, 0, 1, st - 1, st, -5 * c22Week, 5*c22Week + 17} {
						tm := a + d
						r := roundTime(tm, st, utc)
						execs++
						if r != tm {
							nontrivial++
						}
						if !(r <= tm && tm < r+st) || !c22Aligned(r, st, z, ws) {
							viol("round-down", fmt.Sprintf("roundTime(%d, %d, %d) = %d is not the point at or before t aligned in %s standard time, week start %d", tm, st, utc, r, zn, ws))
						}
						// shifting by seconds is plain addition, by zero is the identity
						for _, sh := range []int64{0, st, -st} {
							execs++
							if got := shiftTimestamp(tm, st, sh, z.loc); got != tm+sh {
								viol("shift-seconds", fmt.Sprintf("shiftTimestamp(%d, step %d, shift %d) = %d", tm, st, sh, got))
							}
						}
					}
				}
			}
			// --- the handler path
			steps := append([]int64{0, 7}, c22Steps...)
			m := &format.MetricMetaValue{Resolution: 1}
			var pts []int64
			for _, a := range anchors[1 : len(anchors)-1] { // 2024 anchors
				pts = append(pts, a-1, a, a+3600)
			}
			for x := 0; x < len(pts); x++ {
				for y := x + 1; y < len(pts); y++ {
					s, e := pts[x], pts[y]
					if s >= e {
						continue
					}
					for _, st := range steps {
						for _, now := range []int64{e, e + 33*c22Day, s + 52*3600 - 1} {
							for _, w := range []int64{0, 100} {
								execs++
								lods, err := data_model.GetLODs(data_model.GetTimescaleArgs{
									Start: s, End: e, Step: st, ScreenWidth: w, TimeNow: now, Metric: m, Location: z.loc, UTCOffset: utc,
								})
								if err != nil {
									rep.Outcome("err")
									continue // judged by the data_model run (signature there)
								}
								if len(lods) == 0 {
									viol("handler-path-empty", fmt.Sprintf("GetLODs returned nothing for [%d,%d) step %d now %d in %s", s, e, st, now, zn))
									continue
								}
								if len(lods) > 1 {
									nontrivial++
								}
								key := ""
								for i, l := range lods {
									key += fmt.Sprintf("%d*%d ", (l.ToSec-l.FromSec)/l.StepSec, l.StepSec)
									if i > 0 && l.FromSec != lods[i-1].ToSec {
										viol("lod-ranges-not-contiguous", fmt.Sprintf("range %d of %v", i, lods))
									}
									if !c22Aligned(l.FromSec, l.StepSec, z, ws) || !c22Aligned(l.ToSec, l.StepSec, z, ws) || l.FromSec >= l.ToSec {
										viol("lod-range-misaligned", fmt.Sprintf("range [%d,%d) step %d not aligned in %s, week start %d (query [%d,%d) step %d now %d)", l.FromSec, l.ToSec, l.StepSec, zn, ws, s, e, st, now))
									}
									// handleGetTable re-maps the bounds with a zero shift: must not move them
									if f, t2 := shiftTimestamp(l.FromSec, l.StepSec, 0, l.Location), shiftTimestamp(l.ToSec, l.StepSec, 0, l.Location); f != l.FromSec || t2 != l.ToSec {
										viol("zero-shift-moves-bound", fmt.Sprintf("shiftTimestamp(.,%d,0) maps [%d,%d) to [%d,%d) in %s", l.StepSec, l.FromSec, l.ToSec, f, t2, zn))
									}
								}
								if lods[0].FromSec > s || lods[len(lods)-1].ToSec < e {
									viol("range-not-covered", fmt.Sprintf("ranges %d..%d do not cover [%d,%d) step %d now %d in %s", lods[0].FromSec, lods[len(lods)-1].ToSec, s, e, st, now, zn))
								}
								rep.Outcome(key)
							}
						}
					}
				}
			}
		}
		// --- month shifts: from the first instant of a month to the first instant k months away
		for y := 2023; y <= 2025; y++ {
			for mo := 1; mo <= 12; mo++ {
				base := time.Date(y, time.Month(mo), 1, 0, 0, 0, 0, z.loc).Unix()
				for k := -25; k <= 25; k++ {
					execs++
					nontrivial++
					got := shiftTimestamp(base, c22Month, int64(k)*c22Month, z.loc)
					want := time.Date(y, time.Month(mo+k), 1, 0, 0, 0, 0, z.loc).Unix()
					if got != want || !c22Aligned(got, c22Month, z, 1) {
						viol("shift-months", fmt.Sprintf("shiftTimestamp(%d, month, %d months) = %d, want %d in %s", base, k, got, want, zn))
					}
					if back := shiftTimestamp(got, c22Month, -int64(k)*c22Month, z.loc); back != base {
						viol("shift-months", fmt.Sprintf("shifting %d by %d months and back gives %d in %s", base, k, back, zn))
					}
				}
			}
		}
	}
	rep.Sample(map[string]any{"zone": "Pacific/Chatham", "week_start": 1, "utc_offset": calcUTCOffset(func() *time.Location { l, _ := time.LoadLocation("Pacific/Chatham"); return l }(), time.Monday)})
	rep.Bounds["api_checks"] = execs
	rep.AddCounts(execs, execs, execs, nontrivial)
	if err := rep.Write(); err != nil {
		t.Fatal(err)
	}
	t.Logf("C22 api: checks=%d violations=%d", execs, rep.NumViolations())
}
