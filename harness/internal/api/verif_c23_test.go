//go:build verif

package api

// C23: the API series cache returns correctly placed, fresh data under concurrency.
//
// Real cache2 (tscache2*.go instrumented by tools/vinstr: modelled mutexes/conds/waitgroup,
// virtual time, controlled goroutines incl. the code's own trim/loadChunks/wait goroutines,
// scheduler-owned selects) driven by 2-3 controlled request threads plus an invalidator /
// limit setter / resetter. mc.Explore enumerates every execution with at most B deviations
// from the default schedule (delay bounding) for every scenario of a small family.

import (
	"context"
	"fmt"
	"os"
	"strings"
	"sync"
	"testing"
	"time"

	"github.com/VKCOM/statshouse/internal/data_model"
	"github.com/VKCOM/statshouse/internal/verif/mc"
	"github.com/VKCOM/statshouse/internal/verif/vsched"
	"github.com/VKCOM/statshouse/internal/verif/vsync"
	"github.com/VKCOM/statshouse/internal/verif/vtime"
)

const (
	c23Get = iota
	c23Inv
	c23Limits
	c23Reset
	c23LimitsFrac // setLimits so that evicting ONE bucket suffices: maxSize = current size * 9/10 (soft = 80% of it)
)

type c23Op struct {
	kind     int
	key      int     // query key
	from, to int64   // offsets from base, seconds
	times    []int64 // invalidated seconds (offsets)
	maxSize  int
	force    bool
	play     bool // play-mode request (q.play = 1): may be served stale rows, never judged for freshness
}

type c23Scenario struct {
	slowLoad bool    // every storage read takes 10 ms of virtual time: other requests arrive while a load is in flight
	setup    []c23Op // executed sequentially by the main thread before the concurrent threads start
	name     string
	threads  [][]c23Op
	fails    bool // loader failures are explorer choices
}

func c23Scenarios(thorough bool) []c23Scenario {
	G := func(key int, from, to int64) c23Op { return c23Op{kind: c23Get, key: key, from: from, to: to} }
	I := func(ts ...int64) c23Op { return c23Op{kind: c23Inv, times: ts} }
	L := func(n int) c23Op { return c23Op{kind: c23Limits, maxSize: n} }
	GP := func(key int, from, to int64) c23Op {
		return c23Op{kind: c23Get, key: key, from: from, to: to, play: true}
	}
	R := c23Op{kind: c23Reset}
	LF := c23Op{kind: c23LimitsFrac}
	T := func(ops ...c23Op) []c23Op { return ops }
	out := []c23Scenario{
		{name: "whole chunk vs second half (awaiter offset)", threads: [][]c23Op{T(G(0, 0, 60)), T(G(0, 30, 60))}},
		{name: "second chunk vs one and a half chunks (awaiter offset in a later chunk)", threads: [][]c23Op{T(G(0, 60, 120)), T(G(0, 30, 120))}},
		{name: "one chunk vs two chunks", threads: [][]c23Op{T(G(0, 0, 60)), T(G(0, 0, 120))}},
		{name: "get get vs invalidate", threads: [][]c23Op{T(G(0, 0, 60), G(0, 0, 60)), T(I(10))}},
		{name: "two gets and invalidate", threads: [][]c23Op{T(G(0, 0, 60)), T(G(0, 30, 60)), T(I(40))}},
		{name: "invalidate then get vs get", threads: [][]c23Op{T(G(0, 0, 60), G(0, 20, 50)), T(I(10, 70), G(0, 0, 120))}},
		{name: "two keys and reset", threads: [][]c23Op{T(G(0, 0, 60), G(0, 30, 60)), T(G(1, 0, 60)), T(R)}},
		// three buckets A,B,C in list order, B least recently used; an invalidation pass racing with the
		// eviction of the bucket it would visit next, then a request for the last bucket
		{name: "invalidate pass vs eviction of the next bucket", setup: T(G(0, 0, 60), G(1, 0, 60), G(2, 0, 60), G(0, 0, 60), G(2, 0, 60)),
			threads: [][]c23Op{T(I(10), G(2, 0, 60)), T(LF)}},
		{name: "tiny limits then unlimited", threads: [][]c23Op{T(G(0, 0, 60), G(0, 0, 60)), T(L(1), L(0))}},
		// a cached chunk is invalidated, its reload fails (explorer choice), and it is requested again: the
		// failed reload must not make the old rows look fresh
		{name: "invalidate, failed reload, get again", fails: true, setup: T(G(0, 0, 60)), threads: [][]c23Op{T(I(5), G(0, 0, 60), G(0, 0, 60)), T(G(0, 30, 60))}},
		// play-mode and ordinary requests share a bucket: what the play request may accept (rows up to one
		// second stale) must not leak to an ordinary request that meets its reload in flight
		{name: "play request reloads after invalidate, ordinary get meets it", setup: T(G(0, 0, 60)), threads: [][]c23Op{T(I(5), GP(0, 0, 60)), T(G(0, 0, 60))}},
		// a slow multi-chunk load that fails while other requests await different chunks of it: every awaiter must
		// be told (a request that stops listening after the first error must not strand the others)
		{name: "slow three-chunk load fails, awaiters on its chunks", fails: true, slowLoad: true, threads: [][]c23Op{T(G(0, 0, 180)), T(G(0, 0, 120)), T(G(0, 120, 180))}},
		{name: "loader failures", fails: true, threads: [][]c23Op{T(G(0, 0, 60), G(0, 0, 60)), T(G(0, 30, 60))}},
	}
	if thorough {
		out = append(out,
			c23Scenario{name: "three getters two chunks invalidate", threads: [][]c23Op{T(G(0, 0, 120)), T(G(0, 30, 60), G(0, 0, 60)), T(I(40, 100))}},
			c23Scenario{name: "limits while loading, two keys", threads: [][]c23Op{T(G(0, 0, 60), G(1, 0, 60)), T(G(1, 30, 90)), T(L(1), L(0))}},
			c23Scenario{name: "failures with invalidate", fails: true, threads: [][]c23Op{T(G(0, 0, 60), G(0, 0, 60)), T(I(5), G(0, 30, 60))}},
			c23Scenario{name: "reset vs awaiters", threads: [][]c23Op{T(G(0, 0, 60)), T(G(0, 30, 60)), T(R, G(0, 0, 60))}},
		)
	}
	return out
}

type c23World struct {
	// published[key][second] = (load id, version) of the rows the cache held for that second when an invalidation of
	// it completed: that load had certainly finished before the invalidation completed
	published map[string]map[int64][2]int
	base      int64
	version   map[int64]int // storage version per second
	invDone   map[int64]int // version whose invalidation completed
	loads     int
}

func c23Run(x *mc.Exec, sc c23Scenario, rep *mc.Report) mc.Verdict {
	w := &c23World{version: map[int64]int{}, invDone: map[int64]int{}, published: map[string]map[int64][2]int{}}
	var viol, sig string
	fail := func(s, m string) {
		if viol == "" {
			sig, viol = s, m
		}
	}
	var log []string
	var cache *cache2
	finished := false
	res := vsched.Run(x, vsched.Config{Horizon: time.Hour, MaxSteps: 200000}, func() {
		epochSec := vtime.Now().Unix()
		w.base = ((epochSec - 7200) / 120) * 120
		h := &requestHandler{Handler: &Handler{HandlerOptions: HandlerOptions{location: time.UTC}}}
		loader := func(_ context.Context, _ *requestHandler, q *queryBuilder, lod data_model.LOD, ret [][]tsSelectRow, _ int) (int, error) {
			if sc.slowLoad {
				vtime.Sleep(10 * time.Millisecond)
			}
			vsched.Point("storage read")
			w.loads++
			id := w.loads
			if sc.fails && x.Choose(2, "load fails") == 1 {
				return 0, fmt.Errorf("injected load failure")
			}
			key := 0
			switch q.cacheKey {
			case "K1":
				key = 1
			case "K2":
				key = 2
			}
			for i := range ret {
				t := lod.FromSec + int64(i)*lod.StepSec
				var row tsSelectRow
				row.time = t
				row.tag[0] = int64(key)
				row.tag[1] = int64(w.version[t])
				row.tag[2] = int64(id)
				ret[i] = []tsSelectRow{row}
			}
			return len(ret), nil
		}
		c := newCache2(h.Handler, 0, loader)
		cache = c
		// a single shard keeps map iteration (reset/trim walk all shards) deterministic
		for step := range c.shards {
			if step != time.Second {
				delete(c.shards, step)
			}
		}
		shard := c.shards[time.Second]
		qs := []*queryBuilder{{cacheKey: "K0"}, {cacheKey: "K1"}, {cacheKey: "K2"}}
		qsPlay := []*queryBuilder{{cacheKey: "K0", play: 1}, {cacheKey: "K1", play: 1}, {cacheKey: "K2", play: 1}} // the cache key has no play field: same bucket
		var wg vsync.WaitGroup
		runOp := func(name string, op c23Op) {
			for once := true; once; once = false {
				switch op.kind {
				case c23Get:
					from, to := w.base+op.from, w.base+op.to
					// freshness requirement sampled when the request begins: for every slot whose
					// chunk has no load in flight, all invalidations completed so far must be visible
					need := map[int64]int{}
					for t := from; t < to; t++ {
						if w.invDone[t] == 0 {
							continue
						}
						inflight := false
						if b := shard.bucketM[qs[op.key].cacheKey]; b != nil {
							for _, ch := range b.chunks {
								if ch.start <= t*int64(time.Second) && t*int64(time.Second) < ch.end && ch.loading != 0 {
									inflight = true
								}
							}
						}
						if !inflight {
							need[t] = w.invDone[t]
						}
					}
					// ... and, also when a load is in flight: the rows the cache held when an invalidation completed
					// come from a load that had finished before it; a request beginning afterwards must not get them
					needPub := map[int64][2]int{}
					for t, v := range w.published[qs[op.key].cacheKey] {
						if t >= from && t < to {
							needPub[t] = v
						}
					}
					lod := data_model.LOD{Version: Version6, StepSec: 1, FromSec: from, ToSec: to, Location: time.UTC}
					q := qs[op.key]
					if op.play {
						q = qsPlay[op.key]
					}
					data, err := c.Get(context.Background(), h, q, lod, op.force)
					if err != nil {
						if !sc.fails {
							fail("C23:get-failed-without-loader-failure", fmt.Sprintf("%s Get(%d..%d) failed: %v", name, op.from, op.to, err))
						}
						log = append(log, name+":get-err")
						continue
					}
					if len(data) != int(to-from) {
						fail("C23:wrong-length", fmt.Sprintf("%s Get(%d..%d) returned %d slots", name, op.from, op.to, len(data)))
						continue
					}
					var srcs []string
					for i := range data {
						t := from + int64(i)
						if len(data[i]) != 1 {
							fail("C23:slot-row-count", fmt.Sprintf("%s Get(key %d, %d..%d): slot %d (second %d) holds %d rows, storage produced exactly 1", name, op.key, op.from, op.to, i, t-w.base, len(data[i])))
							break
						}
						r := data[i][0]
						if r.time != t || r.tag[0] != int64(op.key) {
							fail("C23:misplaced-row", fmt.Sprintf("%s Get(key %d, %d..%d): slot %d holds the row of second %d key %d", name, op.key, op.from, op.to, i, r.time-w.base, r.tag[0]))
							break
						}
						if n, ok := needPub[t]; ok && !op.play && int(r.tag[2]) == n[0] && int(r.tag[1]) < n[1] {
							fail("C23:stale-after-invalidation", fmt.Sprintf("%s Get(key %d, %d..%d): second %d comes from load #%d (version %d), the very rows the cache held when the invalidation of version %d completed, and the request began after that", name, op.key, op.from, op.to, t-w.base, r.tag[2], r.tag[1], n[1]))
							break
						}
						if v, ok := need[t]; ok && !op.play && int(r.tag[1]) < v {
							fail("C23:stale-after-invalidation", fmt.Sprintf("%s Get(key %d, %d..%d): second %d has version %d from load #%d although the invalidation of version %d completed before the request began and no load was in flight", name, op.key, op.from, op.to, t-w.base, r.tag[1], r.tag[2], v))
							break
						}
						if i == 0 || data[i-1][0].tag[2] != r.tag[2] {
							srcs = append(srcs, fmt.Sprintf("L%d", r.tag[2]))
						}
					}
					log = append(log, fmt.Sprintf("%s:get(%d,%d..%d)<-%s", name, op.key, op.from, op.to, strings.Join(srcs, "+")))
				case c23Inv:
					var ts []int64
					for _, o := range op.times {
						w.version[w.base+o]++ // storage changes first ...
						ts = append(ts, w.base+o)
					}
					c.invalidate(ts, 1) // ... then the cache is told
					for _, o := range op.times {
						t := w.base + o
						w.invDone[t] = w.version[t]
						for key, b := range shard.bucketM {
							if b == nil {
								continue
							}
							for _, ch := range b.chunks {
								if ch.start <= t*int64(time.Second) && t*int64(time.Second) < ch.end && ch.data != nil {
									idx := int((t*int64(time.Second) - ch.start) / int64(time.Second))
									if idx < len(ch.data) && len(ch.data[idx]) == 1 && int(ch.data[idx][0].tag[1]) < w.version[t] {
										if w.published[key] == nil {
											w.published[key] = map[int64][2]int{}
										}
										w.published[key][t] = [2]int{int(ch.data[idx][0].tag[2]), w.version[t]}
									}
								}
							}
						}
					}
					log = append(log, name+":inv")
				case c23Limits:
					c.setLimits(cache2Limits{maxSize: op.maxSize})
					log = append(log, fmt.Sprintf("%s:limits(%d)", name, op.maxSize))
				case c23Reset:
					c.reset()
					log = append(log, name+":reset")
				case c23LimitsFrac:
					ri := c.runtimeInfo()
					sz := ri.size()
					c.setLimits(cache2Limits{maxSize: sz * 9 / 10})
					log = append(log, name+":limits(90%)")
				}

			}
		}
		for _, op := range sc.setup {
			runOp("setup", op)
		}
		for ti, prog := range sc.threads {
			name := fmt.Sprintf("T%d", ti)
			prog := prog
			wg.Add(1)
			vsched.GoNamed(name, false, func() {
				defer wg.Done()
				for _, op := range prog {
					vsched.Point("op")
					runOp(name, op)
				}
			})
		}
		wg.Wait()
		vtime.Sleep(time.Second) // background loads (if any) complete: they are runnable, time only moves when all block
		c.reset()
		info := c.runtimeInfo()
		if info.sizeS != [2]int{} || info.chunkCountS != [2]int{} || info.bucketCountS != [2]int{} || info.chunkSizeS != [2]int{} {
			sum := func(a [2]int) int { return a[0] + a[1] }
			if sum(info.sizeS) == 0 && sum(info.chunkCountS) == 0 && sum(info.bucketCountS) == 0 && sum(info.chunkSizeS) == 0 {
				// nothing leaked, but what was accounted to one play mode was released from the other: a bucket
				// changes its mode when a play and an ordinary request share it, its accounted totals do not move
				fail("C23:accounting-per-play-mode-not-zero-after-reset", fmt.Sprintf("after reset the per-mode figures [ordinary play] are size=%v chunkCount=%v bucketCount=%v chunkSize=%v (their sums are zero)", info.sizeS, info.chunkCountS, info.bucketCountS, info.chunkSizeS))
			} else {
				fail("C23:accounting-not-zero-after-reset", fmt.Sprintf("after reset: size=%v chunkCount=%v bucketCount=%v chunkSize=%v", info.sizeS, info.chunkCountS, info.bucketCountS, info.chunkSizeS))
			}
		}
		c.shutdown().Wait()
		finished = true
	})
	if res.Panic != nil {
		return mc.Verdict{Violation: fmt.Sprintf("%s: panic in code under test: %v", sc.name, res.Panic), Sig: "C23:panic", Detail: res.PanicStack}
	}
	if viol != "" {
		return mc.Verdict{Violation: sc.name + ": " + viol, Sig: sig, Detail: map[string]any{"scenario": sc.name, "log": log}}
	}
	if res.Deadlock || res.StepCap || res.Horizon || !finished {
		return mc.Verdict{Violation: fmt.Sprintf("%s: a request waits forever (%+v); log %v", sc.name, res, log), Sig: "C23:request-waits-forever", Detail: map[string]any{"scenario": sc.name, "blocked": res.Blocked}}
	}
	if res.Leaked > 0 && !vsched.NoteLeak(res.Leaked) {
		panic(c23Infra(fmt.Sprintf("too many leaked goroutines (%d more in scenario %s)", res.Leaked, sc.name)))
	}
	_ = cache
	key := sc.name + "|" + strings.Join(log, ",")
	rep.State(key)
	rep.Outcome(key)
	if w.loads > 1 || x.Deviations() > 0 {
		rep.Nontrivial(key)
	}
	if x.Deviations() > 0 {
		rep.Sample(map[string]any{"scenario": sc.name, "choices": append([]int{}, x.Choices...), "observed": log})
	}
	return mc.Verdict{}
}

type c23Infra string

func (c c23Infra) MCInfra() string { return string(c) }

func c23FreeRun(rep *mc.Report) {
	n := 0
	for _, sc := range c23Scenarios(true) {
		for it := 0; it < 30; it++ {
			h := &requestHandler{Handler: &Handler{HandlerOptions: HandlerOptions{location: time.UTC}}}
			var mu sync.Mutex
			ver := map[int64]int{}
			loader := func(_ context.Context, _ *requestHandler, q *queryBuilder, lod data_model.LOD, ret [][]tsSelectRow, _ int) (int, error) {
				mu.Lock()
				defer mu.Unlock()
				for i := range ret {
					var row tsSelectRow
					row.time = lod.FromSec + int64(i)*lod.StepSec
					row.tag[1] = int64(ver[row.time])
					ret[i] = []tsSelectRow{row}
				}
				return len(ret), nil
			}
			c := newCache2(h.Handler, 0, loader)
			base := ((time.Now().Unix() - 7200) / 120) * 120
			qs := []*queryBuilder{{cacheKey: "K0"}, {cacheKey: "K1"}, {cacheKey: "K2"}}
			var wg sync.WaitGroup
			progs := append([][]c23Op{}, sc.threads...)
			if len(sc.setup) > 0 { // the setup phase runs before the concurrent threads start
				progs = append([][]c23Op{sc.setup}, progs...)
			}
			for pi, prog := range progs {
				prog := prog
				wg.Add(1)
				run := func() {
					defer wg.Done()
					for _, op := range prog {
						switch op.kind {
						case c23LimitsFrac:
							ri := c.runtimeInfo()
							c.setLimits(cache2Limits{maxSize: ri.size() * 9 / 10})
						case c23Get:
							lod := data_model.LOD{Version: Version6, StepSec: 1, FromSec: base + op.from, ToSec: base + op.to, Location: time.UTC}
							_, _ = c.Get(context.Background(), h, qs[op.key], lod, false)
						case c23Inv:
							var ts []int64
							mu.Lock()
							for _, o := range op.times {
								ver[base+o]++
								ts = append(ts, base+o)
							}
							mu.Unlock()
							c.invalidate(ts, 1)
						case c23Limits:
							c.setLimits(cache2Limits{maxSize: op.maxSize})
						case c23Reset:
							c.reset()
						}
					}
				}
				if pi == 0 && len(sc.setup) > 0 {
					run()
				} else {
					go run()
				}
			}
			wg.Wait()
			c.reset()
			c.shutdown().Wait()
			n++
		}
	}
	rep.AddCounts(int64(n), int64(n), 1, 0)
	rep.Rule = "free-running -race companion"
	rep.Sample("every C23 scenario x30 with real goroutines")
}

func TestVerifC23(t *testing.T) {
	rep := mc.NewReport("C23")
	if os.Getenv("VERIF_FREERUN") == "1" {
		c23FreeRun(rep)
		rep.Write()
		return
	}
	scs := c23Scenarios(mc.Thorough())
	bound := mc.Pick(2, 3)
	rep.Bounds["deviation_bound"] = bound
	rep.Bounds["scenarios"] = len(scs)
	rep.Rule = "every execution with at most B deviations from the deterministic default schedule (delay bounding over all threads incl. the cache's own loader, waiter and trim goroutines; injected loader failure) of every scenario of a family (2-3 request threads over whole chunk / second half / two chunks / two keys, invalidator that changes storage then invalidates, setLimits(tiny), reset), 60-slot chunks at 1 s step, virtual time. Non-trivial = execution with more than one storage load or at least one deviation"
	shard, shards := mc.ShardFromEnv()
	body := func(x *mc.Exec) mc.Verdict {
		si := x.ChooseFree(len(scs), "scenario")
		return c23Run(x, scs[si], rep)
	}
	st := mc.Explore(body, mc.Options{Bound: bound, Workers: 1, SplitDepth: 4, Shard: shard, Shards: shards})
	rep.MergeExplore("cache2", st)
	if err := rep.Write(); err != nil {
		t.Fatal(err)
	}
	t.Logf("C23: %+v", st)
}
