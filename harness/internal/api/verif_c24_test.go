//go:build verif

package api

// C24: the API points cache never serves rows older than an invalidation.
//
// State-hashing BFS over histories of get / invalidate / clock operations on the real
// pointsCache (real invalidatedSecondsCache inside) with an injected clock and a loader
// that stamps every load. The oracle is a reference model of the statement that keeps, per
// load stamp, the moment the load started, and per second the latest invalidation time; it
// never looks at the cache's own loadedAtNano or at its hierarchical invalidation maps.

import (
	"context"
	"fmt"
	"sort"
	"strings"
	"testing"
	"time"

	"github.com/VKCOM/statshouse/internal/data_model"
	"github.com/VKCOM/statshouse/internal/verif/mc"
)

const (
	c24Sec    = int64(time.Second)
	c24Linger = int64(invalidateLinger)
	c24Window = int64(-invalidateFrom) // length of the mutable window
)

type c24Range struct{ from, to int64 }

type c24Op struct {
	kind   byte // 'g' get, 'i' invalidate, 'c' clock
	key    int
	rng    int
	avoid  bool
	slow   bool // the load takes 16s; 1ns after it started second slowSec is invalidated
	fail   bool // the loader returns an error
	secs   []int
	adv    int64
	legend string
}

type c24Config struct {
	name      string
	utcOffset int64
	base      int64 // an hour boundary (in the configured offset)
	now0      int64 // ns
	maxSize   int
	tick      bool // the clock advances 1ns on every reading (no LRU ties -> eviction is deterministic)
	keys      int
	ranges    []c24Range
	secs      []int64
	rows      []int // rows returned per range
	ops       []c24Op
	noEvict   bool // maxSize is so large that nothing is ever evicted: "was cached" is known exactly
}

type c24Load struct {
	started  int64
	key, rng int
}

type c24Ref struct {
	loads  map[int]c24Load // stamp -> load
	inv    map[int64]int64 // second -> latest invalidation time (ns)
	stored map[[2]int]bool // (key, range) has been stored by a successful caching get
	next   int
}

type c24World struct {
	cfg   *c24Config
	clock int64
	c     *pointsCache
	h     *requestHandler
	ref   c24Ref
	// per-get scratch
	loaderCalls int
	curSlow     bool
	curFail     bool
	curKey      int
	curRng      int
}

func (w *c24World) now() time.Time {
	t := time.Unix(0, w.clock)
	if w.cfg.tick {
		w.clock++
	}
	return t
}

func (w *c24World) invalidate(secs []int64) {
	// the invalidation time the cache will record is its next clock reading
	at := w.clock
	w.c.invalidate(secs)
	for _, s := range secs {
		if old, ok := w.ref.inv[s]; !ok || at > old {
			w.ref.inv[s] = at
		}
	}
}

func (w *c24World) loader(_ context.Context, _ *requestHandler, _ *queryBuilder, lod data_model.LOD) ([]pSelectRow, error) {
	w.loaderCalls++
	// the load started when the cache took its time stamp: the clock reading just before this call
	started := w.clock
	if w.cfg.tick {
		started = w.clock - 1
	}
	stamp := w.ref.next
	w.ref.next++
	w.ref.loads[stamp] = c24Load{started: started, key: w.curKey, rng: w.curRng}
	if w.curSlow {
		w.clock++
		w.invalidate([]int64{w.cfg.secs[0]})
		w.clock += 16 * c24Sec
	}
	if w.curFail {
		return nil, fmt.Errorf("load failed")
	}
	n := w.cfg.rows[w.curRng]
	rows := make([]pSelectRow, n)
	for i := range rows {
		rows[i].count = float64(stamp)
		rows[i].min = float64(lod.FromSec)
		rows[i].max = float64(lod.ToSec)
		rows[i].sum = float64(w.curKey)
	}
	return rows, nil
}

func c24NewWorld(cfg *c24Config) *c24World {
	w := &c24World{cfg: cfg, clock: cfg.now0}
	w.ref = c24Ref{loads: map[int]c24Load{}, inv: map[int64]int64{}, stored: map[[2]int]bool{}, next: 1}
	w.c = newPointsCache(cfg.maxSize, cfg.utcOffset, w.loader, w.now)
	w.h = &requestHandler{Handler: &Handler{}}
	return w
}

func c24V(sig, msg string, detail any) mc.Verdict {
	return mc.Verdict{Violation: msg, Sig: "C24:" + sig, Detail: detail}
}

// apply performs one operation on the real cache and judges it against the reference.
func (w *c24World) apply(op c24Op) (v mc.Verdict, conflict bool) {
	cfg := w.cfg
	switch op.kind {
	case 'c':
		w.clock += op.adv
	case 'i':
		secs := make([]int64, len(op.secs))
		for i, k := range op.secs {
			secs[i] = cfg.secs[k]
		}
		w.invalidate(secs)
	case 'g':
		r := cfg.ranges[op.rng]
		pq := &queryBuilder{cacheKey: fmt.Sprintf("K%d", op.key)}
		w.loaderCalls, w.curSlow, w.curFail, w.curKey, w.curRng = 0, op.slow, op.fail, op.key, op.rng
		at := w.clock // the moment of the request
		wasStored := w.ref.stored[[2]int{op.key, op.rng}]
		rows, err := w.c.get(context.Background(), w.h, pq, data_model.LOD{FromSec: r.from, ToSec: r.to, StepSec: 1}, op.avoid)
		if w.loaderCalls > 1 {
			return c24V("loaded-twice", fmt.Sprintf("%s: loader called %d times", op.legend, w.loaderCalls), nil), false
		}
		if op.fail {
			if w.loaderCalls == 1 && err == nil {
				return c24V("load-error-swallowed", op.legend+": loader failed but get returned no error", nil), false
			}
			if w.loaderCalls == 1 {
				return mc.Verdict{}, false
			}
		}
		if err != nil {
			return c24V("unexpected-error", fmt.Sprintf("%s: %v", op.legend, err), nil), false
		}
		if len(rows) != cfg.rows[op.rng] {
			return c24V("wrong-rows", fmt.Sprintf("%s: %d rows, the loader returns %d for this range", op.legend, len(rows), cfg.rows[op.rng]), nil), false
		}
		stamp := int(rows[0].count)
		ld, ok := w.ref.loads[stamp]
		if !ok || ld.key != op.key || ld.rng != op.rng || int64(rows[0].min) != r.from || int64(rows[0].max) != r.to {
			return c24V("rows-of-another-query", fmt.Sprintf("%s: got rows of load %d (%+v)", op.legend, stamp, ld), nil), false
		}
		imm := at - c24Window // instant before which data is immutable
		if w.loaderCalls == 1 {
			// (re)loaded: always allowed inside the window; the answer must be the fresh load
			if stamp != w.ref.next-1 {
				return c24V("reload-not-returned", fmt.Sprintf("%s: loaded stamp %d but returned stamp %d", op.legend, w.ref.next-1, stamp), nil), false
			}
			if !op.avoid && wasStored && cfg.noEvict && r.to*c24Sec < imm {
				return c24V("immutable-range-reloaded", fmt.Sprintf("%s: range ends before the mutable window (now-48h=%d) and was cached, but was loaded again", op.legend, imm), nil), false
			}
			if !op.avoid {
				w.ref.stored[[2]int{op.key, op.rng}] = true
			}
			return mc.Verdict{}, wasStored
		}
		// served from the cache
		if op.avoid {
			return c24V("avoid-cache-served-from-cache", op.legend+": avoidCache request answered without loading", nil), false
		}
		if r.to*c24Sec < imm {
			return mc.Verdict{}, false // outside the mutable window: served as loaded
		}
		for s := r.from; s < r.to; s++ {
			if s*c24Sec < imm {
				continue // second (partly) outside the mutable window
			}
			if invAt, ok := w.ref.inv[s]; ok && invAt >= ld.started-c24Linger {
				return c24V("stale-rows-served", fmt.Sprintf("%s: served rows of load %d started at %d although second %d (base%+d) was invalidated at %d (load start - invalidation = %dns, linger %dns)",
					op.legend, stamp, ld.started, s, s-cfg.base, invAt, ld.started-invAt, c24Linger),
					map[string]any{"now": at, "range": []int64{r.from, r.to}}), true
			}
		}
		anyInv := false // (only seconds still inside the window: a function of the canonical state)
		for s := r.from; s < r.to; s++ {
			if _, ok := w.ref.inv[s]; ok && s*c24Sec >= w.clock-c24Window {
				anyInv = true
			}
		}
		return mc.Verdict{}, anyInv
	}
	return mc.Verdict{}, false
}

// sizeCheck: the statement's size bound on the real content, and the accounting invariant it rests on.
func (w *c24World) sizeCheck() mc.Verdict {
	c := w.c
	actual := 0
	maxRows := 0
	for _, n := range w.cfg.rows {
		if n > maxRows {
			maxRows = n
		}
	}
	for _, e := range c.cache {
		actual += len(e.rows)
		for _, cr := range e.rows {
			actual += len(cr.rows)
		}
	}
	// before an insertion size+entries < approxMaxSize (or the cache is empty); one insertion adds at
	// most a key, a range and maxRows rows
	bound := w.cfg.maxSize + 1 + maxRows
	if actual+len(c.cache) > bound {
		return c24V("size-bound-exceeded", fmt.Sprintf("cache holds %d rows+ranges in %d entries, bound %d (approxMaxSize %d)", actual, len(c.cache), bound, w.cfg.maxSize), nil)
	}
	if c.size < actual {
		return c24V("size-accounting-undercounts", fmt.Sprintf("accounted size %d < content %d: the bound would not hold on longer histories", c.size, actual), nil)
	}
	return mc.Verdict{}
}

// key: canonical state. Real part: clock, every cached range with its load time, LRU stamp and
// accounted sizes, the three invalidation maps. Reference part: for every cached stamp the moment
// its load started (the load counter value itself is a name and is left out: two states that
// differ only in stamp numbers have isomorphic futures because verdicts depend on a stamp only
// through its recorded start), the latest invalidation per second still inside the window
// (time only moves forward, so a second that left the window never matters again), the stored set.
func (w *c24World) key() string {
	var sb strings.Builder
	c := w.c
	fmt.Fprintf(&sb, "t=%d size=%d|", w.clock, c.size)
	var ks []string
	for k := range c.cache {
		ks = append(ks, k)
	}
	sort.Strings(ks)
	for _, k := range ks {
		e := c.cache[k]
		fmt.Fprintf(&sb, "%s lru=%d rs=%d:", k, e.lru.Load(), e.rowsSize)
		var trs []timeRange
		for tr := range e.rows {
			trs = append(trs, tr)
		}
		sort.Slice(trs, func(i, j int) bool {
			if trs[i].from != trs[j].from {
				return trs[i].from < trs[j].from
			}
			return trs[i].to < trs[j].to
		})
		for _, tr := range trs {
			cr := e.rows[tr]
			st := int64(-1)
			if len(cr.rows) > 0 {
				st = w.ref.loads[int(cr.rows[0].count)].started
			}
			fmt.Fprintf(&sb, "[%d,%d)@%d/%d,", tr.from-w.cfg.base, tr.to-w.cfg.base, cr.loadedAtNano, st)
		}
		sb.WriteByte('|')
	}
	for i := range c.invalidatedAtNano.seconds {
		m := c.invalidatedAtNano.seconds[i]
		var ss []int64
		for s := range m {
			ss = append(ss, s)
		}
		sort.Slice(ss, func(a, b int) bool { return ss[a] < ss[b] })
		for _, s := range ss {
			fmt.Fprintf(&sb, "%d=%d,", s-w.cfg.base, m[s])
		}
		sb.WriteByte('|')
	}
	imm := w.clock - c24Window
	var ss []int64
	for s := range w.ref.inv {
		if s*c24Sec >= imm {
			ss = append(ss, s)
		}
	}
	sort.Slice(ss, func(a, b int) bool { return ss[a] < ss[b] })
	for _, s := range ss {
		fmt.Fprintf(&sb, "r%d=%d,", s-w.cfg.base, w.ref.inv[s])
	}
	var st []string
	for k, v := range w.ref.stored {
		if v {
			st = append(st, fmt.Sprintf("%d.%d", k[0], k[1]))
		}
	}
	sort.Strings(st)
	sb.WriteString("|" + strings.Join(st, ","))
	return sb.String()
}

var c24Rep *mc.Report // distinct outcomes of the last operation of every history are recorded here

func c24Run(cfg *c24Config, hist []int) (res mc.StepResult) {
	w := c24NewWorld(cfg)
	res.Applicable = true
	conflict := false
	for i, o := range hist {
		before := w.ref.next
		sizeBefore := len(w.c.cache)
		_, keyBefore := w.c.cache[fmt.Sprintf("K%d", cfg.ops[o].key)]
		v, cf := w.apply(cfg.ops[o])
		if i == len(hist)-1 && c24Rep != nil {
			op := cfg.ops[o]
			out := string(op.kind)
			if op.kind == 'g' {
				switch {
				case op.avoid:
					out = "get-avoid"
				case op.fail && w.ref.next > before:
					out = "get-load-failed"
				case w.ref.next > before && cf:
					out = "get-reloaded-over-cached"
				case w.ref.next > before:
					out = "get-loaded"
				case cf:
					out = "get-served-despite-older-invalidation"
				default:
					out = "get-served"
				}
				if len(w.c.cache) < sizeBefore || (len(w.c.cache) == sizeBefore && !keyBefore && w.ref.next > before && !op.avoid && !op.fail) {
					out += "+evicted"
				}
			}
			if v.Violation != "" {
				out += "!" + v.Sig
			}
			c24Rep.Outcome(cfg.name + ":" + out)
		}
		conflict = cf // non-trivial is a property of the last transition (state, operation), not of the representative history
		if i == len(hist)-1 {
			res.Verdict = v
			if v.Violation == "" {
				res.Verdict = w.sizeCheck()
			}
		} else if v.Violation != "" {
			// a prefix that already violated is not expanded by the BFS; cannot happen here
			res.Verdict = v
			return res
		}
	}
	res.Nontrivial = conflict
	res.Key = w.key()
	if res.Verdict.Violation != "" {
		var legend []string
		for _, o := range hist {
			legend = append(legend, cfg.ops[o].legend)
		}
		res.Verdict.Violation += " | history: " + strings.Join(legend, "; ")
	}
	return res
}

func c24Ops(cfg *c24Config, thorough, eviction bool) []c24Op {
	var ops []c24Op
	rn := func(i int) string {
		r := cfg.ranges[i]
		return fmt.Sprintf("[base%+d,base%+d)", r.from-cfg.base, r.to-cfg.base)
	}
	for k := 0; k < cfg.keys; k++ {
		for i := range cfg.ranges {
			ops = append(ops, c24Op{kind: 'g', key: k, rng: i, legend: fmt.Sprintf("get K%d %s", k, rn(i))})
			if eviction {
				continue
			}
			ops = append(ops,
				c24Op{kind: 'g', key: k, rng: i, slow: true, legend: fmt.Sprintf("get K%d %s (load takes 16s; base%+d invalidated 1ns after it started)", k, rn(i), cfg.secs[0]-cfg.base)},
				c24Op{kind: 'g', key: k, rng: i, avoid: true, legend: fmt.Sprintf("get K%d %s avoidCache", k, rn(i))})
			if thorough {
				ops = append(ops, c24Op{kind: 'g', key: k, rng: i, fail: true, legend: fmt.Sprintf("get K%d %s (loader fails)", k, rn(i))})
			}
		}
	}
	// invalidating a set of seconds equals invalidating them one by one at the same clock reading
	// (same recorded time, same maps), so the four single seconds generate every subset as a
	// history; the full set is kept as one operation to reach it at a smaller depth.
	var subsets [][]int
	n := len(cfg.secs)
	all := []int{}
	for b := 0; b < n; b++ {
		if !eviction {
			subsets = append(subsets, []int{b})
		}
		all = append(all, b)
	}
	subsets = append(subsets, all)
	for _, s := range subsets {
		var names []string
		for _, b := range s {
			names = append(names, fmt.Sprintf("base%+d", cfg.secs[b]-cfg.base))
		}
		ops = append(ops, c24Op{kind: 'i', secs: s, legend: "invalidate " + strings.Join(names, ",")})
	}
	advs := []int64{1, c24Linger, 61 * c24Sec, 2 * 3600 * c24Sec}
	if eviction {
		advs = []int64{1, 61 * c24Sec}
	}
	for _, a := range advs {
		ops = append(ops, c24Op{kind: 'c', adv: a, legend: fmt.Sprintf("clock += %s", time.Duration(a))})
	}
	return ops
}

func TestVerifC24(t *testing.T) {
	rep := mc.NewReport("C24")
	c24Rep = rep
	rep.Rule = "BFS (states merged by canonical key) over histories of {get(key, range in 3 overlapping ranges around an hour boundary; cached / cached with a 16s load during which a second of the range is invalidated / avoidCache [/ failing loader]), invalidate(each of 4 seconds: last second of an hour, a range end, a minute boundary, a second of a fully covered hour; and all four at once - every other subset is a history of single invalidations at one clock reading), clock += 1ns | linger | 61s | 2h} on the real pointsCache; parts: deep inside the 48h window, at the window edge (ranges leave the window as the clock moves), a non-zero utcOffset, and a tiny approxMaxSize with 3 query keys. Non-trivial = transition that is a get served from the cache although some second of its range (inside the window) has an invalidation on record, or a get that replaces a cached result"
	thorough := mc.Thorough()
	depth := mc.Pick(5, 6)
	rep.Bounds["depth_freshness_parts"] = depth
	rep.Assume("the clock is the injected now(); 'load started' is the clock reading get() takes before calling the loader; a second counts as inside the mutable window when it lies entirely after now-48h; unnecessary reloads are not violations")

	mk := func(name string, utc int64, base int64, now0 int64) *c24Config {
		cfg := &c24Config{name: name, utcOffset: utc, base: base, now0: now0, maxSize: 1 << 20, keys: 1, noEvict: true,
			ranges: []c24Range{{base - 90, base + 30}, {base - 30, base + 90}, {base - 3700, base + 3700}},
			secs:   []int64{base - 1, base + 30, base - 60, base - 1800},
			rows:   []int{1, 1, 1},
		}
		cfg.ops = c24Ops(cfg, thorough, false)
		return cfg
	}
	const h0 = int64(1_700_002_800) // 2023-11-14 23:00:00 UTC: an hour boundary
	if h0%3600 != 0 {
		t.Fatal("base is not an hour boundary")
	}
	kol := int64(19800 + 3*86400) // Asia/Kolkata, week starts on Monday
	baseKol := h0 + 1800          // hour boundary of the shifted grid
	if (baseKol+kol)%3600 != 0 {
		t.Fatal("kolkata base is not an hour boundary")
	}
	parts := []*c24Config{
		mk("deep-in-window", 0, h0, (h0+3*3600)*c24Sec),
		mk("window-edge", 0, h0, (h0+48*3600-100)*c24Sec+c24Sec/2),
		mk("utc-offset-5h30", kol, baseKol, (baseKol+3*3600)*c24Sec),
	}
	// deterministic samples first (the BFS engine's own samples depend on worker timing and are
	// dropped once 12 are present): operation legends and a few histories with what each get did
	describe := func(cfg *c24Config, hist []int) map[string]any {
		w := c24NewWorld(cfg)
		var steps []string
		for _, o := range hist {
			op := cfg.ops[o]
			before := w.ref.next
			v, _ := w.apply(op)
			st := op.legend
			if op.kind == 'g' {
				if w.ref.next > before {
					st += " -> loaded"
				} else {
					st += " -> served from cache"
				}
			}
			if v.Violation != "" {
				st += " VIOLATION " + v.Sig
			}
			steps = append(steps, st)
		}
		return map[string]any{"part": cfg.name, "history": hist, "steps": steps}
	}
	{
		var legend []string
		for i, o := range parts[0].ops {
			legend = append(legend, fmt.Sprintf("%d=%s", i, o.legend))
		}
		rep.Sample(map[string]any{"operation_numbers_of_the_freshness_parts": legend})
		inv0, inv3, c1ns, c61, c2h := 9, 12, 14, 16, 17
		if thorough {
			inv0, inv3, c1ns, c61, c2h = 12, 15, 17, 19, 20
		}
		g := func(r int) int { return r * (len(parts[0].ops) - 9) / 3 }
		for _, h := range [][]int{
			{g(0), g(0)},
			{g(0), inv0, g(0), g(0)},
			{g(0), inv0, c61, g(1), g(0)},
			{inv0, c1ns, g(0), g(0)},
			{inv0, c61, g(0), g(0)},
			{g(2), inv3, g(2)},
			{g(0) + 1, g(0)},
			{g(0), c2h, inv0, g(0)},
		} {
			rep.Sample(describe(parts[0], h))
		}
		rep.Sample(describe(parts[1], []int{g(0), c61, inv0, g(0)}))
		rep.Sample(describe(parts[1], []int{g(2), c2h, inv0, g(2)}))
		rep.Sample(describe(parts[2], []int{g(0), inv0, g(0)}))
	}
	for _, cfg := range parts {
		cfg := cfg
		d := depth
		if cfg.name == "utc-offset-5h30" {
			d = depth - 1
		}
		st := mc.BFS(func(h []int) mc.StepResult { return c24Run(cfg, h) }, mc.BFSOptions{NumOps: len(cfg.ops), MaxDepth: d})
		rep.MergeBFS(cfg.name, st)
		rep.Bounds["ops_"+cfg.name] = len(cfg.ops)
		t.Logf("C24 %s: ops=%d depth=%d states=%d transitions=%d nontrivial=%d violations=%d caps=%v", cfg.name, len(cfg.ops), st.Depth, st.States, st.Transitions, st.Nontrivial, len(st.Violations), st.Caps)
	}
	// eviction / size bound
	ev := &c24Config{name: "tiny-size-bound", utcOffset: 0, base: h0, now0: (h0 + 3*3600) * c24Sec, maxSize: 6, keys: 3, tick: true,
		ranges: []c24Range{{h0 - 90, h0 + 30}, {h0 - 30, h0 + 90}},
		secs:   []int64{h0 - 1, h0 + 30, h0 - 60, h0 - 1800},
		rows:   []int{1, 3},
	}
	ev.ops = c24Ops(ev, thorough, true)
	evDepth := mc.Pick(6, 7)
	st := mc.BFS(func(h []int) mc.StepResult { return c24Run(ev, h) }, mc.BFSOptions{NumOps: len(ev.ops), MaxDepth: evDepth})
	rep.MergeBFS(ev.name, st)
	rep.Bounds["ops_"+ev.name] = len(ev.ops)
	rep.Bounds["depth_"+ev.name] = evDepth
	rep.Bounds["approx_max_size_tiny"] = ev.maxSize
	t.Logf("C24 %s: ops=%d depth=%d states=%d transitions=%d nontrivial=%d violations=%d caps=%v", ev.name, len(ev.ops), st.Depth, st.States, st.Transitions, st.Nontrivial, len(st.Violations), st.Caps)
	if err := rep.Write(); err != nil {
		t.Fatal(err)
	}
}
