//go:build verif

package api

// C25, family "storage bucket order": the statement quantifies over ANY storage output, so the
// order in which the storage hands back the rows of one time bucket is an input too. Rows are
// keyed by two tags (four keys per time slot); every time bucket holds every ordered arrangement
// (every subset in every permutation) of its keys. The real SQL is one point of this space: it
// orders `_time, key1, key2 DESC`, i.e. DESC binds to the last column only, so a from-end request
// receives key1 ascending.
//
// Judged on every output: one column per function with the right values, rows unique, rows
// strictly ordered by (time, tag1, tag2) in the requested direction, every row strictly inside
// the marker window, at most `limit` rows, the row marker of every row (handleGetTable encodes
// those of the first and last row as FromRow/ToRow) names that row.
// Judged additionally where every bucket arrives ordered in the requested direction: the page
// is the first `limit` rows of the window, has-more as in the main family.
// Where a bucket is not ordered in the requested direction the page and has-more are counted
// (rep.Bounds["storage_bucket_order_open_cases"]) but not judged: the code cuts at the limit in
// storage order, which rows "the first limit rows" are is then a question the statement leaves to
// the storage order.

import (
	"context"
	"fmt"
	"math"
	"runtime"
	"sort"
	"strings"
	"sync"
	"time"

	"github.com/VKCOM/statshouse/internal/data_model"
	"github.com/VKCOM/statshouse/internal/format"
	"github.com/VKCOM/statshouse/internal/promql"
	"github.com/VKCOM/statshouse/internal/verif/mc"
)

const c25pKeys = 4 // keys per slot: (tag1, tag2) in {1,2}x{1,2}; key index k = (tag1-1)*2 + (tag2-1)

// c25pArrangements: every sequence of distinct key indexes (every subset in every permutation).
func c25pArrangements() [][]int {
	var out [][]int
	var rec func(cur []int, used uint)
	rec = func(cur []int, used uint) {
		out = append(out, append([]int{}, cur...))
		for k := 0; k < c25pKeys; k++ {
			if used&(1<<uint(k)) == 0 {
				rec(append(cur, k), used|1<<uint(k))
			}
		}
	}
	rec(nil, 0)
	return out
}

type c25pCase struct {
	slots   int
	split   []int
	buckets [][]int // per slot: the arrangement the storage returns
	lo, hi  int     // exclusive bounds, positions slot*4+k in natural order; c25Unset, -1, 0..P-1, P
	fromEnd bool
	limit   int
	nfun    int
	lodsRev bool // LODs passed in descending order (only if handleGetTable does so for from-end requests)
}

func (c *c25pCase) String() string {
	var sb strings.Builder
	for s, b := range c.buckets {
		fmt.Fprintf(&sb, " t%d:[", int(c25Base)+s)
		for i, k := range b {
			if i > 0 {
				sb.WriteByte(' ')
			}
			fmt.Fprintf(&sb, "%d.%d", k/2+1, k%2+1)
		}
		sb.WriteByte(']')
	}
	return fmt.Sprintf("two-tag keys, storage buckets (tag1.tag2 in storage order)%s split=%v lo=%d hi=%d fromEnd=%v limit=%d functions=%d",
		sb.String(), c.split, c.lo, c.hi, c.fromEnd, c.limit, c.nfun)
}

func c25pMarker(pos, slots int) RowMarker {
	if pos == c25Unset {
		return RowMarker{}
	}
	var t, a, b int64
	switch {
	case pos < 0:
		t, a, b = c25Base-1, 2, 2
	case pos >= c25pKeys*slots:
		t, a, b = c25Base+int64(slots), 1, 1
	default:
		k := pos % c25pKeys
		t, a, b = c25Base+int64(pos/c25pKeys), int64(k/2+1), int64(k%2+1)
	}
	return RowMarker{Time: t, Tags: []RawTag{{Index: 1, Value: a}, {Index: 2, Value: b}}}
}

func c25pID(g, pos int) float64 { return float64(1000*(g+1) + pos + 1) }

type c25pStats struct {
	calls, nontrivial int64
	outcomes          map[string]struct{}
	notes             map[string]int64
	viol              []c25Viol
}

func c25pRun(st *c25pStats, h *requestHandler, loc *time.Location, metric *format.MetricMetaValue, c *c25pCase, judgePageMultiLOD bool) {
	st.calls++
	P := c25pKeys * c.slots
	var lods []data_model.LOD
	off := 0
	for _, n := range c.split {
		lods = append(lods, data_model.LOD{FromSec: c25Base + int64(off), ToSec: c25Base + int64(off+n), StepSec: 1, Version: Version6, Metric: metric, Location: loc})
		off += n
	}
	if c.lodsRev {
		for i, j := 0, len(lods)-1; i < j; i, j = i+1, j-1 {
			lods[i], lods[j] = lods[j], lods[i]
		}
	}
	var what []promql.SelectorWhat
	for _, d := range c25Functions[c.nfun] {
		what = append(what, promql.SelectorWhat{Digest: d})
	}
	req := seriesRequest{numResults: c.limit, what: what, by: []string{format.TagID(1), format.TagID(2)}, fromEnd: c.fromEnd}
	loM, hiM := c25pMarker(c.lo, c.slots), c25pMarker(c.hi, c.slots)
	if c.fromEnd {
		req.fromRow, req.toRow = hiM, loM
	} else {
		req.fromRow, req.toRow = loM, hiM
	}
	present := make([]bool, P)
	sortedInDirection := true
	for s, b := range c.buckets {
		for i, k := range b {
			present[s*c25pKeys+k] = true
			if i > 0 && ((!c.fromEnd && b[i-1] > k) || (c.fromEnd && b[i-1] < k)) {
				sortedInDirection = false
			}
		}
	}
	loaderErr := ""
	load := func(_ context.Context, _ *requestHandler, pq *queryBuilder, lod data_model.LOD, _ bool) ([][]tsSelectRow, error) {
		g := 0
		if pq.what[0].What == data_model.DigestUnique {
			g = 1
		}
		first := int(lod.FromSec - c25Base)
		n := int(lod.ToSec - lod.FromSec)
		if first < 0 || first+n > c.slots || n <= 0 {
			loaderErr = fmt.Sprintf("storage asked for [%d,%d), outside the query", lod.FromSec, lod.ToSec)
			return nil, nil
		}
		res := make([][]tsSelectRow, n)
		for s := 0; s < n; s++ {
			for _, k := range c.buckets[first+s] {
				pos := (first+s)*c25pKeys + k
				id := c25pID(g, pos)
				var r tsSelectRow
				r.time = c25Base + int64(first+s)
				r.tag[1], r.tag[2] = int64(k/2+1), int64(k%2+1)
				r.count, r.sum, r.min, r.max, r.cardinality = id, id+0.25, id+0.5, id+0.75, id+0.125
				res[s] = append(res[s], r)
			}
		}
		return res, nil
	}
	viol := func(sig, msg string) { st.viol = c25Keep(st.viol, c25Viol{sig, msg, c.String()}) }
	var rows []queryTableRow
	var hasMore bool
	var err error
	func() {
		defer func() {
			if r := recover(); r != nil {
				err = fmt.Errorf("PANIC: %v", r)
			}
		}()
		rows, hasMore, err = h.getTableFromLODs(context.Background(), lods, tableReqParams{
			req: req, metricMeta: metric, desiredStepMul: 1, location: loc}, load)
	}()
	if err != nil {
		viol("panic-or-error", err.Error())
		return
	}
	if loaderErr != "" {
		viol("storage-asked-for-foreign-range", loaderErr)
		return
	}
	loPos, hiPos := math.MinInt32, math.MaxInt32
	if c.lo != c25Unset {
		loPos = c.lo
	}
	if c.hi != c25Unset {
		hiPos = c.hi
	}
	eligible := func(pos int) bool { return loPos < pos && pos < hiPos }
	sortedFns := append([]promql.DigestWhat{}, c25Functions[c.nfun]...)
	sort.Slice(sortedFns, func(i, j int) bool { return sortedFns[i] < sortedFns[j] })
	gotPos := make([]int, len(rows))
	seen := make([]bool, P)
	var out strings.Builder
	for i := range rows {
		r := &rows[i]
		a, b := r.row.tag[1], r.row.tag[2]
		pos := int(r.Time-c25Base)*c25pKeys + int(a-1)*2 + int(b-1)
		gotPos[i] = pos
		if a < 1 || a > 2 || b < 1 || b > 2 || pos < 0 || pos >= P || !present[pos] {
			viol("row-not-from-storage", fmt.Sprintf("row %d time=%d tags=%d.%d is not a storage row", i, r.Time, a, b))
			return
		}
		fmt.Fprintf(&out, "%d ", pos)
		if len(r.Data) != c.nfun {
			viol("column-count", fmt.Sprintf("row time=%d tags=%d.%d has %d columns for %d requested functions", r.Time, a, b, len(r.Data), c.nfun))
			return
		}
		if seen[pos] {
			viol("duplicate-row", fmt.Sprintf("row time=%d tags=%d.%d appears twice", r.Time, a, b))
			return
		}
		seen[pos] = true
		if !eligible(pos) {
			viol("row-outside-window", fmt.Sprintf("row time=%d tags=%d.%d is not strictly between the markers", r.Time, a, b))
			return
		}
		if i > 0 && ((!c.fromEnd && gotPos[i-1] >= pos) || (c.fromEnd && gotPos[i-1] <= pos)) {
			sig := "not-sorted-storage-bucket-order"
			if sortedInDirection {
				sig = "not-sorted"
			}
			viol(sig, fmt.Sprintf("rows %d and %d (time=%d tags=%d.%d, then time=%d tags=%d.%d) are not in the requested direction; whole table (slot*4+key): %v", i-1, i,
				rows[i-1].Time, rows[i-1].row.tag[1], rows[i-1].row.tag[2], r.Time, a, b, gotPos[:i+1]))
			return
		}
		m := r.rowRepr
		if m.Time != r.Time || len(m.Tags) != 2 || m.Tags[0] != (RawTag{Index: 1, Value: a}) || m.Tags[1] != (RawTag{Index: 2, Value: b}) || m.SKey != "" {
			viol("row-marker-differs-from-row", fmt.Sprintf("row time=%d tags=%d.%d carries the marker %+v (the first/last row's marker becomes FromRow/ToRow of the page)", r.Time, a, b, m))
			return
		}
		for col := 0; col < c.nfun; col++ {
			g := c25GroupOfColumn(c.nfun, col)
			v := float64(r.Data[col])
			if math.IsNaN(v) {
				viol("nan-for-existing-value", fmt.Sprintf("row time=%d tags=%d.%d column %d is NaN although every storage query returned the row", r.Time, a, b, col))
				return
			}
			if want, ok := c25Expect(sortedFns[col], c25pID(g, pos)); ok && v != want {
				viol("value-in-wrong-column", fmt.Sprintf("row time=%d tags=%d.%d column %d (function %d) = %v, want %v", r.Time, a, b, col, sortedFns[col], v, want))
				return
			}
		}
	}
	if len(rows) > c.limit {
		viol("limit-exceeded", fmt.Sprintf("%d rows for limit %d", len(rows), c.limit))
		return
	}
	fmt.Fprintf(&out, "more=%v", hasMore)
	st.outcomes[out.String()] = struct{}{}
	// ---- page and has-more
	var E []int
	for p := 0; p < P; p++ {
		q := p
		if c.fromEnd {
			q = P - 1 - p
		}
		if present[q] && eligible(q) {
			E = append(E, q)
		}
	}
	want := E
	if len(want) > c.limit {
		want = want[:c.limit]
	}
	same := len(want) == len(gotPos)
	for i := 0; same && i < len(want); i++ {
		same = want[i] == gotPos[i]
	}
	if !sortedInDirection {
		st.nontrivial++
		kind := "other_bucket_order"
		if c25pIsSQLOrder(c) {
			kind = "bucket_order_of_the_real_sql"
		}
		if !same {
			st.notes[kind+":page_is_not_the_first_rows_of_the_window"]++
			if len(gotPos) < len(want) {
				st.notes[kind+":fewer_rows_than_window_and_limit_allow"]++
			}
		}
		if len(E) > c.limit && !hasMore {
			st.notes[kind+":has_more_missing"]++
		}
		return
	}
	if len(c.split) > 1 && c.fromEnd && !judgePageMultiLOD {
		return
	}
	// a bucket whose first and last row lie outside the window while a row between them lies inside
	// (limitQueries tests only the two outer rows before it walks a bucket)
	cause := ""
	for s, b := range c.buckets {
		if len(b) < 3 || eligible(s*c25pKeys+b[0]) || eligible(s*c25pKeys+b[len(b)-1]) {
			continue
		}
		for _, k := range b[1 : len(b)-1] {
			if eligible(s*c25pKeys + k) {
				cause = ":bucket-skipped-when-first-and-last-row-outside-window"
			}
		}
	}
	if !same {
		viol("wrong-page"+cause, fmt.Sprintf("page %v, want the first %d rows of the window in the requested direction %v (positions slot*4+key)", gotPos, c.limit, want))
		return
	}
	if len(E) > c.limit && !hasMore {
		viol("has-more-missing"+cause, fmt.Sprintf("%d rows in the window, limit %d, has-more not set", len(E), c.limit))
		return
	}
	if len(E) <= c.limit && hasMore {
		further := false
		for p := 0; p < P; p++ {
			if present[p] && (len(want) == 0 || (!c.fromEnd && p > want[len(want)-1]) || (c.fromEnd && p < want[len(want)-1])) {
				further = true
			}
		}
		if !further {
			viol("has-more-without-further-rows", fmt.Sprintf("has-more set, but the storage holds no row after the page %v", gotPos))
			return
		}
		st.notes["has_more_set_while_remaining_rows_are_outside_window"]++
	}
	if len(c.split) > 1 || c.lo != c25Unset || c.hi != c25Unset || len(E) > c.limit {
		st.nontrivial++
	}
}

// c25pIsSQLOrder: every bucket is in the order `ORDER BY _time, key1, key2 [DESC]` gives: the DESC of a
// from-end request binds to the last column only (tag1 ascending, tag2 descending).
func c25pIsSQLOrder(c *c25pCase) bool {
	for _, b := range c.buckets {
		for i := 1; i < len(b); i++ {
			a1, a2, b1, b2 := b[i-1]/2, b[i-1]%2, b[i]/2, b[i]%2
			if a1 != b1 {
				if a1 > b1 {
					return false
				}
				continue
			}
			if (!c.fromEnd && a2 > b2) || (c.fromEnd && a2 < b2) {
				return false
			}
		}
	}
	return true
}

// c25PermFamily runs the family and merges its counts into rep; returns calls, nontrivial.
func c25PermFamily(rep *mc.Report, conv string) (int64, int64) {
	loc := time.UTC
	metric := &format.MetricMetaValue{Tags: []format.MetricMetaTag{{}, {RawKind: "int"}, {RawKind: "int"}}}
	const slots = 2
	P := c25pKeys * slots
	arr := c25pArrangements()
	limits := mc.Pick([]int{1, 3, 8}, []int{1, 2, 3, 4, 5, 8})
	positions := []int{c25Unset}
	if mc.Thorough() {
		for p := -1; p <= P; p++ {
			positions = append(positions, p)
		}
	} else {
		positions = append(positions, 0, 1, 3, 4, 6, 7) // windows inside a bucket, across the buckets, empty
	}
	// quick: one bucket in every arrangement, the other one of: empty, all keys ascending, all keys descending,
	// all keys in the order of the real from-end SQL (tag1 ascending, tag2 descending), two keys descending;
	// thorough: both buckets in every arrangement
	few := map[string]bool{"[]": true, "[0 1 2 3]": true, "[3 2 1 0]": true, "[1 0 3 2]": true, "[2 1]": true}
	rep.Rule += "; plus family 'storage bucket order': rows keyed by two tags (4 keys per slot, 2 slots, 1-2 LODs) x every arrangement (subset x permutation) of the rows of a time bucket as handed back by the storage (quick: one bucket in every arrangement, the other one of 5 shapes; thorough: both) x two-tag row markers x both directions x limits x {1, 8} functions; non-trivial there = a bucket not ordered in the requested direction, or as above"
	rep.Assume("family 'storage bucket order': the storage may return the rows of a time bucket in any order; the identity of the page and has-more are judged only where every bucket arrives ordered in the requested direction (elsewhere counted under storage_bucket_order_open_cases)")
	rep.Bounds["storage_bucket_order:slots_x_keys"] = fmt.Sprintf("%d x %d (tag1, tag2 in {1,2})", slots, c25pKeys)
	rep.Bounds["storage_bucket_order:arrangements_per_bucket"] = len(arr)
	rep.Bounds["storage_bucket_order:limits"] = limits
	rep.Bounds["storage_bucket_order:marker_positions"] = len(positions)
	type unit struct{ a0, a1 int }
	ch := make(chan unit, len(arr)*len(arr))
	units := 0
	for a0 := range arr {
		for a1 := range arr {
			if mc.Thorough() || few[fmt.Sprint(arr[a0])] || few[fmt.Sprint(arr[a1])] {
				ch <- unit{a0, a1}
				units++
			}
		}
	}
	close(ch)
	rep.Bounds["storage_bucket_order:storage_outputs"] = units
	total := &c25pStats{outcomes: map[string]struct{}{}, notes: map[string]int64{}}
	var mu sync.Mutex
	var wg sync.WaitGroup
	capped := false
	for w := 0; w < runtime.GOMAXPROCS(0); w++ {
		wg.Add(1)
		go func() {
			defer wg.Done()
			h := &requestHandler{Handler: &Handler{HandlerOptions: HandlerOptions{location: loc}}}
			st := &c25pStats{outcomes: map[string]struct{}{}, notes: map[string]int64{}}
			for u := range ch {
				if mc.Expired() {
					mu.Lock()
					capped = true
					mu.Unlock()
					continue
				}
				buckets := [][]int{arr[u.a0], arr[u.a1]}
				for _, split := range [][]int{{2}, {1, 1}} {
					for _, fromEnd := range []bool{false, true} {
						for _, nfun := range []int{1, 8} {
							for _, lo := range positions {
								for _, hi := range positions {
									if nfun == 8 && !((lo == c25Unset || lo == 1) && (hi == c25Unset || hi == P-2)) {
										continue // two storage queries: a few marker combinations only
									}
									for _, lim := range limits {
										c := c25pCase{slots: slots, split: split, buckets: buckets, lo: lo, hi: hi, fromEnd: fromEnd, limit: lim, nfun: nfun,
											lodsRev: fromEnd && conv == "reversed"}
										c25pRun(st, h, loc, metric, &c, conv != "unknown")
									}
								}
							}
						}
					}
				}
			}
			mu.Lock()
			total.calls += st.calls
			total.nontrivial += st.nontrivial
			for k := range st.outcomes {
				total.outcomes[k] = struct{}{}
			}
			for k, v := range st.notes {
				total.notes[k] += v
			}
			for _, v := range st.viol {
				total.viol = c25Keep(total.viol, v)
			}
			mu.Unlock()
		}()
	}
	wg.Wait()
	if capped {
		rep.Cap("wall_budget")
	}
	sort.Slice(total.viol, func(i, j int) bool {
		if total.viol[i].sig != total.viol[j].sig {
			return total.viol[i].sig < total.viol[j].sig
		}
		return total.viol[i].cs < total.viol[j].cs
	})
	for _, v := range total.viol {
		rep.Violate("C25:"+v.sig, v.msg+" ["+v.cs+"]", map[string]any{"case": v.cs, "family": "storage bucket order"})
	}
	for k := range total.outcomes {
		rep.Outcome("perm:" + k)
	}
	rep.Bounds["storage_bucket_order_open_cases"] = total.notes
	rep.Bounds["storage_bucket_order_calls"] = total.calls
	rep.Sample(map[string]any{"case": (&c25pCase{slots: slots, split: []int{1, 1}, buckets: [][]int{{1, 0, 3, 2}, {2, 0}}, lo: c25Unset, hi: 6, fromEnd: true, limit: 3, nfun: 1}).String()})
	return total.calls, total.nontrivial
}
