//go:build verif

package api

// C25: table queries assemble aligned, unique, ordered rows.
//
// Full enumeration of: splits of a small timeline into 1-3 LODs x every storage output over
// the (time, tag) universe x requested functions (1, 2, 3 functions = one storage query;
// 8, 9 functions = two storage queries, the second possibly returning a different row set)
// x lower/upper row markers x both directions x limits x the LOD order of the caller,
// through the real getTableFromLODs (and limitQueries / inRange / lessThan under it) with
// a stub in place of the storage. The oracle is a reference model of the statement:
// window = rows strictly between the markers, page = the first `limit` rows of the window
// in the requested direction, one column per requested function.

import (
	"context"
	"fmt"
	"math"
	"os"
	"regexp"
	"runtime"
	"sort"
	"strings"
	"sync"
	"testing"
	"time"

	"github.com/VKCOM/statshouse/internal/data_model"
	"github.com/VKCOM/statshouse/internal/format"
	"github.com/VKCOM/statshouse/internal/promql"
	"github.com/VKCOM/statshouse/internal/verif/mc"
)

const (
	c25Base  = int64(100) // time of slot 0
	c25Unset = -2         // marker position: not given
)

type c25Case struct {
	slots        int
	split        []int
	masks        [2]uint32 // storage row set per storage query (bit = slot*2 + tag-1)
	lo, hi       int       // exclusive bounds as positions in natural order: c25Unset, -1 (before all), 0..P-1, P (after all)
	loTimeOnly   bool      // marker without tags
	hiTimeOnly   bool
	fromEnd      bool
	limit        int
	nfun         int
	handlerOrder bool // LODs as handleGetTable passes them (reversed when fromEnd); false = ascending
}

func (c *c25Case) String() string {
	return fmt.Sprintf("slots=%d split=%v storage=%0*b/%0*b lo=%d%s hi=%d%s fromEnd=%v limit=%d functions=%d lodOrder=%s",
		c.slots, c.split, 2*c.slots, c.masks[0], 2*c.slots, c.masks[1], c.lo, map[bool]string{true: "(time only)"}[c.loTimeOnly],
		c.hi, map[bool]string{true: "(time only)"}[c.hiTimeOnly], c.fromEnd, c.limit, c.nfun, map[bool]string{true: "as-handler", false: "ascending"}[c.handlerOrder])
}

var c25Functions = map[int][]promql.DigestWhat{
	1: {promql.DigestCountRaw},
	2: {promql.DigestMin, promql.DigestCountRaw},
	3: {promql.DigestMax, promql.DigestSumRaw, promql.DigestCountRaw},
	8: {promql.DigestUnique, promql.DigestCardinalityRaw, promql.DigestStdDev, promql.DigestMax, promql.DigestMin, promql.DigestAvg, promql.DigestSumRaw, promql.DigestCountRaw},
	9: {promql.DigestUniqueSec, promql.DigestUnique, promql.DigestCardinalityRaw, promql.DigestStdDev, promql.DigestMax, promql.DigestMin, promql.DigestAvg, promql.DigestSumRaw, promql.DigestCountRaw},
}

// the storage query (group) a column belongs to: functions are sorted by digest and packed,
// seven distinct selectors per query
func c25GroupOfColumn(nfun, col int) int {
	if nfun > 7 && col >= 7 {
		return 1
	}
	return 0
}

func c25ID(g, pos int) float64 { return float64(1000*(g+1) + 10*(pos/2+1) + pos%2 + 1) }

// expected value of a projection function, ok=false for functions only checked for presence
func c25Expect(d promql.DigestWhat, id float64) (float64, bool) {
	switch d {
	case promql.DigestCountRaw:
		return id, true
	case promql.DigestSumRaw:
		return id + 0.25, true
	case promql.DigestMin:
		return id + 0.5, true
	case promql.DigestMax:
		return id + 0.75, true
	case promql.DigestCardinalityRaw:
		return id + 0.125, true
	}
	return 0, false
}

func c25Marker(pos int, timeOnly bool, slots int) RowMarker {
	if pos == c25Unset {
		return RowMarker{}
	}
	var t, v int64
	switch {
	case pos < 0:
		t, v = c25Base-1, 2
	case pos >= 2*slots:
		t, v = c25Base+int64(slots), 1
	default:
		t, v = c25Base+int64(pos/2), int64(pos%2+1)
	}
	if timeOnly {
		return RowMarker{Time: t}
	}
	return RowMarker{Time: t, Tags: []RawTag{{Index: 1, Value: v}}}
}

type c25Viol struct{ sig, msg, cs string }

// c25Keep adds an example and keeps the three smallest (by case text) per signature, so that the
// published examples do not depend on which worker saw which case.
func c25Keep(l []c25Viol, v c25Viol) []c25Viol {
	l = append(l, v)
	n, worst := 0, -1
	for i, x := range l {
		if x.sig == v.sig {
			n++
			if worst < 0 || x.cs > l[worst].cs {
				worst = i
			}
		}
	}
	if n > 3 {
		l = append(l[:worst], l[worst+1:]...)
	}
	return l
}

type c25Stats struct {
	calls, nontrivial int64
	outcomes          map[string]struct{}
	notes             map[string]int64
	// Violations in from-end requests over several LODs depend on the order in which the caller
	// passes the LODs; they are collected per convention (0 = ascending, 1 = reversed) and published
	// for the convention handleGetTable really uses.
	deferred      [2][]c25Viol
	deferredCount [2]int64
	immediate     []c25Viol // all other violations; published sorted at the end
}

func c25NewStats() *c25Stats {
	return &c25Stats{outcomes: map[string]struct{}{}, notes: map[string]int64{}}
}

func (st *c25Stats) report(rep *mc.Report, c *c25Case, sig, msg string) {
	if c.fromEnd && len(c.split) > 1 {
		k := 0
		if c.handlerOrder {
			k = 1
		}
		st.deferredCount[k]++
		st.deferred[k] = c25Keep(st.deferred[k], c25Viol{sig, msg, c.String()})
		return
	}
	st.immediate = c25Keep(st.immediate, c25Viol{sig, msg, c.String()})
}

// c25HandlerConvention reads handleGetTable's source (the test runs in the package directory of
// the tree under test) to learn in which order it passes the LODs of a from-end request.
func c25HandlerConvention() (conv string, why string) {
	b, err := os.ReadFile("handler.go")
	if err != nil {
		return "unknown", err.Error()
	}
	src := string(b)
	i := strings.Index(src, "func (h *requestHandler) handleGetTable(")
	if i < 0 {
		return "unknown", "handleGetTable not found"
	}
	body := src[i:]
	if j := strings.Index(body[1:], "\nfunc "); j >= 0 {
		body = body[:j+1]
	}
	var sb strings.Builder
	for _, ln := range strings.Split(body, "\n") {
		if k := strings.Index(ln, "//"); k >= 0 {
			ln = ln[:k]
		}
		sb.WriteString(ln + "\n")
	}
	body = sb.String()
	k := strings.Index(body, "getTableFromLODs(")
	if k < 0 {
		return "unknown", "call of getTableFromLODs not found in handleGetTable"
	}
	pre := body[:k]
	if regexp.MustCompile(`(?s)if\s+req\.fromEnd\s*\{.*?lods\[[^\]]*\]\s*=\s*lods\[`).MatchString(pre) || strings.Contains(pre, "slices.Reverse(lods)") {
		return "reversed", "handleGetTable swaps the elements of lods under `if req.fromEnd` before the call"
	}
	if strings.Contains(pre, "fromEnd") {
		return "unknown", "handleGetTable does something with fromEnd before the call that this harness does not recognise"
	}
	return "ascending", "handleGetTable passes the LODs as GetLODs returns them"
}

func c25Run(rep *mc.Report, st *c25Stats, h *requestHandler, loc *time.Location, metric *format.MetricMetaValue, c *c25Case) {
	st.calls++
	P := 2 * c.slots
	groups := 1
	if c.nfun > 7 {
		groups = 2
	}
	consistent := groups == 1 || c.masks[0] == c.masks[1]
	// ---- inputs
	var lods []data_model.LOD
	off := 0
	lodOfSlot := make([]int, c.slots)
	for i, n := range c.split {
		lods = append(lods, data_model.LOD{FromSec: c25Base + int64(off), ToSec: c25Base + int64(off+n), StepSec: 1, Version: Version6, Metric: metric, Location: loc})
		for k := 0; k < n; k++ {
			lodOfSlot[off+k] = i
		}
		off += n
	}
	asc := append([]data_model.LOD{}, lods...)
	if c.fromEnd && c.handlerOrder {
		for i, j := 0, len(lods)-1; i < j; i, j = i+1, j-1 {
			lods[i], lods[j] = lods[j], lods[i]
		}
	}
	var what []promql.SelectorWhat
	for _, d := range c25Functions[c.nfun] {
		what = append(what, promql.SelectorWhat{Digest: d})
	}
	req := seriesRequest{numResults: c.limit, what: what, by: []string{"1"}, fromEnd: c.fromEnd}
	loM, hiM := c25Marker(c.lo, c.loTimeOnly, c.slots), c25Marker(c.hi, c.hiTimeOnly, c.slots)
	if c.fromEnd {
		req.fromRow, req.toRow = hiM, loM
	} else {
		req.fromRow, req.toRow = loM, hiM
	}
	loaderErr := ""
	load := func(_ context.Context, _ *requestHandler, pq *queryBuilder, lod data_model.LOD, _ bool) ([][]tsSelectRow, error) {
		g := 0
		if pq.what[0].What == data_model.DigestUnique {
			g = 1
		}
		var li = -1
		for i := range asc {
			if asc[i].FromSec == lod.FromSec && asc[i].ToSec == lod.ToSec {
				li = i
			}
		}
		if li < 0 {
			loaderErr = fmt.Sprintf("storage asked for [%d,%d), not a level of the query", lod.FromSec, lod.ToSec)
			return nil, nil
		}
		n := int(lod.ToSec - lod.FromSec)
		first := int(lod.FromSec - c25Base)
		res := make([][]tsSelectRow, n)
		for k := 0; k < n; k++ {
			tags := []int{0, 1}
			if pq.sort == sortDescending {
				tags = []int{1, 0}
			}
			for _, tv := range tags {
				pos := (first+k)*2 + tv
				if c.masks[g]&(1<<uint(pos)) == 0 {
					continue
				}
				id := c25ID(g, pos)
				var r tsSelectRow
				r.time = c25Base + int64(first+k)
				r.tag[1] = int64(tv + 1)
				r.count, r.sum, r.min, r.max, r.cardinality = id, id+0.25, id+0.5, id+0.75, id+0.125
				res[k] = append(res[k], r)
			}
		}
		return res, nil
	}
	viol := func(sig, msg string) { st.report(rep, c, sig, msg) }
	// ---- the real code
	var rows []queryTableRow
	var hasMore bool
	var err error
	func() {
		defer func() {
			if r := recover(); r != nil {
				err = fmt.Errorf("PANIC: %v", r)
			}
		}()
		rows, hasMore, err = h.getTableFromLODs(context.Background(), lods, tableReqParams{
			req: req, metricMeta: metric, desiredStepMul: 1, location: loc}, load)
	}()
	if err != nil {
		viol("panic-or-error", err.Error())
		return
	}
	if loaderErr != "" {
		viol("storage-asked-for-foreign-range", loaderErr)
		return
	}
	// ---- reference
	loPos, hiPos := math.MinInt32, math.MaxInt32
	if c.lo != c25Unset {
		loPos = c.lo
		if c.loTimeOnly && c.lo >= 0 && c.lo < P {
			loPos = c.lo/2*2 + 1 // a marker without tags excludes its whole time slot
		}
	}
	if c.hi != c25Unset {
		hiPos = c.hi
		if c.hiTimeOnly && c.hi >= 0 && c.hi < P {
			hiPos = c.hi / 2 * 2
		}
	}
	eligible := func(pos int) bool { return loPos < pos && pos < hiPos }
	order := make([]int, 0, P) // positions in the requested direction
	for p := 0; p < P; p++ {
		if c.fromEnd {
			order = append(order, P-1-p)
		} else {
			order = append(order, p)
		}
	}
	sortedFns := append([]promql.DigestWhat{}, c25Functions[c.nfun]...)
	sort.Slice(sortedFns, func(i, j int) bool { return sortedFns[i] < sortedFns[j] })

	// ---- clause: one column per requested function, NaN exactly for missing values
	gotPos := make([]int, len(rows))
	seen := map[int]bool{}
	var out strings.Builder
	for i := range rows {
		r := &rows[i]
		pos := int(r.Time-c25Base)*2 + int(r.row.tag[1]) - 1
		gotPos[i] = pos
		fmt.Fprintf(&out, "%d:", pos)
		if pos < 0 || pos >= P || r.row.tag[1] < 1 || r.row.tag[1] > 2 {
			viol("row-not-from-storage", fmt.Sprintf("row %d time=%d tag=%d is not a storage row", i, r.Time, r.row.tag[1]))
			return
		}
		if len(r.Data) != c.nfun {
			if groups > 1 && !consistent {
				viol("nan-padding-one-per-storage-query-not-per-function", fmt.Sprintf("row time=%d tag=%d has %d columns for %d requested functions (one of the %d storage queries did not deliver it: it gets one NaN per query instead of one per function)", r.Time, r.row.tag[1], len(r.Data), c.nfun, groups))
			} else {
				viol("column-count", fmt.Sprintf("row time=%d tag=%d has %d columns for %d requested functions", r.Time, r.row.tag[1], len(r.Data), c.nfun))
			}
			return
		}
		if len(r.rowRepr.Tags) != 1 || r.rowRepr.Tags[0].Value != r.row.tag[1] || r.rowRepr.Time != r.Time {
			st.notes["rows_whose_marker_carries_another_rows_tags"]++
		}
		if seen[pos] {
			viol("duplicate-row", fmt.Sprintf("row time=%d tag=%d appears twice", r.Time, r.row.tag[1]))
			return
		}
		seen[pos] = true
		if !eligible(pos) {
			viol("row-outside-window", fmt.Sprintf("row time=%d tag=%d is not strictly between the markers", r.Time, r.row.tag[1]))
			return
		}
		if i > 0 && ((!c.fromEnd && gotPos[i-1] >= pos) || (c.fromEnd && gotPos[i-1] <= pos)) {
			sig := "not-sorted"
			a, b := rows[i-1].rowRepr.Tags, r.rowRepr.Tags
			if (len(a) == 1 && a[0].Value != rows[i-1].row.tag[1]) || (len(b) == 1 && b[0].Value != r.row.tag[1]) {
				sig = "not-sorted-row-markers-share-tag-storage" // a row is sorted by a marker that carries another row's tags
			}
			viol(sig, fmt.Sprintf("rows %d and %d (time=%d tag=%d, time=%d tag=%d) are not in the requested direction; their markers: %+v, %+v", i-1, i, rows[i-1].Time, rows[i-1].row.tag[1], r.Time, r.row.tag[1], rows[i-1].rowRepr, r.rowRepr))
			return
		}
		for col := 0; col < c.nfun; col++ {
			g := c25GroupOfColumn(c.nfun, col)
			v := float64(r.Data[col])
			present := c.masks[g]&(1<<uint(pos)) != 0
			if math.IsNaN(v) {
				out.WriteByte('n')
				if present && consistent {
					viol("nan-for-existing-value", fmt.Sprintf("row time=%d tag=%d column %d is NaN although the storage returned the row", r.Time, r.row.tag[1], col))
					return
				}
				continue
			}
			out.WriteByte('v')
			if !present {
				viol("value-for-missing-row", fmt.Sprintf("row time=%d tag=%d column %d = %v although storage query %d has no such row", r.Time, r.row.tag[1], col, v, g))
				return
			}
			if want, ok := c25Expect(sortedFns[col], c25ID(g, pos)); ok && v != want {
				viol("value-in-wrong-column", fmt.Sprintf("row time=%d tag=%d column %d (function %d) = %v, want %v", r.Time, r.row.tag[1], col, sortedFns[col], v, want))
				return
			}
		}
		out.WriteByte(' ')
	}
	fmt.Fprintf(&out, "more=%v", hasMore)
	st.outcomes[out.String()] = struct{}{}
	if !consistent {
		// the second storage query saw a different row set: page, limit and has-more are left open
		st.nontrivial++
		return
	}
	// ---- clauses: window + limit (the page) and has-more
	var E []int
	for _, p := range order {
		if c.masks[0]&(1<<uint(p)) != 0 && eligible(p) {
			E = append(E, p)
		}
	}
	want := E
	if len(want) > c.limit {
		want = want[:c.limit]
	}
	if len(rows) > c.limit {
		viol("limit-exceeded", fmt.Sprintf("%d rows for limit %d", len(rows), c.limit))
		return
	}
	same := len(want) == len(gotPos)
	for i := 0; same && i < len(want); i++ {
		same = want[i] == gotPos[i]
	}
	if !same {
		if c.fromEnd && c.handlerOrder && len(c.split) > 1 {
			viol("from-end-page-filled-from-oldest-lod", fmt.Sprintf("page %v, want %v (positions = slot*2+tag-1)", gotPos, want))
		} else {
			viol("wrong-page", fmt.Sprintf("page %v, want the first %d rows of the window in the requested direction %v", gotPos, c.limit, want))
		}
		return
	}
	if len(E) > c.limit && !hasMore {
		viol("has-more-missing", fmt.Sprintf("%d rows in the window, limit %d, has-more not set", len(E), c.limit))
		return
	}
	if len(E) <= c.limit && hasMore {
		// is there any storage row at all after the last row of the page, in the requested direction?
		last := math.MinInt32
		if len(want) > 0 {
			last = want[len(want)-1]
		}
		further := false
		for _, p := range order {
			if c.masks[0]&(1<<uint(p)) == 0 {
				continue
			}
			if len(want) == 0 || (!c.fromEnd && p > last) || (c.fromEnd && p < last) {
				further = true
			}
		}
		if !further {
			viol("has-more-without-further-rows", fmt.Sprintf("has-more set, but the storage holds no row after the page %v", gotPos))
			return
		}
		st.notes["has_more_set_while_remaining_rows_are_outside_window"]++
	}
	if len(c.split) > 1 || c.lo != c25Unset || c.hi != c25Unset || len(E) > c.limit {
		st.nontrivial++
	}
}

func c25Splits(slots int) [][]int {
	var out [][]int
	out = append(out, []int{slots})
	for a := 1; a < slots; a++ {
		out = append(out, []int{a, slots - a})
	}
	for a := 1; a < slots; a++ {
		for b := 1; a+b < slots; b++ {
			out = append(out, []int{a, b, slots - a - b})
		}
	}
	return out
}

func TestVerifC25(t *testing.T) {
	rep := mc.NewReport("C25")
	rep.Rule = "every split of a timeline of S one-second slots into 1-3 LODs x every storage output (subset of the S x {tag 1, tag 2} row universe, rows ordered as the SQL orders them) x requested functions {1,2,3 = one storage query; 8,9 = two storage queries} x second query's output {same, every single-row difference (with a few marker combinations)} x lower and upper exclusive row markers {unset, before all, every universe row, after all; thorough: also markers without tags} x both directions x limits x LOD order {as handleGetTable passes it, ascending}. Non-trivial = more than one LOD, or a marker set, or more rows in the window than the limit, or storage queries that disagree"
	thorough := mc.Thorough()
	slots := mc.Pick(3, 4)
	limits := mc.Pick([]int{1, 2, 5}, []int{1, 2, 3, 5})
	rep.Bounds["slots"] = slots
	rep.Bounds["limits"] = limits
	rep.Bounds["functions"] = []int{1, 2, 3, 8, 9}
	rep.Assume("storage returns each row inside the time range of the LOD it was asked for, one row per (time, tags), ordered by (time, tags) in the requested direction; values are encoded so that every (storage query, row) has its own number")
	loc := time.UTC
	metric := &format.MetricMetaValue{Tags: []format.MetricMetaTag{{}, {RawKind: "int"}, {RawKind: "int"}}}
	P := 2 * slots
	splits := c25Splits(slots)
	type unit struct {
		split []int
		mask  uint32
	}
	var units []unit
	for _, sp := range splits {
		for m := uint32(0); m < 1<<uint(P); m++ {
			units = append(units, unit{sp, m})
		}
	}
	var mu sync.Mutex
	total := c25NewStats()
	positions := []int{c25Unset}
	for p := -1; p <= P; p++ {
		positions = append(positions, p)
	}
	ch := make(chan int, len(units))
	for i := range units {
		ch <- i
	}
	close(ch)
	var wg sync.WaitGroup
	capped := false
	for w := 0; w < runtime.GOMAXPROCS(0); w++ {
		wg.Add(1)
		go func() {
			defer wg.Done()
			h := &requestHandler{Handler: &Handler{HandlerOptions: HandlerOptions{location: loc}}}
			st := c25NewStats()
			for i := range ch {
				if mc.Expired() {
					mu.Lock()
					capped = true
					mu.Unlock()
					continue
				}
				u := units[i]
				for _, nfun := range []int{1, 2, 3, 8, 9} {
					// second storage query: same rows, or one row more / one row less
					seconds := []uint32{u.mask}
					if nfun > 7 {
						for b := 0; b < P; b++ {
							seconds = append(seconds, u.mask^(1<<uint(b)))
						}
					}
					for si, m2 := range seconds {
						for _, lo := range positions {
							for _, hi := range positions {
								if si > 0 && !((lo == c25Unset || lo == 1 || (thorough && lo == 2)) && (hi == c25Unset || hi == P-2 || (thorough && hi == P-3))) {
									continue // disagreeing queries: a few marker combinations only
								}
								for _, fromEnd := range []bool{false, true} {
									for _, lim := range limits {
										orders := []bool{true}
										if fromEnd && len(u.split) > 1 {
											orders = []bool{true, false}
										}
										for _, ho := range orders {
											timeOnly := []bool{false}
											if thorough && nfun == 1 {
												timeOnly = []bool{false, true}
											}
											for _, to := range timeOnly {
												c := c25Case{slots: slots, split: u.split, masks: [2]uint32{u.mask, m2}, lo: lo, hi: hi,
													loTimeOnly: to && lo != c25Unset, hiTimeOnly: to && hi != c25Unset,
													fromEnd: fromEnd, limit: lim, nfun: nfun, handlerOrder: ho}
												if to && lo == c25Unset && hi == c25Unset {
													continue
												}
												c25Run(rep, st, h, loc, metric, &c)
											}
										}
									}
								}
							}
						}
					}
				}
			}
			mu.Lock()
			total.calls += st.calls
			total.nontrivial += st.nontrivial
			for k := range st.outcomes {
				total.outcomes[k] = struct{}{}
			}
			for k, v := range st.notes {
				total.notes[k] += v
			}
			for k := 0; k < 2; k++ {
				total.deferredCount[k] += st.deferredCount[k]
				for _, v := range st.deferred[k] {
					total.deferred[k] = c25Keep(total.deferred[k], v)
				}
			}
			for _, v := range st.immediate {
				total.immediate = c25Keep(total.immediate, v)
			}
			mu.Unlock()
		}()
	}
	wg.Wait()
	if capped {
		rep.Cap("wall_budget")
	}
	// ---- larger pages: more than 12 rows (sort.Sort is an insertion sort up to 12 elements)
	{
		h := &requestHandler{Handler: &Handler{HandlerOptions: HandlerOptions{location: loc}}}
		const big = 8
		all := uint32(1<<(2*big) - 1)
		for _, sp := range [][]int{{big}, {3, 5}, {2, 3, 3}} {
			for _, m := range []uint32{all, all &^ 0b100, all &^ (1 << 15), 0b0111_1111_1111_1110, 0b1011_0111_1110_1101} {
				for _, nfun := range []int{1, 3, 9} {
					for _, fromEnd := range []bool{false, true} {
						for _, lim := range []int{13, 16, 100} {
							for _, mk := range [][2]int{{c25Unset, c25Unset}, {0, c25Unset}, {c25Unset, 15}, {1, 14}} {
								orders := []bool{true}
								if fromEnd && len(sp) > 1 {
									orders = []bool{true, false}
								}
								for _, ho := range orders {
									c := c25Case{slots: big, split: sp, masks: [2]uint32{m, m}, lo: mk[0], hi: mk[1], fromEnd: fromEnd, limit: lim, nfun: nfun, handlerOrder: ho}
									c25Run(rep, total, h, loc, metric, &c)
								}
							}
						}
					}
				}
			}
		}
	}
	// ---- from-end requests over several LODs: publish the findings of the caller's convention
	conv, why := c25HandlerConvention()
	rep.Bounds["lod_order_of_from_end_requests"] = conv + ": " + why
	rep.Bounds["from_end_multi_lod_failures_if_lods_ascending"] = total.deferredCount[0]
	rep.Bounds["from_end_multi_lod_failures_if_lods_reversed"] = total.deferredCount[1]
	pub := -1
	switch conv {
	case "ascending":
		pub = 0
	case "reversed":
		pub = 1
	default:
		rep.Assume("could not read from handler.go in which order handleGetTable passes the LODs of a from-end request (" + why + "); accepted if getTableFromLODs is right for one of the two orders")
		if total.deferredCount[0] > 0 && total.deferredCount[1] > 0 {
			pub = 0
			if total.deferredCount[1] < total.deferredCount[0] {
				pub = 1
			}
		}
	}
	byCase := func(l []c25Viol) {
		sort.Slice(l, func(i, j int) bool {
			if l[i].sig != l[j].sig {
				return l[i].sig < l[j].sig
			}
			return l[i].cs < l[j].cs
		})
	}
	byCase(total.immediate)
	for _, v := range total.immediate {
		rep.Violate("C25:"+v.sig, v.msg+" ["+v.cs+"]", map[string]any{"case": v.cs})
	}
	if pub >= 0 {
		byCase(total.deferred[pub])
		for _, v := range total.deferred[pub] {
			rep.Violate("C25:"+v.sig, v.msg+" ["+v.cs+"]", map[string]any{"case": v.cs, "lod_order": conv + ": " + why})
		}
	}
	for k := range total.outcomes {
		rep.Outcome(k)
	}
	rep.Bounds["lod_splits"] = len(splits)
	rep.Bounds["storage_outputs"] = 1 << uint(P)
	rep.Bounds["marker_positions"] = len(positions)
	rep.Bounds["open_cases_counted"] = total.notes
	rep.Sample(map[string]any{"case": (&c25Case{slots: slots, split: splits[len(splits)-1], masks: [2]uint32{0b101101, 0b101101}, lo: 1, hi: c25Unset, fromEnd: true, limit: 2, nfun: 3, handlerOrder: true}).String()})
	// ---- family "storage bucket order": two-tag keys, every arrangement of the rows of a time bucket
	pCalls, pNontrivial := c25PermFamily(rep, conv)
	rep.AddCounts(total.calls+pCalls, total.calls+pCalls, total.calls+pCalls, total.nontrivial+pNontrivial)
	if err := rep.Write(); err != nil {
		t.Fatal(err)
	}
	t.Logf("C25: calls=%d nontrivial=%d outcomes=%d notes=%v violations=%d", total.calls, total.nontrivial, len(total.outcomes), total.notes, rep.NumViolations())
}
