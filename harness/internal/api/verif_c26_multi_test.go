//go:build verif

package api

// C26, part 5: several filtered tags in ONE query.
//
// Parts 1-4 (verif_c26_test.go) put one enumerated filter (plus a constant one on tag 0) into a query, so anything the
// builder carries from one filtered tag to the next inside a writeTagFilter call is invisible there. This part
// enumerates every ascending sequence of 2 (thorough: also 3) filtered tags over the tag kinds
//   P  declared plain tag          R  declared raw tag ("int")        W  declared raw64 tag ("int64", two columns)
//   U  index that the metric does not declare (>= len(metric.Tags))   S  the string-top tag (index 47, `_s`)
// x polarity of every tag x a menu of value lists (empty / mapped / unmapped string / string+mapping / string with a
// missing mapping / regexp and combinations) x every slot over two user strings. The metric is built per layout:
// tag 0, then the declared filtered tags in the order of the sequence, then one unfiltered plain tag (the tag whose
// values the tag-values queries ask for); U is the first (second) index after the declared ones + 1, S is 47.
// Oracle: the same clauses as parts 1-4; the WHERE clause is evaluated on the PRODUCT of the tag-state grids of all
// filtered tags (mapped ids, the empty value, unmapped strings incl. every user string of the case), reference =
// conjunction of the per-tag inclusion / exclusion definitions (an undeclared index and the string-top tag behave
// as plain tags: the metric does not declare them raw). When a case fails although each of its filters alone (same
// metric, same strings, same rows) is translated correctly, the violation is named
// C26:tag-filters-interfere:<clause>.

import (
	"fmt"
	"strconv"
	"strings"
	"sync"
	"sync/atomic"

	"github.com/VKCOM/statshouse/internal/data_model"
	"github.com/VKCOM/statshouse/internal/format"
	"github.com/VKCOM/statshouse/internal/verif/mc"
)

const (
	c26LP = iota // declared plain
	c26LR        // declared raw
	c26LW        // declared raw64
	c26LU        // undeclared index
	c26LS        // string-top
	c26NumLKinds
)

var c26LNames = [...]string{"plain", "raw", "raw64", "undeclared", "stringtop"}

// reference semantics of a layout kind
var c26LTagKind = [...]int{c26TagPlain, c26TagRaw, c26TagRaw64, c26TagPlain, c26TagPlain}

type c26MFilter struct {
	kinds []int
	re    bool
}

type c26MTag struct {
	lkind int
	notIn bool
	f     c26MFilter
}

type c26MShape struct {
	query   int
	tags    []c26MTag
	reduced bool // smaller row grid (triples)

	nameOnce sync.Once
	name     string
	refOnce  sync.Once
	ref      *c26Ref
	layOnce  sync.Once
	lay      *c26Layout
}

type c26Layout struct {
	metric *format.MetricMetaValue
	index  []int // column index of every filtered tag
	value  int   // index of the unfiltered plain tag (tag-values queries)
	cols   []int // every tag index a row must define
}

var c26LayoutCache sync.Map

// c26LayoutOf builds (once per kind sequence) the metric of a shape.
func c26LayoutOf(lkinds []int) *c26Layout {
	key := fmt.Sprint(lkinds)
	if v, ok := c26LayoutCache.Load(key); ok {
		return v.(*c26Layout)
	}
	l := &c26Layout{}
	tags := []format.MetricMetaTag{{}}
	for _, k := range lkinds {
		switch k {
		case c26LP:
			l.index = append(l.index, len(tags))
			tags = append(tags, format.MetricMetaTag{})
		case c26LR:
			l.index = append(l.index, len(tags))
			tags = append(tags, format.MetricMetaTag{RawKind: "int"})
		case c26LW:
			l.index = append(l.index, len(tags))
			tags = append(tags, format.MetricMetaTag{RawKind: "int64"}, format.MetricMetaTag{})
		default:
			l.index = append(l.index, -1)
		}
	}
	l.value = len(tags)
	tags = append(tags, format.MetricMetaTag{})
	next := len(tags) + 1
	for i, k := range lkinds {
		switch k {
		case c26LU:
			l.index[i] = next
			next++
		case c26LS:
			l.index[i] = format.StringTopTagIndexV3
		}
	}
	for i := 0; i <= next; i++ {
		l.cols = append(l.cols, i)
	}
	l.cols = append(l.cols, format.StringTopTagIndexV3)
	l.metric = &format.MetricMetaValue{MetricID: 1000, Name: "c26_metric_" + strings.Trim(strings.ReplaceAll(key, " ", "_"), "[]"), Tags: tags}
	_ = l.metric.RestoreCachedInfo()
	v, _ := c26LayoutCache.LoadOrStore(key, l)
	return v.(*c26Layout)
}

func (s *c26MShape) layout() *c26Layout {
	s.layOnce.Do(func() {
		lk := make([]int, len(s.tags))
		for i, t := range s.tags {
			lk[i] = t.lkind
		}
		s.lay = c26LayoutOf(lk)
	})
	return s.lay
}

func (s *c26MShape) String() string {
	s.nameOnce.Do(func() {
		var parts []string
		for _, t := range s.tags {
			var p []string
			for _, x := range t.f.kinds {
				p = append(p, c26KindNames[x])
			}
			if t.f.re {
				p = append(p, "RE")
			}
			pol := "in"
			if t.notIn {
				pol = "notin"
			}
			parts = append(parts, c26LNames[t.lkind]+"/"+pol+"["+strings.Join(p, ",")+"]")
		}
		s.name = c26QueryNames[s.query] + "/multi:" + strings.Join(parts, "+")
	})
	return s.name
}

func (s *c26MShape) slots() int {
	n := 0
	for _, t := range s.tags {
		n += c26SlotsOf(t.f.kinds, t.f.re)
	}
	return n
}

// c26MBuild runs the real builder; only the filters whose bit is set in mask are put into the query (the slot
// numbering does not depend on the mask).
func c26MBuild(s *c26MShape, slots []string, mask uint) (sql string, reqs []c26Req, panicked string) {
	defer func() {
		if p := recover(); p != nil {
			panicked = fmt.Sprint(p)
		}
	}()
	l := s.layout()
	b := &queryBuilder{
		metric:    l.metric,
		user:      "verif",
		what:      tsWhat{data_model.DigestSelector{What: data_model.DigestCount}},
		utcOffset: 0,
	}
	next := 0
	reqs = make([]c26Req, len(s.tags))
	for i, t := range s.tags {
		if mask&(1<<uint(i)) == 0 {
			next += c26SlotsOf(t.f.kinds, t.f.re)
			continue
		}
		tf := &b.filterIn
		if t.notIn {
			tf = &b.filterNotIn
		}
		reqs[i] = c26FillFilter(tf, l.index[i], c26LTagKind[t.lkind], t.f.kinds, t.f.re, slots, &next)
	}
	lod := data_model.LOD{FromSec: 1000, ToSec: 2000, StepSec: 60, Version: data_model.Version6, Metric: l.metric}
	switch s.query {
	case c26QSeries, c26QSeriesBy:
		if s.query == c26QSeriesBy {
			// grouped by every filtered tag
			for i := range s.tags {
				b.by = append(b.by, l.index[i])
			}
		}
		q, err := b.buildSeriesQuery(lod, " SETTINGS optimize_aggregation_in_order=1")
		if err != nil {
			return "", reqs, "error: " + err.Error()
		}
		sql = q.body
	case c26QTagValues, c26QTagValueIDs:
		b.tag = l.metric.Tags[l.value]
		b.numResults = 10
		if s.query == c26QTagValues {
			sql = b.buildTagValuesQuery(lod, " SETTINGS optimize_aggregation_in_order=1").body
		} else {
			sql = b.buildTagValueIDsQuery(lod, " SETTINGS optimize_aggregation_in_order=1").body
		}
	}
	return sql, reqs, ""
}

func (s *c26MShape) all() uint { return 1<<uint(len(s.tags)) - 1 }

func c26MRefOf(s *c26MShape) *c26Ref {
	s.refOnce.Do(func() {
		s.ref = c26MakeRefWith(s.slots(), func(markers []string) (string, string) {
			sql, _, pan := c26MBuild(s, markers, s.all())
			return sql, pan
		})
	})
	return s.ref
}

// c26MStates: the states of one filtered tag on the row grid.
func c26MStates(lkind int, strs []string, reduced bool) []c26TagState {
	var out []c26TagState
	switch lkind {
	case c26LP, c26LU, c26LS:
		ids := []int64{0, 5, 6, 7}
		fixed := []string{"a", "xay"}
		if reduced {
			ids = []int64{0, 5, 7}
			fixed = []string{"xay"}
		}
		for _, i := range ids {
			out = append(out, c26TagState{i: i})
		}
		seen := map[string]bool{"": true}
		for _, s := range append(fixed, strs...) {
			if !seen[s] {
				seen[s] = true
				out = append(out, c26TagState{s: s})
			}
		}
	case c26LR:
		ids := []int64{0, 5, 6, format.TagValueIDDoesNotExist, 7}
		if reduced {
			ids = []int64{0, 5, 7}
		}
		for _, i := range ids {
			out = append(out, c26TagState{i: i})
		}
	case c26LW:
		los, his := []int64{0, 5, -1}, []int64{0, 1, -1}
		if reduced {
			los, his = []int64{0, 5}, []int64{0, 1}
		}
		for _, lo := range los {
			for _, hi := range his {
				out = append(out, c26TagState{i: lo, hi: hi})
			}
		}
	}
	return out
}

// c26MEval evaluates the WHERE clause of one build (filters of mask) on the product grid. It returns the first
// disagreement with the reference ("" = none): sig, message.
func c26MEval(cnt *c26Counters, s *c26MShape, toks []c26Tok, reqs []c26Req, mask uint, userSlots []string, count bool) (sig, msg string) {
	where, perr := c26Where(toks)
	if perr != "" {
		return "C26:where-clause-does-not-parse", perr
	}
	l := s.layout()
	row := c26Row{
		"time": {kind: 'i', i: 1500}, "index_type": {kind: 'i'}, "pre_tag": {kind: 'i'}, "pre_stag": {kind: 's'}, "metric": {kind: 'i', i: 1000},
	}
	for _, i := range l.cols {
		row["tag"+strconv.Itoa(i)] = c26Val{kind: 'i'}
		row["stag"+strconv.Itoa(i)] = c26Val{kind: 's'}
	}
	n := len(s.tags)
	grids := make([][]c26TagState, n)
	names := make([][3]string, n)
	for i, t := range s.tags {
		grids[i] = c26MStates(t.lkind, userSlots, s.reduced)
		x := l.index[i]
		names[i] = [3]string{"tag" + strconv.Itoa(x), "stag" + strconv.Itoa(x), "tag" + strconv.Itoa(x+1)}
	}
	idx := make([]int, n)
	var rows, asserted, open int64
	defer func() {
		if count {
			atomic.AddInt64(&cnt.rows, rows)
			atomic.AddInt64(&cnt.semantic, asserted)
			atomic.AddInt64(&cnt.open, open)
		}
	}()
	describe := func() string {
		var p []string
		for i := range s.tags {
			st := grids[i][idx[i]]
			p = append(p, fmt.Sprintf("%s=%d hi=%d %s=%s", names[i][0], st.i, st.hi, names[i][1], c26Q(st.s)))
		}
		return strings.Join(p, ", ")
	}
	for {
		for i := range s.tags {
			st := grids[i][idx[i]]
			row[names[i][0]] = c26Val{kind: 'i', i: st.i}
			row[names[i][1]] = c26Val{kind: 's', s: st.s}
			if s.tags[i].lkind == c26LW {
				row[names[i][2]] = c26Val{kind: 'i', i: st.hi}
			}
		}
		rows++
		got := where(row)
		if got.kind != 'b' {
			return "C26:where-clause-ill-typed", fmt.Sprintf("evaluating the WHERE clause on row %s: %s", describe(), got.s)
		}
		// conjunction: a filter that definitely rejects the row decides; otherwise an open one leaves the row open
		want := 1
		for i, t := range s.tags {
			if mask&(1<<uint(i)) == 0 || c26Empty(&reqs[i]) {
				continue
			}
			m := c26Matches(&reqs[i], grids[i][idx[i]], c26LTagKind[t.lkind])
			switch {
			case m == -1:
				if want == 1 {
					want = -1
				}
			case (m == 1) == t.notIn:
				want = 0
			}
		}
		if want == -1 {
			open++
		} else {
			asserted++
			if got.b != (want == 1) {
				kind := "where-selects-row-that-does-not-match"
				if want == 1 {
					kind = "where-drops-row-that-matches"
				}
				return "C26:" + kind, fmt.Sprintf("row %s: WHERE gives %v, the requested filters give %v", describe(), got.b, want == 1)
			}
		}
		i := n - 1
		for ; i >= 0; i-- {
			idx[i]++
			if idx[i] < len(grids[i]) {
				break
			}
			idx[i] = 0
		}
		if i < 0 {
			return "", ""
		}
	}
}

// c26MCheck runs the whole oracle on one multi-tag case.
func c26MCheck(rep *mc.Report, cnt *c26Counters, s *c26MShape, slots []string) {
	atomic.AddInt64(&cnt.builds, 1)
	shape := s.String()
	key := shape + "|" + strings.Join(slots, "\x00")
	caseDetail := func() map[string]any {
		q := make([]string, len(slots))
		for i, x := range slots {
			q[i] = c26Q(x)
		}
		l := s.layout()
		var tags []string
		for i, t := range l.metric.Tags {
			k := "plain"
			if t.Raw64() {
				k = "raw64"
			} else if t.Raw() {
				k = "raw"
			}
			tags = append(tags, strconv.Itoa(i)+":"+k)
		}
		return map[string]any{"shape": shape, "user_strings": q, "metric_tags": strings.Join(tags, " "), "filtered_tag_indices": fmt.Sprint(l.index)}
	}
	ref := c26MRefOf(s)
	if ref.problem != "" {
		cnt.violate("C26:marker-build:"+strings.SplitN(ref.problem, ":", 2)[0], shape, "shape "+shape+": "+ref.problem, caseDetail())
		return
	}
	sql, reqs, pan := c26MBuild(s, slots, s.all())
	if pan != "" {
		cnt.violate("C26:builder-panics-or-fails", key, fmt.Sprintf("shape %s, user strings %v: %s", shape, caseDetail()["user_strings"], pan), caseDetail())
		return
	}
	fail := func(sig, msg string) {
		d := caseDetail()
		d["sql"] = c26Q(sql)
		cnt.violate(sig, key, fmt.Sprintf("shape %s, user strings %v: %s; query: %s", shape, d["user_strings"], msg, c26Q(sql)), d)
	}
	toks, ok := c26Structure(ref, sql, slots, fail)
	if !ok {
		return
	}
	for i := range reqs {
		if r := reqs[i].re; r != "" && c26Regexp(r) == nil {
			atomic.AddInt64(&cnt.invalidRe, 1)
			return
		}
	}
	sig, msg := c26MEval(cnt, s, toks, reqs, s.all(), slots, true)
	if sig == "" {
		return
	}
	// attribution: is every filter of the case translated correctly when it is the only one?
	alone := true
	for i := range s.tags {
		sql1, reqs1, pan1 := c26MBuild(s, slots, 1<<uint(i))
		if pan1 != "" {
			alone = false
			break
		}
		toks1, lerr := c26Lex(sql1)
		if lerr != "" {
			alone = false
			break
		}
		if sg, _ := c26MEval(cnt, s, toks1, reqs1, 1<<uint(i), slots, false); sg != "" {
			alone = false
			break
		}
	}
	if alone {
		sig = "C26:tag-filters-interfere:" + strings.TrimPrefix(sig, "C26:")
		msg += " (each of the filters alone, in the same query kind on the same metric, is translated correctly)"
	}
	fail(sig, msg)
}

// ---------------------------------------------------------------------------------------
// enumeration

// c26MSequences: every ascending sequence of n filtered tags: declared kinds in any order (with repetition), then
// undeclared indices (at most two), then the string-top tag (at most once).
func c26MSequences(n int) [][]int {
	var out [][]int
	var rec func(cur []int)
	rec = func(cur []int) {
		if len(cur) == n {
			out = append(out, append([]int{}, cur...))
			return
		}
		last, nu := -1, 0
		for _, k := range cur {
			last = k
			if k == c26LU {
				nu++
			}
		}
		for k := 0; k < c26NumLKinds; k++ {
			switch {
			case k <= c26LW && last > c26LW: // declared after undeclared / string-top: indices would not ascend
				continue
			case k == c26LU && (last == c26LS || nu >= 2):
				continue
			case k == c26LS && last == c26LS:
				continue
			}
			rec(append(cur, k))
		}
	}
	rec(nil)
	return out
}

// c26MMenu: the value lists of one filtered tag. level 0 (triples): 6 entries; level 1 (quick pairs): every list of
// <= 1 value x optional regexp + three two-value lists; level 2 (thorough pairs): every unordered list of <= 2
// values over {E, M1, SV, MV1, MVX} and {M1, M2}, x optional regexp (ordered lists are part 2's business).
func c26MMenu(level int) []c26MFilter {
	switch level {
	case 0:
		return []c26MFilter{
			{[]int{c26KE}, false}, {[]int{c26KM1}, false}, {[]int{c26KSV}, false}, {[]int{c26KMV1}, false}, {nil, true}, {[]int{c26KE, c26KSV}, false},
		}
	case 1:
		var out []c26MFilter
		singles := []int{c26KE, c26KM1, c26KSV, c26KMV1, c26KMVX}
		for _, re := range []bool{false, true} {
			if re {
				out = append(out, c26MFilter{nil, true})
			}
			for _, k := range singles {
				out = append(out, c26MFilter{[]int{k}, re})
			}
		}
		out = append(out, c26MFilter{[]int{c26KE, c26KSV}, false}, c26MFilter{[]int{c26KM1, c26KSV}, false}, c26MFilter{[]int{c26KE, c26KM1}, false})
		return out
	}
	var lists [][]int
	five := []int{c26KE, c26KM1, c26KSV, c26KMV1, c26KMVX}
	lists = append(lists, nil)
	for i, a := range five {
		lists = append(lists, []int{a})
		for _, b := range five[i:] {
			lists = append(lists, []int{a, b})
		}
	}
	lists = append(lists, []int{c26KM1, c26KM2})
	var out []c26MFilter
	for _, l := range lists {
		for _, re := range []bool{false, true} {
			if len(l) == 0 && !re {
				continue
			}
			out = append(out, c26MFilter{l, re})
		}
	}
	return out
}

// the two user strings of a slot in this part: a harmless one that the fixed row `xay` contains, and a hostile one
// (backslash + quote) that is also a valid regular expression (it matches a quote).
var c26MStrings = []string{"a", `\'`}

type c26MCase struct {
	shape *c26MShape
	slots []string
}

// c26MCases enumerates part 5.
func c26MCases() (cases []c26MCase, shapes int, bounds map[string]any) {
	type family struct {
		name    string
		n       int
		menu    []c26MFilter
		queries []int
		reduced bool
	}
	two := []int{c26QSeries, c26QTagValues}
	fams := []family{{"pairs", 2, c26MMenu(mc.Pick(1, 2)), two, false}}
	if mc.Thorough() {
		fams = append(fams,
			family{"pairs_other_queries", 2, c26MMenu(1), []int{c26QSeriesBy, c26QTagValueIDs}, false},
			family{"triples", 3, c26MMenu(0), two, true})
	}
	bounds = map[string]any{}
	for _, fam := range fams {
		seqs := c26MSequences(fam.n)
		bounds["multi_tag_"+fam.name+"_kind_sequences"] = len(seqs)
		bounds["multi_tag_"+fam.name+"_value_list_menu"] = len(fam.menu)
		for _, q := range fam.queries {
			for _, seq := range seqs {
				for pol := 0; pol < 1<<uint(fam.n); pol++ {
					pick := make([]int, fam.n)
					for {
						s := &c26MShape{query: q, reduced: fam.reduced}
						for i, k := range seq {
							s.tags = append(s.tags, c26MTag{lkind: k, notIn: pol&(1<<uint(i)) != 0, f: fam.menu[pick[i]]})
						}
						shapes++
						n := s.slots()
						idx := make([]int, n)
						slots := make([]string, n)
						for {
							for i, k := range idx {
								slots[i] = c26MStrings[k]
							}
							cases = append(cases, c26MCase{s, append([]string{}, slots...)})
							i := n - 1
							for ; i >= 0; i-- {
								idx[i]++
								if idx[i] < len(c26MStrings) {
									break
								}
								idx[i] = 0
							}
							if i < 0 {
								break
							}
						}
						i := fam.n - 1
						for ; i >= 0; i-- {
							pick[i]++
							if pick[i] < len(fam.menu) {
								break
							}
							pick[i] = 0
						}
						if i < 0 {
							break
						}
					}
				}
			}
		}
	}
	return cases, shapes, bounds
}

