//go:build verif

package api

// C26: user-supplied filter values cannot change the structure of storage queries.
//
// Bounded exhaustive enumeration of hostile strings as filter values and regular expressions through the
// real query builders (buildSeriesQuery, buildTagValuesQuery, buildTagValueIDsQuery). Oracle, all written
// here and independent of the code under test:
//   1. a ClickHouse lexer (string literals with backslash escapes and doubled quotes, quoted identifiers,
//      comments, numbers, words, punctuation): the whole query text tokenises;
//   2. the token skeleton (string literals replaced by a placeholder) equals the skeleton of the same
//      filter shape built with harmless alphanumeric marker values;
//   3. every string literal is either a constant of the builder or sits at the position of exactly one
//      marker and decodes (ClickHouse unescaping rules) to exactly the user string of that slot;
//   4. an evaluator for the emitted WHERE clause agrees, on a small universe of rows, with a direct
//      definition of "row matches the requested inclusion / exclusion filter".

import (
	"fmt"
	"regexp"
	"runtime"
	"sort"
	"strconv"
	"strings"
	"sync"
	"sync/atomic"
	"testing"

	"github.com/VKCOM/statshouse/internal/data_model"
	"github.com/VKCOM/statshouse/internal/format"
	"github.com/VKCOM/statshouse/internal/verif/mc"
)

// ---------------------------------------------------------------------------------------
// ClickHouse lexer (the subset of Lexer.cpp that matters for these queries)

type c26Tok struct {
	kind byte   // 'w' word, 'n' number, 's' string literal, 'q' quoted identifier, 'p' punctuation
	text string // source text
	val  string // decoded value of a string literal
}

func c26IsWordStart(c byte) bool {
	return c == '_' || (c >= 'a' && c <= 'z') || (c >= 'A' && c <= 'Z')
}
func c26IsDigit(c byte) bool { return c >= '0' && c <= '9' }

// c26Unescape decodes the body of a quoted literal the way ClickHouse does (readQuotedStringInto /
// parseComplexEscapeSequence): \b \f \n \r \t \0 \a \v \e, \xHH, \N (empty), a backslash before
// \ ' " ` / = or a control character is dropped, before any other character it is kept; a doubled quote is one quote.
func c26Unescape(body string, quote byte) (string, bool) {
	var out []byte
	for i := 0; i < len(body); i++ {
		c := body[i]
		if c == quote {
			if i+1 < len(body) && body[i+1] == quote {
				out = append(out, quote)
				i++
				continue
			}
			return "", false
		}
		if c != '\\' {
			out = append(out, c)
			continue
		}
		if i+1 >= len(body) {
			return "", false
		}
		i++
		e := body[i]
		switch e {
		case 'b':
			out = append(out, '\b')
		case 'f':
			out = append(out, '\f')
		case 'n':
			out = append(out, '\n')
		case 'r':
			out = append(out, '\r')
		case 't':
			out = append(out, '\t')
		case '0':
			out = append(out, 0)
		case 'a':
			out = append(out, '\a')
		case 'v':
			out = append(out, '\v')
		case 'e':
			out = append(out, 0x1b)
		case 'N':
			// \N is parsed as the empty string
		case 'x':
			if i+2 > len(body)-1 {
				return "", false
			}
			v, err := strconv.ParseUint(body[i+1:i+3], 16, 8)
			if err != nil {
				return "", false
			}
			out = append(out, byte(v))
			i += 2
		default:
			if e == '\\' || e == '\'' || e == '"' || e == '`' || e == '/' || e == '=' || e < 0x20 || e == 0x7f {
				out = append(out, e)
			} else {
				out = append(out, '\\', e)
			}
		}
	}
	return string(out), true
}

// c26Lex tokenises a query. The error string names the first lexical problem.
func c26Lex(s string) ([]c26Tok, string) {
	var toks []c26Tok
	for i := 0; i < len(s); {
		c := s[i]
		switch {
		case c == ' ' || c == '\t' || c == '\n' || c == '\r' || c == '\f' || c == '\v':
			i++
		case c == '\'' || c == '"' || c == '`':
			j := i + 1
			closed := false
			for j < len(s) {
				if s[j] == '\\' {
					j += 2
					continue
				}
				if s[j] == c {
					if j+1 < len(s) && s[j+1] == c {
						j += 2
						continue
					}
					closed = true
					break
				}
				j++
			}
			if !closed || j >= len(s) {
				return toks, fmt.Sprintf("unterminated quoted token starting at byte %d", i)
			}
			body := s[i+1 : j]
			val, ok := c26Unescape(body, c)
			if !ok {
				return toks, fmt.Sprintf("bad escape sequence in quoted token starting at byte %d", i)
			}
			k := byte('s')
			if c != '\'' {
				k = 'q'
			}
			toks = append(toks, c26Tok{kind: k, text: s[i : j+1], val: val})
			i = j + 1
		case c == '-' && i+1 < len(s) && s[i+1] == '-':
			return toks, fmt.Sprintf("comment (--) at byte %d", i)
		case c == '/' && i+1 < len(s) && s[i+1] == '*':
			return toks, fmt.Sprintf("comment (/*) at byte %d", i)
		case c == '#':
			return toks, fmt.Sprintf("comment (#) at byte %d", i)
		case c26IsDigit(c):
			j := i
			for j < len(s) && (c26IsDigit(s[j]) || s[j] == '.') {
				j++
			}
			if j < len(s) && c26IsWordStart(s[j]) {
				return toks, fmt.Sprintf("malformed number at byte %d", i)
			}
			toks = append(toks, c26Tok{kind: 'n', text: s[i:j]})
			i = j
		case c26IsWordStart(c):
			j := i
			for j < len(s) && (c26IsWordStart(s[j]) || c26IsDigit(s[j])) {
				j++
			}
			toks = append(toks, c26Tok{kind: 'w', text: s[i:j]})
			i = j
		case strings.IndexByte("()[],.=<>!+-*/%?:^{}|;", c) >= 0:
			if i+1 < len(s) {
				two := s[i : i+2]
				if two == ">=" || two == "<=" || two == "!=" || two == "<>" || two == "==" || two == "||" || two == "->" {
					toks = append(toks, c26Tok{kind: 'p', text: two})
					i += 2
					continue
				}
			}
			if c == '!' {
				return toks, fmt.Sprintf("stray '!' at byte %d", i)
			}
			toks = append(toks, c26Tok{kind: 'p', text: string(c)})
			i++
		default:
			return toks, fmt.Sprintf("unrecognised byte 0x%02x outside a literal at byte %d", c, i)
		}
	}
	return toks, ""
}

func c26Skeleton(toks []c26Tok) string {
	var sb strings.Builder
	for i, t := range toks {
		if i > 0 {
			sb.WriteByte(' ')
		}
		if t.kind == 's' {
			sb.WriteByte('?')
		} else {
			sb.WriteString(t.text)
		}
	}
	return sb.String()
}

func c26SameSkeleton(a, b []c26Tok) bool {
	if len(a) != len(b) {
		return false
	}
	for i := range a {
		if a[i].kind != b[i].kind || (a[i].kind != 's' && a[i].text != b[i].text) {
			return false
		}
	}
	return true
}

// ---------------------------------------------------------------------------------------
// evaluator of the emitted WHERE clause

type c26Val struct {
	kind byte // 'i' int, 's' string, 'b' bool, 'x' error
	i    int64
	s    string
	b    bool
}

type c26Row map[string]c26Val

type c26Expr func(r c26Row) c26Val

func c26Err(msg string) c26Val { return c26Val{kind: 'x', s: msg} }

type c26Parser struct {
	toks  []c26Tok
	pos   int
	err   string
	alias map[string]c26Expr
}

func (p *c26Parser) peek() *c26Tok {
	if p.pos < len(p.toks) {
		return &p.toks[p.pos]
	}
	return nil
}

func (p *c26Parser) isWord(w string) bool {
	t := p.peek()
	return t != nil && t.kind == 'w' && strings.EqualFold(t.text, w)
}

func (p *c26Parser) isPunct(s string) bool {
	t := p.peek()
	return t != nil && t.kind == 'p' && t.text == s
}

func (p *c26Parser) fail(msg string) c26Expr {
	if p.err == "" {
		p.err = fmt.Sprintf("%s at token %d", msg, p.pos)
	}
	return func(c26Row) c26Val { return c26Err("parse error") }
}

func (p *c26Parser) expect(s string) bool {
	if p.isPunct(s) {
		p.pos++
		return true
	}
	p.fail("expected " + s)
	return false
}

func (p *c26Parser) parseOr() c26Expr {
	l := p.parseAnd()
	for p.isWord("OR") {
		p.pos++
		r := p.parseAnd()
		ll := l
		l = func(row c26Row) c26Val {
			a, b := ll(row), r(row)
			if a.kind != 'b' || b.kind != 'b' {
				return c26Err("OR of non-boolean")
			}
			return c26Val{kind: 'b', b: a.b || b.b}
		}
	}
	return l
}

func (p *c26Parser) parseAnd() c26Expr {
	l := p.parseNot()
	for p.isWord("AND") {
		p.pos++
		r := p.parseNot()
		ll := l
		l = func(row c26Row) c26Val {
			a, b := ll(row), r(row)
			if a.kind != 'b' || b.kind != 'b' {
				return c26Err("AND of non-boolean")
			}
			return c26Val{kind: 'b', b: a.b && b.b}
		}
	}
	return l
}

func (p *c26Parser) parseNot() c26Expr {
	if p.isWord("NOT") {
		p.pos++
		e := p.parseNot()
		return func(row c26Row) c26Val {
			a := e(row)
			if a.kind != 'b' {
				return c26Err("NOT of non-boolean")
			}
			return c26Val{kind: 'b', b: !a.b}
		}
	}
	return p.parseCmp()
}

func c26Equal(a, b c26Val) (bool, bool) {
	if a.kind != b.kind || (a.kind != 'i' && a.kind != 's') {
		return false, false
	}
	if a.kind == 'i' {
		return a.i == b.i, true
	}
	return a.s == b.s, true
}

func (p *c26Parser) parseCmp() c26Expr {
	l := p.parsePrimary()
	t := p.peek()
	if t == nil {
		return l
	}
	if t.kind == 'p' {
		switch t.text {
		case "=", "!=", "<", "<=", ">", ">=":
			op := t.text
			p.pos++
			r := p.parsePrimary()
			return func(row c26Row) c26Val {
				a, b := l(row), r(row)
				if op == "=" || op == "!=" {
					eq, ok := c26Equal(a, b)
					if !ok {
						return c26Err("comparison of incompatible operands")
					}
					return c26Val{kind: 'b', b: eq == (op == "=")}
				}
				if a.kind != 'i' || b.kind != 'i' {
					return c26Err("ordering of non-integers")
				}
				var res bool
				switch op {
				case "<":
					res = a.i < b.i
				case "<=":
					res = a.i <= b.i
				case ">":
					res = a.i > b.i
				case ">=":
					res = a.i >= b.i
				}
				return c26Val{kind: 'b', b: res}
			}
		}
		return l
	}
	neg := false
	save := p.pos
	if p.isWord("NOT") {
		p.pos++
		if !p.isWord("IN") {
			p.pos = save
			return l
		}
		neg = true
	}
	if p.isWord("IN") {
		p.pos++
		if !p.expect("(") {
			return p.fail("IN without list")
		}
		var items []c26Expr
		for {
			items = append(items, p.parsePrimary())
			if p.isPunct(",") {
				p.pos++
				continue
			}
			break
		}
		if !p.expect(")") {
			return p.fail("unterminated IN list")
		}
		return func(row c26Row) c26Val {
			a := l(row)
			found := false
			for _, it := range items {
				eq, ok := c26Equal(a, it(row))
				if !ok {
					return c26Err("IN list of incompatible type")
				}
				if eq {
					found = true
				}
			}
			return c26Val{kind: 'b', b: found != neg}
		}
	}
	return l
}

func (p *c26Parser) parsePrimary() c26Expr {
	t := p.peek()
	if t == nil {
		return p.fail("unexpected end")
	}
	switch {
	case t.kind == 'n':
		p.pos++
		v, err := strconv.ParseInt(t.text, 10, 64)
		if err != nil {
			return p.fail("bad integer " + t.text)
		}
		return func(c26Row) c26Val { return c26Val{kind: 'i', i: v} }
	case t.kind == 'p' && t.text == "-":
		p.pos++
		n := p.peek()
		if n == nil || n.kind != 'n' {
			return p.fail("'-' without number")
		}
		p.pos++
		v, err := strconv.ParseInt("-"+n.text, 10, 64)
		if err != nil {
			return p.fail("bad integer")
		}
		return func(c26Row) c26Val { return c26Val{kind: 'i', i: v} }
	case t.kind == 's':
		p.pos++
		v := t.val
		return func(c26Row) c26Val { return c26Val{kind: 's', s: v} }
	case t.kind == 'p' && t.text == "(":
		p.pos++
		e := p.parseOr()
		if !p.expect(")") {
			return p.fail("unbalanced parenthesis")
		}
		return e
	case t.kind == 'w':
		name := t.text
		up := strings.ToUpper(name)
		if up == "AND" || up == "OR" || up == "NOT" || up == "IN" {
			return p.fail("operator " + name + " where an operand is expected")
		}
		p.pos++
		if p.isPunct("(") {
			p.pos++
			var args []c26Expr
			if !p.isPunct(")") {
				for {
					args = append(args, p.parseOr())
					if p.isPunct(",") {
						p.pos++
						continue
					}
					break
				}
			}
			if !p.expect(")") {
				return p.fail("unterminated call")
			}
			return c26Call(name, args)
		}
		if a, ok := p.alias[name]; ok {
			return a
		}
		return func(row c26Row) c26Val {
			v, ok := row[name]
			if !ok {
				return c26Err("unknown column " + name)
			}
			return v
		}
	}
	return p.fail("unexpected token " + t.text)
}

var c26ReCache sync.Map

func c26Regexp(re string) *regexp.Regexp {
	if v, ok := c26ReCache.Load(re); ok {
		r, _ := v.(*regexp.Regexp)
		return r
	}
	r, err := regexp.Compile(re)
	if err != nil {
		r = nil
	}
	c26ReCache.Store(re, r)
	return r
}

func c26Call(name string, args []c26Expr) c26Expr {
	ints := func(row c26Row, n int) ([]int64, bool) {
		if len(args) != n {
			return nil, false
		}
		out := make([]int64, n)
		for i, a := range args {
			v := a(row)
			if v.kind != 'i' {
				return nil, false
			}
			out[i] = v.i
		}
		return out, true
	}
	switch name {
	case "toUInt32":
		return func(row c26Row) c26Val {
			v, ok := ints(row, 1)
			if !ok {
				return c26Err("toUInt32 arguments")
			}
			return c26Val{kind: 'i', i: int64(uint32(v[0]))}
		}
	case "toInt64":
		return func(row c26Row) c26Val {
			v, ok := ints(row, 1)
			if !ok {
				return c26Err("toInt64 arguments")
			}
			return c26Val{kind: 'i', i: v[0]}
		}
	case "bitShiftLeft":
		return func(row c26Row) c26Val {
			v, ok := ints(row, 2)
			if !ok {
				return c26Err("bitShiftLeft arguments")
			}
			return c26Val{kind: 'i', i: v[0] << uint(v[1])}
		}
	case "bitOr":
		return func(row c26Row) c26Val {
			v, ok := ints(row, 2)
			if !ok {
				return c26Err("bitOr arguments")
			}
			return c26Val{kind: 'i', i: v[0] | v[1]}
		}
	case "match":
		return func(row c26Row) c26Val {
			if len(args) != 2 {
				return c26Err("match arguments")
			}
			h, n := args[0](row), args[1](row)
			if h.kind != 's' || n.kind != 's' {
				return c26Err("match arguments")
			}
			re := c26Regexp(n.s)
			if re == nil {
				return c26Err("invalid regexp")
			}
			return c26Val{kind: 'b', b: re.MatchString(h.s)} // match() is an unanchored re2 search
		}
	}
	return func(c26Row) c26Val { return c26Err("unknown function " + name) }
}

// c26Where extracts and parses the WHERE clause of a tokenised query; `<expr> AS _tagN` aliases of the
// SELECT list are resolved (the series query filters a grouped raw64 tag through its alias).
func c26Where(toks []c26Tok) (c26Expr, string) {
	depth, from, to := 0, -1, len(toks)
	for i, t := range toks {
		if t.kind == 'p' && t.text == "(" {
			depth++
		} else if t.kind == 'p' && t.text == ")" {
			depth--
		}
		if depth == 0 && t.kind == 'w' {
			if strings.EqualFold(t.text, "WHERE") && from < 0 {
				from = i + 1
			} else if from >= 0 && strings.EqualFold(t.text, "GROUP") && to == len(toks) {
				to = i
			}
		}
	}
	if from < 0 || to <= from {
		return nil, "no WHERE ... GROUP BY section"
	}
	alias := map[string]c26Expr{}
	for i := 2; i+1 < from; i++ {
		if toks[i].kind == 'w' && strings.EqualFold(toks[i].text, "AS") && toks[i+1].kind == 'w' && strings.HasPrefix(toks[i+1].text, "_tag") &&
			toks[i-1].kind == 'p' && toks[i-1].text == ")" {
			d, j := 0, i-1
			for ; j >= 0; j-- {
				if toks[j].text == ")" && toks[j].kind == 'p' {
					d++
				} else if toks[j].text == "(" && toks[j].kind == 'p' {
					d--
					if d == 0 {
						break
					}
				}
			}
			if j >= 1 && toks[j-1].kind == 'w' {
				ap := &c26Parser{toks: toks[j-1 : i], alias: map[string]c26Expr{}}
				e := ap.parsePrimary()
				if ap.err == "" && ap.pos == len(ap.toks) {
					alias[toks[i+1].text] = e
				}
			}
		}
	}
	p := &c26Parser{toks: toks[from:to], alias: alias}
	e := p.parseOr()
	if p.err != "" {
		return nil, p.err
	}
	if p.pos != len(p.toks) {
		return nil, fmt.Sprintf("trailing tokens after the condition at token %d (%q)", p.pos, p.toks[p.pos].text)
	}
	return e, ""
}

// ---------------------------------------------------------------------------------------
// filter shapes

const (
	c26KE   = iota // empty value ("", 0)
	c26KM1         // mapped only, first id
	c26KM2         // mapped only, second id
	c26KSV         // string only (no mapping)                        -> user slot
	c26KMV1        // string with mapping to the first id             -> user slot
	c26KMVX        // string whose mapping does not exist (id = -2)   -> user slot
	c26NumKinds
)

var c26KindNames = [...]string{"E", "M1", "M2", "SV", "MV1", "MVX"}

const (
	c26TagPlain = iota // tag 1
	c26TagRaw          // tag 2, raw kind "int"
	c26TagRaw64        // tag 3 (+4), raw kind "int64"
	c26NumTagKinds
)

var c26TagKindNames = [...]string{"plain", "raw", "raw64"}
var c26TagIndex = [...]int{1, 2, 3}

const (
	c26QSeries = iota
	c26QSeriesBy
	c26QTagValues
	c26QTagValueIDs
	c26NumQueries
)

var c26QueryNames = [...]string{"series", "series-grouped-by-tag", "tag-values", "tag-value-ids"}

type c26Shape struct {
	query   int
	tagKind int
	notIn   bool
	kinds   []int
	re      bool
	// second filter of the opposite polarity on the same tag (part 4)
	kinds2 []int
	re2    bool

	nameOnce sync.Once
	name     string
	refOnce  sync.Once
	ref      *c26Ref
}

func (s *c26Shape) String() string {
	s.nameOnce.Do(func() { s.name = s.describe() })
	return s.name
}

func (s *c26Shape) describe() string {
	f := func(k []int, re bool) string {
		var p []string
		for _, x := range k {
			p = append(p, c26KindNames[x])
		}
		if re {
			p = append(p, "RE")
		}
		return "[" + strings.Join(p, ",") + "]"
	}
	pol := "in"
	if s.notIn {
		pol = "notin"
	}
	out := fmt.Sprintf("%s/%s/%s%s", c26QueryNames[s.query], c26TagKindNames[s.tagKind], pol, f(s.kinds, s.re))
	if len(s.kinds2) > 0 || s.re2 {
		out += "+opposite" + f(s.kinds2, s.re2)
	}
	return out
}

func c26SlotsOf(kinds []int, re bool) int {
	n := 0
	for _, k := range kinds {
		if k >= c26KSV {
			n++
		}
	}
	if re {
		n++
	}
	return n
}

func (s *c26Shape) slots() int { return c26SlotsOf(s.kinds, s.re) + c26SlotsOf(s.kinds2, s.re2) }

var c26Metric = func() *format.MetricMetaValue {
	m := &format.MetricMetaValue{MetricID: 1000, Name: "c26_metric", Tags: []format.MetricMetaTag{
		{}, {}, {RawKind: "int"}, {RawKind: "int64"}, {}, {},
	}}
	_ = m.RestoreCachedInfo()
	return m
}()

func c26Mapped(tagKind int) (m1, m2 int64) {
	if tagKind == c26TagRaw64 {
		return 5, 1<<32 | 5
	}
	return 5, 6
}

const c26CtxValue = `st'ag\` // constant hostile value of the context filter on tag 0

// requested filter as the reference sees it
type c26ReqValue struct {
	kind   int
	str    string
	mapped int64
}
type c26Req struct {
	values []c26ReqValue
	re     string
}

func c26FillFilter(tf *data_model.TagFilters, tagX int, tagKind int, kinds []int, re bool, slots []string, next *int) c26Req {
	m1, m2 := c26Mapped(tagKind)
	var req c26Req
	for _, k := range kinds {
		switch k {
		case c26KE:
			tf.Append(tagX, data_model.NewTagValue("", 0))
			req.values = append(req.values, c26ReqValue{kind: k})
		case c26KM1:
			tf.Append(tagX, data_model.NewTagValueM(m1))
			req.values = append(req.values, c26ReqValue{kind: k, mapped: m1})
		case c26KM2:
			tf.Append(tagX, data_model.NewTagValueM(m2))
			req.values = append(req.values, c26ReqValue{kind: k, mapped: m2})
		case c26KSV:
			tf.Append(tagX, data_model.NewTagValueS(slots[*next]))
			req.values = append(req.values, c26ReqValue{kind: k, str: slots[*next]})
			*next++
		case c26KMV1:
			tf.Append(tagX, data_model.NewTagValue(slots[*next], m1))
			req.values = append(req.values, c26ReqValue{kind: k, str: slots[*next], mapped: m1})
			*next++
		case c26KMVX:
			tf.Append(tagX, data_model.NewTagValue(slots[*next], format.TagValueIDDoesNotExist))
			req.values = append(req.values, c26ReqValue{kind: k, str: slots[*next], mapped: format.TagValueIDDoesNotExist})
			*next++
		}
	}
	if re {
		tf.Tags[tagX].Re2 = slots[*next]
		req.re = slots[*next]
		*next++
	}
	return req
}

// c26Build runs the real builder for a shape with the given slot strings.
func c26Build(s *c26Shape, slots []string) (sql string, in, notIn c26Req, panicked string) {
	defer func() {
		if p := recover(); p != nil {
			panicked = fmt.Sprint(p)
		}
	}()
	tagX := c26TagIndex[s.tagKind]
	b := &queryBuilder{
		metric:    c26Metric,
		user:      "verif",
		what:      tsWhat{data_model.DigestSelector{What: data_model.DigestCount}},
		utcOffset: 0,
	}
	next := 0
	first, second := &b.filterIn, &b.filterNotIn
	if s.notIn {
		first, second = second, first
	}
	r1 := c26FillFilter(first, tagX, s.tagKind, s.kinds, s.re, slots, &next)
	r2 := c26FillFilter(second, tagX, s.tagKind, s.kinds2, s.re2, slots, &next)
	if s.notIn {
		in, notIn = r2, r1
	} else {
		in, notIn = r1, r2
	}
	// context filter on tag 0 (an excluded hostile string): the slot after the shape's own slots
	b.filterNotIn.AppendValue(0, slots[next])
	lod := data_model.LOD{FromSec: 1000, ToSec: 2000, StepSec: 60, Version: data_model.Version6, Metric: c26Metric}
	switch s.query {
	case c26QSeries, c26QSeriesBy:
		if s.query == c26QSeriesBy {
			b.by = []int{tagX}
		}
		q, err := b.buildSeriesQuery(lod, " SETTINGS optimize_aggregation_in_order=1")
		if err != nil {
			return "", in, notIn, "error: " + err.Error()
		}
		sql = q.body
	case c26QTagValues, c26QTagValueIDs:
		b.tag = c26Metric.Tags[5]
		if s.tagKind == c26TagRaw64 {
			b.tag = c26Metric.Tags[3]
		}
		b.numResults = 10
		if s.query == c26QTagValues {
			sql = b.buildTagValuesQuery(lod, " SETTINGS optimize_aggregation_in_order=1").body
		} else {
			sql = b.buildTagValueIDsQuery(lod, " SETTINGS optimize_aggregation_in_order=1").body
		}
	}
	return sql, in, notIn, ""
}

// ---------------------------------------------------------------------------------------
// reference: which rows does the requested filter select

type c26TagState struct {
	i, hi int64 // tag column(s)
	s     string
}

// c26Matches: 1 = the row's tag matches a requested value / the regexp, 0 = it does not,
// -1 = left open by the property wording (see notes/C26.md), not asserted.
func c26Matches(req *c26Req, st c26TagState, tagKind int) int {
	raw := tagKind != c26TagPlain
	val := st.i
	if tagKind == c26TagRaw64 {
		val = int64(uint64(uint32(st.hi))<<32 | uint64(uint32(st.i)))
	}
	open := false
	for _, v := range req.values {
		switch v.kind {
		case c26KE:
			if val == 0 && (raw || st.s == "") {
				return 1
			}
		case c26KM1, c26KM2:
			if val == v.mapped {
				return 1
			}
		case c26KSV, c26KMV1, c26KMVX:
			if v.kind != c26KSV && val == v.mapped {
				return 1
			}
			if !raw && st.s == v.str {
				if v.str == "" || req.re != "" {
					// a non-"empty" value with an empty string, and string values next to a regexp
					// (the builder relies on the caller passing only values that the regexp matches): open
					open = true
				} else {
					return 1
				}
			}
		}
	}
	if req.re != "" && !raw {
		re := c26Regexp(req.re)
		if re == nil {
			return -1 // not a valid regexp: ClickHouse would reject the query at run time
		}
		if re.MatchString(st.s) {
			if st.s == "" && val != 0 {
				return -1 // regexp that matches "" against a row whose value is mapped (stag is ''): open
			}
			return 1
		}
	}
	if open {
		return -1
	}
	return 0
}

func c26Empty(req *c26Req) bool { return len(req.values) == 0 && req.re == "" }

// ---------------------------------------------------------------------------------------
// one case

type c26Counters struct {
	builds, rows, semantic, open, invalidRe int64

	mu    sync.Mutex
	found map[string]*c26Found
}

type c26Found struct {
	count  int64
	key    string
	desc   string
	detail map[string]any
}

func (c *c26Counters) violate(sig, key, desc string, detail map[string]any) {
	c.mu.Lock()
	defer c.mu.Unlock()
	if c.found == nil {
		c.found = map[string]*c26Found{}
	}
	f := c.found[sig]
	if f == nil {
		f = &c26Found{key: key, desc: desc, detail: detail}
		c.found[sig] = f
	} else if len(key) < len(f.key) || (len(key) == len(f.key) && key < f.key) {
		f.key, f.desc, f.detail = key, desc, detail
	}
	f.count++
}

func (c *c26Counters) flush(rep *mc.Report) {
	var sigs []string
	for s := range c.found {
		sigs = append(sigs, s)
	}
	sort.Strings(sigs)
	for _, s := range sigs {
		f := c.found[s]
		f.detail["cases_with_this_signature"] = f.count
		rep.Violate(s, f.desc, f.detail)
	}
}

type c26Ref struct {
	toks     []c26Tok
	skeleton string
	lits     []string // decoded literals of the marker build
	slotOf   []int    // for each literal: slot index or -1 for a constant
	problem  string
}


func c26Marker(i int) string { return fmt.Sprintf("Zq%dqZ", i) }

func c26RefOf(s *c26Shape) *c26Ref {
	s.refOnce.Do(func() { s.ref = c26MakeRef(s) })
	return s.ref
}

func c26MakeRef(s *c26Shape) *c26Ref {
	// + the context slot
	return c26MakeRefWith(s.slots()+1, func(markers []string) (string, string) {
		sql, _, _, pan := c26Build(s, markers)
		return sql, pan
	})
}

// c26MakeRefWith builds the marker reference of a shape with n slots through the given builder call.
func c26MakeRefWith(n int, build func(markers []string) (sql string, panicked string)) *c26Ref {
	markers := make([]string, n)
	for i := range markers {
		markers[i] = c26Marker(i)
	}
	ref := &c26Ref{}
	sql, pan := build(markers)
	if pan != "" {
		ref.problem = "builder failed on marker values: " + pan
	} else {
		toks, lerr := c26Lex(sql)
		if lerr != "" {
			ref.problem = "marker query does not tokenise: " + lerr
		}
		ref.skeleton = c26Skeleton(toks)
		ref.toks = toks
		seen := make([]int, n)
		for _, t := range toks {
			if t.kind != 's' {
				continue
			}
			slot := -1
			for i, m := range markers {
				if t.val == m {
					slot = i
					seen[i]++
				} else if strings.Contains(t.val, m) && ref.problem == "" {
					ref.problem = "marker embedded in a longer literal"
				}
			}
			ref.lits = append(ref.lits, t.val)
			ref.slotOf = append(ref.slotOf, slot)
		}
		for i, c := range seen {
			if c > 1 && ref.problem == "" {
				ref.problem = fmt.Sprintf("slot %d appears in %d literals", i, c)
			}
		}
		// a marker must not appear outside literals
		for _, t := range toks {
			if t.kind != 's' {
				for _, m := range markers {
					if strings.Contains(t.text, m) && ref.problem == "" {
						ref.problem = "marker outside a string literal"
					}
				}
			}
		}
	}
	return ref
}

func c26Q(s string) string { return strconv.QuoteToASCII(s) }

func c26TagStates(tagKind int, strs []string) []c26TagState {
	var out []c26TagState
	switch tagKind {
	case c26TagPlain:
		for _, i := range []int64{0, 5, 6, format.TagValueIDDoesNotExist, 7} {
			out = append(out, c26TagState{i: i})
		}
		seen := map[string]bool{"": true}
		for _, s := range append([]string{"a", "xay"}, strs...) {
			if !seen[s] {
				seen[s] = true
				out = append(out, c26TagState{s: s})
			}
		}
	case c26TagRaw:
		for _, i := range []int64{0, 5, 6, format.TagValueIDDoesNotExist, 7} {
			out = append(out, c26TagState{i: i})
		}
	case c26TagRaw64:
		for _, lo := range []int64{0, 5, -1, -2} {
			for _, hi := range []int64{0, 1, -1} {
				out = append(out, c26TagState{i: lo, hi: hi})
			}
		}
	}
	return out
}

// c26CtxOf: the excluded value of the context filter on tag 0: hostile next to the tag-values queries,
// harmless next to the series queries (so that a defect shows through the enumerated strings as well).
func c26CtxOf(s *c26Shape) string {
	if s.query >= c26QTagValues {
		return c26CtxValue
	}
	return "staging"
}

// c26Structure: clauses 1-3 of the oracle (tokenises, same token skeleton as the marker build, every literal is a
// builder constant or decodes to the user string of its slot).
func c26Structure(ref *c26Ref, sql string, slots []string, fail func(sig, msg string)) ([]c26Tok, bool) {
	toks, lerr := c26Lex(sql)
	if lerr != "" {
		fail("C26:query-does-not-tokenise", lerr)
		return nil, false
	}
	if !c26SameSkeleton(toks, ref.toks) {
		sk := c26Skeleton(toks)
		fail("C26:token-skeleton-changed", fmt.Sprintf("token skeleton %q differs from the skeleton of the shape %q", sk, ref.skeleton))
		return nil, false
	}
	li := 0
	for _, t := range toks {
		if t.kind != 's' {
			continue
		}
		slot := ref.slotOf[li]
		if slot < 0 {
			if t.val != ref.lits[li] {
				fail("C26:constant-literal-changed", fmt.Sprintf("literal #%d decodes to %s, the builder's constant is %s", li, c26Q(t.val), c26Q(ref.lits[li])))
				return nil, false
			}
		} else if t.val != slots[slot] {
			fail("C26:literal-does-not-decode-to-user-string", fmt.Sprintf("literal %s decodes to %s, the user string is %s", c26Q(t.text), c26Q(t.val), c26Q(slots[slot])))
			return nil, false
		}
		li++
	}
	return toks, true
}

// c26Check runs the whole oracle on one (shape, slot strings) case.
func c26Check(rep *mc.Report, cnt *c26Counters, s *c26Shape, userSlots []string) {
	atomic.AddInt64(&cnt.builds, 1)
	ctx := c26CtxOf(s)
	slots := append(append(make([]string, 0, len(userSlots)+1), userSlots...), ctx)
	shape := s.String()
	key := shape + "|" + strings.Join(slots, "\x00")
	_ = key
	caseDetail := func() map[string]any {
		q := make([]string, len(slots))
		for i, x := range slots {
			q[i] = c26Q(x)
		}
		return map[string]any{"shape": shape, "user_strings": q}
	}
	ref := c26RefOf(s)
	if ref.problem != "" {
		cnt.violate("C26:marker-build:"+strings.SplitN(ref.problem, ":", 2)[0], shape, "shape "+shape+": "+ref.problem, caseDetail())
		return
	}
	sql, in, notIn, pan := c26Build(s, slots)
	if pan != "" {
		cnt.violate("C26:builder-panics-or-fails", key, fmt.Sprintf("shape %s, user strings %v: %s", shape, caseDetail()["user_strings"], pan), caseDetail())
		return
	}
	fail := func(sig, msg string) {
		d := caseDetail()
		d["sql"] = c26Q(sql)
		cnt.violate(sig, key, fmt.Sprintf("shape %s, user strings %v: %s; query: %s", shape, d["user_strings"], msg, c26Q(sql)), d)
	}
	toks, ok := c26Structure(ref, sql, slots, fail)
	if !ok {
		return
	}
	// semantic part (skipped when a regexp slot is not a valid regexp: ClickHouse rejects such a query at
	// run time, the structure has been checked above)
	for _, r := range []string{in.re, notIn.re} {
		if r != "" && c26Regexp(r) == nil {
			atomic.AddInt64(&cnt.invalidRe, 1)
			return
		}
	}
	where, perr := c26Where(toks)
	if perr != "" {
		fail("C26:where-clause-does-not-parse", perr)
		return
	}
	tagX := c26TagIndex[s.tagKind]
	col := func(i int) (string, string) { return "tag" + strconv.Itoa(i), "stag" + strconv.Itoa(i) }
	row := c26Row{
		"time": {kind: 'i', i: 1500}, "index_type": {kind: 'i'}, "pre_tag": {kind: 'i'}, "pre_stag": {kind: 's'}, "metric": {kind: 'i', i: 1000},
	}
	for i := 0; i < 6; i++ {
		ti, si := col(i)
		row[ti] = c26Val{kind: 'i'}
		row[si] = c26Val{kind: 's'}
	}
	ctxReq := c26Req{values: []c26ReqValue{{kind: c26KSV, str: ctx}}}
	tiX, siX := col(tagX)
	tiH, _ := col(tagX + 1)
	ti0, si0 := col(0)
	for _, st := range c26TagStates(s.tagKind, userSlots) {
		row[tiX] = c26Val{kind: 'i', i: st.i}
		row[siX] = c26Val{kind: 's', s: st.s}
		if s.tagKind == c26TagRaw64 {
			row[tiH] = c26Val{kind: 'i', i: st.hi}
		}
		for _, cs := range []c26TagState{{}, {i: 9}, {s: ctx}} {
			row[ti0] = c26Val{kind: 'i', i: cs.i}
			row[si0] = c26Val{kind: 's', s: cs.s}
			atomic.AddInt64(&cnt.rows, 1)
			got := where(row)
			if got.kind != 'b' {
				fail("C26:where-clause-ill-typed", fmt.Sprintf("evaluating the WHERE clause on row tag=%d/%d stag=%s: %s", st.i, st.hi, c26Q(st.s), got.s))
				return
			}
			want := 1
			if c26Matches(&ctxReq, cs, c26TagPlain) == 1 {
				want = 0
			}
			if want == 1 && !c26Empty(&in) {
				switch c26Matches(&in, st, s.tagKind) {
				case 0:
					want = 0
				case -1:
					want = -1
				}
			}
			if want != 0 && !c26Empty(&notIn) {
				switch c26Matches(&notIn, st, s.tagKind) {
				case 1:
					want = 0
				case -1:
					want = -1
				}
			}
			if want == -1 {
				atomic.AddInt64(&cnt.open, 1)
				continue
			}
			atomic.AddInt64(&cnt.semantic, 1)
			if got.b != (want == 1) {
				kind := "selects-row-that-does-not-match"
				if want == 1 {
					kind = "drops-row-that-matches"
				}
				fail("C26:where-"+kind, fmt.Sprintf("row tag=%d hi=%d stag=%s (context tag0=%d stag0=%s): WHERE gives %v, the requested filters give %v",
					st.i, st.hi, c26Q(st.s), cs.i, c26Q(cs.s), got.b, want == 1))
				return
			}
		}
	}
}

// ---------------------------------------------------------------------------------------
// enumeration

var c26Alphabet = []string{"'", `"`, `\`, "\x00", "\n", "%", "_", ";", "-", ")", " ", "a", "é", "\xff"}

var c26Hostile = []string{"a", "'", `\`, `\'`, `'\`, "é", "\xff", "\x00", "", "a|"}

func c26Strings(maxLen int) []string {
	out := []string{""}
	level := []string{""}
	for l := 1; l <= maxLen; l++ {
		var next []string
		for _, p := range level {
			for _, a := range c26Alphabet {
				next = append(next, p+a)
			}
		}
		out = append(out, next...)
		level = next
	}
	return out
}

func c26KindLists(maxLen int) [][]int {
	out := [][]int{{}}
	level := [][]int{{}}
	for l := 1; l <= maxLen; l++ {
		var next [][]int
		for _, p := range level {
			for k := 0; k < c26NumKinds; k++ {
				next = append(next, append(append([]int{}, p...), k))
			}
		}
		out = append(out, next...)
		level = next
	}
	return out
}

func c26Parallel(n int, f func(i int)) {
	w := runtime.GOMAXPROCS(0)
	var wg sync.WaitGroup
	var next int64 = -1
	for k := 0; k < w; k++ {
		wg.Add(1)
		go func() {
			defer wg.Done()
			for {
				i := int(atomic.AddInt64(&next, 1))
				if i >= n {
					return
				}
				f(i)
			}
		}()
	}
	wg.Wait()
}

type c26Case struct {
	shape *c26Shape
	slots []string
}

func TestVerifC26(t *testing.T) {
	rep := mc.NewReport("C26")
	fullLen := mc.Pick(3, 4)
	slotLen := mc.Pick(2, 3)
	listLen := mc.Pick(2, 2)
	rep.Bounds["alphabet"] = len(c26Alphabet)
	rep.Bounds["full_string_max_len"] = fullLen
	rep.Bounds["per_slot_string_max_len_all_shapes"] = slotLen
	rep.Bounds["value_list_max_len"] = listLen
	rep.Rule = "shape = query kind (series, series grouped by the filtered tag, tag-values, tag-value-ids) x tag kind (plain, raw int, raw64) x polarity x list of <=L values over {empty, mapped id 1, mapped id 2, unmapped string, string+mapping, string+missing mapping} x optional regexp, always next to a constant exclusion filter on tag 0 (the hostile string st'ag\\ for the tag-values queries, staging for the series queries). " +
		"Part 1: every string of length <= N over the 14-character alphabet in the single-slot shapes (one string value or one regexp). Part 2: every shape, every slot over 10 hostile strings (full product). " +
		"Part 3: every shape, every slot in turn over every string of length <= M, other slots fixed to a quote. Part 4: inclusion and exclusion filters on the same tag together (8x8 lists x regexp on either side), slots over the first 3-6 hostile strings. In the quick tier parts 3 and 4 use the series and tag-values queries only. " +
		"Non-trivial = case whose user strings contain a quote, backslash, NUL, newline or non-UTF-8 byte"
	rep.Assume("ClickHouse lexing/unescaping rules as re-implemented in the harness (Lexer.cpp quoted tokens, parseComplexEscapeSequence); match() is an unanchored RE2 search, evaluated with Go's regexp (same RE2 syntax)")
	rep.Assume("row universe: a tag is either mapped (tagN != 0, stagN = '') or unmapped (tagN = 0, stagN = string) or empty; rows violating this are not generated")

	var cnt c26Counters
	var cases []c26Case
	add := func(s *c26Shape, slots []string) {
		// an empty regexp means "no regexp": that is another shape, enumerated on its own
		idx := c26SlotsOf(s.kinds, s.re) - 1
		if s.re && slots[idx] == "" {
			return
		}
		if s.re2 && slots[len(slots)-1] == "" {
			return
		}
		cases = append(cases, c26Case{s, append([]string{}, slots...)})
	}
	// part 1
	full := c26Strings(fullLen)
	nShapes := 0
	for q := 0; q < c26NumQueries; q++ {
		for tk := 0; tk < c26NumTagKinds; tk++ {
			for _, notIn := range []bool{false, true} {
				for _, core := range []struct {
					kinds []int
					re    bool
				}{{[]int{c26KSV}, false}, {[]int{c26KMV1}, false}, {[]int{c26KMVX}, false}, {nil, true}} {
					s := &c26Shape{query: q, tagKind: tk, notIn: notIn, kinds: core.kinds, re: core.re}
					nShapes++
					for _, u := range full {
						add(s, []string{u})
					}
				}
			}
		}
	}
	p1 := len(cases)
	// parts 2 and 3
	short := c26Strings(slotLen)
	lists := c26KindLists(listLen)
	for q := 0; q < c26NumQueries; q++ {
		for tk := 0; tk < c26NumTagKinds; tk++ {
			for _, notIn := range []bool{false, true} {
				for _, kinds := range lists {
					for _, re := range []bool{false, true} {
						if len(kinds) == 0 && !re {
							continue
						}
						s := &c26Shape{query: q, tagKind: tk, notIn: notIn, kinds: kinds, re: re}
						nShapes++
						n := s.slots()
						if n == 0 {
							add(s, nil)
							continue
						}
						// part 2: product of hostile strings
						idx := make([]int, n)
						slots := make([]string, n)
						for {
							for i, k := range idx {
								slots[i] = c26Hostile[k]
							}
							add(s, slots)
							i := n - 1
							for ; i >= 0; i-- {
								idx[i]++
								if idx[i] < len(c26Hostile) {
									break
								}
								idx[i] = 0
							}
							if i < 0 {
								break
							}
						}
						// part 3: each slot over all short strings (quick: series and tag-values queries only)
						if !mc.Thorough() && q != c26QSeries && q != c26QTagValues {
							continue
						}
						for v := 0; v < n; v++ {
							for i := range slots {
								slots[i] = "'"
							}
							for _, u := range short {
								slots[v] = u
								add(s, slots)
							}
						}
					}
				}
			}
		}
	}
	p23 := len(cases) - p1
	// part 4: both polarities on the same tag
	both := [][]int{{c26KE}, {c26KM1}, {c26KSV}, {c26KMV1}, {c26KMVX}, {c26KE, c26KSV}, {c26KM2, c26KMV1}, {}}
	for q := 0; q < c26NumQueries; q++ {
		for tk := 0; tk < c26NumTagKinds; tk++ {
			for _, k1 := range both {
				for _, k2 := range both {
					for _, re1 := range []bool{false, true} {
						for _, re2 := range []bool{false, true} {
							if (len(k1) == 0 && !re1) || (len(k2) == 0 && !re2) {
								continue
							}
							if !mc.Thorough() && q != c26QSeries && q != c26QTagValues {
								continue
							}
							s := &c26Shape{query: q, tagKind: tk, kinds: k1, re: re1, kinds2: k2, re2: re2}
							nShapes++
							n := s.slots()
							if n == 0 {
								add(s, nil)
								continue
							}
							hs := c26Hostile[:mc.Pick(4, 6)]
							if n >= 3 {
								hs = c26Hostile[:mc.Pick(3, 5)]
							}
							idx := make([]int, n)
							slots := make([]string, n)
							for {
								for i, k := range idx {
									slots[i] = hs[k]
								}
								add(s, slots)
								i := n - 1
								for ; i >= 0; i-- {
									idx[i]++
									if idx[i] < len(hs) {
										break
									}
									idx[i] = 0
								}
								if i < 0 {
									break
								}
							}
						}
					}
				}
			}
		}
	}
	p4 := len(cases) - p1 - p23
	// part 5: several filtered tags in one query (verif_c26_multi_test.go)
	mcases, mShapes, mBounds := c26MCases()
	nShapes += mShapes
	for k, v := range mBounds {
		rep.Bounds[k] = v
	}
	rep.Bounds["multi_tag_slot_strings"] = len(c26MStrings)
	rep.Parts["part5_several_filtered_tags"] = map[string]any{"cases": len(mcases), "shapes": mShapes}
	rep.Bounds["shapes"] = nShapes
	rep.Parts["part1_full_strings_single_slot"] = map[string]any{"cases": p1}
	rep.Parts["part2_3_all_shapes"] = map[string]any{"cases": p23}
	rep.Parts["part4_both_polarities"] = map[string]any{"cases": p4}

	var nontrivial int64
	skeletons := sync.Map{}
	mskeletons := sync.Map{}
	c26Parallel(len(cases)+len(mcases), func(i int) {
		if mc.Expired() {
			return
		}
		if i >= len(cases) {
			c := mcases[i-len(cases)]
			c26MCheck(rep, &cnt, c.shape, c.slots)
			for _, u := range c.slots {
				if strings.ContainsAny(u, "'\\\x00\n\xff") {
					atomic.AddInt64(&nontrivial, 1)
					break
				}
			}
			if _, dup := mskeletons.LoadOrStore(c.shape, true); !dup {
				rep.Outcome(c26MRefOf(c.shape).skeleton)
			}
			return
		}
		c := cases[i]
		c26Check(rep, &cnt, c.shape, c.slots)
		for _, u := range c.slots {
			if strings.ContainsAny(u, "'\\\x00\n\xff") {
				atomic.AddInt64(&nontrivial, 1)
				break
			}
		}
		if _, dup := skeletons.LoadOrStore(c.shape, true); !dup {
			rep.Outcome(c26RefOf(c.shape).skeleton)
		}
	})
	if mc.Expired() {
		rep.Cap("wall_budget")
	}
	for _, smp := range []struct {
		s     *c26Shape
		slots []string
	}{
		{&c26Shape{query: c26QSeries, tagKind: c26TagPlain, kinds: []int{c26KMV1, c26KE}}, []string{`\';--`}},
		{&c26Shape{query: c26QTagValues, tagKind: c26TagPlain, notIn: true, re: true}, []string{`a'|\`}},
		{&c26Shape{query: c26QSeriesBy, tagKind: c26TagRaw64, kinds: []int{c26KM2, c26KSV}}, []string{"x"}},
	} {
		sql, _, _, _ := c26Build(smp.s, append(append([]string{}, smp.slots...), c26CtxOf(smp.s)))
		rep.Sample(map[string]any{"shape": smp.s.String(), "user_strings": smp.slots, "sql": sql})
	}
	rep.Parts["totals"] = map[string]any{"builds": cnt.builds, "rows_evaluated": cnt.rows, "rows_asserted": cnt.semantic, "rows_left_open": cnt.open, "cases_with_invalid_regexp_structure_only": cnt.invalidRe}
	// executions = real builder runs; transitions = WHERE evaluations on rows; states = distinct (shape, strings) cases
	rep.AddCounts(cnt.builds, cnt.rows, int64(len(cases)+len(mcases)), nontrivial)
	cnt.flush(rep)
	if err := rep.Write(); err != nil {
		t.Fatal(err)
	}
	t.Logf("C26: shapes=%d cases=%d (multi-tag %d) builds=%d rows=%d asserted=%d open=%d violations=%d", nShapes, len(cases)+len(mcases), len(mcases), cnt.builds, cnt.rows, cnt.semantic, cnt.open, rep.NumViolations())
}
