//go:build verif

package api

// C30, family "protected-prefix configurations".
//
// The policy part runs with ONE protected prefix ("prot_"). The statement quantifies over "protected prefixes"
// (plural): a non-admin reaches a name through the default bit only when the name is unprotected, i.e. when NO
// configured prefix is a prefix of it. Here the configuration itself is part of the alphabet: every ordered list
// (with repetition, so duplicates and both listing orders of every pair are met) of up to 3 prefixes drawn from
// every string of length 0..3 over {a,b}; that universe contains disjoint prefixes (a, b), nested pairs and chains
// (a, ab, aba), siblings under a common parent (aa, ab), duplicates and the empty prefix (what `--protected-
// metric-prefixes=a,,b` yields: it covers every name). Names: every string of length 1..4 (thorough 1..5) over
// {a,b}, so for every prefix there are names that sort before it, equal it, lie under it, lie between it and a
// longer/shorter configured prefix, and sort after it. Each (configuration, bit subset) goes through the real
// parseAccessToken with a real signed token; then every name through CanViewMetric/CanViewMetricName and every
// (old, new) pair through CanEditMetric (unchanged attributes), against the statement's table: protected iff ANY
// configured prefix is a prefix of the name; default bit counts for unprotected names only; metric and prefix bits
// count regardless of protection; rename needs rights on both names.

import (
	"fmt"
	"sort"
	"strings"
	"sync/atomic"

	"github.com/VKCOM/statshouse/internal/format"
	"github.com/VKCOM/statshouse/internal/verif/mc"
)

// c30Strings returns every string over {a,b} with minLen <= length <= maxLen, in length-then-lexicographic order.
func c30Strings(minLen, maxLen int) []string {
	var out []string
	level := []string{""}
	for l := 0; l <= maxLen; l++ {
		if l >= minLen {
			out = append(out, level...)
		}
		var next []string
		for _, s := range level {
			next = append(next, s+"a", s+"b")
		}
		level = next
	}
	return out
}

func c30PrefixConfigPart(rep *mc.Report) {
	env, err := c30NewEnv(c30Now)
	if err != nil {
		rep.Infra(err.Error())
		return
	}
	universe := append(c30Strings(1, 3), "") // 15 candidate prefixes, "" (listed last, so that small examples come without it) included
	maxList := 3
	names := c30Strings(1, mc.Pick(4, 5))
	bitAlphabet := []string{"view_default", "edit_default", "view_prefix.ab", "edit_prefix.ab", "edit_metric.ba", "edit_metric.abb"}
	rep.Bounds["prefix_config_universe"] = universe
	rep.Bounds["prefix_config_lists"] = fmt.Sprintf("nil, and every ordered list with repetition of 1..%d prefixes of the universe", maxList)
	rep.Bounds["prefix_config_names"] = fmt.Sprintf("every string of length 1..%d over {a,b}: %d names, %d (old,new) pairs", mc.Pick(4, 5), len(names), len(names)*len(names))
	rep.Bounds["prefix_config_bit_alphabet"] = bitAlphabet
	rep.Bounds["prefix_config_bit_subsets"] = mc.Pick("quick: every subset of the view bits alone (view decisions) and every subset of the edit bits alone (view and edit decisions); renames between names of length <= 3, edits in place for every name", "all 64 subsets, all (old,new) pairs")

	// configurations
	var configs [][]string
	configs = append(configs, nil)
	var gen func(cur []string)
	gen = func(cur []string) {
		if len(cur) > 0 {
			configs = append(configs, append([]string{}, cur...))
		}
		if len(cur) == maxList {
			return
		}
		for _, p := range universe {
			gen(append(cur, p))
		}
	}
	gen(nil)
	// shortest configurations first, so that the first example of a signature is a small one
	sort.SliceStable(configs, func(i, j int) bool { return len(configs[i]) < len(configs[j]) })

	// one real token per bit subset (a foreign-app copy of every absent bit rides along)
	type subset struct {
		bits []string
		tok  string
		g    c30Grants
		edit bool // edit decisions are run for this subset
	}
	viewMask := 0
	for i, b := range bitAlphabet {
		if strings.HasPrefix(b, "view_") {
			viewMask |= 1 << i
		}
	}
	var subsets []subset
	for s := 0; s < 1<<len(bitAlphabet); s++ {
		// quick tier: every subset of the view bits without edit bits (view decisions only) and every subset of the edit
		// bits without view bits; view bit -> edit right cross-talk is the policy part's business. thorough: all subsets
		if !mc.Thorough() && s&viewMask != 0 && s&^viewMask != 0 {
			continue
		}
		var bits, full []string
		for i, b := range bitAlphabet {
			if s&(1<<i) != 0 {
				bits = append(bits, b)
				full = append(full, c30App+":"+b)
			} else {
				full = append(full, "other-app:"+b)
			}
		}
		claims := c30Claims{iss: c30Ptr("vkuth"), subject: c30SubjUser, exp: c30Ptr(int64(3600)), nbf: c30Ptr(int64(-1)), iat: c30Ptr(int64(-1)), bits: full}
		subsets = append(subsets, subset{bits: bits, tok: env.token(c30Envelope{alg: "EdDSA", kid: s % 2, signer: s % 2}, claims, c30Now), g: c30RefGrants(full),
			edit: mc.Thorough() || s&viewMask == 0})
	}
	nsub := len(subsets)
	// quick tier: renames over the names of length <= 3, edits in place for every name
	renameLen := mc.Pick(3, 5)

	units := make([]c30Unit, len(configs))
	patterns := make([]string, len(configs)) // which names the configuration protects (reference), for the distinct count
	var views, edits, viewsGranted, editsGranted, nontrivial, open atomic.Int64
	c30Parallel(len(configs), func(ci int) {
		u := &units[ci]
		cfg := configs[ci]
		// reference: protected iff any configured prefix is a prefix of the name; `shadowed` = protected, but NOT by
		// the configured prefix that sorts last among those <= name (the cases a "nearest entry" lookup gets wrong)
		protected := make([]bool, len(names))
		shadowed := make([]bool, len(names))
		var pat strings.Builder
		for ni, name := range names {
			nearest, have := "", false
			for _, p := range cfg {
				if c30HasPrefix(name, p) {
					protected[ni] = true
				}
				if p <= name && (!have || p > nearest) {
					nearest, have = p, true
				}
			}
			shadowed[ni] = protected[ni] && !(have && c30HasPrefix(name, nearest))
			if protected[ni] {
				pat.WriteByte('1')
			} else {
				pat.WriteByte('0')
			}
		}
		patterns[ci] = pat.String()
		var lViews, lEdits, lVG, lEG, lNT, lOpen int64
		metas := make([]format.MetricMetaValue, len(names))
		for ni, name := range names {
			metas[ni] = c30BaseMetric(name)
		}
		for s := range subsets {
			sub := &subsets[s]
			// a private copy of the list per call: a parseAccessToken that reorders its argument cannot disturb later calls
			passed := append([]string(nil), cfg...)
			if cfg == nil {
				passed = nil
			}
			ai, err := parseAccessToken(env.helper, sub.tok, passed, false, false)
			if err != nil {
				u.violate("C30:valid-token-rejected", fmt.Sprintf("valid token with bits %q rejected with protected prefixes %q: %v", sub.bits, cfg, err), map[string]any{"token": sub.tok})
				continue
			}
			g := sub.g
			viewRights := make([]c30Rights, len(names))
			editRights := make([]c30Rights, len(names))
			for ni, name := range names {
				viewRights[ni] = c30RefNameRights(g.viewMetric, g.viewPrefix, g.viewDefault, cfg, name)
				editRights[ni] = c30RefNameRights(g.editMetric, g.editPrefix, g.editDefault, cfg, name)
			}
			for ni, name := range names {
				got := ai.CanViewMetric(metas[ni])
				gotByName := ai.CanViewMetricName(name)
				lViews++
				if got {
					lVG++
				}
				if got != gotByName {
					u.violate("C30:view-by-name-differs", fmt.Sprintf("CanViewMetric=%v CanViewMetricName=%v for %q with bits %q, protected prefixes %q", got, gotByName, name, sub.bits, cfg), nil)
				}
				want := viewRights[ni].any()
				if g.viewDefault && shadowed[ni] {
					lNT++
				}
				detail := map[string]any{"bits": sub.bits, "metric": name, "protected_prefixes": cfg, "token": sub.tok}
				switch {
				case got && !want && g.viewDefault && protected[ni]:
					u.violate("C30:view-default-bit-opens-protected-name", fmt.Sprintf("non-admin with bits %q can view %q although protected prefixes %q cover it and no metric/prefix bit matches", sub.bits, name, cfg), detail)
				case got && !want:
					u.violate("C30:view-granted-without-matching-bit", fmt.Sprintf("non-admin with bits %q can view %q (protected prefixes %q)", sub.bits, name, cfg), detail)
				case !got && want:
					u.violate("C30:view-denied-despite-matching-bit", fmt.Sprintf("non-admin with bits %q cannot view %q (protected prefixes %q)", sub.bits, name, cfg), detail)
				}
			}
			if !sub.edit {
				continue
			}
			for oi, oldName := range names {
				ro := editRights[oi]
				for ni, newName := range names {
					if oi != ni && (len(oldName) > renameLen || len(newName) > renameLen) {
						continue
					}
					rn := editRights[ni]
					nameVerdict := 1 // 1 forbidden, 0 granted, 2 open (rights on both names through different kinds of bit)
					if ro.any() && rn.any() {
						nameVerdict = 2
						if (ro.metric && rn.metric) || (ro.prefix && rn.prefix) || (ro.def && rn.def) {
							nameVerdict = 0
						}
					}
					err := ai.CanEditMetric(false, metas[oi], metas[ni])
					lEdits++
					if err == nil {
						lEG++
					}
					if g.editDefault && (shadowed[oi] || shadowed[ni]) {
						lNT++
					}
					if nameVerdict == 2 {
						lOpen++
						continue
					}
					if (err == nil) == (nameVerdict == 0) {
						continue
					}
					desc := fmt.Sprintf("non-admin with bits %q, edit %q -> %q, attributes unchanged (protected prefixes %q): %v", sub.bits, oldName, newName, cfg, err)
					detail := map[string]any{"bits": sub.bits, "old": oldName, "new": newName, "protected_prefixes": cfg, "token": sub.tok}
					defaultOpens := g.editDefault && (protected[oi] || protected[ni])
					switch {
					case err == nil && defaultOpens && oldName != newName:
						u.violate("C30:rename-default-bit-opens-protected-name", "allowed: "+desc, detail)
					case err == nil && defaultOpens:
						u.violate("C30:edit-default-bit-opens-protected-name", "allowed: "+desc, detail)
					case err == nil && oldName != newName:
						u.violate("C30:rename-without-rights-on-both-names", "allowed: "+desc, detail)
					case err == nil:
						u.violate("C30:edit-granted-without-matching-bit", "allowed: "+desc, detail)
					default:
						u.violate("C30:edit-denied-despite-rights", "denied: "+desc, detail)
					}
				}
			}
		}
		views.Add(lViews)
		edits.Add(lEdits)
		viewsGranted.Add(lVG)
		editsGranted.Add(lEG)
		nontrivial.Add(lNT)
		open.Add(lOpen)
	})
	// report in configuration order (shortest first); at most 3 examples per signature over the whole part
	perSig := map[string]int{}
	for i := range units {
		for _, f := range units[i].found {
			if perSig[f.Sig] < 3 {
				perSig[f.Sig]++
				rep.Violate(f.Sig, f.Desc, f.Detail)
			}
		}
	}
	distinct := map[string]bool{}
	nested := 0
	for ci, p := range patterns {
		distinct[p] = true
		cfg := configs[ci]
	pairs:
		for i := range cfg {
			for j := range cfg {
				if cfg[i] != cfg[j] && c30HasPrefix(cfg[j], cfg[i]) {
					nested++
					break pairs
				}
			}
		}
	}
	total := views.Load() + edits.Load() + int64(len(configs)*nsub)
	rep.AddCounts(total, total, total, nontrivial.Load())
	rep.Parts["protected_prefix_configurations"] = map[string]any{"configurations": len(configs), "configurations_with_a_nested_pair": nested, "distinct_protected_name_sets": len(distinct),
		"bit_subsets": nsub, "tokens_parsed": len(configs) * nsub, "names": len(names), "view_decisions": views.Load(), "view_granted": viewsGranted.Load(),
		"edit_decisions": edits.Load(), "edit_granted": editsGranted.Load(), "decisions_left_open_by_the_wording": open.Load(),
		"decisions_on_a_name_protected_only_by_a_prefix_that_is_not_its_nearest_configured_predecessor": nontrivial.Load()}
	rep.Outcome(fmt.Sprintf("prefix-configs:views_granted=%d edits_granted=%d protected_sets=%d", viewsGranted.Load(), editsGranted.Load(), len(distinct)))
	// sample
	cfg := []string{"a", "aa"}
	sampleSub := subsets[0]
	for _, sub := range subsets {
		if sub.g.editDefault && len(sub.bits) == 1 {
			sampleSub = sub
		}
	}
	ai, _ := parseAccessToken(env.helper, sampleSub.tok, cfg, false, false)
	rep.Sample(map[string]any{"part": "protected_prefix_configurations", "bits": sampleSub.bits, "protected_prefixes": cfg,
		"view a": ai.CanViewMetricName("a"), "view aab": ai.CanViewMetricName("aab"), "view ab": ai.CanViewMetricName("ab"), "view b": ai.CanViewMetricName("b"),
		"rename b -> ab": fmt.Sprint(ai.CanEditMetric(false, c30BaseMetric("b"), c30BaseMetric("ab")))})
}
