//go:build verif

package api

// C30: access control grants exactly the permissions carried by a valid token.
//
// Part "tokens": full enumeration of a token matrix (envelope = alg x kid x signing key x tampering; claims =
// issuer x subject kind x exp offset x nbf offset x bit set) through the real parseAccessToken ->
// vkuth.JWTHelper.ParseVkuthData -> Claims.Valid with an injected `now`, against a table-driven three-valued
// reference of the statement (must reject / must accept / left open by the wording).
// Part "policy": every subset of an alphabet of access bits is carried by a real signed token through
// parseAccessToken; the resulting accessInfo is asked about every metric-name class (CanViewMetric) and every
// (old,new) metric pair over the name classes x single-attribute changes (CanEditMetric), against the reference.
//
// Tokens are assembled by hand (JSON + base64url + ed25519/HMAC), not with the jwt library the code under
// test uses. Keys come from fixed seeds.

import (
	"crypto/ed25519"
	"crypto/hmac"
	"crypto/sha256"
	"encoding/base64"
	"encoding/json"
	"fmt"
	"runtime"
	"sort"
	"strings"
	"sync"
	"sync/atomic"
	"testing"
	"time"

	"github.com/VKCOM/statshouse/internal/format"
	"github.com/VKCOM/statshouse/internal/verif/mc"
	"github.com/VKCOM/statshouse/internal/vkgo/vkuth"
)

const c30App = "statshouse-api" // default of --vkuth-app-name

var c30Now = time.Unix(1700000000, 0)

type c30Key struct {
	priv ed25519.PrivateKey
	pub  ed25519.PublicKey
	kid  string
}

type c30Env struct {
	keys   [3]c30Key // 0,1 configured; 2 not configured
	helper *vkuth.JWTHelper
	prot   []string
}

func c30NewEnv(now time.Time) (*c30Env, error) {
	e := &c30Env{prot: []string{"prot_"}}
	var encoded []string
	for i := range e.keys {
		seed := sha256.Sum256([]byte(fmt.Sprintf("verif-c30-key-%d", i)))
		priv := ed25519.NewKeyFromSeed(seed[:])
		e.keys[i] = c30Key{priv: priv, pub: priv.Public().(ed25519.PublicKey)}
		enc := base64.RawURLEncoding.EncodeToString(e.keys[i].pub)
		// the key id is the fingerprint the real ParseVkuthKeys assigns
		m, err := vkuth.ParseVkuthKeys([]string{enc})
		if err != nil || len(m) != 1 {
			return nil, fmt.Errorf("ParseVkuthKeys: %v", err)
		}
		for kid := range m {
			e.keys[i].kid = kid
		}
		if i < 2 {
			encoded = append(encoded, enc)
		}
	}
	configured, err := vkuth.ParseVkuthKeys(encoded)
	if err != nil || len(configured) != 2 {
		return nil, fmt.Errorf("ParseVkuthKeys(configured): %v", err)
	}
	e.helper = vkuth.NewJWTHelper(configured, c30App)
	e.helper.SetNow(func() time.Time { return now })
	return e, nil
}

// c30NewEnvClock is c30NewEnv with a clock the caller can move (sequence family).
func c30NewEnvClock(clock *time.Time) (*c30Env, error) {
	e, err := c30NewEnv(*clock)
	if err != nil {
		return nil, err
	}
	e.helper.SetNow(func() time.Time { return *clock })
	return e, nil
}

func c30B64(b []byte) string { return base64.RawURLEncoding.EncodeToString(b) }

func c30JSON(m map[string]any) string {
	b, err := json.Marshal(m) // map keys are emitted sorted: deterministic
	if err != nil {
		panic(err)
	}
	return string(b)
}

// ---------- claims ----------

type c30Claims struct {
	iss     *string
	subject int    // 0 user "alice", 1 user "", 2 user absent, 3 service with user name, 4 vkuth_data absent
	exp     *int64 // offset in seconds to the whole second of now, nil = absent
	nbf     *int64
	iat     *int64
	bits    []string
	// tamper helpers
	userOverride string
	expShift     int64
}

const (
	c30SubjUser = iota
	c30SubjEmptyUser
	c30SubjNoUser
	c30SubjService
	c30SubjNoData
)

func (c c30Claims) payload(now time.Time) string {
	m := map[string]any{}
	if c.iss != nil {
		m["iss"] = *c.iss
	}
	if c.exp != nil {
		m["exp"] = now.Unix() + *c.exp + c.expShift
	}
	if c.nbf != nil {
		m["nbf"] = now.Unix() + *c.nbf
	}
	if c.iat != nil {
		m["iat"] = now.Unix() + *c.iat
	}
	data := map[string]any{}
	bits := c.bits
	if bits == nil {
		bits = []string{}
	}
	data["bits"] = bits
	switch c.subject {
	case c30SubjUser:
		data["user"] = "alice"
	case c30SubjEmptyUser:
		data["user"] = ""
	case c30SubjNoUser:
	case c30SubjService:
		data["user"] = "svc-robot"
		data["is_service"] = true
	}
	if c.userOverride != "" {
		data["user"] = c.userOverride
	}
	if c.subject != c30SubjNoData {
		m["vkuth_data"] = data
	}
	return c30JSON(m)
}

func (c c30Claims) user() string {
	switch c.subject {
	case c30SubjUser:
		return "alice"
	case c30SubjService:
		return "svc-robot"
	}
	return ""
}

// ---------- envelope: header, signing, tampering ----------

type c30Envelope struct {
	name   string
	alg    string // header alg
	kid    int    // index of the key whose id is named; -1 absent; -2 a JSON number
	signer int    // key that really signs (EdDSA) / whose PUBLIC key is used as HMAC secret (HS256)
	kind   int    // 0 "token", 1 absent, 2 "cookie"
	tamper int
}

const (
	c30TamperNone        = iota
	c30TamperUser        // payload replaced by one for another user, original signature
	c30TamperAddAdmin    // payload gets an extra admin bit, original signature
	c30TamperExtendExp   // payload exp moved 1000 s later, original signature
	c30TamperHeader      // header re-encoded with another typ, original signature
	c30TamperSigFirst    // one bit of the first signature byte flipped
	c30TamperSigMiddle   // one bit of a middle signature byte flipped
	c30TamperSigLast     // one bit of the last signature byte flipped
	c30TamperSigTruncate // last signature byte dropped
	c30TamperSigEmpty    // empty signature segment
	c30TamperSigOther    // signature of another token signed with the same key
	c30TamperExtraSeg    // a fourth segment appended
	c30NumTampers
)

var c30TamperNames = []string{"none", "payload-other-user", "payload-extra-admin-bit", "payload-exp-extended", "header-changed", "signature-first-byte", "signature-middle-byte",
	"signature-last-byte", "signature-truncated", "signature-empty", "signature-of-other-token", "fourth-segment"}

func (e *c30Env) header(v c30Envelope, typ string) string {
	m := map[string]any{"alg": v.alg, "typ": typ}
	switch {
	case v.kid >= 0:
		m["kid"] = e.keys[v.kid].kid
	case v.kid == -2:
		m["kid"] = 12345
	}
	switch v.kind {
	case 0:
		m["kind"] = "token"
	case 2:
		m["kind"] = "cookie"
	}
	return c30JSON(m)
}

func (e *c30Env) sign(v c30Envelope, input string) []byte {
	switch v.alg {
	case "EdDSA":
		return ed25519.Sign(e.keys[v.signer].priv, []byte(input))
	case "HS256": // algorithm confusion: the verifier's public key bytes as HMAC secret
		h := hmac.New(sha256.New, e.keys[v.signer].pub)
		h.Write([]byte(input))
		return h.Sum(nil)
	default: // "none"
		return nil
	}
}

// token assembles the (possibly tampered) token.
func (e *c30Env) token(v c30Envelope, c c30Claims, now time.Time) string {
	head := c30B64([]byte(e.header(v, "JWT")))
	pay := c30B64([]byte(c.payload(now)))
	sig := e.sign(v, head+"."+pay)
	switch v.tamper {
	case c30TamperUser:
		c2 := c
		c2.userOverride = "mallory"
		pay = c30B64([]byte(c2.payload(now)))
	case c30TamperAddAdmin:
		c2 := c
		c2.bits = append(append([]string{}, c.bits...), c30App+":admin")
		pay = c30B64([]byte(c2.payload(now)))
	case c30TamperExtendExp:
		c2 := c
		c2.expShift = 1000
		if c2.exp == nil {
			z := int64(0)
			c2.exp = &z
		}
		pay = c30B64([]byte(c2.payload(now)))
	case c30TamperHeader:
		head = c30B64([]byte(e.header(v, "JWS")))
	case c30TamperSigFirst:
		sig = append([]byte{}, sig...)
		sig[0] ^= 0x01
	case c30TamperSigMiddle:
		sig = append([]byte{}, sig...)
		sig[len(sig)/2] ^= 0x10
	case c30TamperSigLast:
		sig = append([]byte{}, sig...)
		sig[len(sig)-1] ^= 0x80
	case c30TamperSigTruncate:
		sig = sig[:len(sig)-1]
	case c30TamperSigEmpty:
		sig = nil
	case c30TamperSigOther:
		c2 := c
		c2.userOverride = "bob"
		sig = e.sign(v, head+"."+c30B64([]byte(c2.payload(now))))
	case c30TamperExtraSeg:
		return head + "." + pay + "." + c30B64(sig) + "." + c30B64([]byte("x"))
	}
	return head + "." + pay + "." + c30B64(sig)
}

// ---------- reference: bits ----------

type c30Grants struct {
	admin, developer, viewDefault, editDefault     bool
	viewPrefix, editPrefix, viewMetric, editMetric []string // sorted
}

func c30At(s string) string { return strings.Replace(s, "@", ":", 1) } // ':' cannot be written in a bit, '@' stands for it

// c30RefGrants is the statement's reading of a bit list: only bits prefixed "<app>:" count, without the prefix.
func c30RefGrants(fullBits []string) c30Grants {
	var g c30Grants
	add := func(l *[]string, s string) {
		for _, x := range *l {
			if x == s {
				return
			}
		}
		*l = append(*l, s)
	}
	for _, fb := range fullBits {
		if len(fb) <= len(c30App)+1 || fb[:len(c30App)+1] != c30App+":" {
			continue
		}
		b := fb[len(c30App)+1:]
		cut := func(p string) (string, bool) {
			if len(b) >= len(p) && b[:len(p)] == p {
				return b[len(p):], true
			}
			return "", false
		}
		if b == "admin" {
			g.admin = true
		} else if b == "developer" {
			g.developer = true
		} else if b == "view_default" {
			g.viewDefault = true
		} else if b == "edit_default" {
			g.editDefault = true
		} else if r, ok := cut("view_prefix."); ok {
			add(&g.viewPrefix, c30At(r))
		} else if r, ok := cut("edit_prefix."); ok {
			add(&g.editPrefix, c30At(r))
		} else if r, ok := cut("view_metric."); ok {
			add(&g.viewMetric, c30At(r))
		} else if r, ok := cut("edit_metric."); ok {
			add(&g.editMetric, c30At(r))
		} else if r, ok := cut("view_namespace."); ok {
			add(&g.viewPrefix, r+":")
		} else if r, ok := cut("edit_namespace."); ok {
			add(&g.editPrefix, r+":")
		}
	}
	sort.Strings(g.viewPrefix)
	sort.Strings(g.editPrefix)
	sort.Strings(g.viewMetric)
	sort.Strings(g.editMetric)
	return g
}

func c30Keys(m map[string]bool) []string {
	var out []string
	for k, v := range m {
		if v {
			out = append(out, k)
		}
	}
	sort.Strings(out)
	return out
}

func c30GotGrants(ai *accessInfo) c30Grants {
	return c30Grants{admin: ai.bitAdmin, developer: ai.bitDeveloper, viewDefault: ai.bitViewDefault, editDefault: ai.bitEditDefault,
		viewPrefix: c30Keys(ai.bitViewPrefix), editPrefix: c30Keys(ai.bitEditPrefix), viewMetric: c30Keys(ai.bitViewMetric), editMetric: c30Keys(ai.bitEditMetric)}
}

func (g c30Grants) String() string {
	return fmt.Sprintf("admin=%v developer=%v view_default=%v edit_default=%v view_prefix=%q edit_prefix=%q view_metric=%q edit_metric=%q",
		g.admin, g.developer, g.viewDefault, g.editDefault, g.viewPrefix, g.editPrefix, g.viewMetric, g.editMetric)
}

// ---------- reference: token verdict ----------

// c30TokenRef returns the reasons for which the statement demands rejection (empty: none), and whether the token
// is unambiguously valid (must be accepted). Neither = the wording leaves the case open.
func c30TokenRef(v c30Envelope, c c30Claims, nowHalf int64) (mustReject []string, mustAccept bool) {
	// "an EdDSA token"
	if v.alg != "EdDSA" {
		mustReject = append(mustReject, "wrong-alg")
	}
	// "signed by a configured key whose id it names"
	switch {
	case v.kid < 0:
		mustReject = append(mustReject, "kid-absent")
	case v.kid >= 2:
		mustReject = append(mustReject, "unknown-kid")
	case v.alg == "EdDSA" && v.signer != v.kid:
		mustReject = append(mustReject, "signed-by-other-key")
	}
	if v.tamper != c30TamperNone {
		mustReject = append(mustReject, "tampered-"+c30TamperNames[v.tamper])
	}
	// "issued by vkuth"
	if c.iss == nil || *c.iss != "vkuth" {
		mustReject = append(mustReject, "foreign-issuer")
	}
	// "for a user"
	if c.subject == c30SubjEmptyUser || c.subject == c30SubjNoUser || c.subject == c30SubjNoData {
		mustReject = append(mustReject, "no-user")
	}
	// "within its validity window (with the 5-second tolerance)"; offsets are in seconds, now may carry half a second
	// now > exp + 5s  <=>  2*now > 2*exp + 10 (in half seconds)
	if c.exp != nil && nowHalf > 2*(*c.exp)+10 {
		mustReject = append(mustReject, "expired")
	}
	if c.nbf != nil && 2*(*c.nbf) > nowHalf+10 {
		mustReject = append(mustReject, "premature")
	}
	mustAccept = len(mustReject) == 0 && v.kind == 0 && c.subject == c30SubjUser &&
		c.exp != nil && 2*(*c.exp)+10 >= nowHalf+2 && // at least one second inside the tolerated window
		(c.nbf == nil || 2*(*c.nbf) <= nowHalf) &&
		c.iat != nil && 2*(*c.iat) <= nowHalf
	return mustReject, mustAccept
}

type c30Found = mc.FoundViolation

// c30Panic is the error c30Parse reports when the code under test panics instead of returning. The statement is about
// which tokens are ACCEPTED; a panic is not an acceptance, so it is counted as a rejection (and recorded as an outcome
// and in the notes), not reported as a violation of C30.
type c30Panic struct{ v any }

func (p c30Panic) Error() string { return fmt.Sprintf("PANIC in parseAccessToken: %v", p.v) }

func c30Parse(e *c30Env, tok string) (ai accessInfo, err error) {
	defer func() {
		if p := recover(); p != nil {
			ai, err = accessInfo{}, c30Panic{p}
		}
	}()
	return parseAccessToken(e.helper, tok, e.prot, false, false)
}

type c30Unit struct {
	found                                      []c30Found
	execs, accepted, singleFault, open, panics int64
	outcomes                                   map[string]bool
}

func (u *c30Unit) violate(sig, desc string, detail any) {
	n := 0
	for _, f := range u.found {
		if f.Sig == sig {
			n++
		}
	}
	if n < 3 {
		u.found = append(u.found, c30Found{Sig: sig, Desc: desc, Detail: detail})
	}
}

func c30Ptr[T any](v T) *T { return &v }

// c30CheckToken runs one token through the real parseAccessToken and compares with the reference.
func c30CheckToken(u *c30Unit, e *c30Env, v c30Envelope, c c30Claims, now time.Time, nowHalf int64) {
	tok := e.token(v, c, now)
	ai, err := c30Parse(e, tok)
	u.execs++
	mustReject, mustAccept := c30TokenRef(v, c, nowHalf)
	describe := func() string {
		iss := "<absent>"
		if c.iss != nil {
			iss = fmt.Sprintf("%q", *c.iss)
		}
		off := func(p *int64) string {
			if p == nil {
				return "absent"
			}
			return fmt.Sprintf("now%+ds", *p)
		}
		return fmt.Sprintf("envelope=%s iss=%s subject=%d exp=%s nbf=%s iat=%s now_half_second=%v bits=%q token=%s", v.name, iss, c.subject, off(c.exp), off(c.nbf), off(c.iat), nowHalf%2 == 1, c.bits, tok)
	}
	if len(mustReject) <= 1 {
		u.singleFault++
	}
	if err == nil {
		u.accepted++
		if len(mustReject) != 0 {
			u.violate("C30:token-accepted-"+mustReject[0], fmt.Sprintf("token accepted although %v: %s", mustReject, describe()), map[string]any{"token": tok, "reasons": mustReject})
		}
		// only bits prefixed with the application name are granted (and those are)
		want := c30RefGrants(c.bits)
		got := c30GotGrants(&ai)
		if got.String() != want.String() {
			sig := "C30:app-bits-not-granted-exactly"
			if (got.admin && !want.admin) || (got.developer && !want.developer) || (got.viewDefault && !want.viewDefault) || (got.editDefault && !want.editDefault) ||
				len(got.viewPrefix) > len(want.viewPrefix) || len(got.editPrefix) > len(want.editPrefix) || len(got.viewMetric) > len(want.viewMetric) || len(got.editMetric) > len(want.editMetric) {
				sig = "C30:foreign-bit-granted"
			}
			u.violate(sig, fmt.Sprintf("granted {%s}, the token carries {%s}: %s", got, want, describe()), map[string]any{"token": tok})
		}
		if len(mustReject) == 0 && ai.user != c.user() {
			u.violate("C30:user-mismatch", fmt.Sprintf("accepted for user %q, token is for %q: %s", ai.user, c.user(), describe()), map[string]any{"token": tok})
		}
		u.outcomes["accepted:"+got.String()] = true
	} else {
		if mustAccept {
			u.violate("C30:valid-token-rejected", fmt.Sprintf("valid token rejected (%v): %s", err, describe()), map[string]any{"token": tok, "error": err.Error()})
		}
		// a rejected token must not leave permissions behind
		if ai.bitAdmin || ai.bitDeveloper || ai.bitViewDefault || ai.bitEditDefault || len(ai.bitViewMetric)+len(ai.bitEditMetric)+len(ai.bitViewPrefix)+len(ai.bitEditPrefix) != 0 {
			u.violate("C30:rejected-token-grants-bits", fmt.Sprintf("rejected token still yields permissions {%s}: %s", c30GotGrants(&ai), describe()), map[string]any{"token": tok})
		}
		msg := err.Error()
		if _, ok := err.(c30Panic); ok {
			u.panics++
		}
		if i := strings.Index(msg, "token: "); i >= 0 {
			msg = msg[i:]
		}
		if len(msg) > 60 {
			msg = msg[:60]
		}
		u.outcomes["rejected:"+msg] = true
	}
	if len(mustReject) == 0 && !mustAccept {
		u.open++
	}
}

func c30Envelopes() []c30Envelope {
	var out []c30Envelope
	add := func(name, alg string, kid, signer, kind, tamper int) {
		out = append(out, c30Envelope{name: name, alg: alg, kid: kid, signer: signer, kind: kind, tamper: tamper})
	}
	add("EdDSA/kid=key0/signed-by-key0", "EdDSA", 0, 0, 0, 0)
	add("EdDSA/kid=key1/signed-by-key1", "EdDSA", 1, 1, 0, 0)
	add("EdDSA/kid=key1/signed-by-key0(configured,not-named)", "EdDSA", 1, 0, 0, 0)
	add("EdDSA/kid=key0/signed-by-key2(not-configured)", "EdDSA", 0, 2, 0, 0)
	add("EdDSA/kid=key2(unknown)/signed-by-key2", "EdDSA", 2, 2, 0, 0)
	add("EdDSA/kid-absent/signed-by-key0", "EdDSA", -1, 0, 0, 0)
	add("EdDSA/kid-is-number/signed-by-key0", "EdDSA", -2, 0, 0, 0)
	add("HS256/kid=key0/hmac-with-public-key0", "HS256", 0, 0, 0, 0)
	add("HS256/kid=key2(unknown)/hmac-with-public-key2", "HS256", 2, 2, 0, 0)
	add("none/kid=key0/no-signature", "none", 0, 0, 0, 0)
	add("none/kid-absent/no-signature", "none", -1, 0, 0, 0)
	add("EdDSA/kid=key0/signed-by-key0/kind-absent", "EdDSA", 0, 0, 1, 0)
	add("EdDSA/kid=key0/signed-by-key0/kind=cookie", "EdDSA", 0, 0, 2, 0)
	for t := 1; t < c30NumTampers; t++ {
		add("EdDSA/kid=key0/signed-by-key0/tamper="+c30TamperNames[t], "EdDSA", 0, 0, 0, t)
	}
	for t := 1; t < c30NumTampers; t++ {
		add("EdDSA/kid=key1/signed-by-key1/tamper="+c30TamperNames[t], "EdDSA", 1, 1, 0, t)
	}
	return out
}

var c30BitSets = [][]string{
	{},
	{c30App + ":view_default", c30App + ":edit_metric.foo_bar", c30App + ":view_namespace.ns"},
	{"other:admin", "statshouse:admin", "admin", c30App + "2:admin", c30App + "admin", "x" + c30App + ":admin", ":admin", c30App + ":", "STATSHOUSE-API:admin", " " + c30App + ":admin",
		"other:view_default", "other:edit_default", "other:view_prefix.", "other:edit_metric.foo_bar", "developer"},
	{"other:admin", c30App + ":developer", c30App + ":view_prefix.ns@", "other:edit_default", c30App + ":edit_default", c30App + ":" + c30App + ":admin", "other:view_metric.foo_bar", c30App + ":view_metric.ns@foo@bar"},
	{c30App + ":admin", c30App + ":developer", c30App + ":view_default", c30App + ":edit_default", c30App + ":view_prefix.foo_", c30App + ":edit_prefix.foo_", c30App + ":view_metric.foo_bar",
		c30App + ":edit_metric.foo_bar", c30App + ":view_namespace.ns", c30App + ":edit_namespace.ns", c30App + ":unknown_bit", c30App + ":view_prefix.", c30App + ":admin"},
}

func c30TokenPart(rep *mc.Report) {
	envelopes := c30Envelopes()
	issuers := []*string{c30Ptr("vkuth"), c30Ptr("vkuth2"), c30Ptr("vkut"), c30Ptr(""), nil, c30Ptr("Vkuth"), c30Ptr("xvkuth"), c30Ptr("vkuth ")}
	subjects := []int{c30SubjUser, c30SubjEmptyUser, c30SubjNoUser, c30SubjService, c30SubjNoData}
	offsets := []*int64{c30Ptr(int64(-6)), c30Ptr(int64(-5)), c30Ptr(int64(-4)), c30Ptr(int64(0)), c30Ptr(int64(4)), c30Ptr(int64(5)), c30Ptr(int64(6)), nil}
	bitSets := c30BitSets
	nows := []int64{0} // half seconds added to the base `now`
	if mc.Thorough() {
		nows = []int64{0, 1}
		offsets = []*int64{c30Ptr(int64(-7)), c30Ptr(int64(-6)), c30Ptr(int64(-5)), c30Ptr(int64(-4)), c30Ptr(int64(-1)), c30Ptr(int64(0)), c30Ptr(int64(1)), c30Ptr(int64(4)), c30Ptr(int64(5)), c30Ptr(int64(6)), c30Ptr(int64(7)), nil}
	} else {
		issuers = issuers[:6]
		subjects = subjects[:4]
		bitSets = bitSets[:4]
	}
	iats := []*int64{c30Ptr(int64(-10))}
	rep.Bounds["token_envelopes"] = len(envelopes)
	rep.Bounds["token_issuers"] = len(issuers)
	rep.Bounds["token_subject_kinds"] = len(subjects)
	rep.Bounds["token_exp_nbf_offsets_s"] = "exp and nbf each in {-6,-5,-4,0,+4,+5,+6,absent} (thorough adds -7,-1,+1,+7 and now+0.5s); quick: {-6,0,+6,absent} under envelopes that are invalid by themselves"
	rep.Bounds["token_bit_sets"] = len(bitSets)

	type job struct {
		env     c30Envelope
		iss     *string
		half    int64
		iats    []*int64
		offsets []*int64
	}
	// quick tier: envelopes that must be rejected whatever the claims say get a reduced grid of exp/nbf offsets
	// (one value per class: outside the tolerance on the early side, inside, outside on the late side, absent)
	reduced := []*int64{c30Ptr(int64(-6)), c30Ptr(int64(0)), c30Ptr(int64(6)), nil}
	var jobs []job
	for _, half := range nows {
		for _, v := range envelopes {
			for _, iss := range issuers {
				offs := offsets
				if bad, _ := c30TokenRef(v, c30Claims{iss: c30Ptr("vkuth")}, 0); len(bad) != 0 && !mc.Thorough() {
					offs = reduced
				}
				jobs = append(jobs, job{v, iss, half, iats, offs})
			}
		}
	}
	// extra family: iat variants (the statement does not mention iat; only the must-reject side is checked there)
	for _, v := range envelopes[:2] {
		jobs = append(jobs, job{v, issuers[0], 0, []*int64{nil, c30Ptr(int64(-10)), c30Ptr(int64(0)), c30Ptr(int64(4)), c30Ptr(int64(5)), c30Ptr(int64(6)), c30Ptr(int64(1000))}, offsets})
	}
	units := make([]c30Unit, len(jobs))
	envs := map[int64]*c30Env{}
	for _, half := range nows {
		e, err := c30NewEnv(c30Now.Add(time.Duration(half) * 500 * time.Millisecond))
		if err != nil {
			rep.Infra(err.Error())
			return
		}
		envs[half] = e
	}
	c30Parallel(len(jobs), func(i int) {
		j := jobs[i]
		u := &units[i]
		u.outcomes = map[string]bool{}
		e := envs[j.half]
		now := c30Now.Add(time.Duration(j.half) * 500 * time.Millisecond)
		nowHalf := j.half // relative to the base second, in half seconds
		for _, subj := range subjects {
			for _, exp := range j.offsets {
				for _, nbf := range j.offsets {
					for _, iat := range j.iats {
						for _, bits := range bitSets {
							c := c30Claims{iss: j.iss, subject: subj, exp: exp, nbf: nbf, iat: iat, bits: bits}
							// the claims are written relative to the whole second of `now`
							c30CheckToken(u, e, j.env, c, time.Unix(now.Unix(), 0), nowHalf)
						}
					}
				}
			}
		}
	})
	var execs, accepted, single, open, panics int64
	for i := range units {
		panics += units[i].panics
		for _, f := range units[i].found {
			rep.Violate(f.Sig, f.Desc, f.Detail)
		}
		execs += units[i].execs
		accepted += units[i].accepted
		single += units[i].singleFault
		open += units[i].open
		var ks []string
		for k := range units[i].outcomes {
			ks = append(ks, k)
		}
		sort.Strings(ks)
		for _, k := range ks {
			rep.Outcome("token:" + k)
		}
	}
	rep.AddCounts(execs, execs, execs, single)
	rep.Parts["tokens"] = map[string]any{"tokens": execs, "accepted": accepted, "valid_or_single_fault_tokens": single, "tokens_left_open_by_the_wording": open,
		"tokens_on_which_the_code_panicked_(counted_as_rejected)": panics}
	e := envs[0]
	valid := c30Claims{iss: c30Ptr("vkuth"), subject: c30SubjUser, exp: c30Ptr(int64(-4)), nbf: c30Ptr(int64(0)), iat: c30Ptr(int64(-10)), bits: c30BitSets[3]}
	tok := e.token(envelopes[0], valid, c30Now)
	ai, err := parseAccessToken(e.helper, tok, e.prot, false, false)
	rep.Sample(map[string]any{"part": "tokens", "token": tok, "exp": "now-4s", "accepted": err == nil, "granted": c30GotGrants(&ai).String()})
	expired := valid
	expired.exp = c30Ptr(int64(-5))
	_, err = parseAccessToken(e.helper, e.token(envelopes[0], expired, c30Now), e.prot, false, false)
	rep.Sample(map[string]any{"part": "tokens", "exp": "now-5s", "accepted": err == nil, "error": fmt.Sprint(err)})
}

// ---------- sequences on ONE verifier instance ----------
//
// The token matrix presents every token to a fresh state. Here a small set of tokens is presented repeatedly to ONE
// JWTHelper while the clock moves (forwards and backwards) between the presentations, alone and interleaved with a
// second token. Oracle: every single decision (accept/reject, granted bits, user) equals the decision a fresh helper
// makes for that (token, clock) - verification is a function of (token, now, keys) - and, where the statement decides
// the case, the usual reasons (an expired token accepted because it was accepted earlier is token-accepted-expired).

type c30SeqToken struct {
	name   string
	claims c30Claims // offsets relative to c30Now
	tok    string
}

type c30SeqStep struct{ tok, reading int }

var c30ReadingNames = []string{"inside window", "exp+4s", "exp+6s", "nbf-6s", "nbf-4s"}

func (t c30SeqToken) clock(reading int) time.Time {
	var off int64
	switch reading {
	case 0:
		off = *t.claims.nbf // first second of the window; every token here has nbf < exp
		if off < *t.claims.exp-1 {
			off++
		}
	case 1:
		off = *t.claims.exp + 4
	case 2:
		off = *t.claims.exp + 6
	case 3:
		off = *t.claims.nbf - 6
	case 4:
		off = *t.claims.nbf - 4
	}
	return c30Now.Add(time.Duration(off) * time.Second)
}

type c30Decision struct {
	accepted bool
	grants   string
	user     string
}

func c30Decide(e *c30Env, tok string) c30Decision {
	ai, err := c30Parse(e, tok)
	if err != nil {
		return c30Decision{}
	}
	return c30Decision{accepted: true, grants: c30GotGrants(&ai).String(), user: ai.user}
}

func c30SequencePart(rep *mc.Report) {
	base, err := c30NewEnv(c30Now)
	if err != nil {
		rep.Infra(err.Error())
		return
	}
	good := c30Envelope{name: "EdDSA/kid=key0/signed-by-key0", alg: "EdDSA", kid: 0, signer: 0}
	mk := func(name string, nbf, exp int64, subject int, bits []string) c30SeqToken {
		c := c30Claims{iss: c30Ptr("vkuth"), subject: subject, exp: c30Ptr(exp), nbf: c30Ptr(nbf), iat: c30Ptr(nbf), bits: bits}
		return c30SeqToken{name: name, claims: c, tok: base.token(good, c, c30Now)}
	}
	tokens := []c30SeqToken{
		mk("valid now, admin bits", -10, 100, c30SubjUser, []string{c30App + ":admin", c30App + ":edit_default"}),
		mk("valid soon (nbf in the future), view bits", 50, 100, c30SubjUser, []string{c30App + ":view_default", c30App + ":view_metric.foo_bar"}),
		mk("about to expire, edit bits", -10, 2, c30SubjUser, []string{c30App + ":edit_prefix.foo_"}),
		mk("valid now, other subject, no bits", -10, 100, c30SubjService, nil),
	}
	maxLen := mc.Pick(3, 4)
	rep.Bounds["sequence_tokens"] = len(tokens)
	rep.Bounds["sequence_clock_readings"] = c30ReadingNames
	rep.Bounds["sequences"] = fmt.Sprintf("every sequence of 1..%d presentations (token, clock reading of that token) over every single token and every pair of tokens, one JWTHelper per sequence", maxLen)

	// decisions of a fresh verifier, one per (token, clock of a reading of any token)
	type fk struct {
		tok   int
		clock int64
	}
	fresh := map[fk]c30Decision{}
	for ti := range tokens {
		for tj := range tokens {
			for r := range c30ReadingNames {
				clk := tokens[tj].clock(r)
				if _, ok := fresh[fk{ti, clk.Unix()}]; ok {
					continue
				}
				e, err := c30NewEnv(clk)
				if err != nil {
					rep.Infra(err.Error())
					return
				}
				fresh[fk{ti, clk.Unix()}] = c30Decide(e, tokens[ti].tok)
			}
		}
	}
	// work units: token sets {i} and {i,j}
	var sets [][]int
	for i := range tokens {
		sets = append(sets, []int{i})
	}
	for i := range tokens {
		for j := i + 1; j < len(tokens); j++ {
			sets = append(sets, []int{i, j})
		}
	}
	units := make([]c30Unit, len(sets))
	nontrivial := make([]int64, len(sets))
	seqs := make([]int64, len(sets))
	c30Parallel(len(sets), func(ui int) {
		u := &units[ui]
		u.outcomes = map[string]bool{}
		set := sets[ui]
		var steps []c30SeqStep
		for _, t := range set {
			for r := range c30ReadingNames {
				steps = append(steps, c30SeqStep{t, r})
			}
		}
		seq := make([]c30SeqStep, 0, maxLen)
		var run func()
		curLen := 0 // sequences are run shortest first, so that the first example of a signature is a minimal one
		run = func() {
			if len(seq) == curLen {
				// a pair unit only runs sequences that really use both tokens (the others belong to the single units)
				used := map[int]bool{}
				for _, st := range seq {
					used[st.tok] = true
				}
				if len(used) == len(set) {
					seqs[ui]++
					clock := c30Now
					e, err := c30NewEnvClock(&clock)
					if err != nil {
						u.violate("C30:harness", err.Error(), nil)
						return
					}
					var verdicts []string
					mixed := false
					firstVerdict := map[int]bool{}
					for k, st := range seq {
						clock = tokens[st.tok].clock(st.reading)
						got := c30Decide(e, tokens[st.tok].tok)
						u.execs++
						want := fresh[fk{st.tok, clock.Unix()}]
						verdicts = append(verdicts, fmt.Sprintf("%q at %s (now%+ds) -> accepted=%v", tokens[st.tok].name, c30ReadingNames[st.reading], clock.Unix()-c30Now.Unix(), got.accepted))
						if fv, ok := firstVerdict[st.tok]; ok && fv != want.accepted {
							mixed = true
						}
						if _, ok := firstVerdict[st.tok]; !ok {
							firstVerdict[st.tok] = want.accepted
						}
						if got == want {
							continue
						}
						// classify with the statement's table where it decides the case
						d := clock.Unix() - c30Now.Unix()
						shifted := tokens[st.tok].claims
						shifted.exp, shifted.nbf, shifted.iat = c30Ptr(*shifted.exp-d), c30Ptr(*shifted.nbf-d), c30Ptr(*shifted.iat-d)
						mustReject, mustAccept := c30TokenRef(good, shifted, 0)
						sig := "C30:verdict-depends-on-history"
						switch {
						case got.accepted && len(mustReject) != 0:
							sig = "C30:token-accepted-" + mustReject[0] + "-after-earlier-presentations"
						case !got.accepted && mustAccept:
							sig = "C30:valid-token-rejected-after-earlier-presentations"
						case got.accepted && want.accepted:
							sig = "C30:granted-bits-depend-on-history"
						}
						u.violate(sig, fmt.Sprintf("presentation %d of the sequence [%s] on one JWTHelper: got accepted=%v {%s} user %q, a fresh JWTHelper decides accepted=%v {%s} user %q",
							k+1, strings.Join(verdicts, "; "), got.accepted, got.grants, got.user, want.accepted, want.grants, want.user),
							map[string]any{"sequence": verdicts, "token": tokens[st.tok].tok})
					}
					if mixed {
						nontrivial[ui]++
					}
					u.outcomes[strings.Join(verdicts, ";")] = true
				}
			}
			if len(seq) == curLen {
				return
			}
			for _, st := range steps {
				seq = append(seq, st)
				run()
				seq = seq[:len(seq)-1]
			}
		}
		for curLen = 1; curLen <= maxLen; curLen++ {
			run()
		}
	})
	var execs, nseq, nt int64
	distinct := map[string]bool{}
	for i := range units {
		for _, f := range units[i].found {
			rep.Violate(f.Sig, f.Desc, f.Detail)
		}
		execs += units[i].execs
		nseq += seqs[i]
		nt += nontrivial[i]
		for k := range units[i].outcomes {
			distinct[k] = true
		}
	}
	accepts := 0
	for _, d := range fresh {
		if d.accepted {
			accepts++
		}
	}
	rep.AddCounts(execs, execs, nseq, nt)
	rep.Outcome(fmt.Sprintf("sequences:distinct_verdict_sequences=%d", len(distinct)))
	rep.Parts["sequences"] = map[string]any{"sequences": nseq, "presentations": execs, "sequences_where_a_token_is_both_accepted_and_rejected": nt,
		"fresh_decisions": len(fresh), "fresh_decisions_accepting": accepts, "distinct_verdict_sequences": len(distinct)}
	rep.Sample(map[string]any{"part": "sequences", "sequence": "token 'about to expire' at: inside window, exp+6s, inside window", "fresh verdicts": []bool{
		fresh[fk{2, tokens[2].clock(0).Unix()}].accepted, fresh[fk{2, tokens[2].clock(2).Unix()}].accepted, fresh[fk{2, tokens[2].clock(0).Unix()}].accepted}})
}

func c30Parallel(n int, f func(i int)) {
	var next atomic.Int64
	var wg sync.WaitGroup
	for w := 0; w < runtime.GOMAXPROCS(0); w++ {
		wg.Add(1)
		go func() {
			defer wg.Done()
			for {
				i := int(next.Add(1) - 1)
				if i >= n {
					return
				}
				f(i)
			}
		}()
	}
	wg.Wait()
}

// ---------- policy ----------

var c30RemoteConfigNames = []string{format.StatshouseAPIRemoteConfig, format.StatshouseAgentRemoteConfigMetric, format.StatshouseAggregatorRemoteConfigMetric, format.StatshouseJournalDump}

// c30RefRemoteConfig: the remote-config metrics named by the constants of internal/format.
func c30RefRemoteConfig(name string) bool {
	for _, n := range c30RemoteConfigNames {
		if n == name {
			return true
		}
	}
	return false
}

func c30HasPrefix(name, p string) bool { return len(name) >= len(p) && name[:len(p)] == p }

type c30Rights struct{ metric, prefix, def bool }

func (r c30Rights) any() bool { return r.metric || r.prefix || r.def }

func c30RefNameRights(metricBits, prefixBits []string, def bool, prot []string, name string) c30Rights {
	var r c30Rights
	for _, m := range metricBits {
		if m == name {
			r.metric = true
		}
	}
	for _, p := range prefixBits {
		if c30HasPrefix(name, p) {
			r.prefix = true
		}
	}
	protected := false
	for _, p := range prot {
		if c30HasPrefix(name, p) {
			protected = true
		}
	}
	r.def = def && !protected
	return r
}

type c30Variant struct {
	name    string
	attr    string // guarded attribute class that changes ("" = none)
	verdict int    // 0 allowed (if name rights), 1 forbidden for a non-admin, 2 open
	apply   func(old, new_ *format.MetricMetaValue)
}

// c30Slug turns a variant name into a stable signature suffix.
func c30Slug(name string) string {
	var b strings.Builder
	for _, r := range name {
		switch {
		case r >= 'a' && r <= 'z', r >= 'A' && r <= 'Z', r >= '0' && r <= '9', r == '.', r == '_', r == '>':
			b.WriteRune(r)
		case r == ' ' || r == '-':
			b.WriteByte('-')
		}
	}
	return strings.ReplaceAll(b.String(), "->", "-to-")
}

func c30BaseMetric(name string) format.MetricMetaValue {
	return format.MetricMetaValue{MetricID: 1000, Name: name, Description: "d", Kind: format.MetricKindCounter, Weight: 1, Resolution: 1,
		Tags: []format.MetricMetaTag{{Name: "env"}, {Name: "a"}, {Name: "b", RawKind: "hex"}, {Name: "c"}}}
}

func c30Variants() []c30Variant {
	v := []c30Variant{
		{"identical", "", 0, func(o, n *format.MetricMetaValue) {}},
		{"description changed", "", 0, func(o, n *format.MetricMetaValue) { n.Description = "other" }},
		{"resolution 1->5", "", 0, func(o, n *format.MetricMetaValue) { n.Resolution = 5 }},
		{"kind counter->value", "", 0, func(o, n *format.MetricMetaValue) { n.Kind = format.MetricKindValue }},
		{"disable false->true", "", 0, func(o, n *format.MetricMetaValue) { n.Disable = true }},
		{"tag renamed", "", 0, func(o, n *format.MetricMetaValue) {
			n.Tags = append([]format.MetricMetaTag{}, n.Tags...)
			n.Tags[1].Name = "renamed"
		}},
		{"non-raw tag appended", "", 0, func(o, n *format.MetricMetaValue) {
			n.Tags = append(append([]format.MetricMetaTag{}, n.Tags...), format.MetricMetaTag{Name: "d"})
		}},
		{"non-raw last tag dropped", "", 0, func(o, n *format.MetricMetaValue) { n.Tags = append([]format.MetricMetaTag{}, n.Tags[:3]...) }},
		{"weight 0->1", "", 0, func(o, n *format.MetricMetaValue) { o.Weight = 0; n.Weight = 1 }},
		{"weight 1->2", "weight", 1, func(o, n *format.MetricMetaValue) { n.Weight = 2 }},
		{"weight 1->0", "weight", 1, func(o, n *format.MetricMetaValue) { n.Weight = 0 }},
		{"weight 0->2", "weight", 1, func(o, n *format.MetricMetaValue) { o.Weight = 0; n.Weight = 2 }},
		{"weight 2->1", "weight", 1, func(o, n *format.MetricMetaValue) { o.Weight = 2; n.Weight = 1 }},
		{"weight 0->0.5", "weight", 1, func(o, n *format.MetricMetaValue) { o.Weight = 0; n.Weight = 0.5 }},
		{"weight 1->1.5", "weight", 1, func(o, n *format.MetricMetaValue) { n.Weight = 1.5 }},
		{"weight 1->1000", "weight", 1, func(o, n *format.MetricMetaValue) { n.Weight = 1000 }},
		{"presort tag ''->'1'", "presort", 1, func(o, n *format.MetricMetaValue) { n.PreKeyFrom = 1 }},
		{"presort tag set->unset", "presort", 1, func(o, n *format.MetricMetaValue) { o.PreKeyFrom = 1 }},
		{"presort tag id 1->2 with pre_key_from unchanged", "presort", 1, func(o, n *format.MetricMetaValue) {
			o.PreKeyTagID, o.PreKeyFrom, n.PreKeyTagID, n.PreKeyFrom = "1", 1600000000, "2", 1600000000
		}},
		{"presort only false->true", "presort", 1, func(o, n *format.MetricMetaValue) { n.PreKeyOnly = true }},
		{"presort only true->false", "presort", 1, func(o, n *format.MetricMetaValue) { o.PreKeyOnly = true }},
		{"skip max host false->true", "skips", 1, func(o, n *format.MetricMetaValue) { n.SkipMaxHost = true }},
		{"skip max host true->false", "skips", 1, func(o, n *format.MetricMetaValue) { o.SkipMaxHost = true }},
		{"skip min host false->true", "skips", 1, func(o, n *format.MetricMetaValue) { n.SkipMinHost = true }},
		{"skip min host true->false", "skips", 1, func(o, n *format.MetricMetaValue) { o.SkipMinHost = true }},
		{"skip sum square false->true", "skips", 1, func(o, n *format.MetricMetaValue) { n.SkipSumSquare = true }},
		{"skip sum square true->false", "skips", 1, func(o, n *format.MetricMetaValue) { o.SkipSumSquare = true }},
		{"shard strategy ''->fixed_shard", "sharding", 1, func(o, n *format.MetricMetaValue) { n.ShardStrategy = format.ShardFixed }},
		{"shard strategy tags_hash->''", "sharding", 1, func(o, n *format.MetricMetaValue) { o.ShardStrategy = format.ShardByTagsHash }},
		{"shard_num 0->1", "sharding", 1, func(o, n *format.MetricMetaValue) { n.ShardNum = 1 }},
		{"shard_num 3->0", "sharding", 1, func(o, n *format.MetricMetaValue) { o.ShardNum = 3 }},
		{"shard (fixed key) 0->1", "sharding", 1, func(o, n *format.MetricMetaValue) { n.ShardFixedKey = 1 }},
		{"shard (fixed key) 2->0", "sharding", 1, func(o, n *format.MetricMetaValue) { o.ShardFixedKey = 2 }},
		{"shard2 0->2", "sharding", 1, func(o, n *format.MetricMetaValue) { n.ShardFixedKey2 = 2 }},
		{"shard2 2->0", "sharding", 1, func(o, n *format.MetricMetaValue) { o.ShardFixedKey2 = 2 }},
		{"shard2_timestamp 0->100", "sharding", 1, func(o, n *format.MetricMetaValue) { n.ShardFixedKey2Timestamp = 100 }},
		{"shard2_timestamp 100->0", "sharding", 1, func(o, n *format.MetricMetaValue) { o.ShardFixedKey2Timestamp = 100 }},
		{"tag c becomes raw", "raw-tag", 1, func(o, n *format.MetricMetaValue) {
			n.Tags = append([]format.MetricMetaTag{}, n.Tags...)
			n.Tags[3].RawKind = "hex"
		}},
		{"tag b stops being raw", "raw-tag", 1, func(o, n *format.MetricMetaValue) {
			n.Tags = append([]format.MetricMetaTag{}, n.Tags...)
			n.Tags[2].RawKind = ""
		}},
		{"raw tag b dropped with the tail", "raw-tag", 1, func(o, n *format.MetricMetaValue) { n.Tags = append([]format.MetricMetaTag{}, n.Tags[:2]...) }},
		{"raw tag appended", "raw-tag", 1, func(o, n *format.MetricMetaValue) {
			n.Tags = append(append([]format.MetricMetaTag{}, n.Tags...), format.MetricMetaTag{Name: "d", RawKind: "uint"})
		}},
		// the wording does not say whether changing the KIND of an already raw tag is a change of a "raw-tag attribute"
		{"raw kind hex->ip (open)", "raw-tag", 2, func(o, n *format.MetricMetaValue) {
			n.Tags = append([]format.MetricMetaTag{}, n.Tags...)
			n.Tags[2].RawKind = "ip"
		}},
	}
	return v
}

func c30PolicyPart(rep *mc.Report) {
	env, err := c30NewEnv(c30Now)
	if err != nil {
		rep.Infra(err.Error())
		return
	}
	rc := format.StatshouseAPIRemoteConfig
	alphabet := []string{"admin", "view_default", "edit_default", "view_prefix.foo_", "edit_prefix.foo_", "view_metric.foo_bar", "edit_metric.foo_bar", "edit_metric.foo_baz",
		"view_namespace.ns", "edit_namespace.ns", "edit_metric.ns@m", "edit_prefix.prot_", "view_metric." + rc, "edit_metric." + rc}
	// prefix bits that cover the remote-config metric names (which all start with "statshouse_")
	alphabet = append(alphabet, "edit_prefix.statshouse_", "view_prefix.statshouse_")
	names := []string{"plain_m", "foo_bar", "foo_baz", "prot_x", "ns:m", "ns:o", "other:m", rc, format.StatshouseAgentRemoteConfigMetric}
	if mc.Thorough() {
		names = append(names, "foo_", "prot_foo_bar", "ns", format.StatshouseAggregatorRemoteConfigMetric, format.StatshouseJournalDump, "statshouse_api_remote_config2")
	}
	editNames := []string{"plain_m", "foo_bar", "foo_baz", "prot_x", "ns:m", "ns:o", rc}
	if mc.Thorough() {
		editNames = append(editNames, "other:m", format.StatshouseAgentRemoteConfigMetric)
	}
	// quick tier: renames (old != new) are combined with one representative change per attribute class; edits in
	// place with every change. thorough: every pair with every change
	renameVariant := map[string]bool{"identical": true, "description changed": true, "weight 0->1": true, "weight 1->2": true, "presort tag ''->'1'": true,
		"presort tag id 1->2 with pre_key_from unchanged": true, "skip sum square false->true": true, "shard_num 0->1": true, "tag c becomes raw": true}
	variants := c30Variants()
	rep.Bounds["policy_bit_alphabet"] = alphabet
	rep.Bounds["policy_bit_subsets"] = fmt.Sprintf("%d; %s", 1<<len(alphabet),
		mc.Pick("quick: view decisions for subsets whose view part or edit part is {none, all, one bit}, edit decisions for subsets whose view part is {none, all, one bit}; admin free", "all subsets for view and edit decisions"))
	rep.Bounds["policy_metric_names"] = names
	rep.Bounds["policy_edit_pairs"] = fmt.Sprintf("%d old names x %d new names x %d attribute variants x create{false,true}%s", len(editNames), len(editNames), len(variants),
		mc.Pick(" (quick: renames with 9 representative variants, create=true only for old == new unchanged, as the handler calls it)", ""))
	rep.Bounds["protected_prefixes"] = env.prot

	// prepared (old,new) pairs per variant (names filled in per pair)
	type pair struct{ old, new_ format.MetricMetaValue }
	prepared := make([]pair, len(variants))
	for i, v := range variants {
		o, n := c30BaseMetric("x"), c30BaseMetric("x")
		v.apply(&o, &n)
		prepared[i] = pair{o, n}
	}
	nsub := 1 << len(alphabet)
	viewMask, editMask := 0, 0
	for i, b := range alphabet {
		if strings.HasPrefix(b, "view_") {
			viewMask |= 1 << i
		}
		if strings.HasPrefix(b, "edit_") {
			editMask |= 1 << i
		}
	}
	const chunk = 64
	nunits := (nsub + chunk - 1) / chunk
	units := make([]c30Unit, nunits)
	var views, edits, viewsGranted, editsGranted, nontrivial, openCases, editSkipped, notRun atomic.Int64
	c30Parallel(nunits, func(ui int) {
		u := &units[ui]
		u.outcomes = map[string]bool{}
		var lViews, lEdits, lVG, lEG, lNT, lOpen, lSkipped, lNotRun int64
		for s := ui * chunk; s < (ui+1)*chunk && s < nsub; s++ {
			// quick tier: a subset is run if its view part or its edit part is {nothing, everything, a single bit}: all
			// combinations of the view bits are met with all "simple" edit parts and vice versa (admin varies freely)
			special := func(part, mask int) bool { return part == 0 || part == mask || part&(part-1) == 0 }
			if !mc.Thorough() && !special(s&viewMask, viewMask) && !special(s&editMask, editMask) {
				lNotRun++
				continue
			}
			var bits, full []string
			for i, b := range alphabet {
				if s&(1<<i) != 0 {
					bits = append(bits, b)
					full = append(full, c30App+":"+b)
				}
			}
			// a foreign copy of every bit that is NOT in the subset rides along: it must not count
			for i, b := range alphabet {
				if s&(1<<i) == 0 {
					full = append(full, "other-app:"+b)
				}
			}
			claims := c30Claims{iss: c30Ptr("vkuth"), subject: c30SubjUser, exp: c30Ptr(int64(3600)), nbf: c30Ptr(int64(-1)), iat: c30Ptr(int64(-1)), bits: full}
			tok := env.token(c30Envelope{alg: "EdDSA", kid: s % 2, signer: s % 2}, claims, c30Now)
			ai, err := parseAccessToken(env.helper, tok, env.prot, false, false)
			if err != nil {
				u.violate("C30:valid-token-rejected", fmt.Sprintf("valid token with bits %q rejected: %v", bits, err), map[string]any{"token": tok})
				continue
			}
			g := c30RefGrants(full)
			u.outcomes[c30GotGrants(&ai).String()] = true
			// view
			for _, name := range names {
				got := ai.CanViewMetric(format.MetricMetaValue{Name: name})
				gotByName := ai.CanViewMetricName(name)
				lViews++
				if got {
					lVG++
				}
				if got != gotByName {
					u.violate("C30:view-by-name-differs", fmt.Sprintf("CanViewMetric=%v CanViewMetricName=%v for %q with bits %q", got, gotByName, name, bits), nil)
				}
				if g.admin {
					continue // the statement speaks about non-admins
				}
				r := c30RefNameRights(g.viewMetric, g.viewPrefix, g.viewDefault, env.prot, name)
				want := r.any() && !c30RefRemoteConfig(name)
				if r.any() || c30RefRemoteConfig(name) {
					lNT++
				}
				if got && !want {
					sig := "C30:view-granted-without-matching-bit"
					if c30RefRemoteConfig(name) {
						sig = "C30:view-remote-config-by-non-admin"
					}
					u.violate(sig, fmt.Sprintf("non-admin with bits %q can view %q (protected prefixes %q)", bits, name, env.prot), map[string]any{"bits": bits, "metric": name, "token": tok})
				}
				if !got && want {
					u.violate("C30:view-denied-despite-matching-bit", fmt.Sprintf("non-admin with bits %q cannot view %q (protected prefixes %q)", bits, name, env.prot), map[string]any{"bits": bits, "metric": name, "token": tok})
				}
			}
			// edit. quick tier: edit decisions are enumerated for every subset of the edit bits (and admin) combined with
			// no / every / each single view bit (cross-talk view bit -> edit right is still covered); thorough: every subset
			if !mc.Thorough() {
				if !special(s&viewMask, viewMask) {
					lSkipped++
					continue
				}
			}
			for _, oldName := range editNames {
				ro := c30RefNameRights(g.editMetric, g.editPrefix, g.editDefault, env.prot, oldName)
				for _, newName := range editNames {
					rn := c30RefNameRights(g.editMetric, g.editPrefix, g.editDefault, env.prot, newName)
					anyRC := c30RefRemoteConfig(oldName) || c30RefRemoteConfig(newName)
					// name rights: 1 forbidden, 0 granted, 2 open (both names have rights, but through different kinds of bit)
					nameVerdict := 1
					if !anyRC && ro.any() && rn.any() {
						nameVerdict = 2
						if (ro.metric && rn.metric) || (ro.prefix && rn.prefix) || (ro.def && rn.def) {
							nameVerdict = 0
						}
					}
					for vi := range variants {
						if oldName != newName && !mc.Thorough() && !renameVariant[variants[vi].name] {
							continue
						}
						for _, create := range []bool{false, true} {
							// the handler passes create=true only with old == new (handlePostMetric); quick tier keeps to that
							if create && !mc.Thorough() && (oldName != newName || vi != 0) {
								continue
							}
							old, new_ := prepared[vi].old, prepared[vi].new_
							old.Name, new_.Name = oldName, newName
							err := ai.CanEditMetric(create, old, new_)
							lEdits++
							if err == nil {
								lEG++
							}
							if g.admin {
								continue
							}
							if variants[vi].verdict == 1 && nameVerdict != 1 {
								lNT++
							}
							desc := func() string {
								return fmt.Sprintf("non-admin with bits %q, edit %q -> %q, change: %s, create=%v (protected prefixes %q): %v", bits, oldName, newName, variants[vi].name, create, env.prot, err)
							}
							detail := map[string]any{"bits": bits, "old": oldName, "new": newName, "change": variants[vi].name, "create": create, "token": tok}
							switch {
							case err == nil && nameVerdict == 1 && anyRC:
								u.violate("C30:edit-remote-config-by-non-admin", "allowed: "+desc(), detail)
							case err == nil && nameVerdict == 1 && oldName != newName:
								u.violate("C30:rename-without-rights-on-both-names", "allowed: "+desc(), detail)
							case err == nil && nameVerdict == 1:
								u.violate("C30:edit-granted-without-matching-bit", "allowed: "+desc(), detail)
							case err == nil && variants[vi].verdict == 1:
								u.violate("C30:non-admin-changes-"+variants[vi].attr+":"+c30Slug(variants[vi].name), "allowed: "+desc(), detail)
							case err != nil && nameVerdict == 0 && variants[vi].verdict == 0:
								u.violate("C30:edit-denied-despite-rights", "denied: "+desc(), detail)
							case nameVerdict == 2 || variants[vi].verdict == 2:
								lOpen++
							}
						}
					}
				}
			}
		}
		views.Add(lViews)
		edits.Add(lEdits)
		viewsGranted.Add(lVG)
		editsGranted.Add(lEG)
		nontrivial.Add(lNT)
		openCases.Add(lOpen)
		editSkipped.Add(lSkipped + lNotRun)
		notRun.Add(lNotRun)
	})
	for i := range units {
		for _, f := range units[i].found {
			rep.Violate(f.Sig, f.Desc, f.Detail)
		}
	}
	distinct := map[string]bool{}
	for i := range units {
		for k := range units[i].outcomes {
			distinct[k] = true
		}
	}
	total := views.Load() + edits.Load() + int64(nsub) - notRun.Load()
	rep.AddCounts(total, total, total, nontrivial.Load())
	rep.Parts["policy"] = map[string]any{"bit_subsets": nsub, "bit_subsets_carried_by_tokens": int64(nsub) - notRun.Load(), "distinct_access_infos": len(distinct), "view_decisions": views.Load(), "view_granted": viewsGranted.Load(),
		"edit_decisions": edits.Load(), "edit_granted": editsGranted.Load(), "decisions_left_open_by_the_wording": openCases.Load(),
		"subsets_with_edit_decisions": int64(nsub) - editSkipped.Load()}
	rep.Outcome(fmt.Sprintf("policy:views_granted=%d edits_granted=%d", viewsGranted.Load(), editsGranted.Load()))
	// samples
	ai, _ := parseAccessToken(env.helper, env.token(c30Envelope{alg: "EdDSA"}, c30Claims{iss: c30Ptr("vkuth"), subject: c30SubjUser, exp: c30Ptr(int64(60)), iat: c30Ptr(int64(-1)),
		bits: []string{c30App + ":edit_default", c30App + ":view_default"}}, c30Now), env.prot, false, false)
	o, n := c30BaseMetric("plain_m"), c30BaseMetric("plain_m")
	n.Weight = 2
	rep.Sample(map[string]any{"part": "policy", "bits": "view_default,edit_default", "edit": "plain_m weight 1->2", "decision": fmt.Sprint(ai.CanEditMetric(false, o, n))})
	n = c30BaseMetric("prot_x")
	rep.Sample(map[string]any{"part": "policy", "bits": "view_default,edit_default", "edit": "rename plain_m -> prot_x", "decision": fmt.Sprint(ai.CanEditMetric(false, o, n)),
		"view prot_x": ai.CanViewMetricName("prot_x"), "view plain_m": ai.CanViewMetricName("plain_m")})
}

func TestVerifC30(t *testing.T) {
	rep := mc.NewReport("C30")
	rep.Rule = "tokens: every combination of envelope (alg EdDSA/HS256/none x kid named/other configured/unknown/absent/non-string x signing key x 11 tamperings of a validly signed token x kind header) x issuer x subject kind x exp offset x nbf offset x bit set, hand-assembled and passed to the real parseAccessToken with an injected now; policy: every subset of the bit alphabet carried by a real token (with a foreign-app copy of every absent bit), then every metric name (view) and every (old name, new name, single attribute change, create) (edit); sequences: every sequence of up to 3/4 presentations of (token, clock reading) over single tokens and pairs of tokens on ONE JWTHelper with a moving clock, each decision compared with a fresh helper's; protected-prefix configurations: every ordered list (with repetition) of up to 3 protected prefixes over every string of length 0..3 over {a,b} (disjoint, nested, chained, duplicate, empty) x bit subsets carried by real tokens x every name of length 1..4/5 over {a,b} (view) and every (old,new) pair (edit), protected iff ANY configured prefix is a prefix of the name. Non-trivial = token that is valid or invalid for exactly one reason / decision where a bit matches or a remote-config metric is involved / guarded attribute change by someone with rights on the names / sequence in which the same token must be both accepted and rejected / decision with the default bit on a name that is protected only by a prefix other than its nearest configured predecessor in sort order"
	rep.Assume("local-mode / insecure-mode (access control switched off by configuration) and the token-less health-check endpoint are outside the statement")
	rep.Assume("signature primitives (crypto/ed25519, HMAC) are trusted; the harness signs with them")
	t0 := time.Now()
	c30TokenPart(rep)
	t1 := time.Now()
	c30PolicyPart(rep)
	t2 := time.Now()
	c30SequencePart(rep)
	t3 := time.Now()
	c30PrefixConfigPart(rep)
	t.Logf("C30: token part %.1fs, policy part %.1fs, sequence part %.1fs, protected-prefix configurations %.1fs", t1.Sub(t0).Seconds(), t2.Sub(t1).Seconds(), t3.Sub(t2).Seconds(), time.Since(t3).Seconds())
	if err := rep.Write(); err != nil {
		t.Fatal(err)
	}
	t.Logf("C30: violations=%d", rep.NumViolations())
}
