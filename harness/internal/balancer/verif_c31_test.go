//go:build verif

package balancer

// C31: the balancer forwards every accepted packet upstream promptly and in order.
//
// Real handler.HandleMetricsBatchRaw -> Egress.WritePacketLocked -> tcpPool.writeLocked ->
// pktBuffer.push / pop / swap -> tcpSender.sendLoop -> reconnect -> reportWouldBlockIfAny, with
// egress.go instrumented by tools/vinstr (modelled mutex/cond, virtual time incl. the swap
// timer, scheduler-owned selects, controlled goroutines, in-memory upstream via vnet.DialHook;
// bufferLen shrunk to 20 (batch threshold 4 packets) so that the 20% batch threshold, buffer-full and failover states are
// reachable in a few steps). mc.Explore enumerates all schedules / timer orders / upstream
// failures up to a deviation bound for every arrival pattern of a small family.

import (
	"bytes"
	"encoding/binary"
	"fmt"
	"io"
	"log"
	"net"
	"os"
	"strings"
	"sync"
	"testing"
	"time"

	"github.com/VKCOM/statshouse/internal/data_model/gen2/tlstatshouse"
	"github.com/VKCOM/statshouse/internal/verif/mc"
	"github.com/VKCOM/statshouse/internal/verif/vnet"
	"github.com/VKCOM/statshouse/internal/verif/vsched"
	"github.com/VKCOM/statshouse/internal/verif/vsync"
	"github.com/VKCOM/statshouse/internal/verif/vtime"
)

type c31Arrival struct {
	gap      time.Duration // virtual gap before this packet
	producer int
	size     int // body size in bytes (0 = the default short payload of c31Payload)
}

type c31Scenario struct {
	heavy     bool // explored with a smaller deviation bound
	name      string
	arrivals  []c31Arrival
	producers int
	failures  bool // upstream write/dial failures are explorer choices
	addrs     int  // resolved upstream addresses, split by the real newAddressPools (0 = 2)
	dead      []string // addresses that refuse every connection (scripted, not a deviation)
}

func c31Scenarios(thorough bool) []c31Scenario {
	g := func(gaps ...time.Duration) []c31Arrival {
		var a []c31Arrival
		for _, d := range gaps {
			a = append(a, c31Arrival{gap: d})
		}
		return a
	}
	ms := time.Millisecond
	burst := func(n int) []c31Arrival {
		var a []c31Arrival
		for i := 0; i < n; i++ {
			a = append(a, c31Arrival{})
		}
		return a
	}
	out := []c31Scenario{
		{name: "lone packet then idle", arrivals: g(0)},
		{name: "two packets back to back", arrivals: g(0, 0)},
		{name: "sparse 3 x 300ms", arrivals: g(0, 300*ms, 300*ms)},
		{name: "one, 2s idle, one", arrivals: g(0, 2000*ms)},
		{name: "trickle below the batch threshold (3 x 400ms after 300ms)", arrivals: g(300*ms, 400*ms, 400*ms)},
		{heavy: true, name: "mixed 7", arrivals: g(0, 0, 2000*ms, 300*ms, 0, 0, 1200*ms)},
		{heavy: true, name: "burst filling both buffers", arrivals: burst(2*bufferLen + 5)},
		{name: "lone packet, upstream failures", arrivals: g(0), failures: true},
		{heavy: true, name: "three packets, upstream failures", arrivals: g(0, 0, 300*ms), failures: true},
		// body sizes up to the frame limit (the largest body a receiver can hand over is exactly pktBodyMax)
		{name: "body sizes at the frame limit", arrivals: []c31Arrival{{size: 5}, {size: pktBodyMax - 1}, {size: pktBodyMax}, {size: pktBodyMax - 1}, {size: 7}}},
		// one batch, two write failures inside it (the resend cursor after the second failure)
		{name: "batch of five, upstream failures", arrivals: burst(5), failures: true},
	}
	twice := append(append(burst(2*bufferLen+3), c31Arrival{gap: 3000 * ms}), burst(2*bufferLen+2)...)
	out = append(out, c31Scenario{heavy: true, name: "two refusal episodes (burst, 3s idle, burst)", arrivals: twice})
	// the number of resolved upstream addresses decides how newAddressPools splits them: with one address the
	// secondary sender has an empty pool, with three the primary rotates over two
	out = append(out,
		c31Scenario{heavy: true, name: "one upstream address: burst over one buffer then idle", addrs: 1, arrivals: burst(bufferLen + 2)},
		c31Scenario{heavy: true, name: "one upstream address: burst filling both buffers", addrs: 1, arrivals: burst(2*bufferLen + 5)},
		c31Scenario{name: "three upstream addresses: sparse 3 x 300ms", addrs: 3, arrivals: g(0, 300*ms, 300*ms)},
		// a sender whose pool holds a dead address must rotate to the live one ("plus reconnection time")
		c31Scenario{name: "three upstream addresses, the first one dead: sparse 3 x 300ms", addrs: 3, dead: []string{"up1"}, arrivals: g(0, 300*ms, 300*ms)},
		c31Scenario{name: "four upstream addresses, first of each pool dead: two packets", addrs: 4, dead: []string{"up1", "up3"}, arrivals: g(0, 0)},
	)
	two := c31Scenario{name: "two producers", producers: 2, arrivals: []c31Arrival{{gap: 0, producer: 0}, {gap: 0, producer: 1}, {gap: 300 * ms, producer: 0}, {gap: 0, producer: 1}}}
	out = append(out, two)
	if thorough {
		out = append(out,
			c31Scenario{heavy: true, name: "burst over one buffer then idle (failover)", arrivals: burst(bufferLen + 2)},
			c31Scenario{heavy: true, name: "burst over one buffer with failures", arrivals: burst(bufferLen + 2), failures: true},
			c31Scenario{heavy: true, name: "sparse 5 with failures", arrivals: g(0, 1500*ms, 0, 300*ms, 2000*ms), failures: true},
		)
	}
	return out
}

type c31Write struct {
	at   time.Duration
	data []byte
}

type c31Conn struct {
	up     *c31Upstream
	addr   string
	writes []c31Write
	closed bool
}

type c31Upstream struct {
	dead       map[string]bool
	x          *mc.Exec
	failures   bool
	conns      []*c31Conn
	failedData [][]byte // buffers whose Write was failed by the explorer
	dialFails  int
	deadDials  int
}

func (u *c31Upstream) dial(network, addr string) (net.Conn, error) {
	if u.dead[addr] {
		u.deadDials++
		return nil, vnet.ErrInjected
	}
	if u.failures && vsched.Self() != nil && u.x.Choose(2, "dial fails") == 1 {
		u.dialFails++
		return nil, vnet.ErrInjected
	}
	c := &c31Conn{up: u, addr: addr}
	u.conns = append(u.conns, c)
	return c, nil
}

func (c *c31Conn) Write(b []byte) (int, error) {
	if c.closed {
		return 0, net.ErrClosed
	}
	if c.up.failures && vsched.Self() != nil && c.up.x.Choose(2, "write fails") == 1 {
		c.up.failedData = append(c.up.failedData, append([]byte{}, b...))
		return 0, vnet.ErrInjected
	}
	var at time.Duration
	if s := vsched.Active(); s != nil {
		at = s.Elapsed()
	}
	c.writes = append(c.writes, c31Write{at: at, data: append([]byte{}, b...)})
	return len(b), nil
}
func (c *c31Conn) Read(b []byte) (int, error)         { return 0, io.EOF }
func (c *c31Conn) Close() error                       { c.closed = true; return nil }
func (c *c31Conn) LocalAddr() net.Addr                { return nil }
func (c *c31Conn) RemoteAddr() net.Addr               { return nil }
func (c *c31Conn) SetDeadline(t time.Time) error      { return nil }
func (c *c31Conn) SetReadDeadline(t time.Time) error  { return nil }
func (c *c31Conn) SetWriteDeadline(t time.Time) error { return nil }

// c31PayloadOf: the body of arrival id of a scenario (an explicit size pads the default payload).
func c31PayloadOf(sc c31Scenario, id int) []byte {
	p := c31Payload(id)
	if n := sc.arrivals[id].size; n > 0 {
		p = append([]byte(fmt.Sprintf("P%03d:", id)), make([]byte, n)...)[:n]
		for i := 5; i < n; i++ {
			p[i] = byte('A' + (id+i)%26)
		}
	}
	return p
}

func c31Payload(id int) []byte {
	p := []byte(fmt.Sprintf("P%03d:", id))
	for i := 0; i < 1+(id*7)%23; i++ {
		p = append(p, byte('a'+(id+i)%26))
	}
	return p
}

type c31Accepted struct {
	id       int
	at       time.Duration
	producer int
}

func c31RunScenario(x *mc.Exec, sc c31Scenario, rep *mc.Report) mc.Verdict {
	up := &c31Upstream{x: x, failures: sc.failures, dead: map[string]bool{}}
	for _, a := range sc.dead {
		up.dead[a] = true
	}
	vnet.DialHook = up.dial
	defer func() { vnet.DialHook = nil }()
	var accepted []c31Accepted
	var refused []int
	var refusedBytes int64
	var viol, sig string
	fail := func(s, m string) {
		if viol == "" {
			sig, viol = s, m
		}
	}
	var eg *Egress
	closedOK := false
	inCall := false
	var sawFull [2]bool
	sample := func() {
		if eg == nil || eg.pool == nil || !inCall {
			return
		}
		if eg.pool.primary.buf.wi >= bufferLen {
			sawFull[0] = true
		}
		if eg.pool.secondary.buf.wi >= bufferLen {
			sawFull[1] = true
		}
	}
	nprod := sc.producers
	if nprod == 0 {
		nprod = 1
	}
	res := vsched.Run(x, vsched.Config{Horizon: 5 * time.Minute, MaxSteps: 100000, AtQuiescence: func(*vsched.Sched) { sample() }}, func() {
		cfg := EgressConfig{Network: "tcp", Address: "up:1", HostTag: "host"}
		cfg.fillDefaults()
		e := &Egress{cfg: cfg}
		eg = e
		nAddrs := sc.addrs
		if nAddrs == 0 {
			nAddrs = 2
		}
		var resolved []string
		for i := 1; i <= nAddrs; i++ {
			resolved = append(resolved, fmt.Sprintf("up%d", i))
		}
		primaryPool, secondaryPool := newAddressPools(resolved)
		e.pool = &tcpPool{
			primary:   newTCPSender(cfg, &e.stats, primaryPool, newPktBuffer()),
			secondary: newTCPSender(cfg, &e.stats, secondaryPool, newPktBuffer()),
			closed:    make(chan struct{}),
		}
		e.pool.primPtr = &e.pool.primary
		e.pool.secPtr = &e.pool.secondary
		h := &handler{egress: e, pkt: make([]byte, pktHeadLen, pktFrameMax), stop: make(chan struct{})}
		var wg vsync.WaitGroup
		var acct vsync.Mutex // harness-level: makes the accounting around one call atomic
		for p := 0; p < nprod; p++ {
			p := p
			wg.Add(1)
			vsched.GoNamed(fmt.Sprintf("producer%d", p), false, func() {
				defer wg.Done()
				for id, a := range sc.arrivals {
					if a.producer != p {
						continue
					}
					if a.gap > 0 {
						vtime.Sleep(a.gap)
					} else {
						vsched.Point("arrival")
					}
					payload := c31PayloadOf(sc, id)
					acct.Lock()
					d0 := e.stats.droppedPackets.Load()
					f0 := e.stats.forwardedPackets.Load()
					inCall, sawFull = true, [2]bool{}
					sample()
					_ = h.HandleMetricsBatchRaw(payload)
					sample()
					inCall = false
					d1 := e.stats.droppedPackets.Load()
					f1 := e.stats.forwardedPackets.Load()
					switch {
					case f1 == f0+1 && d1 == d0:
						accepted = append(accepted, c31Accepted{id: id, at: vsched.Active().Elapsed(), producer: p})
					case d1 == d0+1 && f1 == f0:
						refused = append(refused, id)
						refusedBytes += int64(pktHeadLen + len(payload))
						// a packet is dropped only when both send buffers are full: each buffer was observed
						// full at some quiescent point during the call (the two attempts are not atomic, a
						// sender may drain one buffer between them)
						if !sawFull[0] || !sawFull[1] {
							fail("C31:refused-while-buffer-has-room", fmt.Sprintf("packet %d refused although a buffer was never full during the call (primary full seen=%v, secondary full seen=%v; fill now %d and %d of %d)", id, sawFull[0], sawFull[1], e.pool.primary.buf.wi, e.pool.secondary.buf.wi, bufferLen))
						}
					default:
						fail("C31:drop-accounting", fmt.Sprintf("packet %d: forwarded %d->%d dropped %d->%d", id, f0, f1, d0, d1))
					}
					acct.Unlock()
				}
			})
		}
		wg.Wait()
		// bounded liveness: nothing else arrives; give the senders time (swap wait + reconnects)
		settle := 4 * time.Second
		if sc.failures {
			settle = 12 * time.Second
		}
		vtime.Sleep(settle)
		c31Check(up, sc, accepted, refused, refusedBytes, e, fail)
		if viol == "" {
			_ = e.Close()
			closedOK = true
		}
	})
	if res.Panic != nil {
		return mc.Verdict{Violation: fmt.Sprintf("panic in code under test: %v", res.Panic), Sig: "C31:panic", Detail: res.PanicStack}
	}
	if viol != "" {
		return mc.Verdict{Violation: sc.name + ": " + viol, Sig: sig, Detail: map[string]any{"scenario": sc.name}}
	}
	if res.Deadlock || res.StepCap || res.Horizon || !closedOK {
		return mc.Verdict{Violation: fmt.Sprintf("%s: execution did not finish (%+v)", sc.name, res), Sig: "C31:stuck", Detail: map[string]any{"scenario": sc.name, "blocked": res.Blocked}}
	}
	if res.Leaked > 0 && !vsched.NoteLeak(res.Leaked) {
		panic(c31Infra(fmt.Sprintf("too many leaked goroutines (%d more in scenario %s)", res.Leaked, sc.name)))
	}
	_ = eg
	var ids []string
	for _, c := range up.conns {
		ids = append(ids, fmt.Sprintf("%s:%d", c.addr, len(c.writes)))
	}
	key := fmt.Sprintf("%s|acc=%d|ref=%d|%s|fail=%d", sc.name, len(accepted), len(refused), strings.Join(ids, ","), len(up.failedData)+up.dialFails)
	rep.State(key)
	rep.Outcome(key)
	if len(up.conns) > 1 || len(refused) > 0 || len(up.failedData) > 0 || x.Deviations() > 0 {
		rep.Nontrivial(key + fmt.Sprint(x.Choices))
	}
	if x.Deviations() > 0 {
		rep.Sample(map[string]any{"scenario": sc.name, "choices": append([]int{}, x.Choices...), "accepted": len(accepted), "refused": len(refused), "connections": ids})
	}
	return mc.Verdict{}
}

// c31Check is the oracle, evaluated after the settle time.
func c31Check(up *c31Upstream, sc c31Scenario, accepted []c31Accepted, refused []int, refusedBytes int64, e *Egress, fail func(sig, msg string)) {
	key := []byte(e.cfg.reconnectKey)
	seen := map[int]int{}
	deliveredAt := map[int]time.Duration{}
	var reported float64
	accIdx := map[int]int{}
	for i, a := range accepted {
		accIdx[a.id] = i
	}
	payloadID := map[string]int{}
	for id := range sc.arrivals {
		payloadID[string(c31PayloadOf(sc, id))] = id
	}
	for ci, c := range up.conns {
		if len(c.writes) == 0 {
			continue
		}
		// bytes received upstream = reconnect key followed by frames
		if !bytes.Equal(c.writes[0].data, key) {
			fail("C31:connection-does-not-start-with-key", fmt.Sprintf("connection %d (%s) starts with %q", ci, c.addr, c.writes[0].data))
			return
		}
		lastIdx := -1
		// frames may be split over writes arbitrarily in principle: concatenate but keep time of the write holding the frame end
		var stream []byte
		var ends []int
		var ats []time.Duration
		for _, w := range c.writes[1:] {
			stream = append(stream, w.data...)
			ends = append(ends, len(stream))
			ats = append(ats, w.at)
		}
		timeOf := func(off int) time.Duration {
			for i, e := range ends {
				if off <= e {
					return ats[i]
				}
			}
			return 0
		}
		for off := 0; off < len(stream); {
			if off+pktHeadLen > len(stream) {
				fail("C31:truncated-frame", fmt.Sprintf("connection %d: %d trailing bytes", ci, len(stream)-off))
				return
			}
			n := int(binary.LittleEndian.Uint32(stream[off:]))
			if off+pktHeadLen+n > len(stream) {
				fail("C31:truncated-frame", fmt.Sprintf("connection %d: frame of %d bytes at %d exceeds stream %d", ci, n, off, len(stream)))
				return
			}
			body := stream[off+pktHeadLen : off+pktHeadLen+n]
			off += pktHeadLen + n
			if id, ok := payloadID[string(body)]; ok {
				seen[id]++
				deliveredAt[id] = timeOf(off)
				idx, wasAccepted := accIdx[id]
				if !wasAccepted {
					fail("C31:refused-packet-forwarded", fmt.Sprintf("packet %d was refused but arrived upstream", id))
					return
				}
				if idx < lastIdx {
					fail("C31:out-of-order", fmt.Sprintf("connection %d: packet %d (accepted #%d) after accepted #%d", ci, id, idx, lastIdx))
					return
				}
				lastIdx = idx
				continue
			}
			var batch tlstatshouse.AddMetricsBatch
			if _, err := batch.ReadTL1Boxed(body); err == nil && len(batch.Metrics) == 1 && batch.Metrics[0].Name == "__src_client_write_err" && len(batch.Metrics[0].Value) == 1 {
				reported += batch.Metrics[0].Value[0]
				continue
			}
			fail("C31:corrupted-frame", fmt.Sprintf("connection %d: frame %q is neither an accepted packet nor a drop report", ci, body))
			return
		}
	}
	failedPayload := map[int]bool{}
	for _, b := range up.failedData {
		if len(b) >= pktHeadLen {
			if id, ok := payloadID[string(b[pktHeadLen:])]; ok {
				failedPayload[id] = true
			}
		}
	}
	for _, a := range accepted {
		switch {
		case seen[a.id] > 1:
			fail("C31:duplicate", fmt.Sprintf("packet %d written upstream %d times", a.id, seen[a.id]))
		case seen[a.id] == 0 && !failedPayload[a.id]:
			// the packet whose own write was failed by the upstream may be lost (the code documents "not resend");
			// every other accepted packet must be upstream by now even though nothing else arrived
			fail("C31:accepted-packet-not-forwarded", fmt.Sprintf("packet %d accepted at %v is still not upstream %v later although nothing else arrives", a.id, a.at, 4*time.Second))
		case seen[a.id] == 1 && !sc.failures && len(sc.dead) == 0:
			// promptness: about one second (swap wait) when the upstream is healthy
			if d := deliveredAt[a.id] - a.at; d > swapWaitMax+50*time.Millisecond {
				fail("C31:late", fmt.Sprintf("packet %d forwarded %v after acceptance (limit %v)", a.id, d, swapWaitMax))
			}
		}
	}
	// every drop is counted and reported upstream (when the upstream is healthy)
	if int(e.stats.droppedPackets.Load()) != len(refused) {
		fail("C31:drop-count", fmt.Sprintf("%d packets refused, %d counted", len(refused), e.stats.droppedPackets.Load()))
	}
	if !sc.failures && len(refused) > 0 && int64(reported) != refusedBytes {
		fail("C31:drops-not-reported-upstream", fmt.Sprintf("%d bytes refused, %v reported upstream", refusedBytes, reported))
	}
	if len(refused) == 0 && reported != 0 {
		fail("C31:phantom-drop-report", fmt.Sprintf("%v bytes reported dropped, none refused", reported))
	}
}

type c31Infra string

func (c c31Infra) MCInfra() string { return string(c) }

func c31FreeRun(rep *mc.Report) {
	// free-running companion for the race detector: real goroutines, real (short) time
	n := 0
	for it := 0; it < 20; it++ {
		up := &c31Upstream{}
		vnet.DialHook = up.dial
		cfg := EgressConfig{Network: "tcp", Address: "up:1", HostTag: "host", ReconnectDelay: time.Millisecond}
		cfg.fillDefaults()
		e := &Egress{cfg: cfg}
		e.pool = &tcpPool{
			primary:   newTCPSender(cfg, &e.stats, addressPool{addrs: []string{"up1"}}, newPktBuffer()),
			secondary: newTCPSender(cfg, &e.stats, addressPool{addrs: []string{"up2"}}, newPktBuffer()),
			closed:    make(chan struct{}),
		}
		e.pool.primPtr = &e.pool.primary
		e.pool.secPtr = &e.pool.secondary
		h := &handler{egress: e, pkt: make([]byte, pktHeadLen, pktFrameMax), stop: make(chan struct{})}
		var wg sync.WaitGroup
		for p := 0; p < 2; p++ {
			wg.Add(1)
			go func(p int) {
				defer wg.Done()
				for i := 0; i < 30; i++ {
					_ = h.HandleMetricsBatchRaw(c31Payload(p*100 + i))
				}
			}(p)
		}
		wg.Wait()
		time.Sleep(5 * time.Millisecond)
		_ = e.Close()
		n++
	}
	vnet.DialHook = nil
	rep.AddCounts(int64(n), int64(n), 1, 0)
	rep.Rule = "free-running -race companion"
	rep.Sample("2 producers x 30 packets against the real egress, 20 rounds")
}

func TestVerifC31(t *testing.T) {
	log.SetOutput(io.Discard)
	rep := mc.NewReport("C31")
	if os.Getenv("VERIF_FREERUN") == "1" {
		c31FreeRun(rep)
		rep.Write()
		return
	}
	scs := c31Scenarios(mc.Thorough())
	boundLight, boundHeavy := mc.Pick(2, 3), mc.Pick(1, 2)
	rep.Bounds["deviation_bound_light_scenarios"] = boundLight
	rep.Bounds["deviation_bound_heavy_scenarios"] = boundHeavy
	rep.Bounds["scenarios"] = len(scs)
	rep.Bounds["bufferLen"] = bufferLen
	rep.Rule = "every execution with at most B deviations from the deterministic default schedule (delay bounding: running another thread than the default one, a due timer firing before a runnable thread's step, non-source-order select probe, injected upstream dial/write failure) of every arrival pattern of a family (lone packet, back-to-back, sparse, idle gaps, bursts filling one and both buffers, two producers), virtual time. Non-trivial = execution with failover, refusal, injected failure or at least one deviation"
	if bufferLen > 64 {
		rep.Assume("vinstr could not shrink bufferLen; buffer-full scenarios are not reachable")
	}
	shard, shards := mc.ShardFromEnv()
	var light, heavy []c31Scenario
	for _, sc := range scs {
		if sc.heavy {
			heavy = append(heavy, sc)
		} else {
			light = append(light, sc)
		}
	}
	var st mc.Stats
	for _, g := range []struct {
		name  string
		scs   []c31Scenario
		bound int
	}{{"egress-light", light, boundLight}, {"egress-heavy", heavy, boundHeavy}} {
		g := g
		body := func(x *mc.Exec) mc.Verdict {
			si := x.ChooseFree(len(g.scs), "scenario")
			return c31RunScenario(x, g.scs[si], rep)
		}
		st = mc.Explore(body, mc.Options{Bound: g.bound, Workers: 1, SplitDepth: 4, Shard: shard, Shards: shards})
		rep.MergeExplore(g.name, st)
	}
	if err := rep.Write(); err != nil {
		t.Fatal(err)
	}
	t.Logf("C31: %+v", st)
}

