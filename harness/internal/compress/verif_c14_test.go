//go:build verif

package compress

// C14: every protocol message and frame round-trips through its encodings.
//
// TL part: every item of the generated factories (statshouse/metadata/engine/api schema in data_model/gen2, sqlite
// checkpoint schema in sqlitev2/checkpoint/gen2; barsic types of vktl/gen, which has no factory, are listed by hand;
// the fsbinlog schema is explored from its own package, see verif_c14_fsbinlog_test.go) through the shared engine in
// basictl (verif_c14_export.go).
// Frame part: CompressAndFrame / DeFrame / Decompress for every payload up to a length bound plus structured
// payloads, every truncation of every frame and perturbations of the size field, judged by an independent LZ4
// block decoder written here.

import (
	"bytes"
	"encoding/binary"
	"fmt"
	"runtime"
	"sort"
	"sync"
	"testing"
	"time"

	_ "github.com/VKCOM/statshouse/internal/data_model/gen2/factory"
	_ "github.com/VKCOM/statshouse/internal/data_model/gen2/factory_bytes"
	c14shmeta "github.com/VKCOM/statshouse/internal/data_model/gen2/meta"
	_ "github.com/VKCOM/statshouse/internal/vkgo/sqlitev2/checkpoint/gen2/factory"
	_ "github.com/VKCOM/statshouse/internal/vkgo/sqlitev2/checkpoint/gen2/factory_bytes"
	c14sqmeta "github.com/VKCOM/statshouse/internal/vkgo/sqlitev2/checkpoint/gen2/meta"
	c14vktl "github.com/VKCOM/statshouse/internal/vkgo/vktl/gen/tl"
	"github.com/VKCOM/statshouse/internal/vkgo/vktl/gen/tlbarsic"

	"github.com/pierrec/lz4"

	"github.com/VKCOM/statshouse/internal/data_model"
	"github.com/VKCOM/statshouse/internal/data_model/gen2/tlstatshouse"
	"github.com/VKCOM/statshouse/internal/verif/mc"
	"github.com/VKCOM/statshouse/internal/vkgo/basictl"
)

// ---------------------------------------------------------------------------------------------------------------
// reference LZ4 block decoder (lenient: accepts every block the format describes; used to decide whether an accepted
// frame was read faithfully)

// c14RefLZ4 decodes src. ok=false when the block is malformed or would produce more than limit bytes.
func c14RefLZ4(src []byte, limit int) (out []byte, ok bool) {
	i := 0
	for i < len(src) {
		tok := src[i]
		i++
		lit := int(tok >> 4)
		if lit == 15 {
			for {
				if i >= len(src) {
					return nil, false
				}
				b := src[i]
				i++
				lit += int(b)
				if b != 255 {
					break
				}
			}
		}
		if i+lit > len(src) || len(out)+lit > limit {
			return nil, false
		}
		out = append(out, src[i:i+lit]...)
		i += lit
		if i == len(src) {
			return out, true // last sequence: literals only
		}
		if i+2 > len(src) {
			return nil, false
		}
		off := int(src[i]) | int(src[i+1])<<8
		i += 2
		ml := int(tok & 15)
		if ml == 15 {
			for {
				if i >= len(src) {
					return nil, false
				}
				b := src[i]
				i++
				ml += int(b)
				if b != 255 {
					break
				}
			}
		}
		ml += 4
		if off == 0 || off > len(out) || len(out)+ml > limit {
			return nil, false
		}
		for k := 0; k < ml; k++ {
			out = append(out, out[len(out)-off])
		}
	}
	return out, true // empty input: empty output
}

// c14CheckDecompress evaluates one (declared size, data) pair: the real Decompress must reject it or return exactly
// what the frame describes (raw when the declared size equals the data length, otherwise the LZ4 block's content,
// which must be exactly the declared size long).
func c14CheckDecompress(rep *mc.Report, what string, size uint32, data []byte, mustAccept []byte) string {
	in := append([]byte{}, data...)
	got, err := Decompress(size, in)
	detail := func() map[string]any {
		return map[string]any{"what": what, "declared_size": size, "data_hex": fmt.Sprintf("%x", c14Cut(data)), "data_len": len(data)}
	}
	if mustAccept != nil {
		if err != nil {
			rep.Violate("C14:frame-roundtrip-rejected", fmt.Sprintf("%s: own frame rejected: %v", what, err), detail())
			return "own-rejected"
		}
		if !bytes.Equal(got, mustAccept) {
			rep.Violate("C14:frame-roundtrip-differs", fmt.Sprintf("%s: frame of %d bytes decompresses to %d other bytes", what, len(mustAccept), len(got)), detail())
			return "own-differs"
		}
		return "own-ok"
	}
	if err != nil {
		return "rejected"
	}
	// accepted: must be a faithful reading
	if int64(size) == int64(len(data)) {
		if !bytes.Equal(got, data) {
			rep.Violate("C14:frame-misread-raw", fmt.Sprintf("%s: raw frame of %d bytes returned as other bytes", what, len(data)), detail())
			return "misread"
		}
		return "accepted-raw"
	}
	ref, ok := c14RefLZ4(data, int(size))
	if !ok || len(ref) != int(size) {
		n := -1
		if ok {
			n = len(ref)
		}
		rep.Violate("C14:frame-misread-size", fmt.Sprintf("%s: declared size %d, data of %d bytes is not an LZ4 block of that size (reference decoder: valid=%v, %d bytes) but Decompress returned %d bytes without error", what, size, len(data), ok, n, len(got)), detail())
		return "misread"
	}
	if !bytes.Equal(ref, got) {
		rep.Violate("C14:frame-misread-content", fmt.Sprintf("%s: Decompress returned bytes that differ from the block's content", what), detail())
		return "misread"
	}
	return "accepted-lz4"
}

func c14Cut(b []byte) []byte {
	if len(b) > 64 {
		return b[:64]
	}
	return b
}

// c14CheckPayload: round trip, then every truncation and size perturbation of the frame.
func c14CheckPayload(rep *mc.Report, p []byte, perturb bool, heavy bool, cnt *c14Counts) {
	// size fields between 256 bytes and the 10 MiB limit make Decompress allocate that much: the full set of size-field
	// bytes only for the first payload of every 64th/8th (quick/thorough) work unit and structured payload (heavy)
	frame := CompressAndFrame(append([]byte{}, p...))
	what := fmt.Sprintf("payload %x (%d bytes)", c14Cut(p), len(p))
	size, data, err := DeFrame(frame)
	cnt.execs++
	if err != nil {
		rep.Violate("C14:frame-roundtrip-rejected", what+": DeFrame rejects own frame: "+err.Error(), nil)
		return
	}
	if int(size) != len(p) {
		rep.Violate("C14:frame-size-field", fmt.Sprintf("%s: frame declares %d bytes", what, size), nil)
	}
	rep.Outcome("own|" + c14CheckDecompress(rep, what, size, data, p) + fmt.Sprintf("|compressed=%v", len(data) != len(p)))
	if !perturb {
		return
	}
	// truncations
	for k := 0; k < len(frame); k++ {
		cnt.execs++
		cnt.perturbed++
		s2, d2, err := DeFrame(frame[:k])
		if k < 4 {
			if err == nil {
				rep.Violate("C14:frame-undersized-accepted", fmt.Sprintf("%s: DeFrame accepts a %d-byte frame", what, k), nil)
			}
			rep.Outcome("trunc|short")
			continue
		}
		if err != nil {
			rep.Outcome("trunc|deframe-rejected")
			continue
		}
		rep.Outcome("trunc|" + c14CheckDecompress(rep, fmt.Sprintf("%s truncated to %d of %d frame bytes", what, k, len(frame)), s2, d2, nil))
	}
	// size-field perturbations (every byte of the size field, and arithmetic neighbours)
	sizes := map[uint32]bool{}
	for _, d := range []int64{-2, -1, 1, 2, 3, 4, 8, 255, 256} {
		if v := int64(size) + d; v >= 0 && v <= 0xffffffff {
			sizes[uint32(v)] = true
		}
	}
	for _, v := range []uint32{0, 1, uint32(len(data)), uint32(len(data)) + 1, size * 2, data_model.MaxUncompressedBucketSize + 1, 0x7fffffff, 0x80000000, 0xffffffff} {
		sizes[v] = true
	}
	if heavy {
		sizes[data_model.MaxUncompressedBucketSize] = true
	}
	for b := 0; b < 4; b++ {
		for _, x := range []byte{0x00, 0x01, 0x7f, 0x80, 0xff} {
			v := size&^(0xff<<(8*b)) | uint32(x)<<(8*b)
			if v > 512 && v > size+256 && v <= data_model.MaxUncompressedBucketSize && !heavy {
				continue
			}
			sizes[v] = true
		}
	}
	delete(sizes, size)
	for v := range sizes {
		cnt.execs++
		cnt.perturbed++
		f2 := append([]byte{}, frame...)
		binary.LittleEndian.PutUint32(f2, v)
		s2, d2, err := DeFrame(f2)
		if err != nil || s2 != v {
			rep.Violate("C14:frame-size-field", fmt.Sprintf("%s: DeFrame of a frame with size field %d gives %d, %v", what, v, s2, err), nil)
			continue
		}
		rep.Outcome("size|" + c14CheckDecompress(rep, fmt.Sprintf("%s with size field %d instead of %d", what, v, size), s2, d2, nil))
	}
}

type c14Counts struct{ execs, payloads, perturbed int64 }

func c14Parallel(n int, f func(i int, cnt *c14Counts)) c14Counts {
	w := runtime.GOMAXPROCS(0)
	ch := make(chan int, n)
	for i := 0; i < n; i++ {
		ch <- i
	}
	close(ch)
	var wg sync.WaitGroup
	var mu sync.Mutex
	var total c14Counts
	for k := 0; k < w; k++ {
		wg.Add(1)
		go func() {
			defer wg.Done()
			var c c14Counts
			for i := range ch {
				if mc.Expired() {
					continue
				}
				f(i, &c)
			}
			mu.Lock()
			total.execs += c.execs
			total.payloads += c.payloads
			total.perturbed += c.perturbed
			mu.Unlock()
		}()
	}
	wg.Wait()
	return total
}

// c14Noise is a fixed xorshift stream (incompressible).
func c14Noise(n int, seed uint32) []byte {
	p := make([]byte, n)
	x := seed
	for i := range p {
		x ^= x << 13
		x ^= x >> 17
		x ^= x << 5
		p[i] = byte(x >> 11)
	}
	return p
}

// c14BlockSize is the size of the LZ4 block the library produces for p (measured with the library directly, the same
// call CompressAndFrame makes).
func c14BlockSize(p []byte) int {
	dst := make([]byte, lz4.CompressBlockBound(len(p)))
	n, err := lz4.CompressBlockHC(p, dst, 0)
	if err != nil {
		return -1
	}
	return n
}

type c14BreakEven struct {
	payload []byte
	delta   int // block size - payload size
	shape   string
}

// c14BreakEvenFamily searches, deterministically, payloads at the compression break-even: block size equal to, one
// less than and one more than the payload size. Decompress takes "declared size == data length" as stored-raw, so a
// frame whose LZ4 block is exactly as long as the payload must be stored raw by CompressAndFrame; these are the only
// payloads on which that boundary is visible. Shapes: incompressible prefix + run of one byte (run 1..64), run +
// incompressible suffix, incompressible prefix + period-3 pattern, incompressible + copy of its own first bytes.
func c14BreakEvenFamily(prefixLens []int) (out []c14BreakEven, tried int) {
	type cand struct {
		p     []byte
		shape string
	}
	ch := make(chan cand, 256)
	res := make(chan c14BreakEven, 256)
	var wg sync.WaitGroup
	for w := 0; w < runtime.GOMAXPROCS(0); w++ {
		wg.Add(1)
		go func() {
			defer wg.Done()
			for c := range ch {
				if d := c14BlockSize(c.p) - len(c.p); d >= -1 && d <= 1 && c14BlockSize(c.p) > 0 {
					res <- c14BreakEven{c.p, d, c.shape}
				}
			}
		}()
	}
	go func() {
		for _, n := range prefixLens {
			noise := c14Noise(n, 2463534242+uint32(n))
			for r := 1; r <= 64; r++ {
				tried += 4
				ch <- cand{append(append([]byte{}, noise...), bytes.Repeat([]byte{0x41}, r)...), fmt.Sprintf("noise(%d)+run(%d)", n, r)}
				ch <- cand{append(bytes.Repeat([]byte{0}, r), noise...), fmt.Sprintf("run(%d)+noise(%d)", r, n)}
				ch <- cand{append(append([]byte{}, noise...), bytes.Repeat([]byte("xyz"), r)[:r]...), fmt.Sprintf("noise(%d)+period3(%d)", n, r)}
				if r <= n {
					ch <- cand{append(append([]byte{}, noise...), noise[:r]...), fmt.Sprintf("noise(%d)+selfcopy(%d)", n, r)}
				} else {
					tried--
				}
			}
		}
		close(ch)
		wg.Wait()
		close(res)
	}()
	for r := range res {
		out = append(out, r)
	}
	// deterministic order (workers finish in any order)
	sort.Slice(out, func(i, j int) bool {
		if out[i].shape != out[j].shape {
			return out[i].shape < out[j].shape
		}
		return out[i].delta < out[j].delta
	})
	return out, tried
}

func c14StructuredPayloads() [][]byte {
	var out [][]byte
	// runs and periodic patterns around the LZ4 limits (min match 4, last 5 bytes literal, 12-byte end rule, 15/270 length extensions)
	for _, n := range []int{4, 5, 8, 11, 12, 13, 14, 15, 16, 17, 18, 19, 20, 21, 30, 31, 32, 33, 64, 254, 255, 256, 269, 270, 271, 272, 273, 300, 525, 526, 527, 1024, 4096, 65535, 65536, 65537, 70000} {
		out = append(out, bytes.Repeat([]byte{0}, n), bytes.Repeat([]byte{'A'}, n), bytes.Repeat([]byte("ab"), n/2+1)[:n], bytes.Repeat([]byte("abcdefg"), n/7+1)[:n])
		// incompressible head + compressible tail and vice versa
		p := make([]byte, n)
		x := uint32(2463534242)
		for i := range p {
			x ^= x << 13
			x ^= x >> 17
			x ^= x << 5
			p[i] = byte(x >> 11)
		}
		out = append(out, p, append(append([]byte{}, p...), bytes.Repeat([]byte{7}, n)...), append(bytes.Repeat([]byte{7}, n), p...))
	}
	// payloads that look like LZ4 blocks themselves (a raw-stored frame whose truncation is a valid block)
	out = append(out, []byte{0x1f, 'a', 1, 0, 10, 1, 2, 3, 4, 5, 6, 7, 8, 9, 10, 11, 12, 13, 14, 15, 16, 17, 18, 19, 20, 21, 22, 23, 24, 25})
	out = append(out, []byte{0x10, 'a', 1, 0, 0x50, 'b', 'c', 'd', 'e', 'f'})
	// real bucket payloads: TL-serialised source buckets
	for mask := uint32(0); mask < 2; mask++ {
		var b tlstatshouse.SourceBucket3
		for i := 0; i < 3+20*int(mask); i++ {
			var it tlstatshouse.MultiItem
			it.Metric = int32(100 + i%3)
			it.Keys = []int32{0, int32(i), 7, int32(i * i)}
			it.Tail.Counter = float64(i)
			b.Metrics = append(b.Metrics, it)
		}
		out = append(out, b.WriteTL1Boxed(nil))
	}
	return out
}

// ---------------------------------------------------------------------------------------------------------------

func c14BarsicItems() []basictl.VerifC14Item {
	mk := func(name string, s, b func() basictl.VerifC14Object, f func() basictl.VerifC14Function) basictl.VerifC14Item {
		if b == nil {
			b = s
		}
		return basictl.VerifC14Item{Family: "barsic", Name: name, Tag: s().TLTag(), New: s, NewBytes: b, NewFunc: f}
	}
	o := func(f func() basictl.VerifC14Object) func() basictl.VerifC14Object { return f }
	return []basictl.VerifC14Item{
		mk("barsic.applyPayload", o(func() basictl.VerifC14Object { return new(tlbarsic.ApplyPayload) }), o(func() basictl.VerifC14Object { return new(tlbarsic.ApplyPayloadBytes) }), func() basictl.VerifC14Function { return new(tlbarsic.ApplyPayload) }),
		mk("barsic.changeRole", o(func() basictl.VerifC14Object { return new(tlbarsic.ChangeRole) }), nil, func() basictl.VerifC14Function { return new(tlbarsic.ChangeRole) }),
		mk("barsic.commit", o(func() basictl.VerifC14Object { return new(tlbarsic.Commit) }), o(func() basictl.VerifC14Object { return new(tlbarsic.CommitBytes) }), func() basictl.VerifC14Function { return new(tlbarsic.Commit) }),
		mk("barsic.engineStarted", o(func() basictl.VerifC14Object { return new(tlbarsic.EngineStarted) }), o(func() basictl.VerifC14Object { return new(tlbarsic.EngineStartedBytes) }), func() basictl.VerifC14Function { return new(tlbarsic.EngineStarted) }),
		mk("barsic.engineStatus", o(func() basictl.VerifC14Object { return new(tlbarsic.EngineStatus) }), o(func() basictl.VerifC14Object { return new(tlbarsic.EngineStatusBytes) }), func() basictl.VerifC14Function { return new(tlbarsic.EngineStatus) }),
		mk("barsic.engineWantsRestart", o(func() basictl.VerifC14Object { return new(tlbarsic.EngineWantsRestart) }), nil, func() basictl.VerifC14Function { return new(tlbarsic.EngineWantsRestart) }),
		mk("barsic.reindex", o(func() basictl.VerifC14Object { return new(tlbarsic.Reindex) }), nil, func() basictl.VerifC14Function { return new(tlbarsic.Reindex) }),
		mk("barsic.revert", o(func() basictl.VerifC14Object { return new(tlbarsic.Revert) }), nil, func() basictl.VerifC14Function { return new(tlbarsic.Revert) }),
		mk("barsic.shutdown", o(func() basictl.VerifC14Object { return new(tlbarsic.Shutdown) }), nil, func() basictl.VerifC14Function { return new(tlbarsic.Shutdown) }),
		mk("barsic.skip", o(func() basictl.VerifC14Object { return new(tlbarsic.Skip) }), nil, func() basictl.VerifC14Function { return new(tlbarsic.Skip) }),
		mk("barsic.snapshotDependency", o(func() basictl.VerifC14Object { return new(tlbarsic.SnapshotDependency) }), o(func() basictl.VerifC14Object { return new(tlbarsic.SnapshotDependencyBytes) }), nil),
		mk("barsic.snapshotExternalFile", o(func() basictl.VerifC14Object { return new(tlbarsic.SnapshotExternalFile) }), o(func() basictl.VerifC14Object { return new(tlbarsic.SnapshotExternalFileBytes) }), nil),
		mk("barsic.snapshotHeader", o(func() basictl.VerifC14Object { return new(tlbarsic.SnapshotHeader) }), o(func() basictl.VerifC14Object { return new(tlbarsic.SnapshotHeaderBytes) }), nil),
		mk("barsic.split", o(func() basictl.VerifC14Object { return new(tlbarsic.Split) }), o(func() basictl.VerifC14Object { return new(tlbarsic.SplitBytes) }), func() basictl.VerifC14Function { return new(tlbarsic.Split) }),
		mk("barsic.start", o(func() basictl.VerifC14Object { return new(tlbarsic.Start) }), o(func() basictl.VerifC14Object { return new(tlbarsic.StartBytes) }), func() basictl.VerifC14Function { return new(tlbarsic.Start) }),
		mk("vector<barsic.snapshotDependency>", o(func() basictl.VerifC14Object { return new(tlbarsic.VectorSnapshotDependency) }), o(func() basictl.VerifC14Object { return new(tlbarsic.VectorSnapshotDependencyBytes) }), nil),
		mk("vector<barsic.snapshotExternalFile>", o(func() basictl.VerifC14Object { return new(tlbarsic.VectorSnapshotExternalFile) }), o(func() basictl.VerifC14Object { return new(tlbarsic.VectorSnapshotExternalFileBytes) }), nil),
		mk("vector<long>", o(func() basictl.VerifC14Object { return new(c14vktl.VectorLong) }), nil, nil),
	}
}

// c14Primitives: basictl string codecs (TL1 with 4-byte alignment in its tiny / medium / huge length forms, TL2 with
// its 1 / 3 / 9 byte sizes), string and byte-slice functions, for every length in windows around every format limit.
func c14Primitives(rep *mc.Report) (n int64) {
	var lens []int
	for l := 0; l <= 300; l++ {
		lens = append(lens, l)
	}
	for _, c := range []int{65535, 65536, 254 + 65535, 254 + 65536, 1<<24 - 1, 1 << 24} {
		for d := -3; d <= 3; d++ {
			lens = append(lens, c+d)
		}
	}
	big := bytes.Repeat([]byte("0123456789abcdefghijklmnopqrstuvwxyz"), (1<<24)/36+2)
	for _, l := range lens {
		n++
		v := big[:l]
		fail := func(what string) {
			rep.Violate("C14:primitive-string", fmt.Sprintf("basictl string of length %d: %s", l, what), map[string]any{"length": l})
		}
		w1 := basictl.StringWrite([]byte{9, 9, 9, 9}, string(v))
		w2 := basictl.StringWriteBytes([]byte{9, 9, 9, 9}, v)
		if !bytes.Equal(w1, w2) {
			fail("StringWrite and StringWriteBytes differ")
		}
		if len(w1)%4 != 0 {
			fail(fmt.Sprintf("TL1 encoding is %d bytes long, not a multiple of 4", len(w1)-4))
		}
		// reference layout: 1-byte length (<254), 0xfe + 3 bytes (< 2^24), 0xff + 7 bytes; zero padding to 4
		var ref []byte
		switch {
		case l < 254:
			ref = append(ref, byte(l))
		case l < 1<<24:
			ref = append(ref, 254, byte(l), byte(l>>8), byte(l>>16))
		default:
			ref = append(ref, 255, byte(l), byte(l>>8), byte(l>>16), byte(l>>24), 0, 0, 0)
		}
		ref = append(ref, v...)
		for len(ref)%4 != 0 {
			ref = append(ref, 0)
		}
		if !bytes.Equal(w1[4:], ref) {
			fail("TL1 encoding differs from the reference layout")
		}
		in := append(append([]byte{}, w1[4:]...), 0xa5, 0x5a)
		var s string
		rest, err := basictl.StringRead(in, &s)
		if err != nil || s != string(v) || !bytes.Equal(rest, []byte{0xa5, 0x5a}) {
			fail(fmt.Sprintf("StringRead: err %v, %d bytes, rest %x", err, len(s), c14Cut(rest)))
		}
		b := []byte("dirty")
		rest, err = basictl.StringReadBytes(in, &b)
		if err != nil || !bytes.Equal(b, v) || !bytes.Equal(rest, []byte{0xa5, 0x5a}) {
			fail(fmt.Sprintf("StringReadBytes: err %v, %d bytes, rest %x", err, len(b), c14Cut(rest)))
		}
		// every truncation of a short encoding is rejected, never misread
		if l <= 300 {
			for k := 0; k < len(ref); k++ {
				n++
				if rest, err := basictl.StringRead(ref[:k], &s); err == nil {
					fail(fmt.Sprintf("StringRead accepts the encoding truncated to %d of %d bytes (rest %d)", k, len(ref), len(rest)))
				}
				if rest, err := basictl.StringReadBytes(ref[:k], &b); err == nil {
					fail(fmt.Sprintf("StringReadBytes accepts the encoding truncated to %d of %d bytes (rest %d)", k, len(ref), len(rest)))
				}
			}
		}
		// TL2
		t1 := basictl.StringWriteTL2(nil, string(v))
		t2 := basictl.StringWriteTL2Bytes(nil, v)
		if !bytes.Equal(t1, t2) {
			fail("StringWriteTL2 and StringWriteTL2Bytes differ")
		}
		if len(t1) != basictl.TL2CalculateSize(l)+l {
			fail("TL2CalculateSize disagrees with TL2WriteSize")
		}
		in = append(append([]byte{}, t1...), 0xa5, 0x5a)
		rest, err = basictl.StringReadTL2(in, &s)
		if err != nil || s != string(v) || !bytes.Equal(rest, []byte{0xa5, 0x5a}) {
			fail(fmt.Sprintf("StringReadTL2: err %v, %d bytes, rest %x", err, len(s), c14Cut(rest)))
		}
		rest, err = basictl.StringReadTL2Bytes(in, &b)
		if err != nil || !bytes.Equal(b, v) || !bytes.Equal(rest, []byte{0xa5, 0x5a}) {
			fail(fmt.Sprintf("StringReadTL2Bytes: err %v, %d bytes, rest %x", err, len(b), c14Cut(rest)))
		}
		rep.Outcome(fmt.Sprintf("prim|%d|%d", len(w1)-4-l, len(t1)-l))
	}
	return n
}

func TestVerifC14(t *testing.T) {
	rep := mc.NewReport("C14")
	rep.Rule = "TL: for every item of the generated factories (statshouse/metadata/engine/api, sqlite checkpoint, fsbinlog; barsic types listed by hand), both the string and the byte-slice variant: the all-default object, then every object FillRandom produces when at most B of its draws (field-mask: none / each single bit / all; size 0..2; scalar classes 0,1,-1,min,max,NaN,Inf; string lengths 0..5,31; union constructor) deviate from the default answer, one of the deviations optionally being the substitution of one string location by one of 34 hostile strings; each value written and read back as TL1 bare, TL1 boxed, TL2 (where generated) and JSON (3 option sets), compared structurally, re-encoded, read with trailing data and into a dirty object; string-variant bytes read by the byte-slice variant must re-encode identically in every form; function results transcoded TL1->JSON->TL1 and TL1->TL2->TL1. basictl strings of every length 0..300 and around 2^16, 254+2^16, 2^24 against a reference layout, every truncation rejected. Frames: every payload up to length L plus structured payloads (runs, periodic, incompressible, mixed, LZ4-lookalike, real buckets) and every payload of a searched two-parameter family whose LZ4 block is exactly as long, one byte shorter or one byte longer than the payload (the stored-raw boundary): round trip; every truncation of the frame and ~40 size-field values judged against an independent LZ4 block decoder. Non-trivial = value that differs from the all-default object / perturbed frame"
	bound := mc.Pick(1, 2)
	rep.Bounds["tl_deviation_bound"] = bound
	rep.Assume("values are those FillRandom can produce plus string substitution; strings longer than 70000 bytes and vectors longer than 2 are outside the bound")
	rep.Assume("frame oracle trusts the reference LZ4 block decoder in this harness (about 50 lines)")

	// ---- basictl string primitives
	np := c14Primitives(rep)
	rep.AddCounts(np, np, np, np)
	rep.Parts["primitives"] = map[string]any{"string_cases": np}

	// ---- TL items
	var items []basictl.VerifC14Item
	for _, ti := range c14shmeta.GetAllTLItems() {
		ti := ti
		it := basictl.VerifC14Item{Family: "statshouse", Name: ti.TLName(), Tag: ti.TLTag(), HasTL2: ti.HasTL2(),
			New:      func() basictl.VerifC14Object { return ti.CreateObject() },
			NewBytes: func() basictl.VerifC14Object { return ti.CreateObjectBytes() }}
		if ti.IsFunction() {
			it.NewFunc = func() basictl.VerifC14Function { return ti.CreateFunction() }
		}
		items = append(items, it)
	}
	nsh := len(items)
	for _, ti := range c14sqmeta.GetAllTLItems() {
		ti := ti
		it := basictl.VerifC14Item{Family: "sqlite", Name: ti.TLName(), Tag: ti.TLTag(), HasTL2: ti.HasTL2(),
			New:      func() basictl.VerifC14Object { return ti.CreateObject() },
			NewBytes: func() basictl.VerifC14Object { return ti.CreateObjectBytes() }}
		if ti.IsFunction() {
			t.Fatalf("sqlite schema got a function (%s): extend the harness", ti.TLName())
		}
		items = append(items, it)
	}
	nsq := len(items) - nsh
	items = append(items, c14BarsicItems()...)
	rep.Bounds["tl_items_statshouse_factory"] = nsh
	rep.Bounds["tl_items_sqlite_factory"] = nsq
	rep.Bounds["tl_items_barsic_listed"] = len(items) - nsh - nsq
	if nsh < 100 || nsq < 1 {
		t.Fatalf("factories look empty: %d %d", nsh, nsq)
	}
	k, n := mc.ShardFromEnv()
	var mine []basictl.VerifC14Item
	for i := range items {
		if i%n == k {
			mine = append(mine, items[i])
		}
	}
	tTL := time.Now()
	st := basictl.VerifC14Run(rep, mine, bound, true)
	basictl.VerifC14Report(rep, "tl_items", st, bound)
	rep.AddCounts(0, 0, st.Values, st.Nontrivial)
	t.Logf("C14 TL: items=%d executions=%d values=%d nontrivial=%d violations=%d in %.1fs", st.Items, st.Executions, st.Values, st.Nontrivial, len(st.Violations), time.Since(tTL).Seconds())
	// ---- frames
	t0 := time.Now()
	// Payloads shorter than 13 bytes can never be compressed by LZ4 (minimum match and end-of-block rules), so they all
	// take the stored-raw path; they are enumerated over all 256 byte values up to maxAll, over a medium alphabet one
	// byte longer, and over 10 bytes that are meaningful as LZ4 tokens/lengths up to maxRed (each CompressAndFrame call
	// clears about 1 MiB of hash tables inside the library, which bounds what is affordable).
	maxAll := mc.Pick(1, 2)
	rep.Bounds["frame_payload_all_bytes_max_len"] = maxAll
	var total c14Counts
	add := func(c c14Counts) {
		total.execs += c.execs
		total.payloads += c.payloads
		total.perturbed += c.perturbed
	}
	{
		var c c14Counts
		c.payloads++
		c14CheckPayload(rep, nil, true, true, &c)
		add(c)
	}
	enum := func(alpha []byte, L int) {
		add(c14Parallel(len(alpha), func(first int, cnt *c14Counts) {
			buf := make([]byte, L)
			buf[0] = alpha[first]
			heavy := first%mc.Pick(64, 8) == 0
			var rec func(pos int)
			rec = func(pos int) {
				if pos == L {
					cnt.payloads++
					c14CheckPayload(rep, buf, true, heavy, cnt)
					heavy = false
					return
				}
				for _, b := range alpha {
					buf[pos] = b
					rec(pos + 1)
				}
			}
			rec(1)
		}))
	}
	all := make([]byte, 256)
	for i := range all {
		all[i] = byte(i)
	}
	for L := 1; L <= maxAll; L++ {
		enum(all, L)
	}
	var medium []byte
	for i := 0; i < 256; i += 8 {
		medium = append(medium, byte(i))
	}
	medium = append(medium, 0xff)
	rep.Bounds["frame_payload_medium_alphabet"] = fmt.Sprintf("%d bytes at length %d", len(medium), maxAll+1)
	enum(medium, maxAll+1)
	red := []byte{0x00, 0x01, 0x04, 0x0f, 0x10, 0x11, 0x1f, 0x40, 0xf0, 0xff}
	maxRed := mc.Pick(3, 4)
	rep.Bounds["frame_payload_reduced_alphabet_max_len"] = maxRed
	for L := maxAll + 2; L <= maxRed; L++ {
		enum(red, L)
	}
	// break-even family: the stored-raw / compressed boundary of CompressAndFrame
	be, beTried := c14BreakEvenFamily(mc.Pick([]int{100, 300, 1000, 3000}, []int{20, 50, 100, 200, 300, 500, 700, 1000, 1500, 2000, 3000, 5000, 10000, 30000}))
	ties := 0
	for _, b := range be {
		if b.delta == 0 {
			ties++
		}
	}
	rep.Bounds["frame_break_even_candidates"] = beTried
	rep.Bounds["frame_break_even_payloads"] = len(be)
	rep.Bounds["frame_break_even_exact_ties"] = ties
	if ties < 3 {
		rep.Infra(fmt.Sprintf("break-even search found only %d payloads whose LZ4 block is exactly as long as the payload (of %d candidates): the family no longer exercises the stored-raw boundary", ties, beTried))
	}
	add(c14Parallel(len(be), func(i int, cnt *c14Counts) {
		cnt.payloads++
		before := rep.NumViolations()
		c14CheckPayload(rep, be[i].payload, len(be[i].payload) <= 1100, false, cnt)
		rep.Outcome(fmt.Sprintf("breakeven|delta=%d", be[i].delta))
		if rep.NumViolations() > before {
			rep.Sample(map[string]any{"break_even_shape": be[i].shape, "block_minus_payload": be[i].delta})
		}
	}))
	if len(be) > 0 {
		rep.Sample(map[string]any{"break_even_example": be[0].shape, "block_minus_payload": be[0].delta, "payload_len": len(be[0].payload)})
	}
	sp := c14StructuredPayloads()
	rep.Bounds["frame_structured_payloads"] = len(sp)
	c := c14Parallel(len(sp), func(i int, cnt *c14Counts) {
		cnt.payloads++
		c14CheckPayload(rep, sp[i], len(sp[i]) <= 4200, i%mc.Pick(64, 8) == 0, cnt) // every truncation of the short ones; the long ones round trip + sizes below
		if len(sp[i]) > 4200 {
			frame := CompressAndFrame(sp[i])
			for _, k := range []int{4, 5, len(frame) / 2, len(frame) - 2, len(frame) - 1} {
				cnt.execs++
				cnt.perturbed++
				if s2, d2, err := DeFrame(frame[:k]); err == nil {
					rep.Outcome("trunc|" + c14CheckDecompress(rep, fmt.Sprintf("structured payload %d (%d bytes) truncated to %d frame bytes", i, len(sp[i]), k), s2, d2, nil))
				}
			}
		}
	})
	add(c)
	rep.AddCounts(total.execs, total.execs, total.payloads+total.perturbed, total.perturbed)
	rep.Parts["frames"] = map[string]any{"payloads": total.payloads, "perturbed_frames": total.perturbed, "executions": total.execs}
	rep.Sample(map[string]any{"payload_hex": "000000000000000000000000000000000000000000000000", "frame_hex": fmt.Sprintf("%x", CompressAndFrame(make([]byte, 24)))})
	if mc.Expired() {
		rep.Cap("wall_budget")
	}
	t.Logf("C14 frames: payloads=%d perturbed=%d in %.1fs", total.payloads, total.perturbed, time.Since(t0).Seconds())

	if err := rep.Write(); err != nil {
		t.Fatal(err)
	}
	t.Logf("C14: items=%d executions=%d values=%d nontrivial=%d violations=%d", st.Items, st.Executions, st.Values, st.Nontrivial, rep.NumViolations())
}
