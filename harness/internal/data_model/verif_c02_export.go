//go:build verif

package data_model

// C02 shared reference code (non-test so that the C02 harnesses of internal/agent and internal/aggregator can use it;
// it has to live in this package because it reads unexported state: ChUnique.buf, ItemCounter.counter).
// Contents: the event alphabet, the independent fold of an event list, the observation (snapshot) of a real row,
// the parse-and-reconstruct step of the aggregator as handleSendSourceBucket performs it, and the comparison.

import (
	"fmt"
	"sort"
	"strings"

	"pgregory.net/rand"

	"github.com/VKCOM/statshouse/internal/data_model/gen2/tlstatshouse"
	"github.com/VKCOM/statshouse/internal/format"
)

const (
	c02BucketTime = uint32(1_700_000_007)
	c02Metric     = int32(4321)
)

// ---------- events ----------

type c02Kind struct {
	Name   string
	Type   int // 0 counter, 1 values/histogram, 2 unique
	Count  float64
	Values []float64
	Hist   [][2]float64
	Uniq   []int64
}

var c02KindsFull = []c02Kind{
	{Name: "cnt1", Type: 0, Count: 1},
	{Name: "cnt3", Type: 0, Count: 3},
	{Name: "v5", Type: 1, Values: []float64{5}},
	{Name: "v5c2", Type: 1, Values: []float64{5}, Count: 2},
	{Name: "v5c.5", Type: 1, Values: []float64{5}, Count: 0.5},
	{Name: "v0", Type: 1, Values: []float64{0}},
	{Name: "v0c2", Type: 1, Values: []float64{0}, Count: 2},
	{Name: "v-2", Type: 1, Values: []float64{-2}},
	{Name: "v-2c.5", Type: 1, Values: []float64{-2}, Count: 0.5},
	{Name: "v[5,-2]", Type: 1, Values: []float64{5, -2}},
	{Name: "v[0,5]c1", Type: 1, Values: []float64{0, 5}, Count: 1},
	{Name: "h[5x2]", Type: 1, Hist: [][2]float64{{5, 2}}},
	{Name: "h[-2x1,5x2]v[0]c2", Type: 1, Hist: [][2]float64{{-2, 1}, {5, 2}}, Values: []float64{0}, Count: 2},
	{Name: "u{7}", Type: 2, Uniq: []int64{7}},
	{Name: "u{7,9}", Type: 2, Uniq: []int64{7, 9}},
	{Name: "u{7,9}c4", Type: 2, Uniq: []int64{7, 9}, Count: 4},
	{Name: "v7", Type: 1, Values: []float64{7}},
}

// c02KindsDeep: one representative of every behaviour the encoding distinguishes (count 1 / not 1 / fractional, value
// set or not, min 0, min == max with or without counter-only weight, min != max, histogram, uniques, value colliding
// with a unique hash value).
var c02KindsDeep = []c02Kind{
	c02KindsFull[0], c02KindsFull[1], c02KindsFull[2], c02KindsFull[3], c02KindsFull[4], c02KindsFull[5],
	c02KindsFull[7], c02KindsFull[9], c02KindsFull[11], c02KindsFull[13], c02KindsFull[15], c02KindsFull[16],
}

// c02KindsPct: the kinds that matter for centroids (plus a counter-only and a unique event to mix in).
var c02KindsPct = []c02Kind{
	c02KindsFull[0], c02KindsFull[2], c02KindsFull[4], c02KindsFull[5], c02KindsFull[7], c02KindsFull[9], c02KindsFull[11], c02KindsFull[13],
}

var c02KindsSmall = []c02Kind{
	{Name: "cnt1", Type: 0, Count: 1},
	{Name: "v5", Type: 1, Values: []float64{5}},
	{Name: "v5c2", Type: 1, Values: []float64{5}, Count: 2},
	{Name: "v-2", Type: 1, Values: []float64{-2}},
	{Name: "u{7}", Type: 2, Uniq: []int64{7}},
	{Name: "h[5x2]v[0]c.5", Type: 1, Hist: [][2]float64{{5, 1}}, Values: []float64{0}, Count: 0.5},
}

var c02Hosts = []TagUnion{{}, {I: 11}, {S: "hb"}}
var c02HostNames = []string{"-", "#11", "hb"}

var c02TopKeys = []TagUnion{{}, {S: "a"}, {I: 77}, {S: "b"}}
var c02TopNames = []string{"tail", "'a'", "#77", "'b'"}

var c02SFs = []float64{1, 2, 3.5}

var c02Senders = []TagUnion{{I: 999}, {S: "agent-host"}}

type c02Ev struct {
	Kind c02Kind
	Host int // index into c02Hosts
	Top  int // index into c02TopKeys
}

func (e c02Ev) String() string {
	return fmt.Sprintf("%s@%s/h%s", e.Kind.Name, c02TopNames[e.Top], c02HostNames[e.Host])
}

type c02Case struct {
	Key    Key
	Events []c02Ev
	Pct    bool
	SF     float64
	Sender TagUnion
}

func (c *c02Case) describe() string {
	var ev []string
	for _, e := range c.Events {
		ev = append(ev, e.String())
	}
	return fmt.Sprintf("events=[%s] percentiles=%v sf=%v sender=%v key=%s", strings.Join(ev, " "), c.Pct, c.SF, c.Sender, c02KeyString(&c.Key))
}

func c02KeyString(k *Key) string {
	var sb strings.Builder
	fmt.Fprintf(&sb, "{t=%d m=%d", k.Timestamp, k.Metric)
	for i, t := range k.Tags {
		if t != 0 {
			fmt.Fprintf(&sb, " %d:%d", i, t)
		}
	}
	for i, t := range k.STags {
		if t != "" {
			fmt.Fprintf(&sb, " %d:%q", i, t)
		}
	}
	sb.WriteString("}")
	return sb.String()
}

// ---------- observation of a sub-row ----------

type c02Agg struct {
	Count, Min, Max, Sum, SumSq float64
	ValueSet                    bool
	MinHost, MaxHost, CntHost   TagUnion
	Uniq                        []uint32 // sorted 32-bit hashes held by the sketch (0 = the zero item)
	UniqSkip                    uint32
	HasDigest                   bool
	Cents                       [][2]float64 // (mean, total weight) sorted by mean, equal means summed
}

func c02Snap(mv *MultiValue) c02Agg {
	a := c02Agg{Count: mv.Value.Count(), Min: mv.Value.ValueMin, Max: mv.Value.ValueMax, Sum: mv.Value.ValueSum, SumSq: mv.Value.ValueSumSquare,
		ValueSet: mv.Value.ValueSet, MinHost: mv.Value.MinHostTag, MaxHost: mv.Value.MaxHostTag, CntHost: mv.Value.MaxCounterHostTag}
	if mv.HLL.buf != nil {
		a.UniqSkip = mv.HLL.skipDegree
		if mv.HLL.hasZeroItem {
			a.Uniq = append(a.Uniq, 0)
		}
		for _, v := range mv.HLL.buf {
			if v != 0 {
				a.Uniq = append(a.Uniq, v)
			}
		}
		sort.Slice(a.Uniq, func(i, j int) bool { return a.Uniq[i] < a.Uniq[j] })
	}
	if mv.ValueTDigest != nil {
		a.HasDigest = true
		m := map[float64]float64{}
		for _, c := range mv.ValueTDigest.Centroids() {
			m[c.Mean] += c.Weight
		}
		a.Cents = c02SortCents(m)
	}
	return a
}

func c02SortCents(m map[float64]float64) [][2]float64 {
	var out [][2]float64
	for k, v := range m {
		out = append(out, [2]float64{k, v})
	}
	sort.Slice(out, func(i, j int) bool { return out[i][0] < out[j][0] })
	return out
}

func c02SnapRow(mi *MultiItem) map[TagUnion]c02Agg {
	row := map[TagUnion]c02Agg{}
	if !mi.Tail.Empty() || mi.Tail.Value.ValueSet || mi.Tail.HLL.ItemsCount() != 0 {
		row[TagUnion{}] = c02Snap(&mi.Tail)
	}
	for k, v := range mi.Top {
		row[k] = c02Snap(v)
	}
	return row
}

func c02TopKeyNames(row map[TagUnion]c02Agg) []string {
	var out []string
	for k := range row {
		out = append(out, fmt.Sprintf("%d/%q", k.I, k.S))
	}
	sort.Strings(out)
	return out
}

// ---------- independent reference: fold of the event list ----------

type c02Ref struct {
	Count, Min, Max, Sum, SumSq float64
	ValueSet                    bool
	Uniq                        map[int64]bool
	Values                      map[float64]float64 // value -> weight, value events only
	OnlyValueEvents             bool
}

func (r *c02Ref) add(v, w float64) {
	r.Sum += v * w
	r.SumSq += v * v * w
	if !r.ValueSet || v < r.Min {
		r.Min = v
	}
	if !r.ValueSet || v > r.Max {
		r.Max = v
	}
	r.ValueSet = true
}

func c02Fold(events []c02Ev) map[TagUnion]*c02Ref {
	out := map[TagUnion]*c02Ref{}
	for _, e := range events {
		tk := c02TopKeys[e.Top]
		r := out[tk]
		if r == nil {
			r = &c02Ref{Uniq: map[int64]bool{}, Values: map[float64]float64{}, OnlyValueEvents: true}
			out[tk] = r
		}
		k := e.Kind
		switch k.Type {
		case 0:
			r.Count += k.Count
			r.OnlyValueEvents = false
		case 1:
			total := float64(len(k.Values))
			for _, h := range k.Hist {
				total += h[1]
			}
			cnt := k.Count
			if cnt == 0 {
				cnt = total
			}
			w := cnt / total
			for _, v := range k.Values {
				r.add(v, w)
				r.Values[v] += w
			}
			for _, h := range k.Hist {
				r.add(h[0], w*h[1])
				r.Values[h[0]] += w * h[1]
			}
			r.Count += cnt
		case 2:
			total := float64(len(k.Uniq))
			cnt := k.Count
			if cnt == 0 {
				cnt = total
			}
			w := cnt / total
			for _, u := range k.Uniq {
				r.add(float64(u), w)
				r.Uniq[u] = true
			}
			r.Count += cnt
			r.OnlyValueEvents = false
		}
	}
	return out
}

// ---------- comparison ----------

type c02Diff struct {
	Sig, Msg string
}

func c02HostExpect(h, sender TagUnion) TagUnion {
	if h.Empty() {
		return sender
	}
	return h
}

// c02CompareSub compares one aggregator-side sub-row with the agent-side one (already the truth by the fold check).
// wire is the decoded TL value of that sub-row (used only to name the kind of failure precisely).
func c02CompareSub(name string, ag c02Agg, got c02Agg, sf float64, sender TagUnion, pct bool, wireHasMax bool) *c02Diff {
	d := func(sig, f string, a ...any) *c02Diff {
		return &c02Diff{Sig: "C02:" + sig, Msg: name + ": " + fmt.Sprintf(f, a...)}
	}
	if got.Count != ag.Count*sf {
		return d("count-mismatch", "count: aggregator %v, agent %v*sf %v = %v", got.Count, ag.Count, sf, ag.Count*sf)
	}
	if want := c02HostExpect(ag.CntHost, sender); got.CntHost != want {
		if ag.CntHost.Empty() && !ag.MaxHost.Empty() && got.CntHost == ag.MaxHost {
			return d("empty-host-inherits-max-host-maxcount", "max-count host: aggregator %v, agent row has none (= sending agent %v)", got.CntHost, sender)
		}
		return d("maxcount-host-mismatch", "max-count host: aggregator %v, agent %v", got.CntHost, want)
	}
	if got.ValueSet != ag.ValueSet {
		return d("valueset-mismatch", "value-set flag: aggregator %v, agent %v", got.ValueSet, ag.ValueSet)
	}
	if ag.ValueSet {
		if got.Min != ag.Min {
			return d("min-mismatch", "min: aggregator %v, agent %v", got.Min, ag.Min)
		}
		if got.Max != ag.Max {
			return d("max-mismatch", "max: aggregator %v, agent %v", got.Max, ag.Max)
		}
		if got.Sum != ag.Sum*sf || got.SumSq != ag.SumSq*sf {
			if !wireHasMax && ag.Min == ag.Max {
				return d("sum-rederived-when-min-eq-max", "count %v sum %v sumsq %v (x sf %v) arrive as sum %v sumsq %v: min==max==%v, so sum/sumsq were omitted and re-derived as min*count although count includes events without that value",
					ag.Count, ag.Sum, ag.SumSq, sf, got.Sum, got.SumSq, ag.Min)
			}
			if got.Sum != ag.Sum*sf {
				return d("sum-mismatch", "sum: aggregator %v, agent %v*sf %v = %v", got.Sum, ag.Sum, sf, ag.Sum*sf)
			}
			return d("sumsq-mismatch", "sum of squares: aggregator %v, agent %v*sf %v = %v", got.SumSq, ag.SumSq, sf, ag.SumSq*sf)
		}
		if want := c02HostExpect(ag.MinHost, sender); got.MinHost != want {
			if ag.MinHost.Empty() && !ag.MaxHost.Empty() && got.MinHost == ag.MaxHost {
				return d("empty-host-inherits-max-host-min", "min host: aggregator %v, agent row has none (= sending agent %v)", got.MinHost, sender)
			}
			return d("min-host-mismatch", "min host: aggregator %v, agent %v", got.MinHost, want)
		}
		if want := c02HostExpect(ag.MaxHost, sender); got.MaxHost != want {
			return d("max-host-mismatch", "max host: aggregator %v, agent %v", got.MaxHost, want)
		}
	}
	if fmt.Sprint(got.Uniq) != fmt.Sprint(ag.Uniq) || (len(ag.Uniq) != 0 && got.UniqSkip != ag.UniqSkip) {
		return d("unique-set-mismatch", "unique sketch: aggregator %v/skip %d, agent %v/skip %d", got.Uniq, got.UniqSkip, ag.Uniq, ag.UniqSkip)
	}
	// centroids
	var want [][2]float64
	assertCents := true
	switch {
	case !pct || !ag.ValueSet:
		// nothing to transfer
	case len(ag.Cents) != 0:
		m := map[float64]float64{}
		for _, c := range ag.Cents {
			m[float64(float32(c[0]))] += float64(float32(c[1] * sf)) // the wire format is float32; inputs are exact in it
		}
		want = c02SortCents(m)
	case ag.Min == ag.Max:
		// all values identical: the row stands for one centroid (value, count), the agent's own convention
		// (AddValueCounterHostPercentile/ApplyValues seed the digest with (wasValue, wasCount))
		want = [][2]float64{{ag.Min, ag.Count * sf}}
	default:
		// no digest although min != max (unique events on a percentile metric): the row defines no centroids, nothing asserted
		assertCents = false
	}
	if assertCents && fmt.Sprint(got.Cents) != fmt.Sprint(want) {
		return d("centroids-mismatch", "centroids (mean,weight): aggregator %v, agent*sf %v", got.Cents, want)
	}
	return nil
}

// ---------- one execution ----------

func c02RowString(row map[TagUnion]c02Agg) string {
	keys := make([]TagUnion, 0, len(row))
	for k := range row {
		keys = append(keys, k)
	}
	sort.Slice(keys, func(i, j int) bool {
		if keys[i].I != keys[j].I {
			return keys[i].I < keys[j].I
		}
		return keys[i].S < keys[j].S
	})
	var sb strings.Builder
	for _, k := range keys {
		fmt.Fprintf(&sb, "[%d/%q %+v]", k.I, k.S, row[k])
	}
	return sb.String()
}

func c02SubName(k TagUnion) string {
	if k.Empty() {
		return "tail"
	}
	if k.I != 0 {
		return fmt.Sprintf("top #%d", k.I)
	}
	return fmt.Sprintf("top %q", k.S)
}

// ---------- checks shared by the three seams ----------

// c02Collides: some sub-row received at least two events.
func c02Collides(events []c02Ev) bool {
	perSub := map[int]int{}
	for _, e := range events {
		perSub[e.Top]++
		if perSub[e.Top] > 1 {
			return true
		}
	}
	return false
}

// c02CheckAgentRow compares the agent-side row with the independent fold of the event list.
func c02CheckAgentRow(events []c02Ev, agentRow map[TagUnion]c02Agg, pct bool) *c02Diff {
	const sig = "C02:agent-row-differs-from-event-fold"
	ref := c02Fold(events)
	if len(ref) != len(agentRow) {
		return &c02Diff{sig, fmt.Sprintf("agent row has sub-rows %v, events touched %d", c02TopKeyNames(agentRow), len(ref))}
	}
	for _, tk := range c02SortedKeys(agentRow) {
		a := agentRow[tk]
		r, ok := ref[tk]
		if !ok {
			return &c02Diff{sig, c02SubName(tk) + " is in the agent row but no event was written to it"}
		}
		if a.Count != r.Count || a.ValueSet != r.ValueSet || (r.ValueSet && (a.Min != r.Min || a.Max != r.Max || a.Sum != r.Sum || a.SumSq != r.SumSq)) || len(a.Uniq) != len(r.Uniq) {
			return &c02Diff{sig, fmt.Sprintf("%s: agent row %+v, fold of events count=%v set=%v min=%v max=%v sum=%v sumsq=%v uniq=%d",
				c02SubName(tk), a, r.Count, r.ValueSet, r.Min, r.Max, r.Sum, r.SumSq, len(r.Uniq))}
		}
		if pct && r.OnlyValueEvents && len(a.Cents) != 0 && fmt.Sprint(a.Cents) != fmt.Sprint(c02SortCents(r.Values)) {
			return &c02Diff{sig, fmt.Sprintf("%s: agent centroids %v, values written %v", c02SubName(tk), a.Cents, c02SortCents(r.Values))}
		}
	}
	return nil
}

func c02SortedKeys(row map[TagUnion]c02Agg) []TagUnion {
	keys := make([]TagUnion, 0, len(row))
	for k := range row {
		keys = append(keys, k)
	}
	sort.Slice(keys, func(i, j int) bool {
		if keys[i].I != keys[j].I {
			return keys[i].I < keys[j].I
		}
		return keys[i].S < keys[j].S
	})
	return keys
}

// c02Received is one row as the aggregator reconstructs it from the wire.
type c02Received struct {
	Key        Key
	Row        map[TagUnion]c02Agg
	WireHasMax map[TagUnion]bool // per sub-row: value_max/sum/sumsq present on the wire (names the kind of a sum failure)
	Shape      string            // field masks (distinct encodings are counted as outcomes)
}

// c02WireInfo describes the encoding of one parsed row.
func c02WireInfo(ritem *tlstatshouse.MultiItemBytes) (map[TagUnion]bool, string) {
	wireHasMax := map[TagUnion]bool{{}: ritem.Tail.IsSetValueMax(ritem.FieldsMask)}
	shape := fmt.Sprintf("mask=%x top=%d", ritem.FieldsMask, len(ritem.Top))
	var tops []string // sorted: the order of top elements on the wire is the agent's map iteration order
	for i := range ritem.Top {
		te := &ritem.Top[i]
		wireHasMax[TagUnion{I: te.Tag, S: string(te.Stag)}] = te.Value.IsSetValueMax(te.FieldsMask)
		tops = append(tops, fmt.Sprintf("%d/%s:%x", te.Tag, te.Stag, te.FieldsMask))
	}
	sort.Strings(tops)
	return wireHasMax, shape + " " + strings.Join(tops, ",")
}

// c02Receive parses a serialised statshouse.sourceBucket3 and rebuilds every row the way handleSendSourceBucket does:
// real ReadTL1Boxed (Bytes variant), real KeyFromStatshouseMultiItem, string tags copied from skeys (no mapping
// known), real GetOrCreateMultiItem + MergeWithTLMultiItem into a fresh aggregator-side map.
func c02Receive(wire []byte, bucketTime uint32, sender TagUnion, rng *rand.Rand) ([]c02Received, *c02Diff) {
	var rb tlstatshouse.SourceBucket3Bytes
	if rest, err := rb.ReadTL1Boxed(wire); err != nil || len(rest) != 0 {
		return nil, &c02Diff{"C02:wire-unreadable", fmt.Sprintf("serialised bucket does not parse back: err=%v rest=%d", err, len(rest))}
	}
	var out []c02Received
	var aggMap MultiItemMap
	for i := range rb.Metrics {
		ritem := &rb.Metrics[i]
		wireHasMax, shape := c02WireInfo(ritem)
		k2, warn := KeyFromStatshouseMultiItem(ritem, bucketTime)
		for i, s := range ritem.Skeys {
			if i < format.MaxTags {
				k2.STags[i] = string(s)
			}
		}
		if warn != 0 {
			return nil, &c02Diff{"C02:key-timestamp-clamped", fmt.Sprintf("aggregator reports ingestion warning %d for a timestamp inside the window (key %s)", warn, c02KeyString(&k2))}
		}
		mi, created := aggMap.GetOrCreateMultiItem(&k2, nil, nil)
		if !created {
			return nil, &c02Diff{"C02:duplicate-row-on-wire", fmt.Sprintf("two rows with key %s in one bucket", c02KeyString(&k2))}
		}
		if ie := mi.MergeWithTLMultiItem(rng, AggregatorStringTopCapacity, ritem, sender); ie != 0 {
			return nil, &c02Diff{"C02:ingestion-error", fmt.Sprintf("aggregator rejects the row with ingestion error %d (key %s)", ie, c02KeyString(&k2))}
		}
		out = append(out, c02Received{Key: k2, Row: c02SnapRow(mi), WireHasMax: wireHasMax, Shape: shape})
	}
	return out, nil
}

func c02CompareKey(want, got *Key) *c02Diff {
	if *got == *want {
		return nil
	}
	sig := "C02:key-mismatch"
	if got.Timestamp != want.Timestamp {
		sig = "C02:key-timestamp-mismatch"
	}
	return &c02Diff{sig, fmt.Sprintf("key reconstructed as %s, agent row has %s", c02KeyString(got), c02KeyString(want))}
}

// c02CompareRows: same string-top keys, and every sub-row equal after applying sf and the sender's host.
func c02CompareRows(agentRow, aggRow map[TagUnion]c02Agg, wireHasMax map[TagUnion]bool, sf float64, sender TagUnion, pct bool) *c02Diff {
	if fmt.Sprint(c02TopKeyNames(aggRow)) != fmt.Sprint(c02TopKeyNames(agentRow)) {
		return &c02Diff{"C02:top-keys-mismatch", fmt.Sprintf("sub-rows: aggregator %v, agent %v", c02TopKeyNames(aggRow), c02TopKeyNames(agentRow))}
	}
	for _, k := range c02SortedKeys(agentRow) {
		if d := c02CompareSub(c02SubName(k), agentRow[k], aggRow[k], sf, sender, pct, wireHasMax[k]); d != nil {
			return d
		}
	}
	return nil
}

// ---------- exported surface for the C02 harnesses of internal/agent and internal/aggregator ----------

type (
	VerifC02Event    = c02Ev
	VerifC02Row      = map[TagUnion]c02Agg
	VerifC02Received = c02Received
)

const VerifC02Metric = c02Metric

// VerifC02Rule is the enumeration rule reported by every C02 run (the driver keeps the rule of the last report).
const VerifC02Rule = "Events: 17 kinds (counter 1/3; one value 5/0/-2/7 with counter absent/2/0.5; two values; histograms; uniques {7},{7,9} with and without counter), each with an event host (none/mapped/string) and a sub-row (tail, string top keys 'a' 'b', mapped top key). " +
	"Seam 1 (data_model: real Apply*/MapStringTop -> MultiValueToTL/TLMultiItemFromKey -> WriteTL1Boxed -> ReadTL1Boxed -> KeyFromStatshouseMultiItem/MergeWithTLMultiItem): deep = every sequence of 1..L events into ONE sub-row (tail / string / mapped top key) x percentiles on/off x sf{1,2,3.5}; wide = every sequence of 1..L events spread over 3-4 sub-rows x percentiles x sf x sender host (mapped/string); keys = 2605 tag layouts (<=3 of 7 positions set to int / negative int / string) x timestamp (bucket time, -1 s, -1 h) x event sequences x sf x sender. " +
	"Seam 2 (agent: real Shard.ApplyCounter/ApplyValues/ApplyUnique -> real Shard.sampleBucket): every sequence of 1..L events x 3 sub-rows x 3 hosts x percentiles x {default budget sf 1 | metric budget = half the row, real sampler draws keep(sf 2)/discard | NoSampleAgent with SF 3.5} x on time/late row. " +
	"Every outcome of every random draw (max-count host attribution, sampler keep/discard) is explored. Non-trivial = a sub-row received at least two events (aggregation collision) or sf != 1"

// VerifC02Alphabet returns kinds x tops x hosts; set is "full" (17 kinds), "deep" (12), "pct" (8), "small" (6) or "tiny" (4).
func VerifC02Alphabet(set string, hosts []int, tops []int) []VerifC02Event {
	kinds := c02KindsFull
	switch set {
	case "deep":
		kinds = c02KindsDeep
	case "pct":
		kinds = c02KindsPct
	case "small":
		kinds = c02KindsSmall
	case "tiny":
		kinds = c02KindsSmall[:4]
	}
	var out []c02Ev
	for _, k := range kinds {
		for _, t := range tops {
			for _, h := range hosts {
				out = append(out, c02Ev{Kind: k, Host: h, Top: t})
			}
		}
	}
	return out
}

func VerifC02Host(i int) TagUnion   { return c02Hosts[i] }
func VerifC02TopKey(i int) TagUnion { return c02TopKeys[i] }

func VerifC02Describe(events []VerifC02Event) string {
	var ev []string
	for _, e := range events {
		ev = append(ev, e.String())
	}
	return "[" + strings.Join(ev, " ") + "]"
}

func VerifC02SnapRow(mi *MultiItem) VerifC02Row { return c02SnapRow(mi) }
func VerifC02RowString(row VerifC02Row) string  { return c02RowString(row) }
func VerifC02KeyString(k *Key) string           { return c02KeyString(k) }
func VerifC02Collides(ev []VerifC02Event) bool  { return c02Collides(ev) }

func c02Unpack(d *c02Diff) (string, string) {
	if d == nil {
		return "", ""
	}
	return d.Sig, d.Msg
}

// VerifC02CheckAgentRow: agent-side row against the independent fold of the events ("" = agree).
func VerifC02CheckAgentRow(events []VerifC02Event, row VerifC02Row, pct bool) (sig, msg string) {
	return c02Unpack(c02CheckAgentRow(events, row, pct))
}

// VerifC02Receive: parse the serialised bucket and rebuild its rows as handleSendSourceBucket does.
func VerifC02Receive(wire []byte, bucketTime uint32, sender TagUnion, rng *rand.Rand) (rows []VerifC02Received, sig, msg string) {
	rows, d := c02Receive(wire, bucketTime, sender, rng)
	sig, msg = c02Unpack(d)
	return
}

// VerifC02WireInfo: per key (as c02KeyString of the reconstructed key without string-tag mapping) the encoding facts.
func VerifC02WireInfo(wire []byte, bucketTime uint32) (map[string]map[TagUnion]bool, error) {
	var rb tlstatshouse.SourceBucket3Bytes
	if _, err := rb.ReadTL1Boxed(wire); err != nil {
		return nil, err
	}
	out := map[string]map[TagUnion]bool{}
	for i := range rb.Metrics {
		ritem := &rb.Metrics[i]
		k, _ := KeyFromStatshouseMultiItem(ritem, bucketTime)
		for i, s := range ritem.Skeys {
			if i < format.MaxTags {
				k.STags[i] = string(s)
			}
		}
		out[c02KeyString(&k)], _ = c02WireInfo(ritem)
	}
	return out, nil
}

func VerifC02CompareKey(want, got *Key) (sig, msg string) { return c02Unpack(c02CompareKey(want, got)) }

func VerifC02CompareRows(agentRow, aggRow VerifC02Row, wireHasMax map[TagUnion]bool, sf float64, sender TagUnion, pct bool) (sig, msg string) {
	return c02Unpack(c02CompareRows(agentRow, aggRow, wireHasMax, sf, sender, pct))
}

// VerifC02MapTag is what the aggregator does with a string it knows a mapping for: it stores the mapped id instead.
func VerifC02MapTag(t TagUnion, mapping map[string]int32) TagUnion {
	if t.I == 0 && t.S != "" {
		if m, ok := mapping[t.S]; ok && m > 0 {
			return TagUnion{I: m}
		}
	}
	return t
}

// VerifC02MapRow / VerifC02MapKey translate the agent-side row and key through the aggregator's string mappings
// (string tags, string-top keys and host strings with a known mapping are stored as ids by the handler).
func VerifC02MapRow(row VerifC02Row, mapping map[string]int32) VerifC02Row {
	out := VerifC02Row{}
	for k, a := range row {
		a.MinHost = VerifC02MapTag(a.MinHost, mapping)
		a.MaxHost = VerifC02MapTag(a.MaxHost, mapping)
		a.CntHost = VerifC02MapTag(a.CntHost, mapping)
		out[VerifC02MapTag(k, mapping)] = a
	}
	return out
}

func VerifC02MapKey(k Key, mapping map[string]int32) Key {
	for i, s := range k.STags {
		if m, ok := mapping[s]; ok && s != "" && m > 0 {
			k.Tags[i] = m
			k.STags[i] = ""
		}
	}
	return k
}

// VerifC02MapWireInfo re-keys the per-sub-row wire facts the same way.
func VerifC02MapWireInfo(w map[TagUnion]bool, mapping map[string]int32) map[TagUnion]bool {
	out := map[TagUnion]bool{}
	for k, v := range w {
		out[VerifC02MapTag(k, mapping)] = v
	}
	return out
}
