//go:build verif

package data_model

// C02: row aggregates survive agent-to-aggregator transfer unchanged.
//
// Seam (this file): real MultiItemMap.GetOrCreateMultiItem + MultiItem.MapStringTop + MultiValue.AddCounterHost /
// ApplyValues / ApplyUnique build the agent-side row (exactly the calls Shard.Apply* makes under its lock); the row is
// encoded with the real Key.TLMultiItemFromKey + MultiValue.MultiValueToTL (the assembly that sampleBucket's keepF does
// is repeated here line by line; the harness in internal/aggregator goes through the real sampleBucket and the real handler), wrapped into a real
// tlstatshouse.SourceBucket3, serialised WriteTL1Boxed -> ReadTL1Boxed (Bytes variant, as the aggregator reads it),
// and reconstructed with the real KeyFromStatshouseMultiItem + MultiItem.MergeWithTLMultiItem into a fresh aggregator
// row. Every random draw of the agent side (max-count host attribution) is a choice point: both outcomes are explored.
//
// Oracle: (1) an independent fold of the event list gives count, sum, sum of squares, min, max and the unique set of
// every sub-row (tail and each string-top key) - the agent-side row must agree with it; (2) the aggregator-side row
// must hold the same key, the same string-top keys and for each sub-row count*sf, min, max, sum*sf, sumsq*sf, the
// host attributions of the agent-side row (an empty attribution means "the sending agent" and must become the
// sender's host), the same unique set, and the agent-side centroids with weights*sf. All inputs are dyadic rationals,
// so every comparison is exact (no tolerance).

import (
	"fmt"
	"sort"
	"sync"
	"testing"

	"pgregory.net/rand"

	"github.com/VKCOM/statshouse/internal/data_model/gen2/tlstatshouse"
	"github.com/VKCOM/statshouse/internal/format"
	"github.com/VKCOM/statshouse/internal/verif/mc"
)

// ---------- random draws ----------

// c02Hook answers the draws of the agent-side generator. The only draw on this path is
// rng.Uint64n(totalWeight) >= weight in ItemCounter.AddCounterHost/Merge with 1 <= weight < totalWeight:
// answers 0 and totalWeight-1 take the two branches, so both outcomes of every draw are explored.
type c02Hook struct {
	x     *mc.Exec
	draws int
}

func (h *c02Hook) Uint64n(n uint64) uint64 {
	h.draws++
	if n <= 1 {
		return 0
	}
	if h.x.ChooseFree(2, "rand.Uint64n{0,n-1}") == 0 {
		return 0
	}
	return n - 1
}
func (h *c02Hook) Float64() float64 {
	h.draws++
	return (float64(h.x.ChooseFree(4, "rand.Float64")) + 0.5) / 4
}
func (h *c02Hook) Uint64() uint64 {
	h.draws++
	return uint64(h.x.ChooseFree(2, "rand.Uint64"))
}

// ---------- the agent side ----------

// c02ApplyEvent performs what Shard.ApplyCounter / ApplyValues / ApplyUnique do after taking the lock.
func c02ApplyEvent(rng *rand.Rand, b *MultiItemMap, key *Key, meta *format.MetricMetaValue, e c02Ev) *MultiItem {
	k := *key // Shard.Apply* receive a key whose string-top tag was already removed
	item, _ := b.GetOrCreateMultiItem(&k, meta, nil)
	host := c02Hosts[e.Host]
	top := c02TopKeys[e.Top]
	kd := e.Kind
	switch kd.Type {
	case 0:
		mv := item.MapStringTop(rng, 0, top, kd.Count)
		mv.AddCounterHost(rng, kd.Count, host)
	case 1:
		total := float64(len(kd.Values))
		for _, h := range kd.Hist {
			total += h[1]
		}
		count := kd.Count
		if count == 0 {
			count = total
		}
		mv := item.MapStringTop(rng, 0, top, count)
		mv.ApplyValues(rng, kd.Hist, kd.Values, count, total, host, AgentPercentileCompression, meta != nil && meta.HasPercentiles)
	case 2:
		count := kd.Count
		if count == 0 {
			count = float64(len(kd.Uniq))
		}
		mv := item.MapStringTop(rng, 0, top, count)
		mv.ApplyUnique(rng, kd.Uniq, count, host)
	}
	return item
}

// c02Encode is the row assembly of sampleBucket's keepF (agent_shard_send.go), with string-top keys in sorted order
// so that descriptions are reproducible.
func c02Encode(item *MultiItem, bucketTime uint32) tlstatshouse.MultiItem {
	var scratch []byte
	tl := item.Key.TLMultiItemFromKey(bucketTime)
	scratch = item.Tail.MultiValueToTL(item.MetricMeta, &tl.Tail, item.SF, &tl.FieldsMask, scratch)
	keys := make([]TagUnion, 0, len(item.Top))
	for k := range item.Top {
		keys = append(keys, k)
	}
	sort.Slice(keys, func(i, j int) bool {
		if keys[i].I != keys[j].I {
			return keys[i].I < keys[j].I
		}
		return keys[i].S < keys[j].S
	})
	var top []tlstatshouse.TopElement
	for _, k := range keys {
		el := tlstatshouse.TopElement{Stag: k.S}
		if k.I != 0 {
			el.SetTag(k.I)
		}
		scratch = item.Top[k].MultiValueToTL(item.MetricMeta, &el.Value, item.SF, &el.FieldsMask, scratch)
		top = append(top, el)
	}
	if len(top) != 0 {
		tl.SetTop(top)
	}
	return tl
}

// ---------- statistics ----------

type c02Stats struct {
	mu         sync.Mutex
	bySig      map[string]int64 // violating executions per signature (first runs only, not confirmation replays)
	admitted   map[string]map[string]bool
	states     map[uint64]struct{}
	outcomes   map[uint64]struct{}
	nontrivial map[uint64]struct{}
	draws      int64
}

// c02Admit limits the violations handed to the explorer to 3 distinct choice sequences per signature: the explorer
// re-runs every violating execution 5 times before it drops repeats of a signature, and a genuine defect makes a
// large share of the executions violate. Further violating executions are only counted (violating_executions; the
// few executions the explorer runs twice - once while cutting the tree into work units - are counted twice).
// Confirmation replays (traced runs: x.Labels filled) and re-executions of an admitted choice sequence are never
// suppressed, so a reported example always replays identically.
func c02Admit(x *mc.Exec, sig string, bySig map[string]int64, admitted map[string]map[string]bool, mu *sync.Mutex) bool {
	if len(x.Labels) != 0 {
		return true
	}
	key := fmt.Sprint(x.Choices)
	mu.Lock()
	defer mu.Unlock()
	if admitted[sig][key] {
		return true
	}
	bySig[sig]++
	if len(admitted[sig]) >= 3 {
		return false
	}
	if admitted[sig] == nil {
		admitted[sig] = map[string]bool{}
	}
	admitted[sig][key] = true
	return true
}

func c02NewStats() *c02Stats {
	return &c02Stats{bySig: map[string]int64{}, admitted: map[string]map[string]bool{}, states: map[uint64]struct{}{}, outcomes: map[uint64]struct{}{}, nontrivial: map[uint64]struct{}{}}
}

func (s *c02Stats) note(state, outcome string, nontrivial bool, draws int) {
	hs, ho := mc.Hash(state), mc.Hash(outcome)
	s.mu.Lock()
	s.states[hs] = struct{}{}
	s.outcomes[ho] = struct{}{}
	if nontrivial {
		s.nontrivial[hs] = struct{}{}
	}
	s.draws += int64(draws)
	s.mu.Unlock()
}

func c02RunCase(x *mc.Exec, c *c02Case, st *c02Stats) mc.Verdict {
	fail := func(sig, msg string) mc.Verdict {
		if !c02Admit(x, sig, st.bySig, st.admitted, &st.mu) {
			return mc.Verdict{}
		}
		return mc.Verdict{Sig: sig, Violation: msg + " | " + c.describe(), Detail: map[string]any{"case": c.describe()}}
	}
	meta := &format.MetricMetaValue{MetricID: c.Key.Metric, Name: "c02", EffectiveResolution: 1, HasPercentiles: c.Pct}
	hook := &c02Hook{x: x}
	rng := rand.New(1)
	rng.Hook = hook
	var agentMap MultiItemMap
	var item *MultiItem
	for _, e := range c.Events {
		it := c02ApplyEvent(rng, &agentMap, &c.Key, meta, e)
		if item != nil && it != item {
			return fail("C02:agent-key-split", "events with one key landed in two agent rows")
		}
		item = it
	}
	if len(agentMap.MultiItems) != 1 {
		return fail("C02:agent-key-split", fmt.Sprintf("%d agent rows for one key", len(agentMap.MultiItems)))
	}
	agentRow := c02SnapRow(item)

	// (1) the agent-side row against the independent fold of the events
	if d := c02CheckAgentRow(c.Events, agentRow, c.Pct); d != nil {
		return fail(d.Sig, d.Msg)
	}

	// (2) encode as keepF does, serialise
	item.SF = c.SF
	tl := c02Encode(item, c02BucketTime)
	sb := tlstatshouse.SourceBucket3{Metrics: []tlstatshouse.MultiItem{tl}}
	wire := sb.WriteTL1Boxed(nil)

	// (3) parse as the aggregator does, reconstruct key and row as handleSendSourceBucket does
	aggRng := rand.New(2)
	aggRng.Hook = hook
	recv, d := c02Receive(wire, c02BucketTime, c.Sender, aggRng)
	if d != nil {
		return fail(d.Sig, d.Msg)
	}
	if len(recv) != 1 {
		return fail("C02:wire-unreadable", fmt.Sprintf("%d rows after parsing, 1 written", len(recv)))
	}
	r := recv[0]
	st.note(c02RowString(agentRow)+fmt.Sprint(c.SF, c.Pct, c.Sender)+c02KeyString(&c.Key), r.Shape+c02RowString(r.Row), c02Collides(c.Events) || c.SF != 1, hook.draws)
	if d := c02CompareKey(&c.Key, &r.Key); d != nil {
		return fail(d.Sig, d.Msg)
	}
	if d := c02CompareRows(agentRow, r.Row, r.WireHasMax, c.SF, c.Sender, c.Pct); d != nil {
		return fail(d.Sig, d.Msg)
	}
	return mc.Verdict{}
}

// ---------- enumeration ----------

var c02Ballast []byte

func c02BaseKey() Key {
	k := Key{Timestamp: c02BucketTime, Metric: c02Metric}
	k.Tags[0] = 3
	k.Tags[2] = -5
	k.STags[4] = "str"
	return k
}

// c02Letters builds the event alphabet kinds x hosts x top keys.
func c02Letters(kinds []c02Kind, hosts []int, tops []int) []c02Ev {
	var out []c02Ev
	for _, k := range kinds {
		for _, t := range tops {
			for _, h := range hosts {
				out = append(out, c02Ev{Kind: k, Host: h, Top: t})
			}
		}
	}
	return out
}

// c02ChooseSeq picks every sequence of 1..maxLen letters exactly once (0 = stop).
func c02ChooseSeq(x *mc.Exec, letters []c02Ev, maxLen int) []c02Ev {
	var evs []c02Ev
	for i := 0; i < maxLen; i++ {
		n := len(letters) + 1
		if i == 0 {
			n = len(letters) // at least one event: an empty row does not exist
		}
		k := x.ChooseFree(n, "event")
		if i > 0 {
			if k == 0 {
				break
			}
			k--
		}
		evs = append(evs, letters[k])
	}
	return evs
}

// c02Layouts: every assignment of {unset, int 5, int -1, string "x", string "yy"} to the tag positions
// 0,1,2,15,16,45,46 with at most 3 positions set (position 47 is the string-top tag, removed from the key
// before the row is looked up).
func c02Layouts() []Key {
	pos := []int{0, 1, 2, 15, 16, 45, 46}
	var out []Key
	var rec func(i int, used int, k Key)
	rec = func(i int, used int, k Key) {
		if i == len(pos) {
			out = append(out, k)
			return
		}
		rec(i+1, used, k)
		if used == 3 {
			return
		}
		for v := 1; v <= 4; v++ {
			k2 := k
			switch v {
			case 1:
				k2.Tags[pos[i]] = 5
			case 2:
				k2.Tags[pos[i]] = -1
			case 3:
				k2.STags[pos[i]] = "x"
			case 4:
				k2.STags[pos[i]] = "yy"
			}
			rec(i+1, used+1, k2)
		}
	}
	rec(0, 0, Key{Metric: c02Metric})
	return out
}

func TestVerifC02(t *testing.T) {
	// Every execution allocates fresh real rows (two t-digests of 5-10 KB each when percentiles are on) while the live
	// heap stays tiny, so the default pacer would collect every few MB with all workers stopping; a live ballast
	// spaces the collections out (memory is still reused, so no page-fault storm).
	c02Ballast = make([]byte, 96<<20)
	defer func() { c02Ballast = nil }()
	rep := mc.NewReport("C02")
	rep.Rule = VerifC02Rule
	rep.Bounds["deep_max_events"] = mc.Pick(3, 4)
	rep.Bounds["wide_max_events"] = mc.Pick(3, 4)
	rep.Bounds["sample_factors"] = c02SFs
	rep.Assume("all inputs are dyadic rationals, so float64 (and the float32 centroid wire format) is exact and comparisons are exact")
	rep.Assume("row timestamps lie in [bucket time - 1 h, bucket time]: the agent never emits a row newer than its bucket, and the aggregator clamps rows older than its believe window (26 h) on purpose")
	shard, shards := mc.ShardFromEnv()
	st := c02NewStats()

	// ---- part deep: one sub-row, long histories ----
	// Percentile rows allocate two real t-digests (6 KB on the agent, 13 KB on the aggregator) per sub-row, which
	// dominates the cost of an execution; host attribution and the counter/sum encoding do not depend on the
	// percentile flag, so the percentile-on sweeps use the value-bearing kinds and two hosts, the percentile-off
	// sweeps the whole alphabet and three hosts.
	runDeep := func(part string, kinds []c02Kind, hosts []int, maxLen int, positions []int, sfs []float64, pct bool, workers int) {
		letters := make([][]c02Ev, len(c02TopKeys))
		for _, p := range positions {
			letters[p] = c02Letters(kinds, hosts, []int{p})
		}
		body := func(x *mc.Exec) mc.Verdict {
			pos := positions[x.ChooseFree(len(positions), "position")]
			sf := sfs[x.ChooseFree(len(sfs), "sf")]
			evs := c02ChooseSeq(x, letters[pos], maxLen)
			c := &c02Case{Key: c02BaseKey(), Events: evs, Pct: pct, SF: sf, Sender: c02Senders[0]}
			return c02RunCase(x, c, st)
		}
		stats := mc.Explore(body, mc.Options{Bound: -1, SplitDepth: 3, Shard: shard, Shards: shards, Workers: workers})
		rep.MergeExplore(part, stats)
	}
	h3, h2 := []int{0, 1, 2}, []int{0, 1}
	// Shortest histories first, in one worker: the examples reported for a signature are then the first three in
	// depth-first order of this small sweep, the same in every run (later sweeps only count repeats of a signature).
	if shard == 0 {
		runDeep("shortest_len2_12kinds_serial", c02KindsDeep, h3, 2, []int{0}, []float64{1, 2}, false, 1)
		runDeep("shortest_len2_8kinds_pct_serial", c02KindsPct, h3, 2, []int{0}, []float64{1, 2}, true, 1)
	}
	if mc.Thorough() {
		runDeep("deep_len3_17kinds_3hosts", c02KindsFull, h3, 3, []int{0, 1, 2}, c02SFs, false, 0)
		runDeep("deep_len3_17kinds_2hosts_pct", c02KindsFull, h2, 3, []int{0, 1, 2}, c02SFs, true, 0)
		runDeep("deep_len4_12kinds_3hosts_tail", c02KindsDeep, h3, 4, []int{0}, []float64{3.5}, false, 0)
		runDeep("deep_len4_8kinds_2hosts_tail_pct", c02KindsPct, h2, 4, []int{0}, []float64{2}, true, 0)
	} else {
		runDeep("deep_len3_12kinds_3hosts_tail", c02KindsDeep, h3, 3, []int{0}, []float64{1, 3.5}, false, 0)
		runDeep("deep_len3_12kinds_3hosts_topkey", c02KindsDeep, h3, 3, []int{1}, []float64{2}, false, 0)
		runDeep("deep_len3_8kinds_2hosts_pct", c02KindsPct, h2, 3, []int{0, 1}, []float64{1, 3.5}, true, 0)
	}
	// ---- part wide: several sub-rows ----
	runWide := func(part string, kinds []c02Kind, hosts []int, tops []int, maxLen int, sfs []float64, pct bool) {
		letters := c02Letters(kinds, hosts, tops)
		body := func(x *mc.Exec) mc.Verdict {
			sf := sfs[x.ChooseFree(len(sfs), "sf")]
			sender := c02Senders[x.ChooseFree(len(c02Senders), "sender")]
			evs := c02ChooseSeq(x, letters, maxLen)
			c := &c02Case{Key: c02BaseKey(), Events: evs, Pct: pct, SF: sf, Sender: sender}
			return c02RunCase(x, c, st)
		}
		stats := mc.Explore(body, mc.Options{Bound: -1, SplitDepth: 3, Shard: shard, Shards: shards})
		rep.MergeExplore(part, stats)
	}
	if mc.Thorough() {
		runWide("wide_len3_6kinds_4subrows", c02KindsSmall, h2, []int{0, 1, 2, 3}, 3, c02SFs, false)
		runWide("wide_len3_6kinds_3subrows_pct", c02KindsSmall, []int{0}, []int{0, 1, 2}, 3, c02SFs, true)
		runWide("wide_len4_4kinds_3subrows", c02KindsSmall[:4], h2, []int{0, 1, 2}, 4, []float64{1, 2}, false)
	} else {
		runWide("wide_len3_6kinds_3subrows", c02KindsSmall, h2, []int{0, 1, 2}, 3, []float64{2}, false)
		runWide("wide_len3_4kinds_3subrows_pct", c02KindsSmall[:4], []int{0}, []int{0, 1, 2}, 3, []float64{1, 2}, true)
	}
	// ---- part keys: tag / string-tag / timestamp layouts ----
	{
		layouts := c02Layouts()
		rep.Bounds["key_layouts"] = len(layouts)
		times := []uint32{c02BucketTime, c02BucketTime - 1, c02BucketTime - 3600}
		k := c02KindsFull
		seqs := [][]c02Ev{
			{{Kind: k[0], Host: 0, Top: 0}},
			{{Kind: k[2], Host: 1, Top: 0}, {Kind: k[7], Host: 2, Top: 1}, {Kind: k[13], Host: 0, Top: 2}},
			{{Kind: k[9], Host: 0, Top: 1}, {Kind: k[1], Host: 0, Top: 3}},
		}
		sfs := []float64{1, 3.5}
		if !mc.Thorough() {
			seqs = seqs[:2]
			sfs = sfs[1:]
		}
		body := func(x *mc.Exec) mc.Verdict {
			key := layouts[x.ChooseFree(len(layouts), "layout")]
			key.Timestamp = times[x.ChooseFree(len(times), "timestamp")]
			evs := seqs[x.ChooseFree(len(seqs), "events")]
			sf := sfs[x.ChooseFree(len(sfs), "sf")]
			sender := c02Senders[x.ChooseFree(len(c02Senders), "sender")]
			c := &c02Case{Key: key, Events: evs, Pct: mc.Thorough(), SF: sf, Sender: sender}
			return c02RunCase(x, c, st)
		}
		stats := mc.Explore(body, mc.Options{Bound: -1, SplitDepth: 1, Shard: shard, Shards: shards})
		rep.MergeExplore("keys", stats)
	}

	for h := range st.states {
		rep.State(fmt.Sprintf("%x", h))
	}
	for h := range st.nontrivial {
		rep.Nontrivial(fmt.Sprintf("%x", h))
	}
	for h := range st.outcomes {
		rep.Outcome(fmt.Sprintf("%x", h))
	}
	rep.Bounds["random_draws_answered"] = st.draws
	rep.Bounds["violating_executions"] = st.bySig
	rep.Sample(map[string]any{"case": "events=[cnt1@tail/h- v7@tail/h-] sf=1", "agent_row": "count 2 sum 7 min 7 max 7", "wire": "counter=2 value_set value_min=7 (no max/sum/sumsq)"})
	if err := rep.Write(); err != nil {
		t.Fatal(err)
	}
	t.Logf("C02 data_model: states=%d outcomes=%d nontrivial=%d draws=%d violations=%d", len(st.states), len(st.outcomes), len(st.nontrivial), st.draws, rep.NumViolations())
}
