//go:build verif

package data_model

// C04, part "unique-adversarial": exact-mode sketches whose hashes are chosen to collide in the LAST slot of a
// table of size degree d (and in slot 0), so that linear-probing chains wrap around the end of the table, and
// which are then grown across one or two resizes and fed the wrapped values again.
//
// For every degree d of the tier: values are found by searching small integers for their 32-bit hash
// (uintHash32) and the table's slot function place(h) = (h >> 15) & (2^d - 1):
//
//	a      home = last slot of the degree-d table, bit d of (h>>15) set   -> moves to the new last slot on resize
//	b1..b3 home = last slot, bit d clear                                  -> stays at slot 2^d-1 after the resize
//	c0     home = slot 0, bit d clear
//	base   2^(d-2)+1 fillers (homes away from both table ends) that put a sketch at degree d (none for d = 4)
//	grow   2^(d-1) further fillers (union crosses one resize), grow2 2^d further (second resize),
//	jump   2^d+2 further fillers (MergeRead's multi-degree resize: incoming count > table size)
//
// Enumerated: first contribution = base followed by every ordered selection of 1..3 of {a,b1,b2,c0} plus seven
// ordered 4-chains (47 sketches; insertion order decides who owns the home slot and who wraps), then 1..3 further
// contributions from {a},{b1},{b2},{b3},{c0}, the 12 ordered pairs of {a,b1,b2,c0}, grow, grow2, jump (three
// further contributions: over the 8 single/filler sketches), each applied by Insert-one-by-one, Merge or MergeRead
// (all operator combinations up to 3 contributions; 4 contributions: first operator x one common operator).
//
// Oracle after every operation: the sketch is in exact mode, Size(false) == number of distinct values so far
// (= distinct hashes; the search guarantees distinct hashes), no hash is stored twice, and the serialized state
// read back with ReadFrom holds the same number of items.

import (
	"bytes"
	"fmt"
	"runtime"
	"sort"
	"strings"
	"sync"
	"sync/atomic"
	"testing"

	"github.com/VKCOM/statshouse/internal/verif/mc"
)

type c04AdvSketch struct {
	name  string
	vals  []uint64
	sk    ChUnique // built by Insert in the order of vals
	state []byte   // MarshallAppend(sk)
	ids   []int    // dense ids of vals within the family (for counting distinct values cheaply)
}

type c04AdvFamily struct {
	d     uint32
	nIDs  int
	first []*c04AdvSketch
	more  []*c04AdvSketch // further contributions; the first c04AdvCore of them are the single/filler sketches
}

const c04AdvCore = 8

func c04AdvBuild(name string, vals []uint64) *c04AdvSketch {
	s := &c04AdvSketch{name: name, vals: vals}
	for _, v := range vals {
		s.sk.Insert(v)
	}
	s.state = s.sk.MarshallAppend(nil)
	return s
}

// c04AdvMakeFamily searches the values for degree d. Deterministic: candidates are 1, 2, 3, ...
func c04AdvMakeFamily(d uint32) (*c04AdvFamily, error) {
	var h ChUnique
	mask := uint32(1)<<d - 1
	last := mask
	used := map[uint32]bool{0: true}
	var a, c0 []uint64
	var b []uint64
	nBase := 0
	if d > 4 {
		nBase = 1<<(d-2) + 1
	}
	nFill := nBase + 1<<(d-1) + 1<<d + (1<<d + 2)
	var fill []uint64
	for v := uint64(1); v < 1<<22; v++ {
		x := h.uintHash32(v)
		if used[x] {
			continue
		}
		q := x >> uniquesHashBitsForSkip
		slot := q & mask
		bit := (q >> d) & 1
		switch {
		case slot == last && bit == 1 && len(a) < 1:
			a = append(a, v)
		case slot == last && bit == 0 && len(b) < 3:
			b = append(b, v)
		case slot == 0 && bit == 0 && len(c0) < 1:
			c0 = append(c0, v)
		case slot >= 3 && slot+3 <= last && len(fill) < nFill:
			fill = append(fill, v)
		default:
			continue
		}
		used[x] = true
		if len(a) == 1 && len(b) == 3 && len(c0) == 1 && len(fill) == nFill {
			break
		}
	}
	if len(a) != 1 || len(b) != 3 || len(c0) != 1 || len(fill) != nFill {
		return nil, fmt.Errorf("degree %d: value search incomplete", d)
	}
	base := fill[:nBase]
	grow := fill[nBase : nBase+1<<(d-1)]
	grow2 := fill[nBase+1<<(d-1) : nBase+1<<(d-1)+1<<d]
	jump := fill[nBase+1<<(d-1)+1<<d:]
	pool := []uint64{a[0], b[0], b[1], c0[0]}
	poolN := []string{"a", "b1", "b2", "c0"}
	f := &c04AdvFamily{d: d}
	withBase := func(sel []int) []uint64 {
		out := append([]uint64{}, base...)
		for _, i := range sel {
			out = append(out, pool[i])
		}
		return out
	}
	selName := func(sel []int) string {
		ns := make([]string, len(sel))
		for i, k := range sel {
			ns[i] = poolN[k]
		}
		return strings.Join(ns, ",")
	}
	var rec func(sel []int)
	rec = func(sel []int) {
		if len(sel) > 0 {
			f.first = append(f.first, c04AdvBuild(fmt.Sprintf("d%d:base+[%s]", d, selName(sel)), withBase(sel)))
		}
		if len(sel) == 3 {
			return
		}
	next:
		for i := range pool {
			for _, k := range sel {
				if k == i {
					continue next
				}
			}
			rec(append(append([]int{}, sel...), i))
		}
	}
	rec(nil)
	// ordered chains of four (wrap-around chains of length 3)
	pool5 := map[string]uint64{"a": a[0], "b1": b[0], "b2": b[1], "b3": b[2], "c0": c0[0]}
	for _, ch := range [][]string{{"a", "b1", "b2", "b3"}, {"b1", "a", "b2", "b3"}, {"b1", "b2", "a", "b3"}, {"b1", "b2", "b3", "a"},
		{"c0", "a", "b1", "b2"}, {"a", "c0", "b1", "b2"}, {"a", "b1", "c0", "b2"}} {
		vals := append([]uint64{}, base...)
		for _, n := range ch {
			vals = append(vals, pool5[n])
		}
		f.first = append(f.first, c04AdvBuild(fmt.Sprintf("d%d:base+[%s]", d, strings.Join(ch, ",")), vals))
	}
	// further contributions: core (singles and filler blocks) first, then the ordered pairs
	for _, n := range []string{"a", "b1", "b2", "b3", "c0"} {
		f.more = append(f.more, c04AdvBuild(fmt.Sprintf("d%d:{%s}", d, n), []uint64{pool5[n]}))
	}
	f.more = append(f.more, c04AdvBuild(fmt.Sprintf("d%d:grow(%d)", d, len(grow)), grow),
		c04AdvBuild(fmt.Sprintf("d%d:grow2(%d)", d, len(grow2)), grow2),
		c04AdvBuild(fmt.Sprintf("d%d:jump(%d)", d, len(jump)), jump))
	for i := range pool {
		for j := range pool {
			if i != j {
				f.more = append(f.more, c04AdvBuild(fmt.Sprintf("d%d:[%s,%s]", d, poolN[i], poolN[j]), []uint64{pool[i], pool[j]}))
			}
		}
	}
	idOf := map[uint64]int{}
	for _, list := range [][]*c04AdvSketch{f.first, f.more} {
		for _, sk := range list {
			for _, v := range sk.vals {
				id, ok := idOf[v]
				if !ok {
					id = len(idOf)
					idOf[v] = id
				}
				sk.ids = append(sk.ids, id)
			}
		}
	}
	f.nIDs = len(idOf)
	return f, nil
}

var c04AdvOpNames = [3]string{"Insert", "Merge", "MergeRead"}

// c04AdvApply applies one contribution to the accumulating sketch.
func c04AdvApply(acc *ChUnique, s *c04AdvSketch, op int) error {
	switch op {
	case 0:
		for _, v := range s.vals {
			acc.Insert(v)
		}
	case 1:
		acc.Merge(c04Clone(&s.sk))
	default:
		return acc.MergeRead(bytes.NewBuffer(s.state))
	}
	return nil
}

// c04AdvJudge checks the exact-mode oracle on the accumulated sketch. The count comparison is O(1); the table is
// scanned for a duplicate only to name the failure; the serialized round trip is checked at the end of a sequence.
func c04AdvJudge(acc *ChUnique, distinct int, final bool) (sig, msg string) {
	if acc.skipDegree != 0 {
		return "C04:unique-exact-thinned-early", fmt.Sprintf("sketch with %d distinct values left the exact mode (skip degree %d)", distinct, acc.skipDegree)
	}
	if got := acc.Size(false); got != uint64(distinct) {
		seen := make(map[uint32]struct{}, distinct)
		if acc.buf != nil {
			for _, x := range acc.buf[:acc.bufSize()] {
				if x == 0 {
					continue
				}
				if _, dup := seen[x]; dup {
					return "C04:unique-duplicate-hash", fmt.Sprintf("hash %#x is stored twice in the table: the sketch reports %d for %d distinct values (size degree %d)", x, got, distinct, acc.sizeDegree)
				}
				seen[x] = struct{}{}
			}
		}
		return "C04:unique-small-union-wrong", fmt.Sprintf("exact-mode sketch reports %d, %d distinct values were merged", got, distinct)
	}
	if !final {
		return "", ""
	}
	var back ChUnique
	if err := back.ReadFrom(bytes.NewReader(acc.MarshallAppend(nil))); err != nil {
		return "C04:unique-state-unreadable", "ReadFrom rejects the state written by MarshallAppend: " + err.Error()
	}
	if back.ItemsCount() != distinct || back.Size(false) != uint64(distinct) {
		return "C04:unique-state-roundtrip-differs", fmt.Sprintf("state read back holds %d items, %d distinct values were merged", back.ItemsCount(), distinct)
	}
	return "", ""
}

func c04AdversarialPart(t *testing.T, rep *mc.Report) {
	degrees := mc.Pick([]uint32{4, 5, 6, 7}, []uint32{4, 5, 6, 7, 8, 9})
	rep.Bounds["adversarial_size_degrees"] = fmt.Sprint(degrees)
	type unit struct {
		f     *c04AdvFamily
		first int
	}
	var units []unit
	for _, d := range degrees {
		f, err := c04AdvMakeFamily(d)
		if err != nil {
			t.Fatal(err)
		}
		// sanity of the construction (harness precondition): base+selection sketches sit at degree d
		for _, s := range f.first {
			if s.sk.sizeDegree != d {
				t.Fatalf("%s: size degree %d, want %d", s.name, s.sk.sizeDegree, d)
			}
		}
		for i := range f.first {
			units = append(units, unit{f, i})
		}
		if d == degrees[0] {
			rep.Sample(map[string]any{"part": "unique-adversarial", "degree": d, "a": f.more[0].vals, "b1": f.more[1].vals, "b2": f.more[2].vals, "b3": f.more[3].vals, "c0": f.more[4].vals,
				"first_sketches": len(f.first), "further_sketches": len(f.more)})
		}
	}
	var execs, ops, nontrivial int64
	var capped atomic.Bool
	type pending struct {
		n         int
		how, sig  string
		desc      string
	}
	var mu sync.Mutex
	var pend []pending
	shardK, shardN := mc.ShardFromEnv()
	work := make(chan int, len(units))
	for i := range units {
		if i%shardN == shardK {
			work <- i
		}
	}
	close(work)
	var wg sync.WaitGroup
	for w := 0; w < runtime.GOMAXPROCS(0); w++ {
		wg.Add(1)
		go func() {
			defer wg.Done()
			var lexecs, lops, lnt int64
			for ui := range work {
				if mc.Expired() {
					capped.Store(true)
					continue
				}
				u := units[ui]
				f := u.f
				first := f.first[u.first]
				states := map[uint32]struct{}{}
				stamp := make([]int64, f.nIDs)
				var runNo int64
				describe := func(seq []int, opsSel []int, upto int) string {
					var how strings.Builder
					for i := 0; i <= upto; i++ {
						s := first
						if i > 0 {
							s = f.more[seq[i-1]]
							how.WriteString(" ; ")
						}
						how.WriteString(c04AdvOpNames[opsSel[i]] + " " + s.name)
					}
					return how.String()
				}
				// run one sequence: seq = indices into f.more, opsSel = operator of each contribution (first included)
				run := func(seq []int, opsSel []int) {
					lexecs++
					runNo++
					var acc ChUnique
					distinct := 0
					repeated := false
					for i := 0; i <= len(seq); i++ {
						s := first
						if i > 0 {
							s = f.more[seq[i-1]]
						}
						for _, id := range s.ids {
							if stamp[id] == runNo {
								repeated = true
							} else {
								stamp[id] = runNo
								distinct++
							}
						}
						lops++
						if err := c04AdvApply(&acc, s, opsSel[i]); err != nil {
							how := describe(seq, opsSel, i)
							mu.Lock()
							pend = append(pend, pending{i, how, "C04:unique-mergeread-error", "MergeRead failed on a state written by MarshallAppend: " + err.Error() + " [" + how + "]"})
							mu.Unlock()
							return
						}
						if sig, msg := c04AdvJudge(&acc, distinct, i == len(seq)); sig != "" {
							how := describe(seq, opsSel, i)
							mu.Lock()
							pend = append(pend, pending{i, how, sig, msg + " [" + how + "]"})
							mu.Unlock()
							return
						}
					}
					if repeated {
						lnt++
					}
					states[acc.sizeDegree<<24|uint32(acc.itemsCount)] = struct{}{}
				}
				nm := len(f.more)
				for op0 := 0; op0 < 3; op0++ {
					for i1 := 0; i1 < nm; i1++ {
						for op1 := 0; op1 < 3; op1++ {
							run([]int{i1}, []int{op0, op1})
							for i2 := 0; i2 < nm; i2++ {
								for op2 := 0; op2 < 3; op2++ {
									run([]int{i1, i2}, []int{op0, op1, op2})
								}
							}
						}
					}
					// three further contributions over the core sketches, one common operator for them
					for opc := 0; opc < 3; opc++ {
						for i1 := 0; i1 < c04AdvCore; i1++ {
							for i2 := 0; i2 < c04AdvCore; i2++ {
								for i3 := 0; i3 < c04AdvCore; i3++ {
									run([]int{i1, i2, i3}, []int{op0, opc, opc, opc})
								}
							}
						}
					}
				}
				for k := range states {
					rep.State(fmt.Sprintf("adv|%d|%d", f.d, k))
				}
			}
			atomic.AddInt64(&execs, lexecs)
			atomic.AddInt64(&ops, lops)
			atomic.AddInt64(&nontrivial, lnt)
		}()
	}
	wg.Wait()
	sort.SliceStable(pend, func(i, j int) bool {
		if pend[i].n != pend[j].n {
			return pend[i].n < pend[j].n
		}
		if len(pend[i].how) != len(pend[j].how) {
			return len(pend[i].how) < len(pend[j].how)
		}
		return pend[i].how < pend[j].how
	})
	reported := map[string]bool{} // the same failing prefix is reached by many longer sequences
	for _, v := range pend {
		if reported[v.sig+"|"+v.how] {
			continue
		}
		reported[v.sig+"|"+v.how] = true
		rep.Violate(v.sig, v.desc, map[string]any{"sequence": v.how})
	}
	if capped.Load() {
		rep.Cap("unique-adversarial:wall_budget")
	}
	rep.AddCounts(execs, ops, 0, nontrivial)
	rep.Parts["unique-adversarial"] = map[string]any{"executions": execs, "operations": ops, "work_units": len(units), "exhaustive": !capped.Load(), "violations": len(pend)}
	t.Logf("C04 adversarial unique part: degrees=%v executions=%d operations=%d (sequences repeating a value: %d) violations=%d", degrees, execs, ops, nontrivial, len(pend))
}
