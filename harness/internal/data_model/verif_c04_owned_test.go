//go:build verif

package data_model

// C04, family "contributions are owned by the caller".
//
// The statement quantifies over "merging the same multiset of contributions in any order and any
// grouping". The other parts of this check give every evaluation its own fresh copies of the
// contributions, so they cannot see a merge that keeps a reference to (or writes into) one of its
// arguments: the damage only shows when the *same contribution objects* are merged again - another
// order or grouping over the same inputs, the same cached row served a second time, the usual
// `acc := T{}; acc.Merge(a); acc.Merge(b)` deep-copy idiom of internal/api/tscache.go.
//
// Here the contribution objects of one multiset are built ONCE and every order / grouping is
// evaluated over these same objects. A contribution is only ever passed as the *argument* of a
// merge (the receiver is always an accumulator the evaluation owns: a zero value, or an
// intermediate result), so by the statement it must still be the same contribution afterwards.
//
//	part "unique-owned": every multiset of <=M sketches of a family (nil, tiny, overlapping,
//	                     zero hash, buffer with spare capacity, table exactly at its fill limit,
//	                     1001 values, thorough: a thinned one) - objects built once per multiset -
//	                     x two passes x every distinct permutation x every ordered binary tree x
//	                     {Merge, MergeRead} per inner node x {intermediate results merged in place,
//	                     always a fresh zero accumulator};
//	part "value-owned":  every multiset of <=3 contributions of the value alphabet - objects built
//	                     once per execution - x every ORDERED PAIR (e1, e2) of evaluations, an
//	                     evaluation being a permutation x (ordered binary tree with a zero
//	                     MultiValue accumulator per inner node | left fold into one accumulator
//	                     whose first k contributions arrive as objects through MultiValue.Merge
//	                     and the rest through the agent-side Add*/ApplyUnique entry points) x every
//	                     outcome of every rng draw of the first evaluation (thorough, 11-element
//	                     alphabet: of both).
//
// Oracle: (1) every evaluation - the first one and every later one over the same objects - gives
// the reference aggregate computed from the contribution specifications (statement: same count,
// min, max, unique estimate, sums, admissible hosts for every order and grouping); (2) after
// every evaluation every contribution still equals the snapshot taken when it was built
// (property-level content only: aggregate fields, hosts, sketch header, estimate and the multiset
// of stored hashes - not the table layout).

import (
	"bytes"
	"fmt"
	"runtime"
	"sort"
	"strings"
	"sync"
	"sync/atomic"
	"testing"

	"pgregory.net/rand"

	"github.com/VKCOM/statshouse/internal/verif/mc"
)

// ---------------------------------------------------------------------------------------------
// snapshots (property-level content of a contribution)

type c04OwnSketchSnap struct {
	items    int32
	skip     uint32
	zero     bool
	size     uint64
	stored   int    // non-zero hashes in the table
	sum, xor uint64 // commutative hash of the multiset of stored hashes (independent of the layout)
}

func c04OwnSnapSketch(s *ChUnique) c04OwnSketchSnap {
	sn := c04OwnSketchSnap{items: s.itemsCount, skip: s.skipDegree, zero: s.hasZeroItem, size: s.Size(false)}
	if s.buf == nil {
		return sn
	}
	for _, x := range s.buf {
		if x == 0 {
			continue
		}
		m := (uint64(x) + 0x632BE59BD9B4E019) * 0x9E3779B97F4A7C15
		m ^= m >> 29
		m *= 0xBF58476D1CE4E5B9
		m ^= m >> 32
		sn.stored++
		sn.sum += m
		sn.xor ^= m
	}
	return sn
}

func (a c04OwnSketchSnap) diff(b c04OwnSketchSnap) string {
	if a == b {
		return ""
	}
	var d []string
	if a.items != b.items {
		d = append(d, fmt.Sprintf("item count %d -> %d", a.items, b.items))
	}
	if a.stored != b.stored {
		d = append(d, fmt.Sprintf("hashes stored in its table %d -> %d", a.stored, b.stored))
	} else if a.sum != b.sum || a.xor != b.xor {
		d = append(d, "the set of hashes stored in its table changed")
	}
	if a.size != b.size {
		d = append(d, fmt.Sprintf("estimate %d -> %d", a.size, b.size))
	}
	if a.skip != b.skip {
		d = append(d, fmt.Sprintf("skip degree %d -> %d", a.skip, b.skip))
	}
	if a.zero != b.zero {
		d = append(d, fmt.Sprintf("zero item %v -> %v", a.zero, b.zero))
	}
	return strings.Join(d, ", ")
}

type c04OwnValueSnap struct {
	value  ItemValue // comparable: floats, hosts, ValueSet
	sketch c04OwnSketchSnap
}

func c04OwnSnapValue(mv *MultiValue) c04OwnValueSnap {
	return c04OwnValueSnap{value: mv.Value, sketch: c04OwnSnapSketch(&mv.HLL)}
}

func (a c04OwnValueSnap) diff(b c04OwnValueSnap) string {
	var d []string
	if a.value != b.value {
		d = append(d, fmt.Sprintf("aggregate %+v -> %+v", a.value, b.value))
	}
	if s := a.sketch.diff(b.sketch); s != "" {
		d = append(d, "unique sketch: "+s)
	}
	return strings.Join(d, "; ")
}

// ---------------------------------------------------------------------------------------------
// part "unique-owned"

type c04OwnMember struct {
	name   string
	build  func() ChUnique
	hashes []uint32 // distinct 32-bit hashes it stands for (exact members only)
}

func c04OwnHashes(vals []uint64, zero bool) []uint32 {
	var h ChUnique
	var out []uint32
	for _, v := range vals {
		out = append(out, h.uintHash32(v))
	}
	if zero {
		out = append(out, 0)
	}
	return out
}

func c04OwnVals(lo, hi uint64) []uint64 {
	var out []uint64
	for v := lo; v < hi; v++ {
		out = append(out, v)
	}
	return out
}

func c04OwnMemberOf(name string, vals []uint64) c04OwnMember {
	return c04OwnMember{name: name, hashes: c04OwnHashes(vals, false), build: func() ChUnique {
		var s ChUnique
		for _, v := range vals {
			s.Insert(v)
		}
		return s
	}}
}

func c04OwnFamily() []c04OwnMember {
	fam := []c04OwnMember{
		{name: "nil", build: func() ChUnique { return ChUnique{} }},
		c04OwnMemberOf("{42}", []uint64{42}),
		c04OwnMemberOf("{1,2,3}", []uint64{1, 2, 3}),
		c04OwnMemberOf("{3,4,5,6}", []uint64{3, 4, 5, 6}), // overlaps the previous one
		{name: "zero-hash+{1}", hashes: c04OwnHashes([]uint64{1}, true), build: func() ChUnique {
			var s ChUnique
			s.Insert(1)
			s.insertHash(0)
			return s
		}},
		// a recycled object: held 100 values, was Reset (the buffer of 256 slots is kept and resliced
		// to 16), then got two values: a table with spare capacity behind its length
		{name: "recycled-cap256{7,8}", hashes: c04OwnHashes([]uint64{7, 8}, false), build: func() ChUnique {
			var s ChUnique
			for v := uint64(5000); v < 5100; v++ {
				s.Insert(v)
			}
			s.Reset()
			s.Insert(7)
			s.Insert(8)
			return s
		}},
		// exactly at the fill limit of the initial table (8 of 16 slots): the next new hash doubles it
		c04OwnMemberOf("fill-limit{100..107}", c04OwnVals(100, 108)),
		c04OwnMemberOf("1001@1e6", c04OwnVals(1_000_000, 1_001_001)),
	}
	if mc.Thorough() {
		// thinned (skip degree 1); no exact reference, estimates must coincide over all evaluations
		m := c04OwnMemberOf("70000@0", c04OwnVals(0, 70_000))
		m.hashes = nil
		fam = append(fam, m)
	}
	return fam
}

func c04OwnedUniquePart(t *testing.T, rep *mc.Report) {
	fam := c04OwnFamily()
	maxM := mc.Pick(3, 4)
	const passes = 2
	var famNames []string
	famThinned := make([]bool, len(fam))
	for i, m := range fam {
		s := m.build()
		famNames = append(famNames, fmt.Sprintf("%s(items=%d,skip=%d,len=%d,cap=%d)", m.name, s.itemsCount, s.skipDegree, len(s.buf), cap(s.buf)))
		famThinned[i] = s.skipDegree > 0
		if !famThinned[i] && int(s.itemsCount) != len(m.hashes) {
			t.Fatalf("C04 owned family member %s: %d items, %d hashes expected (hash collision in the family)", m.name, s.itemsCount, len(m.hashes))
		}
	}
	rep.Bounds["unique_owned_family"] = strings.Join(famNames, " ")
	rep.Bounds["unique_owned_max_sketches"] = maxM
	rep.Bounds["unique_owned_passes_over_the_same_objects"] = passes
	multisets := c04Multisets(len(fam), maxM)
	{
		// the thinned member (a 131072-slot table: every merge and every snapshot costs a millisecond) only
		// in multisets of at most 3
		kept := multisets[:0]
		for _, ms := range multisets {
			big := false
			for _, k := range ms {
				big = big || famThinned[k]
			}
			if !big || len(ms) <= 3 {
				kept = append(kept, ms)
			}
		}
		multisets = kept
	}
	trees := make([][]*c04Tree, maxM+1)
	innerLeft := make([][]bool, maxM+1) // tree has an inner node whose left child is an inner node
	for n := 1; n <= maxM; n++ {
		trees[n] = c04Trees(0, n)
		for _, tr := range trees[n] {
			var has func(t *c04Tree) bool
			has = func(t *c04Tree) bool {
				if t.left == nil {
					return false
				}
				return t.left.left != nil || has(t.left) || has(t.right)
			}
			innerLeft[n] = append(innerLeft[n], has(tr))
		}
	}

	type pending struct {
		n             int
		ms, sig, desc string
		detail        any
	}
	var pend []pending
	var mu sync.Mutex
	var execs, merges, nontrivial int64
	shardK, shardN := mc.ShardFromEnv()
	work := make(chan int, len(multisets))
	for i := range multisets {
		if i%shardN == shardK {
			work <- i
		}
	}
	close(work)
	var capped atomic.Bool
	var wg sync.WaitGroup
	for w := 0; w < runtime.GOMAXPROCS(0); w++ {
		wg.Add(1)
		go func() {
			defer wg.Done()
			for mi := range work {
				if mc.Expired() {
					capped.Store(true)
					continue
				}
				ms := multisets[mi]
				n := len(ms)
				names := make([]string, n)
				union := map[uint32]struct{}{}
				thinned := false
				nonNil := 0
				for i, k := range ms {
					names[i] = fam[k].name
					thinned = thinned || famThinned[k]
					for _, h := range fam[k].hashes {
						union[h] = struct{}{}
					}
					if fam[k].name != "nil" {
						nonNil++
					}
				}
				msName := "{" + strings.Join(names, ", ") + "}"
				// the contribution objects of this multiset: built once, used by every evaluation below
				objs := make([]ChUnique, n)
				snaps := make([]c04OwnSketchSnap, n)
				for i, k := range ms {
					objs[i] = fam[k].build()
					snaps[i] = c04OwnSnapSketch(&objs[i])
				}
				var lexecs, lmerges int64
				var firstSize uint64
				var firstHow string
				var lpend []pending
				seen := map[string]bool{}
				add := func(sig, desc string, detail any) {
					if !seen[sig] { // first (smallest) example per signature and multiset
						seen[sig] = true
						lpend = append(lpend, pending{n, msName, sig, desc, detail})
					}
				}
				// Once a contribution was changed, the objects are in a state no merge was written for (with
				// a table shared between two headers the item counts go stale, the table can fill up and
				// the insertion probe never ends). The remaining evaluations of the multiset are carried
				// out only when that cannot happen: nothing thinned and the union has at most 7 hashes, so
				// that no table (>= 16 slots) can ever hold more than 7. Otherwise the multiset ends here.
				safeAfterMutation := !thinned && len(union) <= 7
			evaluations:
				for pass := 0; pass < passes; pass++ {
					for _, perm := range c04Perms(ms) {
						// leaf position -> object: duplicates of one family member are handed out in order
						leafObj := make([]int, n)
						used := make([]bool, n)
						for p, k := range perm {
							for j := range ms {
								if ms[j] == k && !used[j] {
									used[j], leafObj[p] = true, j
									break
								}
							}
						}
						for ti, tr := range trees[n] {
							for ops := 0; ops < 1<<(n-1); ops++ { // bit i: inner node i merges its right operand with MergeRead
								for fresh := 0; fresh < 2; fresh++ { // 1: also intermediate results are merged into a zero accumulator
									if fresh == 1 && !innerLeft[n][ti] {
										continue // no inner node with an intermediate left operand: same evaluation
									}
									node := 0
									errStr := ""
									var eval func(t *c04Tree) (ChUnique, bool)
									eval = func(t *c04Tree) (ChUnique, bool) {
										if t.left == nil {
											return objs[leafObj[t.leaf]], true // the contribution object itself
										}
										l, lIsInput := eval(t.left)
										r, _ := eval(t.right)
										var acc ChUnique
										if lIsInput || fresh == 1 {
											acc.Merge(l) // a contribution is never the receiver: merge it into a zero accumulator
											lmerges++
										} else {
											acc = l // intermediate result, owned by this evaluation: merged in place
										}
										useRead := ops>>node&1 == 1
										node++
										lmerges++
										if useRead {
											if err := acc.MergeRead(bytes.NewBuffer(r.MarshallAppend(nil))); err != nil && errStr == "" {
												errStr = err.Error()
											}
										} else {
											acc.Merge(r)
										}
										return acc, false
									}
									got, isInput := eval(tr)
									if isInput { // single contribution: the deep-copy idiom
										var acc ChUnique
										acc.Merge(got)
										lmerges++
										got = acc
									}
									lexecs++
									how := func() string {
										ix := 0
										var desc func(t *c04Tree) string
										desc = func(t *c04Tree) string {
											if t.left == nil {
												return fam[perm[t.leaf]].name
											}
											ls, rs := desc(t.left), desc(t.right)
											op := " Merge "
											if ops>>ix&1 == 1 {
												op = " MergeRead "
											}
											ix++
											if t.left.left == nil || fresh == 1 {
												ls = "{}<-" + ls
											}
											return "(" + ls + op + rs + ")"
										}
										s := desc(tr)
										if n == 1 {
											s = "{}<-" + s
										}
										return fmt.Sprintf("pass %d: %s", pass+1, s)
									}
									size := got.Size(false)
									if errStr != "" {
										add("C04:unique-mergeread-error", fmt.Sprintf("MergeRead failed on a state written by MarshallAppend: %s in %s over the shared contributions %s", errStr, how(), msName), map[string]any{"multiset": msName, "order": how()})
									}
									if firstHow == "" {
										firstSize, firstHow = size, how()
									}
									if !thinned && size != uint64(len(union)) {
										add("C04:unique-reused-contributions-estimate-wrong", fmt.Sprintf("the orders and groupings of %s are evaluated one after another over the same contribution objects; %s reports %d, the contributions hold %d distinct hashes (first evaluation %s = %d)",
											msName, how(), size, len(union), firstHow, firstSize), map[string]any{"multiset": msName, "order": how(), "estimate": size, "true_distinct_hashes": len(union)})
									} else if size != firstSize {
										add("C04:unique-reused-contributions-order-dependent", fmt.Sprintf("the orders and groupings of %s are evaluated one after another over the same contribution objects; %s = %d but %s = %d",
											msName, firstHow, firstSize, how(), size), map[string]any{"multiset": msName, "order_a": firstHow, "estimate_a": firstSize, "order_b": how(), "estimate_b": size})
									}
									mutated := false
									for i := range objs {
										if d := snaps[i].diff(c04OwnSnapSketch(&objs[i])); d != "" {
											mutated = true
											add("C04:merge-mutates-contribution", fmt.Sprintf("after %s the contribution %s (only ever passed as the argument of Merge / serialized for MergeRead) is no longer the contribution that was built: %s; every later order or grouping over the same contributions merges a different multiset",
												how(), fam[ms[i]].name, d), map[string]any{"multiset": msName, "order": how(), "contribution": fam[ms[i]].name, "change": d})
										}
									}
									if mutated && !safeAfterMutation {
										break evaluations
									}
								}
							}
						}
					}
				}
				rep.Outcome(fmt.Sprintf("uo|%s|%d", msName, firstSize))
				mu.Lock()
				pend = append(pend, lpend...)
				execs += lexecs
				merges += lmerges
				if nonNil >= 2 {
					nontrivial += lexecs // a real union is formed over shared objects
				}
				mu.Unlock()
			}
		}()
	}
	wg.Wait()
	sort.SliceStable(pend, func(i, j int) bool {
		if pend[i].n != pend[j].n {
			return pend[i].n < pend[j].n
		}
		if pend[i].ms != pend[j].ms {
			return pend[i].ms < pend[j].ms
		}
		return pend[i].sig < pend[j].sig
	})
	for _, v := range pend {
		rep.Violate(v.sig, v.desc, v.detail)
	}
	if capped.Load() {
		rep.Cap("unique-owned:wall_budget")
	}
	rep.AddCounts(execs, merges, 0, nontrivial)
	rep.Parts["unique-owned"] = map[string]any{"executions": execs, "merges": merges, "multisets": len(multisets), "exhaustive": !capped.Load()}
	rep.Sample(map[string]any{"part": "unique-owned", "family": rep.Bounds["unique_owned_family"]})
	t.Logf("C04 unique-owned part: multisets=%d executions=%d merges=%d", len(multisets), execs, merges)
}

// ---------------------------------------------------------------------------------------------
// part "value-owned"

// c04OwnEval is one way of merging the contributions of a multiset: a permutation and either an
// ordered binary tree (tree != nil) or a left fold whose first `merged` contributions arrive as objects.
type c04OwnEval struct {
	perm   []int
	tree   *c04Tree
	merged int
}

// c04OwnDraws answers the rng draws of one execution from a choice vector and records the widths,
// so that the caller can step through every outcome of every draw like an odometer (the explorer
// of the engine is not used here: with a defect of this family nearly every execution is a
// violation, and confirming each of them by five traced replays takes longer than the exploration).
type c04OwnDraws struct {
	choices, widths []int
	pos             int
	pinned          bool // answer with the first outcome, no choice point
	draws           int
}

func (d *c04OwnDraws) Float64() float64 { return 0.5 }
func (d *c04OwnDraws) Uint64() uint64   { return 0 }
func (d *c04OwnDraws) Uint64n(n uint64) uint64 {
	if n <= 1 {
		return 0
	}
	d.draws++
	if d.pinned {
		return 0
	}
	if d.pos == len(d.choices) {
		d.choices = append(d.choices, 0)
		d.widths = append(d.widths, 0)
	}
	d.widths[d.pos] = int(n)
	k := d.choices[d.pos]
	d.pos++
	return uint64(k)
}

// next advances to the next choice vector; false when every outcome has been taken.
func (d *c04OwnDraws) next() bool {
	d.choices, d.widths = d.choices[:d.pos], d.widths[:d.pos]
	for i := len(d.choices) - 1; i >= 0; i-- {
		if d.choices[i]+1 < d.widths[i] {
			d.choices[i]++
			d.choices = d.choices[:i+1]
			d.widths = d.widths[:i+1]
			return true
		}
	}
	return false
}

func c04OwnedValuePart(t *testing.T, rep *mc.Report) {
	if k, _ := mc.ShardFromEnv(); k != 0 {
		return
	}
	// quick: the 11-element alphabet, draws of the second evaluation take their first outcome;
	// thorough: the 15-element alphabet likewise, and the 11-element alphabet with every outcome of
	// every draw of both evaluations
	c04OwnedValueRun(t, rep, "value-owned", mc.Thorough(), false)
	if mc.Thorough() {
		c04OwnedValueRun(t, rep, "value-owned-both-free", false, true)
	}
}

func c04OwnedValueRun(t *testing.T, rep *mc.Report, part string, fullAlphabet, secondFree bool) {
	alpha := c04Alphabet(fullAlphabet)
	const maxN = 3
	bkey := strings.ReplaceAll(part, "-", "_")
	rep.Bounds[bkey+"_alphabet"] = len(alpha)
	rep.Bounds[bkey+"_max_contributions"] = maxN
	// The draws of the first evaluation are always enumerated. Unless secondFree, the draws of
	// the second evaluation take their first outcome: the first evaluation already ranges over every
	// evaluation with every draw outcome and is followed by the snapshot comparison, so whatever a draw
	// outcome can do to a contribution is seen there; the second evaluation only has to start from the
	// objects the first one left behind (and the draw selects nothing but the max-count host).
	if secondFree {
		rep.Bounds[bkey+"_second_evaluation_draws"] = "every outcome"
	} else {
		rep.Bounds[bkey+"_second_evaluation_draws"] = "first outcome"
	}
	multisets := c04Multisets(len(alpha), maxN)
	trees := make([][]*c04Tree, maxN+1)
	for n := 1; n <= maxN; n++ {
		trees[n] = c04Trees(0, n)
	}

	type pending struct {
		n             int
		ms, sig, desc string
		detail        any
	}
	var pend []pending
	var mu sync.Mutex
	var execs, pairs, merges, nontrivial int64
	states := map[uint64]struct{}{}
	outcomes := map[uint64]struct{}{}
	work := make(chan int, len(multisets))
	for i := range multisets {
		work <- i
	}
	close(work)
	var capped atomic.Bool
	var wg sync.WaitGroup
	for w := 0; w < runtime.GOMAXPROCS(0); w++ {
		wg.Add(1)
		go func() {
			defer wg.Done()
			lstates := map[uint64]struct{}{}
			loutcomes := map[uint64]struct{}{}
			var lexecs, lpairs, lmerges, lnontrivial int64
			var lpend []pending
			for mi := range work {
				if mc.Expired() {
					capped.Store(true)
					continue
				}
				ms := multisets[mi]
				n := len(ms)
				cs := make([]c04Contrib, n)
				names := make([]string, n)
				allApply := true
				for j, k := range ms {
					cs[j] = alpha[k]
					names[j] = alpha[k].name
					allApply = allApply && alpha[k].apply != nil
				}
				msName := "{" + strings.Join(names, ", ") + "}"
				ref := c04Reference(cs)
				var evals []c04OwnEval
				for _, perm := range c04Perms(ms) {
					for _, tr := range trees[n] {
						evals = append(evals, c04OwnEval{perm: perm, tree: tr})
					}
					if n == 1 {
						continue // the fold of one contribution is the tree of one leaf
					}
					for k := 1; k <= n; k++ {
						if k < n && !allApply {
							continue // aggregate contributions have no agent-side entry point
						}
						evals = append(evals, c04OwnEval{perm: perm, merged: k})
					}
				}
				// leaf position -> object index (duplicates of one alphabet element are handed out in order)
				leafObjs := make([][]int, len(evals))
				for ei := range evals {
					lo := make([]int, n)
					used := make([]bool, n)
					for p, k := range evals[ei].perm {
						for j := range ms {
							if ms[j] == k && !used[j] {
								used[j], lo[p] = true, j
								break
							}
						}
					}
					leafObjs[ei] = lo
				}
				describe := func(e *c04OwnEval) string {
					if e.tree == nil {
						ns := make([]string, n)
						for p, k := range e.perm {
							if p < e.merged {
								ns[p] = "Merge(" + alpha[k].name + ")"
							} else {
								ns[p] = "apply(" + alpha[k].name + ")"
							}
						}
						return "fold {}<- " + strings.Join(ns, ", ")
					}
					return "tree " + e.tree.String(func(p int) string { return alpha[e.perm[p]].name }) + " (every inner node: {}<-left<-right)"
				}
				seen := map[string]bool{}
				add := func(sig, desc string, detail any) {
					if !seen[sig] { // first example per signature and multiset
						seen[sig] = true
						lpend = append(lpend, pending{n, msName, sig, desc, detail})
					}
				}
				hook := &c04OwnDraws{}
				rng := rand.New(1)
				rng.Hook = hook
				objs := make([]*MultiValue, n)
				snaps := make([]c04OwnValueSnap, n)
				run := func(ei int) *MultiValue {
					e := &evals[ei]
					leafObj := leafObjs[ei]
					if e.tree == nil {
						acc := &MultiValue{}
						for p, k := range e.perm {
							lmerges++
							if p < e.merged {
								acc.Merge(rng, objs[leafObj[p]])
							} else {
								alpha[k].apply(rng, acc)
							}
						}
						return acc
					}
					var eval func(t *c04Tree) *MultiValue
					eval = func(t *c04Tree) *MultiValue {
						if t.left == nil {
							return objs[leafObj[t.leaf]] // the contribution object itself
						}
						l := eval(t.left)
						r := eval(t.right)
						acc := &MultiValue{} // a contribution is never the receiver
						acc.Merge(rng, l)
						acc.Merge(rng, r)
						lmerges += 2
						return acc
					}
					got := eval(e.tree)
					if e.tree.left == nil {
						acc := &MultiValue{}
						acc.Merge(rng, got)
						lmerges++
						got = acc
					}
					return got
				}
				pristine := func() string {
					for j := range objs {
						if d := snaps[j].diff(c04OwnSnapValue(objs[j])); d != "" {
							return fmt.Sprintf("contribution %s: %s", alpha[ms[j]].name, d)
						}
					}
					return ""
				}
				for e1 := range evals {
					for e2 := range evals {
						lpairs++
						hook.choices, hook.widths = hook.choices[:0], hook.widths[:0]
						for {
							hook.pos, hook.draws, hook.pinned = 0, 0, false
							// the contribution objects: built once, used by both evaluations
							for j, k := range ms {
								objs[j] = alpha[k].build(rng)
								snaps[j] = c04OwnSnapValue(objs[j])
							}
							got1 := run(e1)
							drew := hook.draws > 0
							if v := c04Judge(got1, ref, ""); v.Violation != "" {
								v = c04Judge(got1, ref, "shared contribution objects, first evaluation: "+describe(&evals[e1]))
								add(v.Sig, v.Violation, v.Detail)
							}
							p1 := pristine()
							hook.pinned = !secondFree
							got2 := run(e2)
							lexecs++
							if drew || hook.draws > 0 {
								lnontrivial++
							}
							lstates[c04ResultHash(got2)] = struct{}{}
							loutcomes[c04OutcomeHash(mi, got2)] = struct{}{}
							if v := c04Judge(got2, ref, ""); v.Violation != "" {
								how := "first " + describe(&evals[e1]) + "; then over the same contribution objects " + describe(&evals[e2])
								if p1 != "" {
									how += "; the first evaluation changed " + p1
								}
								add("C04:reused-contributions-"+strings.TrimPrefix(v.Sig, "C04:"),
									"second evaluation over the same contribution objects: "+strings.TrimSuffix(v.Violation, " []")+" ["+how+"]", map[string]any{"multiset": msName, "how": how})
							}
							how := describe(&evals[e1])
							if p1 == "" {
								p1 = pristine()
								how += "; then " + describe(&evals[e2])
							}
							if p1 != "" {
								add("C04:merge-mutates-contribution",
									"a contribution that was only ever passed as the argument of MultiValue.Merge is no longer the contribution that was built: "+p1+" [after "+how+"]; every later order or grouping over the same contributions merges a different multiset",
									map[string]any{"multiset": msName, "how": how, "change": p1})
							}
							if !hook.next() {
								break
							}
						}
					}
				}
			}
			mu.Lock()
			pend = append(pend, lpend...)
			execs += lexecs
			pairs += lpairs
			merges += lmerges
			nontrivial += lnontrivial
			for h := range lstates {
				states[h] = struct{}{}
			}
			for h := range loutcomes {
				outcomes[h] = struct{}{}
			}
			mu.Unlock()
		}()
	}
	wg.Wait()
	sort.SliceStable(pend, func(i, j int) bool {
		if pend[i].n != pend[j].n {
			return pend[i].n < pend[j].n
		}
		if pend[i].ms != pend[j].ms {
			return pend[i].ms < pend[j].ms
		}
		return pend[i].sig < pend[j].sig
	})
	for _, v := range pend {
		rep.Violate(v.sig, v.desc, v.detail)
	}
	if capped.Load() {
		rep.Cap(part + ":wall_budget")
	}
	for h := range states {
		rep.State("vo" + fmt.Sprintf("%x", h))
	}
	for h := range outcomes {
		rep.Outcome("vo" + fmt.Sprintf("%x", h))
	}
	rep.AddCounts(execs, merges, 0, nontrivial)
	rep.Parts[part] = map[string]any{"executions": execs, "pairs_of_evaluations": pairs, "merges": merges, "multisets": len(multisets), "rng_dependent": nontrivial, "exhaustive": !capped.Load()}
	rep.Sample(map[string]any{"part": part, "multisets": len(multisets), "pairs_of_evaluations": pairs})
	t.Logf("C04 %s part: multisets=%d pairs=%d exec=%d (rng-dependent %d) merges=%d", part, len(multisets), pairs, execs, nontrivial, merges)
}
