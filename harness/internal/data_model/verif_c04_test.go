//go:build verif

package data_model

// C04: aggregation results do not depend on merge order or grouping.
//
// Three bounded exhaustive explorations of the real merge code:
//
//	part "value-trees":  every multiset of <=N contributions (counter-only / value / multi-value /
//	                     unique / empty, hosts empty|int|string) x every distinct permutation x every
//	                     ordered binary merge tree x every outcome of every rng draw of
//	                     ItemCounter.Merge (hooked pgregory rand), merged with MultiValue.Merge;
//	part "value-folds":  the same multisets x permutations folded left to right with the agent-side
//	                     entry points (AddCounterHost / AddValueCounterHost / ApplyUnique), every rng
//	                     outcome;
//	part "unique":       every multiset of <=M sketches from a size family whose thinning levels
//	                     differ (empty, 1, 3, zero-hash, 1001, exactly 65536, 70 000, 150 000
//	                     distinct values, overlapping ranges) x every permutation x every merge tree x
//	                     {Merge, MergeRead} at every inner node.
//
// Oracle: an independent reference computed from the contribution specifications (not from the
// code's intermediate results): count, min, max, sum, sum of squares; admissible min/max hosts and
// max-count hosts; for sketches: the estimate must be the same for every order, tree and operator
// of one multiset, and equal to the true number of distinct values while everything stays exact.

import (
	"bytes"
	"fmt"
	"math"
	"runtime"
	"sort"
	"strconv"
	"strings"
	"sync"
	"sync/atomic"
	"testing"
	"time"

	"pgregory.net/rand"

	"github.com/VKCOM/statshouse/internal/verif/mc"
)

// ---------------------------------------------------------------------------------------------
// contribution alphabet (value part)

type c04Contrib struct {
	name   string
	count  float64
	host   TagUnion // max-count host of this contribution
	hasVal bool
	min    float64
	max    float64
	sum    float64
	sumSq  float64
	minH   TagUnion
	maxH   TagUnion
	uniq   []int64 // values inserted into the sketch
	exact  bool    // all numbers dyadic: sums must agree exactly
	build  func(rng *rand.Rand) *MultiValue
	apply  func(rng *rand.Rand, acc *MultiValue) // agent-side direct application (nil = none)
	isZero bool
}

var (
	c04HE = TagUnion{}
	c04H1 = TagUnion{I: 1}
	c04H2 = TagUnion{I: 2}
	c04HS = TagUnion{S: "s3"}
)

func c04Counter(name string, c float64, h TagUnion) c04Contrib {
	return c04Contrib{name: name, count: c, host: h, exact: true,
		build: func(rng *rand.Rand) *MultiValue {
			mv := &MultiValue{}
			mv.AddCounterHost(rng, c, h)
			return mv
		},
		apply: func(rng *rand.Rand, acc *MultiValue) { acc.AddCounterHost(rng, c, h) },
	}
}

func c04Value(name string, v, c float64, h TagUnion, exact bool) c04Contrib {
	return c04Contrib{name: name, count: c, host: h, hasVal: true, min: v, max: v, sum: v * c, sumSq: v * v * c, minH: h, maxH: h, exact: exact,
		build: func(rng *rand.Rand) *MultiValue {
			mv := &MultiValue{}
			mv.AddValueCounterHost(rng, v, c, h)
			return mv
		},
		apply: func(rng *rand.Rand, acc *MultiValue) { acc.AddValueCounterHost(rng, v, c, h) },
	}
}

func c04Unique(name string, hashes []int64, c float64, h TagUnion) c04Contrib {
	mi, ma, su, sq := math.Inf(1), math.Inf(-1), 0.0, 0.0
	for _, x := range hashes {
		f := float64(x)
		mi, ma = math.Min(mi, f), math.Max(ma, f)
		su += f
		sq += f * f
	}
	n := float64(len(hashes))
	su = su * c / n
	sq = sq * c / n
	return c04Contrib{name: name, count: c, host: h, hasVal: true, min: mi, max: ma, sum: su, sumSq: sq, minH: h, maxH: h, uniq: hashes, exact: true,
		build: func(rng *rand.Rand) *MultiValue {
			mv := &MultiValue{}
			mv.ApplyUnique(rng, hashes, c, h)
			return mv
		},
		apply: func(rng *rand.Rand, acc *MultiValue) { acc.ApplyUnique(rng, hashes, c, h) },
	}
}

// a contribution that is itself an aggregate (different min and max host), as an aggregator receives it
func c04Multi(name string) c04Contrib {
	return c04Contrib{name: name, count: 2, host: c04H1, hasVal: true, min: -2, max: 7, sum: 5, sumSq: 53, minH: c04H1, maxH: c04HS, exact: true,
		build: func(rng *rand.Rand) *MultiValue {
			return &MultiValue{Value: ItemValue{ItemCounter: ItemCounter{counter: 2, MaxCounterHostTag: c04H1},
				ValueMin: -2, ValueMax: 7, ValueSum: 5, ValueSumSquare: 53, MinHostTag: c04H1, MaxHostTag: c04HS, ValueSet: true}}
		},
	}
}

func c04Alphabet(full bool) []c04Contrib {
	a := []c04Contrib{
		c04Counter("cnt1@-", 1, c04HE),
		c04Counter("cnt1@h1", 1, c04H1),
		c04Counter("cnt3@h2", 3, c04H2),
		c04Value("val5x1@h1", 5, 1, c04H1, true),
		c04Value("val5x2@h2", 5, 2, c04H2, true), // ties the max with another host
		c04Value("val-2x1@h2", -2, 1, c04H2, true),
		c04Value("val0x1@s3", 0, 1, c04HS, true),
		c04Multi("agg[-2@h1..7@s3]x2@h1"),
		c04Unique("uniq{7}x1@h1", []int64{7}, 1, c04H1),
		c04Unique("uniq{7,9}x2@s3", []int64{7, 9}, 2, c04HS),
		{name: "empty", exact: true, isZero: true, build: func(rng *rand.Rand) *MultiValue { return &MultiValue{} }, apply: func(rng *rand.Rand, acc *MultiValue) {}},
	}
	if full {
		a = append(a,
			c04Counter("cnt0.5@s3", 0.5, c04HS),
			c04Value("val0.1x3@-", 0.1, 3, c04HE, false), // not dyadic: sums agree up to rounding only
			c04Value("val-2x2@h1", -2, 2, c04H1, true),   // ties the min with another host
			c04Unique("uniq{9,11,13}x6@-", []int64{9, 11, 13}, 6, c04HE),
		)
	}
	return a
}

// ---------------------------------------------------------------------------------------------
// enumeration helpers

// c04Multisets returns every non-decreasing index sequence of length 1..maxN over [0,k).
func c04Multisets(k, maxN int) [][]int {
	var out [][]int
	var rec func(cur []int, from int)
	rec = func(cur []int, from int) {
		if len(cur) > 0 {
			out = append(out, append([]int{}, cur...))
		}
		if len(cur) == maxN {
			return
		}
		for i := from; i < k; i++ {
			rec(append(cur, i), i)
		}
	}
	rec(nil, 0)
	return out
}

// c04Perms returns every distinct permutation of a sorted multiset.
func c04Perms(ms []int) [][]int {
	cur := append([]int{}, ms...)
	sort.Ints(cur)
	var out [][]int
	for {
		out = append(out, append([]int{}, cur...))
		// next permutation
		i := len(cur) - 2
		for i >= 0 && cur[i] >= cur[i+1] {
			i--
		}
		if i < 0 {
			return out
		}
		j := len(cur) - 1
		for cur[j] <= cur[i] {
			j--
		}
		cur[i], cur[j] = cur[j], cur[i]
		for l, r := i+1, len(cur)-1; l < r; l, r = l+1, r-1 {
			cur[l], cur[r] = cur[r], cur[l]
		}
	}
}

// c04Tree is an ordered binary tree over leaves lo..hi-1 (leaf when hi-lo==1).
type c04Tree struct {
	leaf        int
	left, right *c04Tree
}

// c04Trees returns every ordered binary tree over the leaf positions [lo,hi).
func c04Trees(lo, hi int) []*c04Tree {
	if hi-lo == 1 {
		return []*c04Tree{{leaf: lo}}
	}
	var out []*c04Tree
	for mid := lo + 1; mid < hi; mid++ {
		for _, l := range c04Trees(lo, mid) {
			for _, r := range c04Trees(mid, hi) {
				out = append(out, &c04Tree{leaf: -1, left: l, right: r})
			}
		}
	}
	return out
}

func (t *c04Tree) String(names func(int) string) string {
	if t.left == nil {
		return names(t.leaf)
	}
	return "(" + t.left.String(names) + " <- " + t.right.String(names) + ")"
}

func c04HostStr(h TagUnion) string {
	if h.Empty() {
		return "-"
	}
	if h.I != 0 && h.S != "" {
		return "i" + strconv.Itoa(int(h.I)) + "+s:" + h.S // not a valid host: both parts set
	}
	if h.I != 0 {
		return "i" + strconv.Itoa(int(h.I))
	}
	return "s:" + h.S
}

func c04InHosts(h TagUnion, set []TagUnion) bool {
	for _, s := range set {
		if s == h {
			return true
		}
	}
	return false
}

func c04Close(a, b float64, exact bool) bool {
	if a == b {
		return true
	}
	if exact {
		return false
	}
	return math.Abs(a-b) <= 1e-9*math.Max(1, math.Abs(b))
}

// c04Ref is the reference aggregate of a multiset, computed from the specifications only.
type c04Ref struct {
	count      float64
	hasVal     bool
	min, max   float64
	sum, sumSq float64
	minHosts   []TagUnion
	maxHosts   []TagUnion
	cntHosts   []TagUnion
	uniq       map[int64]struct{}
	exact      bool
}

func c04Reference(cs []c04Contrib) c04Ref {
	r := c04Ref{min: math.Inf(1), max: math.Inf(-1), uniq: map[int64]struct{}{}, exact: true}
	for _, c := range cs {
		r.exact = r.exact && c.exact
		r.count += c.count
		if c.count > 0 {
			r.cntHosts = append(r.cntHosts, c.host)
		}
		if c.hasVal {
			r.hasVal = true
			r.min = math.Min(r.min, c.min)
			r.max = math.Max(r.max, c.max)
			r.sum += c.sum
			r.sumSq += c.sumSq
		}
		for _, u := range c.uniq {
			r.uniq[u] = struct{}{}
		}
	}
	for _, c := range cs {
		if c.hasVal && c.min == r.min {
			r.minHosts = append(r.minHosts, c.minH)
		}
		if c.hasVal && c.max == r.max {
			r.maxHosts = append(r.maxHosts, c.maxH)
		}
	}
	return r
}

// c04Judge compares a real merge result with the reference.
func c04Judge(got *MultiValue, ref c04Ref, how string) mc.Verdict {
	v := &got.Value
	bad := func(sig, msg string) mc.Verdict {
		return mc.Verdict{Sig: "C04:" + sig, Violation: msg + " [" + how + "]", Detail: map[string]any{"how": how}}
	}
	if !c04Close(v.Count(), ref.count, ref.exact) {
		return bad("count-differs", fmt.Sprintf("count %v, merge of contributions is %v", v.Count(), ref.count))
	}
	if v.ValueSet != ref.hasVal {
		return bad("valueset-wrong", fmt.Sprintf("ValueSet=%v although value contributions present=%v", v.ValueSet, ref.hasVal))
	}
	if ref.hasVal {
		if v.ValueMin != ref.min {
			return bad("min-differs", fmt.Sprintf("min %v, contributions' min is %v", v.ValueMin, ref.min))
		}
		if v.ValueMax != ref.max {
			return bad("max-differs", fmt.Sprintf("max %v, contributions' max is %v", v.ValueMax, ref.max))
		}
		if !c04Close(v.ValueSum, ref.sum, ref.exact) {
			return bad("sum-differs", fmt.Sprintf("sum %v, contributions' sum is %v", v.ValueSum, ref.sum))
		}
		if !c04Close(v.ValueSumSquare, ref.sumSq, ref.exact) {
			return bad("sumsquare-differs", fmt.Sprintf("sum of squares %v, contributions' is %v", v.ValueSumSquare, ref.sumSq))
		}
		if !c04InHosts(v.MinHostTag, ref.minHosts) {
			return bad("min-host-not-contributor", fmt.Sprintf("min host %s did not contribute the min %v", c04HostStr(v.MinHostTag), ref.min))
		}
		if !c04InHosts(v.MaxHostTag, ref.maxHosts) {
			return bad("max-host-not-contributor", fmt.Sprintf("max host %s did not contribute the max %v", c04HostStr(v.MaxHostTag), ref.max))
		}
	}
	if ref.count > 0 && !c04InHosts(v.MaxCounterHostTag, ref.cntHosts) {
		return bad("max-count-host-not-contributor", fmt.Sprintf("max-count host %s is not one of the contributing hosts", c04HostStr(v.MaxCounterHostTag)))
	}
	if n := got.HLL.Size(false); n != uint64(len(ref.uniq)) {
		return bad("unique-small-union-wrong", fmt.Sprintf("unique estimate %d, the contributions hold %d distinct values", n, len(ref.uniq)))
	}
	return mc.Verdict{}
}

// c04ResultHash is a cheap hash of the property-relevant fields of a merge result (distinct end states
// are counted through it; it is not part of the oracle).
func c04ResultHash(got *MultiValue) uint64 {
	v := &got.Value
	h := uint64(14695981039346656037)
	mix := func(x uint64) {
		h ^= x
		h *= 1099511628211
		h ^= h >> 29
	}
	hostCode := func(t TagUnion) uint64 {
		x := uint64(uint32(t.I))
		for i := 0; i < len(t.S); i++ {
			x = x*131 + uint64(t.S[i]) + 7
		}
		return x
	}
	mix(math.Float64bits(v.Count()))
	if v.ValueSet {
		mix(1)
	}
	mix(math.Float64bits(v.ValueMin))
	mix(math.Float64bits(v.ValueMax))
	mix(math.Float64bits(v.ValueSum))
	mix(math.Float64bits(v.ValueSumSquare))
	mix(hostCode(v.MinHostTag))
	mix(hostCode(v.MaxHostTag))
	mix(hostCode(v.MaxCounterHostTag))
	mix(got.HLL.Size(false))
	return h
}

func c04OutcomeHash(mi int, got *MultiValue) uint64 {
	v := &got.Value
	h := uint64(mi)*0x9E3779B97F4A7C15 + 1
	for _, t := range [3]TagUnion{v.MaxCounterHostTag, v.MinHostTag, v.MaxHostTag} {
		x := uint64(uint32(t.I))
		for i := 0; i < len(t.S); i++ {
			x = x*131 + uint64(t.S[i]) + 7
		}
		h = (h ^ x) * 1099511628211
		h ^= h >> 31
	}
	return h
}

// c04Local collects per-worker statistics without contention.
type c04Local struct {
	states     map[uint64]struct{}
	outcomes   map[uint64]struct{}
	nontrivial int64
	merges     int64
	// the explorer runs the first execution of every work unit twice (once while cutting the tree into
	// units, once in the unit itself): those are counted here and halved when folding
	dupNontrivial int64
	dupMerges     int64
}

// c04IsDup reports whether this execution is the all-default first execution of a work unit
// (SplitDepth 2), which mc.Explore runs twice.
func c04IsDup(x *mc.Exec) bool {
	for i := 2; i < len(x.Choices); i++ {
		if x.Choices[i] != 0 {
			return false
		}
	}
	return true
}

func (l *c04Local) add(x *mc.Exec, merges int64, nontrivial bool) {
	if c04IsDup(x) {
		l.dupMerges += merges
		if nontrivial {
			l.dupNontrivial++
		}
		return
	}
	l.merges += merges
	if nontrivial {
		l.nontrivial++
	}
}

func c04NewLocals() []*c04Local {
	out := make([]*c04Local, runtime.GOMAXPROCS(0)+1)
	for i := range out {
		out[i] = &c04Local{states: map[uint64]struct{}{}, outcomes: map[uint64]struct{}{}}
	}
	return out
}

func c04FoldLocals(rep *mc.Report, ls []*c04Local, prefix string) (nontrivial, merges int64) {
	var dn, dm int64
	for _, l := range ls {
		for h := range l.states {
			rep.State(prefix + strconv.FormatUint(h, 16))
		}
		for h := range l.outcomes {
			rep.Outcome(prefix + strconv.FormatUint(h, 16))
		}
		nontrivial += l.nontrivial
		merges += l.merges
		dn += l.dupNontrivial
		dm += l.dupMerges
	}
	nontrivial += dn / 2
	merges += dm / 2
	return
}

// ---------------------------------------------------------------------------------------------
// part "value-trees" and "value-folds"

func c04ValueParts(t *testing.T, rep *mc.Report) {
	full := mc.Thorough()
	alpha := c04Alphabet(full)
	maxN := mc.Pick(4, 5)
	rep.Bounds["value_alphabet"] = len(alpha)
	rep.Bounds["value_max_contributions"] = 4
	names := make([]string, len(alpha))
	for i, c := range alpha {
		names[i] = c.name
	}
	rep.Bounds["value_alphabet_names"] = strings.Join(names, " ")

	multisets := c04Multisets(len(alpha), 4)
	if mc.Thorough() {
		// five contributions (120 permutations x 14 trees x up to 4 draws) over a core of 7 contributions
		core := []int{0, 2, 3, 4, 5, 7, 9} // cnt1@-, cnt3@h2, val5x1@h1, val5x2@h2, val-2x1@h2, agg, uniq{7,9}@s3
		var coreNames []string
		for _, ci := range core {
			coreNames = append(coreNames, alpha[ci].name)
		}
		rep.Bounds["value_core_alphabet_for_5_contributions"] = strings.Join(coreNames, " ")
		for _, ms := range c04Multisets(len(core), 5) {
			if len(ms) != 5 {
				continue
			}
			m := make([]int, 5)
			for i, k := range ms {
				m[i] = core[k]
			}
			multisets = append(multisets, m)
		}
	}
	trees := make([][]*c04Tree, maxN+1)
	for n := 1; n <= maxN; n++ {
		trees[n] = c04Trees(0, n)
	}
	perms := make([][][]int, len(multisets))
	refs := make([]c04Ref, len(multisets))
	for i, ms := range multisets {
		perms[i] = c04Perms(ms)
		cs := make([]c04Contrib, len(ms))
		for j, k := range ms {
			cs[j] = alpha[k]
		}
		refs[i] = c04Reference(cs)
	}
	describe := func(perm []int, tr *c04Tree) string {
		return tr.String(func(p int) string { return alpha[perm[p]].name })
	}
	if k, _ := mc.ShardFromEnv(); k != 0 {
		return // the value parts are not sharded over processes (they are parallel in-process)
	}

	// trees
	locals := c04NewLocals()
	body := func(x *mc.Exec) mc.Verdict {
		mi := x.ChooseFree(len(multisets), "multiset")
		pi := x.ChooseFree(len(perms[mi]), "permutation")
		perm := perms[mi][pi]
		ti := x.ChooseFree(len(trees[len(perm)]), "tree")
		tr := trees[len(perm)][ti]
		hook := &mc.ChoiceRand{X: x, Free: true}
		rng := rand.New(1)
		rng.Hook = hook
		loc := locals[x.Worker]
		var eval func(t *c04Tree) *MultiValue
		eval = func(t *c04Tree) *MultiValue {
			if t.left == nil {
				return alpha[perm[t.leaf]].build(rng)
			}
			l := eval(t.left)
			r := eval(t.right)
			l.Merge(rng, r)
			return l
		}
		got := eval(tr)
		loc.add(x, int64(len(perm)-1), hook.Draws > 0)
		loc.states[c04ResultHash(got)] = struct{}{}
		loc.outcomes[c04OutcomeHash(mi, got)] = struct{}{}
		if v := c04Judge(got, refs[mi], ""); v.Violation != "" {
			return c04Judge(got, refs[mi], "MultiValue.Merge tree "+describe(perm, tr))
		}
		return mc.Verdict{}
	}
	st := mc.Explore(body, mc.Options{Bound: -1})
	rep.MergeExplore("value-trees", st)
	nt, merges := c04FoldLocals(rep, locals, "vt")
	rep.AddCounts(0, merges, 0, nt)

	// folds through the agent-side entry points
	locals2 := c04NewLocals()
	bodyFold := func(x *mc.Exec) mc.Verdict {
		mi := x.ChooseFree(len(multisets), "multiset")
		for _, ci := range multisets[mi] {
			if alpha[ci].apply == nil {
				return mc.Verdict{} // aggregate contributions have no agent-side entry point
			}
		}
		pi := x.ChooseFree(len(perms[mi]), "permutation")
		perm := perms[mi][pi]
		hook := &mc.ChoiceRand{X: x, Free: true}
		rng := rand.New(1)
		rng.Hook = hook
		loc := locals2[x.Worker]
		acc := &MultiValue{}
		for _, ci := range perm {
			alpha[ci].apply(rng, acc)
		}
		loc.add(x, int64(len(perm)), hook.Draws > 0)
		loc.states[c04ResultHash(acc)] = struct{}{}
		loc.outcomes[c04OutcomeHash(mi, acc)] = struct{}{}
		if v := c04Judge(acc, refs[mi], ""); v.Violation != "" {
			ns := make([]string, len(perm))
			for i, ci := range perm {
				ns[i] = alpha[ci].name
			}
			return c04Judge(acc, refs[mi], "Add*/ApplyUnique fold "+strings.Join(ns, ", "))
		}
		return mc.Verdict{}
	}
	st2 := mc.Explore(bodyFold, mc.Options{Bound: -1})
	rep.MergeExplore("value-folds", st2)
	nt2, merges2 := c04FoldLocals(rep, locals2, "vf")
	rep.AddCounts(0, merges2, 0, nt2)

	last := perms[len(multisets)-1][0]
	rep.Sample(map[string]any{"part": "value-trees", "tree": describe(last, trees[len(last)][1]), "multisets": len(multisets)})
	t.Logf("C04 value parts: multisets=%d trees: exec=%d (rng-dependent %d) folds: exec=%d (rng-dependent %d)", len(multisets), st.Executions, nt, st2.Executions, nt2)
}

// ---------------------------------------------------------------------------------------------
// part "unique": sketches whose thinning levels differ

type c04Sketch struct {
	name     string
	sk       ChUnique
	lo, hi   uint64 // values lo..hi-1 (when !special)
	zeroHash bool   // contains a value whose 32-bit hash is 0 (inserted through insertHash)
	nilBuf   bool
}

func c04Clone(s *ChUnique) ChUnique {
	c := *s
	if s.buf != nil {
		c.buf = append([]uint32(nil), s.buf...)
	}
	return c
}

func c04Range(name string, lo, hi uint64) *c04Sketch {
	s := &c04Sketch{name: name, lo: lo, hi: hi}
	for v := lo; v < hi; v++ {
		s.sk.Insert(v)
	}
	return s
}

// c04ExactLimit builds a sketch holding exactly uniquesHashMaxSize distinct hashes (the largest
// exact one): values from 2 000 000 upwards until the table holds 65536 items.
func c04ExactLimit() *c04Sketch {
	s := &c04Sketch{name: "exact-limit(65536)", lo: 2_000_000}
	v := s.lo
	for s.sk.ItemsCount() < uniquesHashMaxSize {
		s.sk.Insert(v)
		v++
	}
	s.hi = v
	return s
}

func c04SketchFamily() []*c04Sketch {
	z := &c04Sketch{name: "zero-hash+{1}", zeroHash: true, lo: 1, hi: 2}
	z.sk.Insert(1)
	z.sk.insertHash(0) // a value whose hash is 0 (Insert is insertHash(uintHash32(v)))
	fam := []*c04Sketch{
		{name: "nil", nilBuf: true},
		c04Range("{42}", 42, 43),
		c04Range("{1,2,3}", 1, 4),
		z,
		c04Range("1001@1e6", 1_000_000, 1_001_001),
		c04Range("70000@0", 0, 70_000),
		c04Range("150000@50000", 50_000, 200_000),
	}
	fam = append(fam, c04ExactLimit())
	return fam
}

type c04UniqueResult struct {
	size       uint64
	items      int32
	skip, size2 uint32
	how        string
	err        string
	overs      bool // some intermediate or final sketch exceeded the size limits (items > 65536 or size degree > 17)
}

func c04UniquePart(t *testing.T, rep *mc.Report) {
	fam := c04SketchFamily()
	maxM := mc.Pick(3, 4)
	rep.Bounds["unique_family"] = func() string {
		ns := make([]string, len(fam))
		for i, s := range fam {
			ns[i] = fmt.Sprintf("%s(items=%d,skip=%d)", s.name, s.sk.itemsCount, s.sk.skipDegree)
		}
		return strings.Join(ns, " ")
	}()
	rep.Bounds["unique_max_sketches"] = maxM
	multisets := c04Multisets(len(fam), maxM)
	trees := make([][]*c04Tree, maxM+1)
	for n := 1; n <= maxM; n++ {
		trees[n] = c04Trees(0, n)
	}
	// hashes of every family member for the exact reference (distinct 32-bit hashes of the union)
	hashesOf := func(s *c04Sketch) []uint32 {
		var out []uint32
		if s.nilBuf {
			return nil
		}
		var h ChUnique
		for v := s.lo; v < s.hi; v++ {
			out = append(out, h.uintHash32(v))
		}
		if s.zeroHash {
			out = append(out, 0)
		}
		return out
	}
	famHashes := make([][]uint32, len(fam))
	for i, s := range fam {
		famHashes[i] = hashesOf(s)
	}

	var execs, merges, nontrivial int64
	var mu sync.Mutex
	// violations are collected and reported smallest multiset first, so that the examples kept by the
	// report (3 per signature) are minimal and the same in every run
	type pending struct {
		n               int
		ms, sig, desc   string
		detail          any
	}
	var pend []pending
	addViol := func(n int, ms, sig, desc string, detail any) {
		mu.Lock()
		pend = append(pend, pending{n, ms, sig, desc, detail})
		mu.Unlock()
	}
	shardK, shardN := mc.ShardFromEnv()
	work := make(chan int, len(multisets))
	for i := range multisets {
		if i%shardN == shardK {
			work <- i
		}
	}
	close(work)
	var wg sync.WaitGroup
	var capped atomic.Bool
	for w := 0; w < runtime.GOMAXPROCS(0); w++ {
		wg.Add(1)
		go func() {
			defer wg.Done()
			for mi := range work {
				if mc.Expired() {
					capped.Store(true)
					continue
				}
				ms := multisets[mi]
				n := len(ms)
				var results []c04UniqueResult
				thinned := false
				for _, k := range ms {
					if fam[k].sk.skipDegree > 0 {
						thinned = true
					}
				}
				var lexecs, lmerges int64
				for _, perm := range c04Perms(ms) {
					for _, tr := range trees[n] {
						for ops := 0; ops < 1<<(n-1); ops++ { // bit i: inner node i uses MergeRead instead of Merge
							node := 0
							var how strings.Builder
							var errStr string
							overs := false
							var eval func(t *c04Tree) ChUnique
							eval = func(t *c04Tree) ChUnique {
								if t.left == nil {
									return c04Clone(&fam[perm[t.leaf]].sk)
								}
								l := eval(t.left)
								r := eval(t.right)
								useRead := ops>>node&1 == 1
								node++
								lmerges++
								if useRead {
									buf := bytes.NewBuffer(r.MarshallAppend(nil))
									if err := l.MergeRead(buf); err != nil && errStr == "" {
										errStr = err.Error()
									}
								} else {
									l.Merge(r)
								}
								if l.sizeDegree > uniquesHashMaxSizeDegree || l.itemsCount > uniquesHashMaxSize {
									overs = true
								}
								return l
							}
							var desc func(t *c04Tree, nodeIx *int) string
							desc = func(t *c04Tree, nodeIx *int) string {
								if t.left == nil {
									return fam[perm[t.leaf]].name
								}
								ls := desc(t.left, nodeIx)
								rs := desc(t.right, nodeIx)
								op := " Merge "
								if ops>>*nodeIx&1 == 1 {
									op = " MergeRead "
								}
								*nodeIx++
								return "(" + ls + op + rs + ")"
							}
							got := eval(tr)
							lexecs++
							ix := 0
							how.WriteString(desc(tr, &ix))
							if got.skipDegree > 0 {
								thinned = true
							}
							results = append(results, c04UniqueResult{size: got.Size(false), items: got.itemsCount, skip: got.skipDegree, size2: got.sizeDegree, how: how.String(), err: errStr, overs: overs})
						}
					}
				}
				// reference: distinct hashes of the union
				union := map[uint32]struct{}{}
				for _, k := range ms {
					for _, h := range famHashes[k] {
						union[h] = struct{}{}
					}
				}
				msNames := make([]string, n)
				for i, k := range ms {
					msNames[i] = fam[k].name
				}
				msName := "{" + strings.Join(msNames, ", ") + "}"
				// judge
				first := results[0]
				oversized, differs, errRes := -1, -1, -1
				for i, r := range results {
					if r.err != "" && errRes < 0 {
						errRes = i
					}
					if r.overs && oversized < 0 {
						oversized = i
					}
					if r.size != first.size && differs < 0 {
						differs = i
					}
				}
				detail := func(i int) map[string]any {
					return map[string]any{"multiset": msName, "true_distinct_hashes": len(union),
						"order_a": results[0].how, "estimate_a": results[0].size, "items_a": results[0].items, "skip_degree_a": results[0].skip,
						"order_b": results[i].how, "estimate_b": results[i].size, "items_b": results[i].items, "skip_degree_b": results[i].skip, "size_degree_b": results[i].size2}
				}
				switch {
				case errRes >= 0 && oversized >= 0:
					addViol(n, msName, "C04:unique-table-beyond-max-size", fmt.Sprintf("merging %s in the order %s grows a table beyond the sketch's limits (%d items / size degree %d) and the state it then serializes is rejected by MergeRead (%s), so the contribution is lost in this order only",
						msName, results[errRes].how, uniquesHashMaxSize, uniquesHashMaxSizeDegree, results[errRes].err), detail(errRes))
				case errRes >= 0:
					addViol(n, msName, "C04:unique-mergeread-error", fmt.Sprintf("MergeRead failed on a state written by MarshallAppend: %s in %s", results[errRes].err, results[errRes].how), detail(errRes))
				case differs >= 0 && oversized >= 0:
					// attribution: some order left a table beyond the sketch's size limits (it is then not
					// thinned at 65536 items like the same union built in another order)
					r := results[oversized]
					other := first
					for _, o := range results {
						if o.size != r.size {
							other = o
							break
						}
					}
					addViol(n, msName, "C04:unique-table-beyond-max-size", fmt.Sprintf("unique estimate of %s depends on merge order/grouping: %s = %d (ends with %d items in a table of size degree %d; limits are %d items / degree %d, so it was not thinned) but %s = %d (true distinct hashes %d)",
						msName, r.how, r.size, r.items, r.size2, uniquesHashMaxSize, uniquesHashMaxSizeDegree, other.how, other.size, len(union)), detail(oversized))
				case differs >= 0 && thinned:
					r := results[differs]
					addViol(n, msName, "C04:unique-merge-order-dependent", fmt.Sprintf("unique estimate of %s depends on merge order/grouping once a thinned sketch is involved: %s = %d but %s = %d (true distinct hashes %d)",
						msName, first.how, first.size, r.how, r.size, len(union)), detail(differs))
				case differs >= 0:
					r := results[differs]
					addViol(n, msName, "C04:unique-exact-merge-order-dependent", fmt.Sprintf("unique count of %s (exact mode) depends on merge order/grouping: %s = %d but %s = %d",
						msName, first.how, first.size, r.how, r.size), detail(differs))
				}
				if !thinned && differs < 0 && errRes < 0 && len(union) <= uniquesHashMaxSize {
					for i, r := range results {
						if r.size != uint64(len(union)) {
							addViol(n, msName, "C04:unique-small-union-wrong", fmt.Sprintf("exact-mode merge %s reports %d, the union holds %d distinct hashes", r.how, r.size, len(union)), detail(i))
							break
						}
					}
				}
				distinctSizes := map[uint64]struct{}{}
				for _, r := range results {
					distinctSizes[r.size] = struct{}{}
					rep.State(fmt.Sprintf("u|%d|%d|%d", r.items, r.skip, r.size2))
				}
				rep.Outcome(fmt.Sprintf("u|%s|%d", msName, first.size))
				mu.Lock()
				execs += lexecs
				merges += lmerges
				if n >= 2 {
					// non-trivial: at least two sketches that are not nil, i.e. a real union is formed
					nn := 0
					for _, k := range ms {
						if !fam[k].nilBuf {
							nn++
						}
					}
					if nn >= 2 {
						nontrivial += lexecs
					}
				}
				mu.Unlock()
			}
		}()
	}
	wg.Wait()
	sort.SliceStable(pend, func(i, j int) bool {
		if pend[i].n != pend[j].n {
			return pend[i].n < pend[j].n
		}
		if pend[i].ms != pend[j].ms {
			return pend[i].ms < pend[j].ms
		}
		return pend[i].sig < pend[j].sig
	})
	for _, v := range pend {
		rep.Violate(v.sig, v.desc, v.detail)
	}
	if capped.Load() {
		rep.Cap("unique:wall_budget")
	}
	rep.AddCounts(execs, merges, 0, nontrivial)
	rep.Parts["unique"] = map[string]any{"executions": execs, "merges": merges, "multisets": len(multisets), "exhaustive": !capped.Load()}
	rep.Sample(map[string]any{"part": "unique", "family": rep.Bounds["unique_family"]})
	t.Logf("C04 unique part: multisets=%d executions=%d merges=%d", len(multisets), execs, merges)
}

func TestVerifC04(t *testing.T) {
	rep := mc.NewReport("C04")
	rep.Rule = "value parts: every multiset of <=N contributions from the alphabet x every distinct permutation x every ordered binary merge tree (MultiValue.Merge: receiver = left subtree) x every outcome of every rng draw; and every permutation folded through AddCounterHost/AddValueCounterHost/ApplyUnique. unique part: every multiset of <=M sketches of the size family x every permutation x every tree x {Merge,MergeRead} per inner node. unique-adversarial part: for every table size degree of the tier, sketches whose hashes collide in the last slot / slot 0 of the table (wrap-around probing chains of length 1-3, every insertion order), grown across one or two resizes (incl. MergeRead's multi-degree resize) and fed the wrapped values again, every sequence of 2-4 contributions x {Insert, Merge, MergeRead}. owned-contributions parts (verif_c04_owned_test.go): the contribution objects of a multiset are built once and every order / grouping is evaluated over these same objects, a contribution only ever being the argument of a merge (receiver = zero accumulator or intermediate result): unique-owned = every multiset of <=M sketches x 2 passes x permutation x tree x {Merge,MergeRead} per node x {in place, fresh accumulator}; value-owned = every multiset of <=3 contributions x every ordered pair of evaluations (permutation x tree with a zero MultiValue per inner node | fold whose first k contributions are merged as objects and the rest applied through Add*/ApplyUnique) x every rng outcome of the first evaluation (thorough tier, 11-element alphabet: of both); every evaluation must give the reference and every contribution must still equal its snapshot. Non-trivial = execution in which the host choice consulted the rng at least once (two non-empty operands with different max-count hosts met), resp. a union of at least two non-nil sketches, resp. a sequence in which a value arrives a second time"
	rep.Assume("ChUnique.uintHash32 is taken as the definition of the 32-bit hash (the reference counts distinct hashes of the union)")
	rep.Assume("sums are compared exactly because every number in the exact contributions is dyadic; the contribution with value 0.1 is compared with relative tolerance 1e-9")
	t0 := time.Now() // wall-clock is logged only, never part of an oracle
	c04ValueParts(t, rep)
	t.Logf("C04 value parts took %.1fs", time.Since(t0).Seconds())
	t0 = time.Now()
	c04UniquePart(t, rep)
	t.Logf("C04 unique part took %.1fs", time.Since(t0).Seconds())
	t0 = time.Now()
	c04AdversarialPart(t, rep)
	t.Logf("C04 adversarial unique part took %.1fs", time.Since(t0).Seconds())
	t0 = time.Now()
	c04OwnedUniquePart(t, rep)
	t.Logf("C04 unique-owned part took %.1fs", time.Since(t0).Seconds())
	c04OwnedValuePart(t, rep)
	t.Logf("C04 owned-contributions parts took %.1fs", time.Since(t0).Seconds())
	if err := rep.Write(); err != nil {
		t.Fatal(err)
	}
	t.Logf("C04: violations=%d", rep.NumViolations())
}
