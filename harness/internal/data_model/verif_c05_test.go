//go:build verif

package data_model

// C05: sampling keeps the expected value of every row unchanged.
//
// Exact branch enumeration of the probabilistic sampler. The real NewSampler/Add/Run run with the default
// SampleRows and the default selectRandom; every rand draw of selectRandom is answered by the explorer
// (mc.ChoiceRand: Float64 -> all points of the grid (k+1/2)/N). RoundF wraps the real roundSampleFactor and
// feeds it a draw that the explorer chooses among the (at most two) outcomes the argument allows.
//
// For every bucket x option combination x budget the whole choice tree is enumerated. Executions are grouped
// by their sequence of rounding outcomes (sample factors depend on roundings, not on selection draws); inside
// a group every leaf of the tree is equally likely, so for every row
//        P(keep | roundings) = (#executions that kept it) / (#executions of the group)      exactly,
// and the oracle demands  SF x P(keep | roundings) = 1  (SF = 1 for rows kept in every execution).
// Conditional unbiasedness under every rounding outcome implies E[count], E[sum], E[sumsquare] are preserved
// whatever the rounding probabilities are.
//
// Grid alignment is not assumed but established per case: a first pass over the rounding outcomes collects
// every sample factor the case can produce, N is the smallest grid with N/SF integral for all of them, and
// the second pass asserts N/SF integral again for every factor it sees (then the selection threshold 1/SF
// lies on a grid boundary m/N and the m points below it are exactly the keep branch).

import (
	"fmt"
	"math"
	"runtime"
	"sort"
	"strings"
	"sync"
	"sync/atomic"
	"testing"

	"pgregory.net/rand"

	"github.com/VKCOM/statshouse/internal/format"
	"github.com/VKCOM/statshouse/internal/verif/mc"
)

// ---------- world ----------

type c05RowType struct {
	name   string
	metric int32
	key    int32
	size   int
	whale  float64
	uniq   bool // carries a unique-set: not a "single value counter" for SampleKeepSingle
}

// c05Meta is a private meta storage mock (C05 must build without the C06 harness files).
type c05Meta struct {
	metrics map[int32]*format.MetricMetaValue
	groups  map[int32]*format.MetricsGroup
	nss     map[int32]*format.NamespaceMeta
}

func (m *c05Meta) GetMetaMetric(id int32) *format.MetricMetaValue       { return m.metrics[id] }
func (m *c05Meta) GetMetaMetricByName(string) *format.MetricMetaValue   { return nil }
func (m *c05Meta) GetGroup(id int32) *format.MetricsGroup               { return m.groups[id] }
func (m *c05Meta) GetNamespace(id int32) *format.NamespaceMeta          { return m.nss[id] }
func (m *c05Meta) GetNamespaceByName(name string) *format.NamespaceMeta { return nil }
func (m *c05Meta) GetGroupByName(name string) *format.MetricsGroup      { return nil }

func c05BuildMeta(variant int) *c05Meta {
	w := func(a, b int64) int64 {
		if variant == 0 {
			return a
		}
		return b
	}
	return &c05Meta{
		metrics: map[int32]*format.MetricMetaValue{
			1: {MetricID: 1, NamespaceID: 1, GroupID: 11, EffectiveWeight: w(1, 2)},
			2: {MetricID: 2, NamespaceID: 1, GroupID: 11, EffectiveWeight: w(2, 1), NoSampleAgent: true},
			3: {MetricID: 3, NamespaceID: 1, GroupID: 12, EffectiveWeight: 1, FairKeyIndex: []int{0}},
			4: {MetricID: 4, NamespaceID: 2, GroupID: 21, EffectiveWeight: 1},
		},
		groups: map[int32]*format.MetricsGroup{
			11: {ID: 11, NamespaceID: 1, EffectiveWeight: w(1, 3)},
			12: {ID: 12, NamespaceID: 1, EffectiveWeight: 1},
			21: {ID: 21, NamespaceID: 2, EffectiveWeight: 1},
		},
		nss: map[int32]*format.NamespaceMeta{
			1: {ID: 1, EffectiveWeight: w(1, 1)},
			2: {ID: 2, EffectiveWeight: w(2, 1)},
		},
	}
}

var c05Alphabet = []c05RowType{
	{"m1s1", 1, 1, 1, 1, false},
	{"m1s1W", 1, 1, 1, 9, false},
	{"m1s2u", 1, 1, 2, 1, true},
	{"m2s2", 2, 1, 2, 1, false}, // NoSampleAgent metric
	{"m3k1s1", 3, 1, 1, 1, false},
	{"m3k2s2", 3, 2, 2, 1, false},
	{"m4s2", 4, 1, 2, 1, false},
	{"m4s1u", 4, 1, 1, 1, true},
	{"m4s0", 4, 1, 0, 1, false}, // size 0: discarded by Add (exactly-once clause only)
}

type c05Case struct {
	rows    []int // indices into c05Alphabet
	flags   int   // bit0 ModeAgent, 1 SampleKeepSingle, 2 DisableNoSampleAgent, 3 SampleBudgets, 4 SampleNamespaces, 5 SampleGroups, 6 SampleKeys
	budget  int64
	fixedM  int32 // metric with a fixed per-metric budget (0 = none)
	fixedB  uint32
	variant int
	// large-group family: largeN identical rows of metric 1 with size largeSize (rows is empty then)
	largeN, largeSize int
	maxGrid           int  // 0 = c05MaxGrid
	bounded           bool // selection draws cost a deviation (deviation-bounded exploration of the large-group family)
	// accounted-row family: acctRow-1 is the index of a row that is *accounted* to its metric while its own key names
	// another metric (agent and aggregator do that with ingestion-status rows about a user metric: MetricID = the user
	// metric, Item.Key.Metric / Item.MetricMeta = the built-in one); every row then carries the meta of its own
	// Key.Metric, as the real callers' rows do. 0 = no such row, rows carry no meta (the sampler looks everything up).
	acctRow int
	// whale-slot family: the rows are given explicitly (rows is empty then); acctZero: every row without whale weight is
	// an accounted status row (that is where weightless rows come from in production: the agent hands ingestion-status
	// rows about metric M to the sampler accounted to M and with whale weight 0) and every row carries its own meta
	custom   []c05RowType
	acctZero bool
}

func (c *c05Case) nRows() int {
	if c.custom != nil {
		return len(c.custom)
	}
	return len(c.rows)
}

// c05StatusMeta is the meta an accounted row carries: a built-in-like status metric (not NoSampleAgent, no fair key,
// default namespace, built-in group). It is never the accounted metric of any row.
var c05StatusMeta = &format.MetricMetaValue{MetricID: format.BuiltinMetricIDIngestionStatus, NamespaceID: format.BuiltinNamespaceIDDefault, GroupID: format.BuiltinGroupIDBuiltin, EffectiveWeight: 1}

// rowTypes resolves the rows of the case.
func (c *c05Case) rowTypes() []c05RowType {
	if c.custom != nil {
		return c.custom
	}
	if c.largeN > 0 {
		out := make([]c05RowType, c.largeN)
		for i := range out {
			out[i] = c05RowType{name: "big", metric: 1, key: 1, size: c.largeSize, whale: 1}
		}
		return out
	}
	out := make([]c05RowType, len(c.rows))
	for i, r := range c.rows {
		out[i] = c05Alphabet[r]
	}
	return out
}

func (c *c05Case) String() string {
	var names []string
	for _, r := range c.rows {
		names = append(names, c05Alphabet[r].name)
	}
	for _, rt := range c.custom {
		names = append(names, rt.name)
	}
	if c.largeN > 0 {
		names = append(names, fmt.Sprintf("%d identical rows of metric 1, size %d each", c.largeN, c.largeSize))
	}
	fl := []string{"ModeAgent", "SampleKeepSingle", "DisableNoSampleAgent", "SampleBudgets", "SampleNamespaces", "SampleGroups", "SampleKeys"}
	var on []string
	for i, f := range fl {
		if c.flags&(1<<i) != 0 {
			on = append(on, f)
		}
	}
	s := fmt.Sprintf("rows=[%s] budget=%d options={%s} weights=v%d", strings.Join(names, " "), c.budget, strings.Join(on, ","), c.variant)
	if c.fixedM != 0 {
		s += fmt.Sprintf(" fixedBudget(metric %d)=%d", c.fixedM, c.fixedB)
	}
	if c.acctRow > 0 {
		s += fmt.Sprintf(" accounted(row %d has Key.Metric/MetricMeta of a built-in status metric and is accounted to its metric; every row carries the meta of its own Key.Metric)", c.acctRow-1)
	}
	if c.acctZero {
		s += " accounted(every row with whale weight <= 0 has Key.Metric/MetricMeta of a built-in status metric and is accounted to its metric; every row carries the meta of its own Key.Metric)"
	}
	return s
}

// ---------- one execution ----------

type c05RowObs struct {
	keeps, discards int
	sf              float64
}

type c05ExecObs struct {
	path string // rounding outcomes, 'U'/'D'/'=' (= : integral argument, no draw needed)
	rows []c05RowObs
	// draws the sampler's generator answered: Float64 draws and integer draws
	drawsF, drawsN int
}

// c05RoundHook answers the single Float64 draw of roundSampleFactor with a value below or above delta.
type c05RoundHook struct{ v float64 }

func (h c05RoundHook) Float64() float64        { return h.v }
func (h c05RoundHook) Uint64n(n uint64) uint64 { return 0 }
func (h c05RoundHook) Uint64() uint64          { return 0 }

// c05BuildItems builds the rows of a case. They are the sampler's input: it reads them and writes only their SF
// (reset by c05Run), so one set serves all executions of one exploration (every execution still builds a fresh
// sampler); a MultiItem is large and allocating it per execution was a fifth of the run time.
func c05BuildItems(c *c05Case, meta *c05Meta) []*MultiItem {
	rts := c.rowTypes()
	items := make([]*MultiItem, len(rts))
	for i, rt := range rts {
		it := &MultiItem{Key: Key{Metric: rt.metric}, SF: 1}
		if c.acctRow > 0 || c.acctZero {
			it.MetricMeta = meta.metrics[rt.metric]
			if c.acctRow-1 == i || (c.acctZero && rt.whale <= 0) {
				it.Key.Metric = c05StatusMeta.MetricID
				it.MetricMeta = c05StatusMeta
			}
		}
		it.Key.Tags[0] = rt.key
		it.Key.Tags[1] = int32(i + 1)
		it.Key.Tags[2] = int32(i)
		it.Tail.Value.AddValueCounter(float64(i+1), 3)
		if rt.uniq {
			it.Tail.HLL.Insert(uint64(i + 1))
			it.Tail.HLL.Insert(uint64(i + 100))
		}
		items[i] = it
	}
	return items
}

func c05Run(x *mc.Exec, c *c05Case, meta *c05Meta, grid int, forced string, items []*MultiItem) (obs c05ExecObs) {
	rts := c.rowTypes()
	obs.rows = make([]c05RowObs, len(rts))
	var path []byte
	r := rand.New(1)
	r.Hook = &mc.ChoiceRand{X: x, Grid: grid, Free: !c.bounded, Log: func(kind string, _ int, _ int) {
		if kind == "f" {
			obs.drawsF++
		} else {
			obs.drawsN++
		}
	}}
	rr := rand.New(1)
	cfg := SamplerConfig{
		ModeAgent:            c.flags&1 != 0,
		SampleKeepSingle:     c.flags&2 != 0,
		DisableNoSampleAgent: c.flags&4 != 0,
		SampleBudgets:        c.flags&8 != 0,
		SampleNamespaces:     c.flags&16 != 0,
		SampleGroups:         c.flags&32 != 0,
		SampleKeys:           c.flags&64 != 0,
		Meta:                 meta,
		Rand:                 r,
		RoundF: func(b float64, _ *rand.Rand) float64 {
			fl := math.Floor(b)
			delta := b - fl
			v := 0.5
			if delta > 0 && delta < 1 {
				// both outcomes are possible: the explorer picks one (first pass), or the outcome sequence under
				// study prescribes it (second pass: one exploration per rounding sequence)
				up := false
				if forced == "" {
					up = x.ChooseFree(2, "round") == 1
				} else if len(path) < len(forced) {
					up = forced[len(path)] == 'U'
				}
				if !up {
					v = (1 + delta) / 2 // >= delta: round down
				} else {
					v = delta / 2 // < delta: round up
				}
			}
			rr.Hook = c05RoundHook{v}
			res := roundSampleFactor(b, rr) // the real rounding function
			// the group key is the sequence of rounding results (whatever they are: the property does not
			// constrain how budgets are rounded, only that factors match keep probabilities afterwards)
			switch {
			case delta == 0 && res == fl:
				path = append(path, '=')
			case res == fl:
				path = append(path, 'D')
			case res == fl+1:
				path = append(path, 'U')
			default:
				path = append(path, []byte(fmt.Sprintf("?%v", res))...)
			}
			return res
		},
		KeepF: func(it *MultiItem, _ uint32, _ uint32) {
			o := &obs.rows[it.Key.Tags[2]]
			o.keeps++
			o.sf = it.SF
		},
		DiscardF: func(it *MultiItem, _ uint32) {
			o := &obs.rows[it.Key.Tags[2]]
			o.discards++
			o.sf = it.SF
		},
	}
	s := NewSampler(cfg)
	for i, rt := range rts {
		it := items[i]
		it.SF = 1 // the only field of a row the sampler writes
		var fb uint32
		if c.fixedM == rt.metric {
			fb = c.fixedB
		}
		s.Add(SamplingMultiItemPair{Item: it, WhaleWeight: rt.whale, Size: rt.size, MetricID: rt.metric, Budget: fb})
	}
	s.Run(c.budget)
	obs.path = string(path)
	return obs
}

// ---------- exploration of one case ----------

type c05CaseResult struct {
	execs, points int64
	groups        int
	grid          int
	infra         string
	skipped       string // "" or reason (grid too large / tree too large)
	sampled       bool   // some row had P(keep) < 1
	viol          []c05Viol
	outcome       string
}

type c05Viol struct{ sig, desc string }

func c05Explore(c *c05Case, meta *c05Meta, grid int, forced string, maxExec int64) (map[string]c05ExecObs, mc.Stats) {
	seen := map[string]c05ExecObs{}
	items := c05BuildItems(c, meta)
	body := func(x *mc.Exec) mc.Verdict {
		obs := c05Run(x, c, meta, grid, forced, items)
		// explorer phase 1 and its workers both run complete executions: keep one observation per choice sequence
		key := fmt.Sprint(x.Choices)
		seen[key] = obs
		for i, o := range obs.rows {
			if o.keeps+o.discards != 1 {
				return mc.Verdict{Violation: fmt.Sprintf("row %d (%s) got %d keep and %d discard callbacks | case: %s", i, c.rowTypes()[i].name, o.keeps, o.discards, c.String()),
					Sig: "C05:row-callbacks-not-exactly-one", Detail: c.String()}
			}
		}
		return mc.Verdict{}
	}
	st := mc.Explore(body, mc.Options{Bound: -1, Workers: 1, MaxExecutions: maxExec})
	return seen, st
}

const c05MaxGrid = 48

func c05CheckCase(c *c05Case, meta *c05Meta, maxExec int64) (res c05CaseResult, stats []mc.Stats) {
	viol := func(sig, f string, a ...any) {
		res.viol = append(res.viol, c05Viol{"C05:" + sig, fmt.Sprintf(f, a...) + " | case: " + c.String()})
	}
	rts := c.rowTypes()
	maxGrid := c.maxGrid
	if maxGrid == 0 {
		maxGrid = c05MaxGrid
	}
	// pass 1: rounding outcomes only (selection grid of one point) -> every rounding sequence of the case and
	// every sample factor it produces
	first, st := c05Explore(c, meta, 1, "", maxExec)
	stats = append(stats, st)
	res.execs += st.Executions
	res.points += st.Points
	if !st.Exhaustive {
		res.skipped = "tree-too-large"
		return
	}
	byPath := map[string]c05ExecObs{}
	for _, o := range first {
		byPath[o.path] = o
	}
	paths := make([]string, 0, len(byPath))
	for p := range byPath {
		paths = append(paths, p)
	}
	sort.Strings(paths)
	res.groups = len(paths)
	// pass 2: one exploration per rounding sequence, with the smallest grid aligned with its sample factors
	groups := map[string][]c05ExecObs{}
	grids := map[string]int{}
	for _, p := range paths {
		o := byPath[p]
		grid := 0
		for n := 1; n <= maxGrid && grid == 0; n++ {
			ok := true
			for i, ro := range o.rows {
				if rts[i].size < 1 || ro.sf <= 1 {
					continue
				}
				if m := float64(n) / ro.sf; m < 0.5 || math.Abs(m-math.Round(m)) > 1e-9 {
					ok = false
					break
				}
			}
			if ok {
				grid = n
			}
		}
		if grid == 0 {
			res.skipped = "grid-too-large"
			return
		}
		grids[p] = grid
		if grid > res.grid {
			res.grid = grid
		}
		if grid == 1 {
			groups[p] = []c05ExecObs{o}
			continue
		}
		seen, st := c05Explore(c, meta, grid, p, maxExec)
		stats = append(stats, st)
		res.execs += st.Executions
		res.points += st.Points
		if !st.Exhaustive && len(st.Violations) == 0 {
			res.skipped = "tree-too-large"
			return
		}
		for _, e := range seen {
			if e.path != p {
				res.infra = fmt.Sprintf("rounding sequence %q changed to %q under other selection draws (harness assumption: budgets do not depend on selection draws) | case: %s", p, e.path, c.String())
				return
			}
			groups[p] = append(groups[p], e)
		}
	}
	modeAgent := c.flags&1 != 0 && c.flags&4 == 0
	var ob strings.Builder
	for _, p := range paths {
		g := groups[p]
		T := len(g)
		grid := grids[p]
		fmt.Fprintf(&ob, "%s:", p)
		for i := range rts {
			rt := rts[i]
			K := 0
			sf := math.NaN()
			sfConst := true
			for _, o := range g {
				ro := o.rows[i]
				if ro.keeps+ro.discards != 1 {
					continue // reported by the per-execution verdict
				}
				if ro.keeps == 1 {
					K++
				}
				if math.IsNaN(sf) {
					sf = ro.sf
				} else if sf != ro.sf {
					sfConst = false
				}
			}
			fmt.Fprintf(&ob, "%d/%d@%.4g,", K, T, sf)
			if rt.size < 1 {
				if K != 0 {
					viol("row-without-size-kept", "row %d (%s) has size %d but was kept", i, rt.name, rt.size)
				}
				continue // the sampler discards rows without a size; the expectation clause is not applied to them
			}
			if K < T {
				res.sampled = true
			}
			if !sfConst {
				viol("sample-factor-depends-on-selection-draws", "row %d (%s): SF differs between executions with the same rounding outcomes %q", i, rt.name, p)
				continue
			}
			// grid alignment (claim verified, not assumed): threshold 1/SF on a grid boundary
			if sf > 1 {
				m := float64(grid) / sf
				if math.Abs(m-math.Round(m)) > 1e-9 || m < 0.5 {
					viol("harness-grid-not-aligned", "row %d (%s): SF %v is not aligned with grid %d under roundings %q (first pass did not see this factor)", i, rt.name, sf, grid, p)
					continue
				}
			}
			switch {
			case K == T && sf < 1 && c.flags&8 != 0 && c.fixedM != 0 && c.fixedM != rt.metric:
				// known family (see notes): a metric with a fixed budget it exceeds ends the "kept whole" loop,
				// and an ordinary metric behind it that fits its share reaches the row sampler with sf <= 1
				viol("fixed-budget-mix:within-share-metric-kept-with-sf-below-1", "row %d (%s) is kept in all %d executions under roundings %q (keep probability 1) but carries SF=%v: its expected inserted value is %v x the true one", i, rt.name, T, p, sf, sf)
			case K == T && sf != 1:
				viol("unconditionally-kept-row-sf-not-1", "row %d (%s) is kept in all %d executions under roundings %q (keep probability 1) but carries SF=%v: its expected inserted value is %v x the true one", i, rt.name, T, p, sf, sf)
			case K == 0:
				viol("row-never-kept", "row %d (%s) is discarded in all %d executions under roundings %q: expected inserted value 0", i, rt.name, T, p)
			case K < T && math.Abs(float64(K)*sf-float64(T)) > 1e-9*float64(T):
				viol("sf-times-keep-probability-not-1", "row %d (%s): kept in %d of %d equally likely executions under roundings %q but SF=%v, SF x P(keep) = %.6g", i, rt.name, K, T, p, sf, float64(K)*sf/float64(T))
			}
			if modeAgent && meta.metrics[rt.metric].NoSampleAgent && (K != T || sf != 1) {
				viol("no-sample-agent-row-sampled", "row %d (%s) of a NoSampleAgent metric in agent mode: kept %d of %d, SF=%v", i, rt.name, K, T, sf)
			}
		}
		ob.WriteString(";")
	}
	res.outcome = ob.String()
	return
}

// ---------- large-group family ----------
//
// One metric with N >= 64 identical rows in one sampler run (selection procedures may switch strategy on large
// slices). Two regimes, chosen by what the code under test does, not by the harness:
//
//   - the whole choice tree fits the execution cap (few draws, e.g. a procedure that draws once per kept row
//     when few rows are kept): decided exactly like every other case (c05CheckCase);
//   - it does not (the real selectRandom draws once per row: grid^N leaves): deviation-bounded exploration
//     (bound 1: every draw's whole grid with all other draws at their default). What this can decide, and only
//     under the premise it checks on every explored execution - exactly one Float64 draw per selectable row, no
//     other draws, every single-draw sweep changes the fate of exactly one row and of no other, no two sweeps
//     touch the same row, factors never change -: the owner row of a draw is kept in exactly grid/SF of the grid
//     values. That equals its keep probability provided draws do not conspire beyond single deviations, which
//     a bound-1 exploration cannot see (stated in the notes). When the premise does not hold the case is
//     reported as not decided (cap), never as a violation. Exactly-one-callback is asserted in every execution.
type c05LargeResult struct {
	regime  string // "exact", "bounded", "not-decided"
	execs   int64
	points  int64
	viol    []c05Viol
	infra   string
	sampled bool
	outcome string
	stats   []mc.Stats
}

func c05CheckLarge(c *c05Case, meta *c05Meta, maxExecExact, maxExecBounded int64) (lr c05LargeResult) {
	res, stats := c05CheckCase(c, meta, maxExecExact)
	lr.stats = stats
	lr.execs, lr.points = res.execs, res.points
	lr.viol = res.viol
	lr.infra = res.infra
	if res.skipped == "" {
		lr.regime = "exact"
		lr.sampled = res.sampled
		lr.outcome = "exact:" + res.outcome
		return
	}
	if res.skipped != "tree-too-large" || res.grid < 2 {
		lr.regime = "not-decided"
		return
	}
	grid := res.grid
	viol := func(sig, f string, a ...any) {
		lr.viol = append(lr.viol, c05Viol{"C05:" + sig, fmt.Sprintf(f, a...) + " | case: " + c.String()})
	}
	cb := *c
	cb.bounded = true
	rts := cb.rowTypes()
	type ex struct {
		choices []int
		obs     c05ExecObs
	}
	var all []ex
	seen := map[string]bool{}
	items := c05BuildItems(&cb, meta)
	body := func(x *mc.Exec) mc.Verdict {
		obs := c05Run(x, &cb, meta, grid, "", items)
		key := fmt.Sprint(x.Choices)
		if !seen[key] {
			seen[key] = true
			all = append(all, ex{append([]int{}, x.Choices...), obs})
		}
		for i, o := range obs.rows {
			if o.keeps+o.discards != 1 {
				return mc.Verdict{Violation: fmt.Sprintf("row %d (%s) got %d keep and %d discard callbacks | case: %s", i, rts[i].name, o.keeps, o.discards, cb.String()),
					Sig: "C05:row-callbacks-not-exactly-one", Detail: cb.String()}
			}
		}
		return mc.Verdict{}
	}
	st := mc.Explore(body, mc.Options{Bound: 1, Workers: 1, MaxExecutions: maxExecBounded})
	lr.stats = append(lr.stats, st)
	lr.execs += st.Executions
	lr.points += st.Points
	if !st.Exhaustive || len(st.Violations) > 0 {
		lr.regime = "not-decided"
		return
	}
	// default execution: all draws answer the first grid point
	var def *ex
	for i := range all {
		zero := true
		for _, ch := range all[i].choices {
			if ch != 0 {
				zero = false
			}
		}
		if zero {
			def = &all[i]
		}
	}
	if def == nil {
		lr.regime = "not-decided"
		return
	}
	D := len(def.choices)
	selectable := 0
	for i, ro := range def.obs.rows {
		if rts[i].size >= 1 && ro.sf > 1 {
			selectable++
		}
	}
	premise := def.obs.drawsN == 0 && def.obs.drawsF == D && D == selectable
	owner := make([]int, D) // row owned by draw j
	keptCount := make([]int, D)
	for j := range owner {
		owner[j] = -1
	}
	for _, e := range all {
		if !premise {
			break
		}
		if len(e.choices) != D || e.obs.drawsN != 0 || e.obs.drawsF != D {
			premise = false
			break
		}
		dev := -1
		for j, ch := range e.choices {
			if ch != 0 {
				if dev >= 0 {
					premise = false
				}
				dev = j
			}
		}
		for i, ro := range e.obs.rows {
			if ro.sf != def.obs.rows[i].sf {
				premise = false
			}
			if dev >= 0 && ro.keeps != def.obs.rows[i].keeps {
				if owner[dev] == -1 {
					owner[dev] = i
				} else if owner[dev] != i {
					premise = false
				}
			}
		}
	}
	if premise {
		used := map[int]bool{}
		for j := 0; j < D; j++ {
			if owner[j] < 0 || used[owner[j]] {
				premise = false
				break
			}
			used[owner[j]] = true
		}
	}
	if !premise {
		lr.regime = "not-decided"
		return
	}
	for _, e := range all {
		dev := -1
		for j, ch := range e.choices {
			if ch != 0 {
				dev = j
			}
		}
		if dev < 0 {
			for j := 0; j < D; j++ {
				if e.obs.rows[owner[j]].keeps == 1 {
					keptCount[j]++
				}
			}
			continue
		}
		if e.obs.rows[owner[dev]].keeps == 1 {
			keptCount[dev]++
		}
	}
	lr.regime = "bounded"
	var ob strings.Builder
	for j := 0; j < D; j++ {
		i := owner[j]
		sf := def.obs.rows[i].sf
		K := keptCount[j]
		if m := float64(grid) / sf; math.Abs(m-math.Round(m)) > 1e-9 || m < 0.5 {
			viol("harness-grid-not-aligned", "row %d: SF %v is not aligned with grid %d", i, sf, grid)
			continue
		}
		if K < grid {
			lr.sampled = true
		}
		if j == 0 || j == D-1 {
			fmt.Fprintf(&ob, "%d/%d@%.4g,", K, grid, sf)
		}
		if K == 0 {
			viol("row-never-kept", "large group: row %d is discarded for every value of the draw that decides it (others at default)", i)
		} else if math.Abs(float64(K)*sf-float64(grid)) > 1e-9*float64(grid) {
			viol("sf-times-keep-probability-not-1", "large group: row %d is kept for %d of the %d grid values of the one draw that decides it (all other draws at their default) but SF=%v, SF x P(keep) = %.6g", i, K, grid, sf, float64(K)*sf/float64(grid))
		}
	}
	lr.outcome = fmt.Sprintf("bounded:D=%d:", D) + ob.String()
	return
}

// ---------- enumeration ----------

func c05Parallel(n int, f func(i int)) {
	w := runtime.GOMAXPROCS(0)
	var wg sync.WaitGroup
	var next int64 = -1
	for k := 0; k < w; k++ {
		wg.Add(1)
		go func() {
			defer wg.Done()
			for {
				i := int(atomic.AddInt64(&next, 1))
				if i >= n {
					return
				}
				f(i)
			}
		}()
	}
	wg.Wait()
}

func c05Multisets(alpha, maxLen int, f func(rows []int)) {
	var cur []int
	var rec func(from int)
	rec = func(from int) {
		f(cur)
		if len(cur) == maxLen {
			return
		}
		for a := from; a < alpha; a++ {
			cur = append(cur, a)
			rec(a)
			cur = cur[:len(cur)-1]
		}
	}
	rec(0)
}

// ---------- whale-slot family ----------
//
// sampler.sample gives floor(len/sf/2) rows of a sampled leaf group ("whale slots") to the rows of largest whale weight,
// kept unconditionally, and selects the rest at random with the factor doubled. The general enumeration has whale
// weights 1 and 9 only and at most one slot. This family takes every leaf-group shape (n rows of one metric, equal
// sizes 1 or 2, every budget below the group's size that affords at least one slot: n*budget >= 2*sumSize) and puts
// EVERY whale weight of {0, 1, 2} in EVERY position (3^n ordered assignments: no weight, positive, equal, distinct;
// fewer / as many / more positive rows than slots; all rows weightless), under the option sets that lead to sample()
// along different paths (metric leaf; all partition levels on; fair-key leaf; agent mode with the weightless rows being
// accounted status rows as in production). Oracle: the unchanged clauses (exactly one callback per row per
// execution, SF x P(keep) = 1, unconditionally kept => SF 1, never kept is a violation).
//
// The shapes are filtered by the size of their choice tree (grid^(rows left after the slots), predicted with the
// statement's own arithmetic) - an enumeration bound, reported in bounds.whale_slot_family; the oracle never uses it.
type c05WhaleVariant struct {
	metric   int32
	flags    int
	acctZero bool
	maxN     int
}

func c05WhaleCases(maxN int, costLimit func(n int) int64, variants []c05WhaleVariant) (cases []c05Case, shapes []string) {
	weights := []float64{0, 1, 2}
	for n := 3; n <= maxN; n++ {
		for _, size := range []int{1, 2} {
			sumSize := n * size
			for b := 1; b < sumSize; b++ {
				pos := n * b / sumSize / 2
				if pos < 1 {
					continue
				}
				// rows left after the slots are selected with factor 2*sumSize/b; smallest aligned grid
				grid := 0
				for g := 1; g <= c05MaxGrid; g++ {
					if (g*b)%(2*sumSize) == 0 {
						grid = g
						break
					}
				}
				if grid == 0 {
					continue
				}
				cost := int64(1)
				for i := 0; i < n-pos; i++ {
					cost *= int64(grid)
				}
				if cost > costLimit(n) {
					continue
				}
				shapes = append(shapes, fmt.Sprintf("%dx%dB@%d(slots %d, grid %d)", n, size, b, pos, grid))
				total := 1
				for i := 0; i < n; i++ {
					total *= len(weights)
				}
				for a := 0; a < total; a++ {
					for _, v := range variants {
						if n > v.maxN {
							continue
						}
						rows := make([]c05RowType, n)
						for i, x := 0, a; i < n; i, x = i+1, x/len(weights) {
							w := weights[x%len(weights)]
							rows[i] = c05RowType{name: fmt.Sprintf("m%ds%dw%g", v.metric, size, w), metric: v.metric, key: 1, size: size, whale: w}
						}
						cases = append(cases, c05Case{custom: rows, flags: v.flags, budget: int64(b), acctZero: v.acctZero})
					}
				}
			}
		}
	}
	return
}

func TestVerifC05(t *testing.T) {
	rep := mc.NewReport("C05")
	rep.Rule = "every multiset of at most R rows over a 9-letter row alphabet (4 metrics in 2 namespaces / 3 groups with unequal weights; one NoSampleAgent metric; one metric with a fair key of 2 values; sizes 0/1/2; whale weights; rows with and without a unique-set) x every budget x no / one fixed per-metric budget (carried by every metric in turn, below and at a row size) x all 128 combinations of the 7 sampler options; buckets of <= 2 rows again with every row in turn being a row accounted to its metric while its own key and attached meta are a built-in status metric's; whale-slot family: every leaf group of 3..N rows of one metric (equal sizes 1 or 2) x every budget that affords at least one whale slot (tree-size bound, see bounds.whale_slot_family) x every assignment of the whale weights {0,1,2} to the rows (no weight / positive / equal / distinct in every position; fewer, as many, more positive rows than slots) x option sets reaching sample() as metric leaf, through every partition level, as fair-key leaf, and in agent mode with the weightless rows being accounted status rows; for each, every outcome of every rounding draw and every grid point of every selection draw. Non-trivial = some row is kept with probability strictly between 0 and 1"
	maxRows := mc.Pick(3, 4)
	budgets := mc.Pick([]int64{1, 2, 3, 100}, []int64{0, 1, 2, 3, 4, 6, 100})
	maxExec := int64(mc.Pick(16000, 400000))
	type fixedVar struct {
		m int32
		b uint32
	}
	// The fixed per-metric budget is carried by every metric of the world in turn (so it meets every metric attribute:
	// NoSampleAgent, fair key, each namespace/group/weight), with a value below a row size (1) and one that a row
	// fits (2). fixedRows3 = how many of the variants are also applied to 3-row buckets (buckets of <= 2 rows get all of them).
	fixed := []fixedVar{{0, 0}, {1, 1}, {2, 1}, {4, 2}, {3, 1}, {1, 2}, {2, 2}, {4, 1}, {3, 2}}
	fixedRows3 := mc.Pick(5, 7)
	acctMaxRows := 2
	variants := mc.Pick(1, 2)
	rep.Bounds["max_rows"] = maxRows
	rep.Bounds["reduced_product_for_4_rows"] = "6-letter alphabet (without m4s0, m4s1u, m1s2u), weight world 0, fixed budgets {none,(m1,1),(m2,1) with ModeAgent}, budgets {2,3}, 32 option combinations (DisableNoSampleAgent off, SampleBudgets iff a fixed budget is present)"
	rep.Bounds["fixed_per_metric_budgets_for_3_row_buckets"] = fmt.Sprint(fixed[:fixedRows3])
	rep.Bounds["accounted_row_family"] = fmt.Sprintf("every case of at most %d rows (first weight world%s) again with every row in turn being an accounted row (Key.Metric and MetricMeta of a built-in status metric, MetricID = the row's metric) while all rows carry the meta of their own Key.Metric", acctMaxRows, mc.Pick(", DisableNoSampleAgent off", ""))
	rep.Bounds["row_alphabet"] = fmt.Sprintf("%+v", c05Alphabet)
	rep.Bounds["budgets"] = fmt.Sprint(budgets)
	rep.Bounds["fixed_per_metric_budgets_metric_budget"] = fmt.Sprint(fixed)
	rep.Bounds["option_combinations"] = mc.Pick("all 128 for buckets of <= 2 rows; 64 (DisableNoSampleAgent off) for 3 rows", "all 128")
	rep.Bounds["weight_worlds"] = fmt.Sprintf("%d (the second one for buckets of <= 2 rows)", variants)
	rep.Bounds["max_selection_grid"] = c05MaxGrid
	rep.Bounds["max_executions_per_case"] = maxExec
	rep.Assume("rows of size < 1 are discarded by Add by design; they are held to the exactly-one-callback clause only")
	rep.Assume("the probability of a rounding outcome is not needed: the factor is checked conditionally on every rounding outcome, which implies unconditional unbiasedness")

	var cases []c05Case
	c05Multisets(len(c05Alphabet), maxRows, func(rows []int) {
		if len(rows) == 0 {
			return
		}
		has := map[int32]bool{}
		for _, r := range rows {
			has[c05Alphabet[r].metric] = true
		}
		big := len(rows) >= 4 // thorough tier only: reduced product for the largest buckets
		if big {
			for _, r := range rows {
				if n := c05Alphabet[r].name; n == "m4s0" || n == "m4s1u" || n == "m1s2u" {
					return
				}
			}
		}
		for v := 0; v < variants; v++ {
			if len(rows) >= 3 && v > 0 {
				continue // the second weight world only for buckets of <= 2 rows
			}
			for fi, fv := range fixed {
				if fv.m != 0 && !has[fv.m] {
					continue // a fixed budget of an absent metric changes nothing the sampler sees
				}
				if big && fi > 2 {
					continue
				}
				if len(rows) >= 3 && fi >= fixedRows3 {
					continue
				}
				for _, b := range budgets {
					if big && !(b == 2 || b == 3) {
						continue
					}
					for fl := 0; fl < 128; fl++ {
						if fv.m != 0 && fl&8 == 0 {
							continue // per-row Budget is only read with SampleBudgets
						}
						if !mc.Thorough() && len(rows) >= 3 && fl&4 != 0 {
							continue // quick tier, 3 rows: DisableNoSampleAgent stays off (thorough has it)
						}
						if big && (fl&4 != 0 || (fv.m == 0 && fl&8 != 0)) {
							continue // 4 rows: DisableNoSampleAgent off, SampleBudgets only together with a fixed budget
						}
						if big && fi == 2 && fl&1 == 0 {
							continue // 4 rows: the NoSampleAgent metric's fixed budget only in agent mode
						}
						cases = append(cases, c05Case{rows: append([]int{}, rows...), flags: fl, budget: b, fixedM: fv.m, fixedB: fv.b, variant: v})
						if len(rows) <= acctMaxRows && v == 0 && (mc.Thorough() || fl&4 == 0) {
							for a := 1; a <= len(rows); a++ {
								cases = append(cases, c05Case{rows: append([]int{}, rows...), flags: fl, budget: b, fixedM: fv.m, fixedB: fv.b, variant: v, acctRow: a})
							}
						}
					}
				}
			}
		}
	})
	// whale-slot family (see c05WhaleCases)
	whaleMaxN := mc.Pick(5, 6)
	whaleLimit := func(n int) int64 {
		if n <= 4 {
			return 600
		}
		if n == 5 {
			return int64(mc.Pick(300, 700))
		}
		return 1100
	}
	whaleVariants := []c05WhaleVariant{
		{metric: 1, flags: 0, maxN: 6},                             // leaf = metric partition
		{metric: 1, flags: 1, acctZero: true, maxN: mc.Pick(4, 5)}, // agent mode, weightless rows are accounted status rows
		{metric: 1, flags: 8 | 16 | 32, maxN: 4},                   // every partition level on the way
		{metric: 3, flags: 64, maxN: 4},                            // leaf = fair-key partition
		{metric: 1, flags: 2, acctZero: true, maxN: mc.Pick(0, 4)}, // aggregator mode with SampleKeepSingle
	}
	whaleCases, whaleShapes := c05WhaleCases(whaleMaxN, whaleLimit, whaleVariants)
	firstWhaleCase := len(cases)
	cases = append(cases, whaleCases...)
	rep.Bounds["whale_slot_family"] = fmt.Sprintf("%d cases: shapes rows x size @budget %v, each x every assignment of whale weights {0,1,2} to the rows x option sets %+v (maxN = largest group the set is applied to)", len(whaleCases), whaleShapes, whaleVariants)
	metas := []*c05Meta{c05BuildMeta(0), c05BuildMeta(1)}

	var mu sync.Mutex
	total := mc.Stats{Exhaustive: true, BoundDone: -1}
	var nCases, nNontrivial, skippedGrid, skippedTree, whaleExecs, whaleSampled int64
	gridHist := map[int]int64{}
	execByRows := map[int]int64{}
	casesByRows := map[int]int64{}
	outcomes := map[string]struct{}{}
	k, n := mc.ShardFromEnv()
	c05Parallel(len(cases), func(i int) {
		if i%n != k {
			return
		}
		if mc.Expired() {
			rep.Cap("wall_budget")
			return
		}
		c := &cases[i]
		res, stats := c05CheckCase(c, metas[c.variant], maxExec)
		mu.Lock()
		defer mu.Unlock()
		nCases++
		casesByRows[c.nRows()]++
		execByRows[c.nRows()] += res.execs
		if i >= firstWhaleCase {
			whaleExecs += res.execs
			if res.sampled {
				whaleSampled++
			}
		}
		for _, st := range stats {
			total.Executions += st.Executions
			total.Points += st.Points
			if st.MaxDepth > total.MaxDepth {
				total.MaxDepth = st.MaxDepth
			}
			total.Units += st.Units
			total.InfraErrors = append(total.InfraErrors, st.InfraErrors...)
			for _, v := range st.Violations {
				rep.Violate(v.Sig, v.Desc, v.Detail)
			}
		}
		switch res.skipped {
		case "grid-too-large":
			skippedGrid++
		case "tree-too-large":
			skippedTree++
		}
		if res.skipped == "" {
			gridHist[res.grid]++
			if res.sampled {
				nNontrivial++
				if nNontrivial%997 == 1 {
					rep.Sample(map[string]any{"case": c.String(), "grid": res.grid, "rounding_groups": res.groups, "executions": res.execs, "per_row_kept/total@SF": res.outcome})
				}
			}
			if _, ok := outcomes[res.outcome]; !ok {
				outcomes[res.outcome] = struct{}{}
				rep.Outcome(res.outcome)
			}
		}
		for _, v := range res.viol {
			rep.Violate(v.sig, v.desc, map[string]any{"case": c.String()})
		}
		if res.infra != "" {
			rep.Infra(res.infra)
		}
	})
	// large-group family (see c05CheckLarge)
	type lg struct {
		n, size int
		budget  int64
	}
	larges := mc.Pick(
		[]lg{{64, 2, 3}, {64, 3, 2}, {64, 1, 1}, {65, 2, 4}, {96, 1, 2}},
		[]lg{{64, 2, 3}, {64, 3, 2}, {64, 1, 1}, {65, 2, 4}, {96, 1, 2}, {96, 2, 5}, {130, 1, 3}, {64, 2, 5}, {96, 3, 4}, {64, 2, 64}, {65, 1, 100}})
	exactCap := int64(mc.Pick(4200, 40000))
	boundedCap := int64(mc.Pick(60000, 200000))
	largeRegimes := make([]string, len(larges))
	c05Parallel(len(larges), func(i int) {
		l := larges[i]
		for _, fl := range mc.Pick([]int{0}, []int{0, 2}) { // thorough: also with SampleKeepSingle (must not matter for a multi-row group)
			c := &c05Case{flags: fl, budget: l.budget, largeN: l.n, largeSize: l.size, maxGrid: 400}
			lr := c05CheckLarge(c, metas[0], exactCap, boundedCap)
			mu.Lock()
			nCases++
			for _, st := range lr.stats {
				total.Executions += st.Executions
				total.Points += st.Points
				if st.MaxDepth > total.MaxDepth {
					total.MaxDepth = st.MaxDepth
				}
				total.Units += st.Units
				total.InfraErrors = append(total.InfraErrors, st.InfraErrors...)
				for _, v := range st.Violations {
					rep.Violate(v.Sig, v.Desc, v.Detail)
				}
			}
			if lr.sampled {
				nNontrivial++
			}
			if fl == 0 {
				largeRegimes[i] = fmt.Sprintf("%d rows x %d B, budget %d: %s", l.n, l.size, l.budget, lr.regime)
				if lr.regime != "not-decided" {
					rep.Sample(map[string]any{"large_group_case": c.String(), "regime": lr.regime, "executions": lr.execs, "first/last row kept/grid@SF": lr.outcome})
				}
			}
			if lr.regime == "not-decided" {
				rep.Cap("large-group case not decided (tree beyond the caps and draws not one-per-row): " + c.String())
			} else if _, ok := outcomes[lr.outcome]; !ok {
				outcomes[lr.outcome] = struct{}{}
				rep.Outcome(lr.outcome)
			}
			for _, v := range lr.viol {
				rep.Violate(v.sig, v.desc, map[string]any{"case": c.String()})
			}
			if lr.infra != "" {
				rep.Infra(lr.infra)
			}
			mu.Unlock()
		}
	})
	rep.Bounds["large_group_family"] = largeRegimes
	rep.Bounds["large_group_caps"] = fmt.Sprintf("exact regime up to %d executions per case, else deviation bound 1 up to %d executions; grid <= 400", exactCap, boundedCap)
	rep.Assume("large-group family (>= 64 identical rows): when the full choice tree exceeds the cap, the per-row keep fraction is measured over the grid of the one draw that decides the row with all other draws at their default (deviation bound 1), under the checked premise of one independent Float64 draw per row; coupling of draws beyond single deviations is outside what that regime can see")
	rep.MergeExplore("sampler-draws", total)
	rep.AddCounts(0, 0, nCases, nNontrivial)
	rep.Bounds["cases"] = nCases
	rep.Bounds["cases_skipped_grid_above_max"] = skippedGrid
	rep.Bounds["cases_skipped_tree_above_max_executions"] = skippedTree
	rep.Bounds["selection_grid_histogram"] = fmt.Sprint(gridHist)
	rep.Bounds["cases_by_bucket_rows"] = fmt.Sprint(casesByRows)
	rep.Bounds["whale_slot_family_executions"] = whaleExecs
	rep.Bounds["whale_slot_family_cases_with_sampled_rows"] = whaleSampled
	rep.Bounds["executions_by_bucket_rows"] = fmt.Sprint(execByRows)
	if skippedGrid+skippedTree > 0 {
		rep.Cap(fmt.Sprintf("%d cases not decided (selection grid > %d: %d, choice tree > %d executions: %d)", skippedGrid+skippedTree, c05MaxGrid, skippedGrid, maxExec, skippedTree))
	}
	if err := rep.Write(); err != nil {
		t.Fatal(err)
	}
	t.Logf("C05: %d cases, %d executions, %d non-trivial, %d outcomes, skipped grid=%d tree=%d, grids=%v, violations=%d", nCases, total.Executions, nNontrivial, len(outcomes), skippedGrid, skippedTree, gridHist, rep.NumViolations())
}
