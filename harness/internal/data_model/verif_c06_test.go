//go:build verif

package data_model

// C06: sampling is fair - partitions within their share are never sampled.
//
// Full enumeration of small hierarchies (namespaces x groups x metrics x fair keys, sizes, effective
// weights, budgets, option flags) through the real NewSampler/Add/Run with deterministic RoundF=floor and
// SelectF=int(len/sf), against an independent water-filling reference in exact integer-fraction arithmetic.
//
// Observation points (all on the real code path):
//   - KeepF / DiscardF callbacks and MultiItem.SF for every row,
//   - RoundF arguments (the un-rounded share handed to a nested partition),
//   - a SampleF that records the samplerGroup it is given (budget/budgetDenom/sumSize of a leaf partition)
//     and then calls the real SampleRows / SampleQuota.
//
// Clauses asserted (and nothing more, see /verif/notes/C06.md):
//   1. a partition within its weight-proportional share of what its parent has left is kept whole, SF=1
//   2. whole bucket within budget => nothing sampled
//   3. deterministic selection: kept size <= budget
//   4. siblings: larger size/weight ratio => not smaller sample factor
//   5. quota mode: quotas proportional to reported sizes (floor), sum <= total budget

import (
	"fmt"
	"math"
	"os"
	"runtime"
	"sort"
	"strings"
	"sync"
	"sync/atomic"
	"testing"

	"pgregory.net/rand"

	"github.com/VKCOM/statshouse/internal/format"
	"github.com/VKCOM/statshouse/internal/verif/mc"
)

// ---------- hierarchy description ----------

type c06Metric struct {
	id      int32
	ns      int32
	group   int32
	weight  int64
	fair    bool    // has FairKeyIndex=[0]
	rowSize int     // size of every row of this metric (sample mode); quota mode uses rowSizes
	keys    []int   // number of rows per fair key value (key values 1..len(keys)); plain metric: one entry
	rowSzQ  [][]int // quota mode: explicit row sizes per key
	fixed   uint32  // fixed per-metric budget (0 = none), used with SampleBudgets
}

type c06Case struct {
	sampleNS, sampleGroups, sampleKeys, sampleBudgets bool
	quota                                             bool
	nsW                                               map[int32]int64
	grW                                               map[int32]int64
	metrics                                           []c06Metric
	budget                                            int64
	acct                                              *c06Acct // accounted-row family (nil: every row is an ordinary row of its metric)
}

// c06Acct: the accounted-row family. Agent and aggregator hand the sampler rows that are *accounted* to another
// metric than their own key names (ingestion-status rows about user metric M: SamplingMultiItemPair.MetricID = M,
// Item.Key.Metric = the built-in metric, Item.MetricMeta = the built-in's meta). The hierarchy coordinates
// (namespace, group, weight, fair key) of a partition are those of the accounted metric, whichever row of the
// metric the sampler happens to look at first. The family converts rows of one target metric of an ordinary case
// into such rows (the partition tree and the reference stay exactly those of the ordinary case) and lets every
// row carry the meta of its own Key.Metric, as the real callers do.
type c06Acct struct {
	target  int  // index into metrics: the metric the rows are accounted to
	own     int  // whose meta the converted rows carry: -1 = a built-in-like status metric, i >= 0 = metrics[i] (i != target)
	row     int  // which row of the target (in presentation order) is converted; -1 = all of them
	reverse bool // presentation order: rows are handed to Add in reverse
}

func (a *c06Acct) String() string {
	own := "built-in status metric (default namespace, built-in group, weight 1, no fair key)"
	if a.own >= 0 {
		own = fmt.Sprintf("metrics[%d]", a.own)
	}
	rows := "all rows"
	if a.row >= 0 {
		rows = fmt.Sprintf("row #%d", a.row)
	}
	order := "rows presented metric by metric"
	if a.reverse {
		order = "rows presented in reverse"
	}
	return fmt.Sprintf(" accounted[%s of metrics[%d] has Key.Metric/MetricMeta of %s; every row carries the meta of its own Key.Metric; %s]", rows, a.target, own, order)
}

func (c *c06Case) String() string {
	var sb strings.Builder
	fmt.Fprintf(&sb, "budget=%d flags[ns=%v groups=%v keys=%v budgets=%v quota=%v]", c.budget, c.sampleNS, c.sampleGroups, c.sampleKeys, c.sampleBudgets, c.quota)
	for _, m := range c.metrics {
		fmt.Fprintf(&sb, " m%d{ns%d(w%d) g%d(w%d) w%d fair=%v", m.id, m.ns, c.nsW[m.ns], m.group, c.grW[m.group], m.weight, m.fair)
		if c.quota {
			fmt.Fprintf(&sb, " hostSizes=%v", m.rowSzQ)
		} else {
			fmt.Fprintf(&sb, " rowSize=%d rowsPerKey=%v", m.rowSize, m.keys)
		}
		if m.fixed != 0 {
			fmt.Fprintf(&sb, " fixedBudget=%d", m.fixed)
		}
		sb.WriteString("}")
	}
	if c.acct != nil {
		sb.WriteString(c.acct.String())
	}
	return sb.String()
}

type c06Meta struct {
	metrics [512]*format.MetricMetaValue
	groups  [64]*format.MetricsGroup
	nss     [8]*format.NamespaceMeta
}

func (m *c06Meta) GetMetaMetric(id int32) *format.MetricMetaValue {
	if id < 0 || int(id) >= len(m.metrics) {
		return nil
	}
	return m.metrics[id]
}
func (m *c06Meta) GetMetaMetricByName(string) *format.MetricMetaValue { return nil }
func (m *c06Meta) GetGroup(id int32) *format.MetricsGroup {
	if id < 0 || int(id) >= len(m.groups) {
		return nil
	}
	return m.groups[id]
}
func (m *c06Meta) GetNamespace(id int32) *format.NamespaceMeta {
	if id < 0 || int(id) >= len(m.nss) {
		return nil
	}
	return m.nss[id]
}
func (m *c06Meta) GetNamespaceByName(name string) *format.NamespaceMeta { return nil }
func (m *c06Meta) GetGroupByName(name string) *format.MetricsGroup      { return nil }

// c06Ctx holds per-worker pools: the sampler only reads meta objects and items, so they are reset and
// reused between executions (every execution still builds a fresh sampler and fresh row state).
type c06Ctx struct {
	metaPool  map[int32]*format.MetricMetaValue
	groupPool map[int32]*format.MetricsGroup
	nsPool    map[int32]*format.NamespaceMeta
	meta      c06Meta
	items     []*MultiItem
	rows      []c06Row
	events    []c06Event
	nodes     []*c06Node
	nodeUsed  int
	fairIdx   []int
	ob        []byte
	buffers   SamplerBuffers // reused between executions, as the agent and the aggregator do
	status    format.MetricMetaValue
	order     []int
}

func c06NewCtx() *c06Ctx {
	return &c06Ctx{metaPool: map[int32]*format.MetricMetaValue{}, groupPool: map[int32]*format.MetricsGroup{}, nsPool: map[int32]*format.NamespaceMeta{}, fairIdx: []int{0}}
}

func (x *c06Ctx) node() *c06Node {
	if x == nil {
		return &c06Node{}
	}
	if x.nodeUsed == len(x.nodes) {
		x.nodes = append(x.nodes, &c06Node{})
	}
	n := x.nodes[x.nodeUsed]
	x.nodeUsed++
	kids, rows := n.kids[:0], n.rows[:0]
	*n = c06Node{}
	n.kids, n.rows = kids, rows
	return n
}

func (x *c06Ctx) item(i int) *MultiItem {
	for len(x.items) <= i {
		x.items = append(x.items, &MultiItem{})
	}
	it := x.items[i]
	it.Key.Metric = 0
	it.Key.Tags[0], it.Key.Tags[1], it.Key.Tags[2] = 0, 0, 0
	it.SF = 1
	it.MetricMeta = nil
	it.Tail.Value = ItemValue{}
	return it
}

func c06BuildMeta(x *c06Ctx, c *c06Case) *c06Meta {
	meta := &x.meta
	*meta = c06Meta{}
	for _, m := range c.metrics {
		mv := x.metaPool[m.id]
		if mv == nil {
			mv = &format.MetricMetaValue{}
			x.metaPool[m.id] = mv
		}
		mv.MetricID, mv.NamespaceID, mv.GroupID, mv.EffectiveWeight = m.id, m.ns, m.group, m.weight
		mv.FairKeyIndex = nil
		if m.fair {
			mv.FairKeyIndex = x.fairIdx
		}
		meta.metrics[m.id] = mv
		if meta.groups[m.group] == nil {
			g := x.groupPool[m.group]
			if g == nil {
				g = &format.MetricsGroup{}
				x.groupPool[m.group] = g
			}
			g.ID, g.NamespaceID, g.EffectiveWeight = m.group, m.ns, c.grW[m.group]
			meta.groups[m.group] = g
		}
		if meta.nss[m.ns] == nil {
			n := x.nsPool[m.ns]
			if n == nil {
				n = &format.NamespaceMeta{}
				x.nsPool[m.ns] = n
			}
			n.ID, n.EffectiveWeight = m.ns, c.nsW[m.ns]
			meta.nss[m.ns] = n
		}
	}
	return meta
}

// ---------- effective partition tree + reference ----------

const (
	c06LvlNS = iota
	c06LvlGroup
	c06LvlMetric
	c06LvlKey
)

type c06Node struct {
	level  int
	id     int32
	parent *c06Node
	kids   []*c06Node
	rows   []int // indices of all rows beneath
	size   int64
	weight int64
	fixed  int64 // >0: fixed-budget partition (its budget does not come from the parent)
	// reference
	refWhole bool // reference: kept whole
	// observed
	sampled  bool    // a SampleF or RoundF event was attributed to the partition
	facNum   int64   // leaf: exact factor = facNum/facDen (facDen==0: infinite)
	facDen   int64   //
	facF     float64 // non-leaf: size / un-rounded share given to RoundF
	isLeafEv bool
}

type c06Row struct {
	item     *MultiItem
	size     int
	metric   int32
	key      int32
	keeps    int
	discards int
	sf       float64
	quota    uint32
}

func (n *c06Node) path() string {
	if n == nil {
		return ""
	}
	names := [...]string{"ns", "group", "metric", "key"}
	p := ""
	if n.parent != nil && n.parent.level >= 0 {
		p = n.parent.path() + "/"
	}
	return fmt.Sprintf("%s%s%d", p, names[n.level], n.id)
}

// c06BuildTree builds the partition tree the option flags imply: disabled levels are flattened.
// With SampleBudgets the fixed-budget metrics become children of the root next to the first enabled level.
func c06BuildTree(x *c06Ctx, c *c06Case, rows []c06Row) *c06Node {
	root := x.node()
	root.level = -1
	find := func(p *c06Node, level int, id int32, weight int64) *c06Node {
		for _, k := range p.kids {
			if k.level == level && k.id == id && k.fixed == 0 {
				return k
			}
		}
		if weight < 1 {
			weight = 1
		}
		k := x.node()
		k.level, k.id, k.parent, k.weight = level, id, p, weight
		p.kids = append(p.kids, k)
		return k
	}
	for _, m := range c.metrics {
		var mn *c06Node
		if c.sampleBudgets && m.fixed != 0 {
			mn = x.node()
			mn.level, mn.id, mn.parent, mn.weight, mn.fixed = c06LvlMetric, m.id, root, 1, int64(m.fixed)
			root.kids = append(root.kids, mn)
		} else {
			p := root
			if c.sampleNS {
				p = find(p, c06LvlNS, m.ns, c.nsW[m.ns])
			}
			if c.sampleGroups {
				p = find(p, c06LvlGroup, m.group, c.grW[m.group])
			}
			mn = find(p, c06LvlMetric, m.id, m.weight)
		}
		for i := range rows {
			if rows[i].metric != m.id {
				continue
			}
			leaf := mn
			if c.sampleKeys && m.fair {
				leaf = find(mn, c06LvlKey, rows[i].key, 1)
			}
			for n := leaf; n != nil; n = n.parent {
				n.rows = append(n.rows, i)
				n.size += int64(rows[i].size)
			}
		}
	}
	return root
}

// c06RefFill is the reference: water-filling of budget B (an integer: the bucket budget, a floored nested
// share, or a fixed budget) over the children of p in ascending size/weight order, in exact integer fractions.
// Ties in the ratio cannot change the outcome (a tied partner of a fitting partition still fits because the
// per-weight remainder only grows), so no tie-breaking rule is needed.
func c06RefFill(p *c06Node, B int64) {
	var act []*c06Node
	for _, k := range p.kids {
		if k.fixed > 0 {
			// a fixed-budget partition lives on its own budget
			if k.size <= k.fixed {
				c06MarkWhole(k)
			} else if len(k.kids) > 0 {
				c06RefFill(k, k.fixed)
			}
			continue
		}
		act = append(act, k)
	}
	sort.SliceStable(act, func(i, j int) bool { return act[i].size*act[j].weight < act[j].size*act[i].weight })
	rem := B
	var W int64
	for _, k := range act {
		W += k.weight
	}
	i := 0
	for ; i < len(act); i++ {
		k := act[i]
		// size <= rem*w/W  <=>  size*W <= rem*w
		if k.size*W <= rem*k.weight {
			c06MarkWhole(k)
			rem -= k.size
			W -= k.weight
			continue
		}
		break
	}
	for ; i < len(act); i++ {
		k := act[i]
		if len(k.kids) > 0 {
			share := rem * k.weight / W // floor of the exact share (rem, weight, W >= 0)
			c06RefFill(k, share)
		}
	}
}

func c06MarkWhole(n *c06Node) {
	n.refWhole = true
	for _, k := range n.kids {
		c06MarkWhole(k)
	}
}

// ---------- one execution ----------

type c06Event struct {
	round  bool
	v      float64
	metric int32
	key    int32
	keyLvl bool
	budget int64
	denom  int64
	sum    int64
	fixed  bool
}

type c06Result struct {
	viol    []c06Viol
	sampled bool   // something was not kept whole
	outcome string // coarse outcome key
	undec   bool
}

type c06Viol struct {
	sig, desc string
}

func c06RunCase(x *c06Ctx, c *c06Case) (res c06Result) {
	x.nodeUsed = 0
	meta := c06BuildMeta(x, c)
	rows := x.rows[:0]
	for _, m := range c.metrics {
		nk := len(m.keys)
		if c.quota {
			nk = len(m.rowSzQ)
		}
		for k := 0; k < nk; k++ {
			n := 0
			if c.quota {
				n = len(m.rowSzQ[k])
			} else {
				n = m.keys[k]
			}
			for r := 0; r < n; r++ {
				sz := m.rowSize
				if c.quota {
					sz = m.rowSzQ[k][r]
				}
				it := x.item(len(rows))
				it.Key.Metric = m.id
				it.Key.Tags[0] = int32(k + 1)
				it.Key.Tags[1] = int32(r + 1) // in quota mode: the host
				it.Key.Tags[2] = int32(len(rows))
				it.Tail.Value.AddValueCounter(0, 2)
				rows = append(rows, c06Row{item: it, size: sz, metric: m.id, key: int32(k + 1)})
			}
		}
	}
	x.rows = rows
	order := x.order[:0]
	for i := range rows {
		order = append(order, i)
	}
	if a := c.acct; a != nil {
		// every row carries the meta of its own Key.Metric (as on the agent and the aggregator) ...
		for i := range rows {
			rows[i].item.MetricMeta = meta.metrics[rows[i].metric]
		}
		// ... and the converted rows of the target are rows of another metric that are accounted to the target
		x.status = format.MetricMetaValue{MetricID: format.BuiltinMetricIDIngestionStatus, NamespaceID: format.BuiltinNamespaceIDDefault, GroupID: format.BuiltinGroupIDBuiltin, EffectiveWeight: 1}
		ownMeta := &x.status
		if a.own >= 0 {
			ownMeta = meta.metrics[c.metrics[a.own].id]
		}
		nth := 0
		for i := range rows {
			if rows[i].metric != c.metrics[a.target].id {
				continue
			}
			if a.row < 0 || a.row == nth {
				rows[i].item.Key.Metric = ownMeta.MetricID
				rows[i].item.MetricMeta = ownMeta
			}
			nth++
		}
		if a.reverse {
			for i, j := 0, len(order)-1; i < j; i, j = i+1, j-1 {
				order[i], order[j] = order[j], order[i]
			}
		}
	}
	x.order = order
	events := x.events[:0]
	var npart int
	cfg := SamplerConfig{
		SampleNamespaces: c.sampleNS,
		SampleGroups:     c.sampleGroups,
		SampleKeys:       c.sampleKeys,
		SampleBudgets:    c.sampleBudgets,
		Meta:             meta,
		Rand:             rand.New(1),
		SamplerBuffers:   x.buffers,
		RoundF: func(b float64, _ *rand.Rand) float64 {
			events = append(events, c06Event{round: true, v: b})
			return math.Floor(b)
		},
		SelectF: func(s []SamplingMultiItemPair, sf float64, _ *rand.Rand) int {
			if sf <= 1 {
				return len(s)
			}
			return int(float64(len(s)) / sf)
		},
		KeepF: func(it *MultiItem, _ uint32, q uint32) {
			r := &rows[it.Key.Tags[2]]
			r.keeps++
			r.sf = it.SF
			r.quota = q
		},
		DiscardF: func(it *MultiItem, _ uint32) {
			r := &rows[it.Key.Tags[2]]
			r.discards++
			r.sf = it.SF
		},
	}
	cfg.SampleF = func(s *sampler, g samplerGroup) {
		ev := c06Event{metric: g.MetricID, budget: g.budget, denom: g.budgetDenom, sum: g.sumSize, fixed: g.FixedBudget}
		if g.depth > npart && len(g.items) > 0 {
			ev.keyLvl = true
			ev.key = g.items[0].fairKey[0]
		}
		events = append(events, ev)
		if c.quota {
			SampleQuota(s, g)
		} else {
			SampleRows(s, g)
		}
	}
	s := NewSampler(cfg)
	npart = len(s.partF)
	for _, i := range order {
		var fb uint32
		for _, m := range c.metrics {
			if m.id == rows[i].metric {
				fb = m.fixed
			}
		}
		s.Add(SamplingMultiItemPair{Item: rows[i].item, WhaleWeight: 1, Size: rows[i].size, MetricID: rows[i].metric, Budget: fb})
	}
	s.Run(c.budget)
	x.events = events
	x.buffers = s.SamplerBuffers

	// ----- oracle -----
	viol := func(sig, format string, a ...any) {
		res.viol = append(res.viol, c06Viol{sig: "C06:" + sig, desc: fmt.Sprintf(format, a...) + " | case: " + c.String()})
	}
	var total, kept int64
	for i := range rows {
		r := &rows[i]
		total += int64(r.size)
		if r.keeps+r.discards != 1 {
			viol("row-callbacks-not-exactly-one", "row %d of metric %d got %d keep and %d discard callbacks", i, r.metric, r.keeps, r.discards)
		}
		if r.keeps > 0 {
			kept += int64(r.size)
		}
	}
	root := c06BuildTree(x, c, rows)
	c06RefFill(root, c.budget)

	rowWhole := func(i int) bool { return rows[i].keeps == 1 && rows[i].discards == 0 && rows[i].sf == 1 }
	anyFixedOver := false
	for _, k := range root.kids {
		if k.fixed > 0 && k.size > k.fixed {
			anyFixedOver = true
		}
	}
	anyFreeOver := false
	for _, k := range root.kids {
		if k.fixed == 0 && !k.refWhole {
			anyFreeOver = true
		}
	}
	// clause 1: within-share partitions (reference) are kept whole with factor 1 (quota mode: quota == size)
	var walk1 func(n *c06Node)
	walk1 = func(n *c06Node) {
		if n.level >= 0 && n.refWhole {
			for _, i := range n.rows {
				ok := rowWhole(i)
				if ok && c.quota && int(rows[i].quota) != rows[i].size {
					ok = false
				}
				if !ok {
					sig := "within-share-partition-not-kept-whole"
					// one known family gets its own signatures: fixed-budget metrics are sorted into the same
					// water-filling order as ordinary partitions, and the first over-budget one of either kind ends
					// the "kept whole" loop for the other kind too
					if c.sampleBudgets && n.fixed == 0 && anyFixedOver {
						sig = "fixed-budget-mix:ordinary-partition-within-share-sampled"
					} else if c.sampleBudgets && n.fixed > 0 && anyFreeOver {
						sig = "fixed-budget-mix:fixed-metric-within-budget-sampled"
					}
					viol(sig, "partition %s (size %d, weight %d) is within its weight-proportional share of what its parent has left, but row %d (size %d) keep=%d discard=%d SF=%v quota=%d",
						n.path(), n.size, n.weight, i, rows[i].size, rows[i].keeps, rows[i].discards, rows[i].sf, rows[i].quota)
					return
				}
			}
			return
		}
		for _, k := range n.kids {
			walk1(k)
		}
	}
	walk1(root)
	// clause 2: whole bucket within budget => nothing sampled (independent of the reference)
	if !c.sampleBudgets && total <= c.budget {
		for i := range rows {
			if !rowWhole(i) {
				viol("bucket-within-budget-but-sampled", "bucket size %d <= budget %d but row %d keep=%d discard=%d SF=%v", total, c.budget, i, rows[i].keeps, rows[i].discards, rows[i].sf)
				break
			}
		}
	}
	// clause 3: deterministic selection: kept size <= budget (rows of a metric have equal size by construction)
	if !c.quota {
		if !c.sampleBudgets {
			if kept > c.budget {
				viol("kept-size-exceeds-budget", "kept size %d > budget %d", kept, c.budget)
			}
		} else {
			var keptFree int64
			for _, k := range root.kids {
				var kk int64
				for _, i := range k.rows {
					if rows[i].keeps > 0 {
						kk += int64(rows[i].size)
					}
				}
				if k.fixed > 0 {
					if kk > k.fixed {
						viol("kept-size-exceeds-fixed-budget", "metric %d kept size %d > its fixed budget %d", k.id, kk, k.fixed)
					}
				} else {
					keptFree += kk
				}
			}
			if keptFree > c.budget {
				viol("kept-size-exceeds-budget", "kept size %d of partitions without fixed budget > budget %d", keptFree, c.budget)
			}
		}
	}
	// clause 5: quota mode
	if c.quota {
		var sumQ int64
		for i := range rows {
			if rows[i].keeps > 0 {
				sumQ += int64(rows[i].quota)
				if rows[i].sf != 1 {
					viol("quota-keep-factor-not-1", "row %d kept in quota mode with SF=%v", i, rows[i].sf)
				}
				if int(rows[i].quota) > rows[i].size {
					viol("quota-exceeds-reported-size", "row %d: quota %d > reported size %d", i, rows[i].quota, rows[i].size)
				}
			}
		}
		if sumQ > c.budget {
			viol("quota-sum-exceeds-total", "sum of quotas %d > total budget %d", sumQ, c.budget)
		}
		// proportionality inside every leaf partition: there is c with quota_i = floor(c*size_i) for all rows
		var leaves func(n *c06Node)
		leaves = func(n *c06Node) {
			if len(n.kids) > 0 {
				for _, k := range n.kids {
					leaves(k)
				}
				return
			}
			// max_i q_i/s_i < min_i (q_i+1)/s_i
			var loN, loD, hiN, hiD int64 = 0, 1, 1, 0 // lo = 0, hi = +inf
			for _, i := range n.rows {
				q := int64(0)
				if rows[i].keeps > 0 {
					q = int64(rows[i].quota)
				}
				sz := int64(rows[i].size)
				if q*loD > loN*sz {
					loN, loD = q, sz
				}
				if hiD == 0 || (q+1)*hiD < hiN*sz {
					hiN, hiD = q+1, sz
				}
			}
			if !(loN*hiD < hiN*loD) {
				viol("quota-not-proportional-to-sizes", "partition %s: no constant c with quota=floor(c*size) for all rows (max q/s=%d/%d, min (q+1)/s=%d/%d)", n.path(), loN, loD, hiN, hiD)
			}
		}
		leaves(root)
	}
	// clause 4: decode the event log and compare sibling factors (not with fixed budgets: the clause is about
	// weight-proportional shares, and the log of a run that mixes in fixed-budget metrics need not fit the tree)
	if c.sampleBudgets {
		// not evaluated
	} else if !c06Decode(c, root, events) {
		res.undec = true
	} else {
		var walk4 func(n *c06Node)
		walk4 = func(n *c06Node) {
			for a := 0; a < len(n.kids); a++ {
				for b := 0; b < len(n.kids); b++ {
					ka, kb := n.kids[a], n.kids[b]
					if ka.fixed > 0 || kb.fixed > 0 {
						continue
					}
					// ratio(ka) < ratio(kb) strictly
					if !(ka.size*kb.weight < kb.size*ka.weight) {
						continue
					}
					fa, okA := c06Factor(ka, rows)
					fb, okB := c06Factor(kb, rows)
					if !okA || !okB {
						continue
					}
					if fa > fb*(1+1e-9) {
						viol("larger-ratio-smaller-factor", "siblings %s (size %d, weight %d, factor %.6g) and %s (size %d, weight %d, factor %.6g): larger size/weight ratio got the smaller sample factor",
							ka.path(), ka.size, ka.weight, fa, kb.path(), kb.size, kb.weight, fb)
					}
				}
			}
			for _, k := range n.kids {
				if k.sampled {
					walk4(k)
				}
			}
		}
		walk4(root)
	}
	// outcome key (coarse): per top-level partition W(hole)/S(ampled) and number of kept rows
	ob := x.ob[:0]
	for _, k := range root.kids {
		kk := 0
		for _, i := range k.rows {
			if rows[i].keeps > 0 {
				kk++
			}
			if !rowWhole(i) {
				res.sampled = true
			}
		}
		ob = append(ob, byte('0'+k.level), ':', byte('0'+kk), '/', byte('0'+len(k.rows)), ';')
	}
	x.ob = ob
	res.outcome = string(ob)
	return res
}

// c06Factor returns the sample factor of a partition: 1 when all its rows were kept with SF 1 and no
// sampling event mentions it, size/budget for a sampled leaf (exact), size/share for a nested partition.
func c06Factor(n *c06Node, rows []c06Row) (float64, bool) {
	if n.sampled {
		if n.isLeafEv {
			if n.facDen == 0 {
				return math.Inf(1), true
			}
			// a partition handed to the row sampler although its budget covers it has factor 1; clause 1
			// (not this clause) is the one that objects to that
			return math.Max(1, float64(n.facNum)/float64(n.facDen)), true
		}
		return math.Max(1, n.facF), true
	}
	for _, i := range n.rows {
		if !(rows[i].keeps == 1 && rows[i].discards == 0 && rows[i].sf == 1) {
			return 0, false // neither whole nor attributed: not decided here (clause 1 decides whole-ness)
		}
	}
	return 1, true
}

// c06Decode attributes RoundF events (un-rounded share of a nested partition) and SampleF events (leaf
// partition with its exact budget) to nodes of the effective tree. run() is depth first: all events of a
// partition are contiguous, and the RoundF calls pending in front of a leaf event belong, top-down, to the
// ancestors of that leaf which were not open yet. Returns false when the log does not fit the tree.
func c06Decode(c *c06Case, root *c06Node, events []c06Event) bool {
	metricNode := map[int32]*c06Node{}
	var idx func(n *c06Node)
	idx = func(n *c06Node) {
		if n.level == c06LvlMetric {
			metricNode[n.id] = n
		}
		for _, k := range n.kids {
			idx(k)
		}
	}
	idx(root)
	var open []*c06Node
	var pending []float64
	for _, ev := range events {
		if ev.round {
			pending = append(pending, ev.v)
			continue
		}
		mn := metricNode[ev.metric]
		if mn == nil {
			return false
		}
		leaf := mn
		if len(mn.kids) > 0 {
			leaf = nil
			if !ev.keyLvl {
				return false
			}
			for _, k := range mn.kids {
				if k.id == ev.key {
					leaf = k
				}
			}
			if leaf == nil {
				return false
			}
		} else if ev.keyLvl {
			return false
		}
		var anc []*c06Node
		for a := leaf.parent; a != nil && a.level >= 0; a = a.parent {
			anc = append([]*c06Node{a}, anc...)
		}
		common := 0
		for common < len(open) && common < len(anc) && open[common] == anc[common] {
			common++
		}
		// fixed-budget partitions with fair keys are entered without RoundF
		need := 0
		for _, a := range anc[common:] {
			if a.fixed == 0 {
				need++
			}
		}
		if need != len(pending) {
			return false
		}
		pi := 0
		for _, a := range anc[common:] {
			if a.sampled {
				return false
			}
			a.sampled = true
			if a.fixed == 0 {
				if pending[pi] <= 0 {
					a.facF = math.Inf(1)
				} else {
					a.facF = float64(a.size) / pending[pi]
				}
				pi++
			}
		}
		pending = pending[:0]
		open = anc
		if leaf.sampled {
			return false
		}
		leaf.sampled = true
		leaf.isLeafEv = true
		leaf.facNum = ev.sum * ev.denom
		leaf.facDen = ev.budget
		if ev.budget <= 0 {
			leaf.facDen = 0
		}
		if ev.sum != leaf.size {
			return false
		}
	}
	return len(pending) == 0
}

// ---------- enumeration ----------

type c06MShape struct {
	fair  bool
	nkeys int
}

func (m c06MShape) leaves() int { return m.nkeys }

type c06Shape [][][]c06MShape // namespaces -> groups -> metrics

func (s c06Shape) leaves() int {
	n := 0
	for _, ns := range s {
		for _, g := range ns {
			for _, m := range g {
				n += m.leaves()
			}
		}
	}
	return n
}

func c06Shapes(maxLeaves int) []c06Shape {
	mvars := []c06MShape{{false, 1}, {true, 1}, {true, 2}}
	var groups [][]c06MShape
	for a := range mvars {
		groups = append(groups, []c06MShape{mvars[a]})
		for b := a; b < len(mvars); b++ { // unordered pairs: metric ids are labels only
			groups = append(groups, []c06MShape{mvars[a], mvars[b]})
		}
	}
	gl := func(g []c06MShape) int {
		n := 0
		for _, m := range g {
			n += m.leaves()
		}
		return n
	}
	var nss [][][]c06MShape
	for a := range groups {
		if gl(groups[a]) <= maxLeaves {
			nss = append(nss, [][]c06MShape{groups[a]})
		}
		for b := a; b < len(groups); b++ {
			if gl(groups[a])+gl(groups[b]) <= maxLeaves {
				nss = append(nss, [][]c06MShape{groups[a], groups[b]})
			}
		}
	}
	nl := func(ns [][]c06MShape) int {
		n := 0
		for _, g := range ns {
			n += gl(g)
		}
		return n
	}
	var out []c06Shape
	for a := range nss {
		out = append(out, c06Shape{nss[a]})
		for b := a; b < len(nss); b++ {
			if nl(nss[a])+nl(nss[b]) <= maxLeaves {
				out = append(out, c06Shape{nss[a], nss[b]})
			}
		}
	}
	return out
}

// c06Skeleton instantiates a shape with ids and default weights/sizes.
func c06Skeleton(s c06Shape) *c06Case {
	c := &c06Case{nsW: map[int32]int64{}, grW: map[int32]int64{}}
	for i, ns := range s {
		nsID := int32(i + 1)
		c.nsW[nsID] = 1
		for j, g := range ns {
			gID := nsID*10 + int32(j+1)
			c.grW[gID] = 1
			for k, m := range g {
				c.metrics = append(c.metrics, c06Metric{id: gID*10 + int32(k+1), ns: nsID, group: gID, weight: 1, fair: m.fair, rowSize: 1, keys: make([]int, m.nkeys)})
			}
		}
	}
	return c
}

// weight slots: nodes that have at least one sibling in the effective tree under the given flags.
type c06Slot struct {
	level int
	id    int32
}

func c06WeightSlots(c *c06Case) []c06Slot {
	rows := []c06Row{}
	// a tree without rows is enough to see the sibling structure
	saveKeys := c.sampleKeys
	c.sampleKeys = false
	root := c06BuildTree(nil, c, rows)
	c.sampleKeys = saveKeys
	var out []c06Slot
	var walk func(n *c06Node)
	walk = func(n *c06Node) {
		free := 0
		for _, k := range n.kids {
			if k.fixed == 0 {
				free++
			}
		}
		for _, k := range n.kids {
			if free > 1 && k.fixed == 0 {
				out = append(out, c06Slot{k.level, k.id})
			}
			walk(k)
		}
	}
	walk(root)
	return out
}

func (c *c06Case) setWeight(s c06Slot, w int64) {
	switch s.level {
	case c06LvlNS:
		c.nsW[s.id] = w
	case c06LvlGroup:
		c.grW[s.id] = w
	case c06LvlMetric:
		for i := range c.metrics {
			if c.metrics[i].id == s.id {
				c.metrics[i].weight = w
			}
		}
	}
}

// leaf size alphabet: (rows, rowSize). Rows of one metric share the row size so that the kept-size clause
// is decided on homogeneous rows (count-based selection cannot bound bytes of heterogeneous rows).
type c06Size struct{ rows, rowSize int }

func c06Parallel(n int, f func(i int)) {
	w := runtime.GOMAXPROCS(0)
	var wg sync.WaitGroup
	var next int64 = -1
	for k := 0; k < w; k++ {
		wg.Add(1)
		go func() {
			defer wg.Done()
			for {
				i := int(atomic.AddInt64(&next, 1))
				if i >= n {
					return
				}
				f(i)
			}
		}()
	}
	wg.Wait()
}

type c06Stats struct {
	mu         sync.Mutex
	execs      int64
	nontrivial int64
	undec      int64
	outcomes   map[string]struct{}
}

func (st *c06Stats) add(rep *mc.Report, execs, nontrivial, undec int64, outcomes map[string]struct{}) {
	st.mu.Lock()
	st.execs += execs
	st.nontrivial += nontrivial
	st.undec += undec
	for k := range outcomes {
		if _, ok := st.outcomes[k]; !ok {
			st.outcomes[k] = struct{}{}
			rep.Outcome(k)
		}
	}
	st.mu.Unlock()
}

// c06EnumSizes calls f for every assignment of leaf sizes to the metrics of c (in place).
func c06EnumSizes(c *c06Case, alpha []c06Size, f func()) {
	var rec func(mi int)
	rec = func(mi int) {
		if mi == len(c.metrics) {
			f()
			return
		}
		m := &c.metrics[mi]
		// all keys of a metric share the row size
		for _, rs := range c06RowSizes(alpha) {
			var opts []int
			for _, a := range alpha {
				if a.rowSize == rs {
					opts = append(opts, a.rows)
				}
			}
			if len(opts) == 0 {
				continue
			}
			m.rowSize = rs
			var rk func(k int)
			rk = func(k int) {
				if k == len(m.keys) {
					rec(mi + 1)
					return
				}
				for _, o := range opts {
					if k > 0 && o < m.keys[k-1] {
						continue // key values are labels: unordered
					}
					m.keys[k] = o
					rk(k + 1)
				}
			}
			rk(0)
		}
	}
	rec(0)
}

func c06RowSizes(alpha []c06Size) []int {
	var out []int
	for _, a := range alpha {
		dup := false
		for _, o := range out {
			if o == a.rowSize {
				dup = true
			}
		}
		if !dup {
			out = append(out, a.rowSize)
		}
	}
	return out
}

func c06EnumWeights(c *c06Case, slots []c06Slot, ws []int64, f func()) {
	var rec func(i int)
	rec = func(i int) {
		if i == len(slots) {
			f()
			return
		}
		for _, w := range ws {
			c.setWeight(slots[i], w)
			rec(i + 1)
		}
	}
	rec(0)
}

func c06Clone(c *c06Case) *c06Case {
	d := *c
	d.nsW = map[int32]int64{}
	d.grW = map[int32]int64{}
	for k, v := range c.nsW {
		d.nsW[k] = v
	}
	for k, v := range c.grW {
		d.grW[k] = v
	}
	d.metrics = make([]c06Metric, len(c.metrics))
	for i, m := range c.metrics {
		d.metrics[i] = m
		d.metrics[i].keys = append([]int{}, m.keys...)
	}
	return &d
}

var c06CountOnly = os.Getenv("VERIF_C06_COUNT") != ""
var c06CountMu sync.Mutex
var c06Counts = map[string]int64{}

func c06CountBy(fixed, quota, acct bool, leaves int) {
	c06CountMu.Lock()
	c06Counts[fmt.Sprintf("fixed=%v quota=%v accounted=%v leaves=%d", fixed, quota, acct, leaves)]++
	c06CountMu.Unlock()
}

func TestVerifC06(t *testing.T) {
	rep := mc.NewReport("C06")
	rep.Rule = "every hierarchy shape (1-2 namespaces x 1-2 groups x 1-2 metrics x plain / 1 / 2 fair-key values, unordered siblings) with at most L leaves, plus six wide shapes with three siblings at one level under every ordered weight triple; every leaf size from the alphabet (rows x row size); every weight from W for every node that has a sibling under the option flags; every budget; all 8 combinations of SampleNamespaces/SampleGroups/SampleKeys; plus one fixed-budget metric (SampleBudgets) and quota mode (SampleQuota, hosts with unequal reported sizes); plus the accounted-row family: 2-leaf (thorough also 3-leaf) cases again with rows of every metric in turn being rows of another metric (a built-in status metric or every other metric of the case) accounted to it, every single row or all of them, two presentation orders, all rows carrying the meta of their own key. Non-trivial = the bucket does not fit the budget and at least two metrics compete, so some partition is sampled while a sibling draws on the same parent budget"
	// row sizes are >= 2: a zero budget is clamped to 1 by the sampler, which would let exactly one 1-byte row
	// through (real rows are never 1 byte: the key alone is larger)
	sizes5 := []c06Size{{1, 2}, {2, 2}, {5, 2}, {1, 10}, {4, 10}}
	sizes3 := []c06Size{{1, 2}, {5, 2}, {4, 10}}
	sizes2 := []c06Size{{1, 2}, {4, 10}}
	w3 := []int64{1, 2, 3}
	w2 := []int64{1, 3}
	bFull := mc.Pick([]int64{0, 1, 4, 10, 20, 60, 20000}, []int64{0, 1, 2, 4, 6, 10, 14, 20, 24, 40, 50, 60, 80, 20000})
	bMid := mc.Pick([]int64{4, 10, 20, 24, 60}, []int64{0, 1, 4, 10, 20, 24, 60})
	bSmall := mc.Pick([]int64{10, 60}, []int64{2, 10, 20, 24, 60})
	type tier struct {
		leaves  int
		sizes   []c06Size
		weights []int64
		budgets []int64
	}
	sampleTiers := mc.Pick(
		[]tier{{1, sizes5, w3, bFull}, {2, sizes5, w3, bFull}, {3, sizes3, w2, bMid}, {4, sizes2, w2, bSmall}},
		[]tier{{1, sizes5, w3, bFull}, {2, sizes5, w3, bFull}, {3, sizes5, w3, bMid}, {4, sizes3, w2, bSmall}, {5, sizes2, w2, bSmall}})
	fixedBudgets := []uint32{2, 10, 60}
	bFixed := mc.Pick([]int64{10, 60}, []int64{2, 10, 24, 48, 60})
	fixedTiers := mc.Pick(
		[]tier{{1, sizes3, w2, bFixed}, {2, sizes3, w2, bFixed}, {3, sizes3, w2, bFixed}},
		[]tier{{1, sizes3, w2, bFixed}, {2, sizes3, w2, bFixed}, {3, sizes3, w2, bFixed}, {4, sizes2, w2, bFixed}})
	hosts9 := [][]int{{1}, {5}, {20}, {1, 2}, {2, 5}, {5, 20}, {5, 5}, {1, 2, 5}, {2, 5, 20}}
	hosts16 := append(append([][]int{}, hosts9...), []int{2}, []int{1, 20}, []int{20, 20}, []int{1, 1, 20}, []int{5, 5, 5}, []int{3, 7}, []int{3, 7, 20})
	hosts4 := [][]int{{5}, {1, 20}, {2, 5, 20}}
	bQuota := mc.Pick([]int64{0, 1, 5, 10, 30, 10000}, []int64{0, 1, 3, 5, 7, 10, 12, 30, 10000})
	bQuotaSmall := mc.Pick([]int64{5, 10, 30}, []int64{1, 5, 10, 12, 30})
	type qtier struct {
		leaves  int
		hosts   [][]int
		weights []int64
		budgets []int64
	}
	quotaTiers := mc.Pick(
		[]qtier{{1, hosts9, w2, bQuota}, {2, hosts9, w2, bQuota}, {3, hosts4, w2, bQuotaSmall}},
		[]qtier{{1, hosts16, w3, bQuota}, {2, hosts16, w3, bQuota}, {3, hosts9, w2, bQuotaSmall}})
	for _, tr := range sampleTiers {
		rep.Bounds[fmt.Sprintf("sample_mode_%d_leaves", tr.leaves)] = fmt.Sprintf("leaf sizes (rows x rowsize) %v, weights %v, budgets %v", tr.sizes, tr.weights, tr.budgets)
	}
	for _, tr := range fixedTiers {
		rep.Bounds[fmt.Sprintf("fixed_budget_mode_%d_leaves", tr.leaves)] = fmt.Sprintf("one metric with fixed budget from %v (SampleBudgets=true), leaf sizes %v, weights %v, budgets %v", fixedBudgets, tr.sizes, tr.weights, tr.budgets)
	}
	bAcct := mc.Pick([]int64{10, 20, 60}, []int64{4, 10, 20, 24, 60})
	acctTiers := mc.Pick(
		[]tier{{2, sizes3, w2, bAcct}},
		[]tier{{2, sizes5, w3, bAcct}, {3, sizes2, w2, []int64{10, 60}}})
	for _, tr := range acctTiers {
		rep.Bounds[fmt.Sprintf("accounted_row_family_%d_leaves", tr.leaves)] = fmt.Sprintf("base: every shape with %d leaves, leaf sizes %v, weights %v, budgets %v, all 8 level-flag combinations; x every target metric x own meta of the converted rows in {built-in-like status metric, every other metric of the case} x converted rows in {%s, all rows of the target} x presentation order {metric by metric, reversed}; every row carries the meta of its own Key.Metric", tr.leaves, tr.sizes, tr.weights, tr.budgets, map[bool]string{true: "every single row of the target in turn", false: "the first row, the last row"}[tr.leaves <= 2])
	}
	for _, tr := range quotaTiers {
		rep.Bounds[fmt.Sprintf("quota_mode_%d_leaves", tr.leaves)] = fmt.Sprintf("reported host sizes per leaf %v, weights %v, budgets %v", tr.hosts, tr.weights, tr.budgets)
	}
	rep.Assume("RoundF = floor and SelectF = int(len/sf) (the deterministic selector of the repository's own tests); the kept-size clause is decided on metrics whose rows have equal size >= 2, because selection counts rows and a zero budget is clamped to 1")
	rep.Assume("SampleKeepSingle, ModeAgent/noSampleAgent are off here (they keep rows beyond the budget by design; C05 covers them)")

	st := &c06Stats{outcomes: map[string]struct{}{}}
	var sampleMu sync.Mutex
	sampled := 0

	type job struct {
		shape                c06Shape
		ns, groups, keys     bool
		sizes                []c06Size
		hosts                [][]int
		weights              []int64
		budgets              []int64
		fixedMode, quotaMode bool
		acctMode             bool // accounted-row family over this base
		acctRows             bool // every single row of the target in turn (else: the first, the last, all)
		lane, lanes          int
	}
	var jobs []job
	addJob := func(j job) {
		j.lanes = 1
		if j.shape.leaves() >= 3 || j.acctMode {
			j.lanes = 8
		}
		for f := 0; f < 8; f++ {
			j.ns, j.groups, j.keys = f&1 != 0, f&2 != 0, f&4 != 0
			for l := 0; l < j.lanes; l++ {
				j.lane = l
				jobs = append(jobs, j)
			}
		}
	}
	// wide shapes: THREE siblings at one level (the recursive generator above stops at two), every ordered
	// weight triple of {1,2,3} for the sibling level
	P := c06MShape{false, 1}
	wide := []c06Shape{
		{{{P, P, P}}},                  // 3 metrics in one group
		{{{P}, {P}, {P}}},              // 3 groups in one namespace
		{{{P}}, {{P}}, {{P}}},          // 3 namespaces
		{{{c06MShape{true, 3}}}},       // 3 fair-key values in one metric
		{{{P, c06MShape{true, 2}, P}}}, // 3 metrics, the middle one with 2 fair-key values
		{{{P}, {P, P}, {P}}},           // 3 groups, the middle one with 2 metrics
	}
	wideSizes := mc.Pick(sizes3, sizes5)
	wideBudgets := mc.Pick([]int64{0, 4, 10, 20, 60, 20000}, bFull)
	rep.Bounds["sample_mode_wide_shapes"] = fmt.Sprintf("3 metrics in a group / 3 groups in a namespace / 3 namespaces / 3 fair-key values / 3 metrics one of them with 2 keys / 3 groups one of them with 2 metrics: leaf sizes %v, weights: all ordered triples over %v, budgets %v (the two 4-leaf shapes: sizes %v, budgets %v)", wideSizes, w3, wideBudgets, mc.Pick(sizes2, sizes3), mc.Pick([]int64{4, 20, 60}, wideBudgets))
	for i, sh := range wide {
		sz, bs := wideSizes, wideBudgets
		if i >= 4 { // 4 leaves: reduced size alphabet (and, in the quick tier, budgets)
			sz = mc.Pick(sizes2, sizes3)
			bs = mc.Pick([]int64{4, 20, 60}, wideBudgets)
		}
		addJob(job{shape: sh, sizes: sz, weights: w3, budgets: bs})
	}
	for _, tr := range sampleTiers {
		for _, sh := range c06Shapes(tr.leaves) {
			if sh.leaves() == tr.leaves {
				addJob(job{shape: sh, sizes: tr.sizes, weights: tr.weights, budgets: tr.budgets})
			}
		}
	}
	for _, tr := range fixedTiers {
		for _, sh := range c06Shapes(tr.leaves) {
			if sh.leaves() == tr.leaves {
				addJob(job{shape: sh, sizes: tr.sizes, weights: tr.weights, budgets: tr.budgets, fixedMode: true})
			}
		}
	}
	for _, tr := range quotaTiers {
		for _, sh := range c06Shapes(tr.leaves) {
			if sh.leaves() == tr.leaves {
				addJob(job{shape: sh, hosts: tr.hosts, weights: tr.weights, budgets: tr.budgets, quotaMode: true})
			}
		}
	}
	// accounted-row family (see c06Acct): every case of the base below x every target metric x the converted rows
	// carrying the meta of a built-in-like status metric or of every other metric of the case x which row of the
	// target is converted (every single one in turn, or all of them) x two presentation orders
	for _, tr := range acctTiers {
		for _, sh := range c06Shapes(tr.leaves) {
			if sh.leaves() == tr.leaves {
				addJob(job{shape: sh, sizes: tr.sizes, weights: tr.weights, budgets: tr.budgets, acctMode: true, acctRows: tr.leaves <= 2})
			}
		}
	}

	var undecFree atomic.Int64
	ctxs := make(chan *c06Ctx, 256)
	c06Parallel(len(jobs), func(ji int) {
		if mc.Expired() {
			rep.Cap("wall_budget")
			return
		}
		var x *c06Ctx
		select {
		case x = <-ctxs:
		default:
			x = c06NewCtx()
		}
		defer func() { ctxs <- x }()
		j := jobs[ji]
		base := c06Skeleton(j.shape)
		base.sampleNS, base.sampleGroups, base.sampleKeys = j.ns, j.groups, j.keys
		base.quota = j.quotaMode
		var execs, nontriv, undec, seq int64
		outcomes := map[string]struct{}{}
		runOne := func(c *c06Case) {
			seq++
			if int(seq%int64(j.lanes)) != j.lane {
				return
			}
			if c06CountOnly {
				execs++
				c06CountBy(j.fixedMode, j.quotaMode, j.acctMode, j.shape.leaves())
				return
			}
			r := c06RunCase(x, c)
			execs++
			if c.acct != nil && len(r.viol) > 0 {
				// attribute: a clause that holds for the same bucket when the converted rows are ordinary rows of the
				// target metric, and fails only because some rows are accounted rows carrying another metric's meta
				a := c.acct
				c.acct = nil
				r0 := c06RunCase(x, c)
				c.acct = a
				plain := map[string]bool{}
				for _, v := range r0.viol {
					plain[v.sig] = true
				}
				r = c06RunCase(x, c) // (row state of the ctx belongs to the last run)
				for i := range r.viol {
					if !plain[r.viol[i].sig] {
						r.viol[i].sig = "C06:accounted-row-meta-decides-partition:" + strings.TrimPrefix(r.viol[i].sig, "C06:")
					}
				}
			}
			if r.undec {
				undec++
				if len(r.viol) == 0 {
					// (with a clause-1 violation reported the log is expected not to fit: a partition was entered
					// although its budget covers it, so nothing beneath it reaches the row sampler)
					undecFree.Add(1)
				}
			}
			if r.sampled && len(c.metrics) > 1 {
				nontriv++
			}
			if _, ok := outcomes[r.outcome]; !ok {
				outcomes[r.outcome] = struct{}{}
			}
			for _, v := range r.viol {
				rep.Violate(v.sig, v.desc, map[string]any{"case": c.String()})
			}
			if r.sampled && len(c.metrics) > 1 && execs%9973 == 1 {
				sampleMu.Lock()
				if sampled < 8 {
					sampled++
					rep.Sample(map[string]any{"case": c.String(), "outcome": r.outcome})
				}
				sampleMu.Unlock()
			}
		}
		fixedOpts := []int{-1}
		if j.fixedMode {
			base.sampleBudgets = true
			fixedOpts = fixedOpts[:0]
			for mi := range base.metrics {
				fixedOpts = append(fixedOpts, mi)
			}
		}
		for _, fm := range fixedOpts {
			fbs := []uint32{0}
			if fm >= 0 {
				fbs = fixedBudgets
			}
			for _, fb := range fbs {
				c := c06Clone(base)
				if fm >= 0 {
					c.metrics[fm].fixed = fb
				}
				slots := c06WeightSlots(c)
				if j.quotaMode {
					// quota mode: explicit host sizes per leaf
					var rec func(mi, k int)
					rec = func(mi, k int) {
						if mi == len(c.metrics) {
							c06EnumWeights(c, slots, j.weights, func() {
								for _, b := range j.budgets {
									c.budget = b
									runOne(c)
								}
							})
							return
						}
						m := &c.metrics[mi]
						if k == 0 {
							m.rowSzQ = make([][]int, len(m.keys))
						}
						if k == len(m.keys) {
							rec(mi+1, 0)
							return
						}
						for _, hs := range j.hosts {
							m.rowSzQ[k] = hs
							rec(mi, k+1)
						}
					}
					rec(0, 0)
					continue
				}
				c06EnumSizes(c, j.sizes, func() {
					c06EnumWeights(c, slots, j.weights, func() {
						for _, b := range j.budgets {
							c.budget = b
							if !j.acctMode {
								runOne(c)
								continue
							}
							for ti := range c.metrics {
								nrows := 0
								for _, k := range c.metrics[ti].keys {
									nrows += k
								}
								for own := -1; own < len(c.metrics); own++ {
									if own == ti {
										continue
									}
									for row := -1; row < nrows; row++ {
										if row == 0 && nrows == 1 {
											continue // the only row: same as "all rows"
										}
										if !j.acctRows && row > 0 && row < nrows-1 {
											continue
										}
										for _, rev := range []bool{false, true} {
											c.acct = &c06Acct{target: ti, own: own, row: row, reverse: rev}
											runOne(c)
										}
									}
								}
							}
							c.acct = nil
						}
					})
				})
			}
		}
		st.add(rep, execs, nontriv, undec, outcomes)
	})
	rep.AddCounts(st.execs, st.execs, st.execs, st.nontrivial)
	rep.Bounds["jobs_shape_x_flags_x_lanes"] = len(jobs)
	rep.Bounds["clause4_not_evaluated_cases_already_reported_by_clause1"] = st.undec - undecFree.Load()
	if n := undecFree.Load(); n > 0 {
		rep.Cap(fmt.Sprintf("clause-4 (factor monotonicity) skipped in %d cases: event log did not fit the partition tree", n))
	}
	if err := rep.Write(); err != nil {
		t.Fatal(err)
	}
	if c06CountOnly {
		t.Logf("counts: %v", c06Counts)
	}
	t.Logf("C06: %d executions, %d non-trivial, %d outcomes, %d undecodable, violations=%d", st.execs, st.nontrivial, len(st.outcomes), st.undec, rep.NumViolations())
}
