//go:build verif

package data_model

// C07: string-top rows conserve totals and keep the heaviest values.
//
// Seam: the real MultiItem.MapStringTop / MapStringTopBytes (with the real resample) pick the sub-row of every event,
// the real MultiValue.AddCounterHost / AddValueCounterHost write it (what Shard.ApplyCounter / AddValueCounterHost do),
// the real MultiItem.FinishStringTop finalizes. Every random draw is owned by the explorer.
//
// Random draws. MapStringTop draws rng.Float64()*sf >= count (admission of a new value once the row was thinned) and
// resample draws rng.Intn(sf) per retained value with count < sf and keeps it iff count > draw. The code only
// compares a draw with the value's count, so the outcomes of a draw are its two classes (admit/reject, keep/evict);
// the hook answers with a representative of the chosen class (0 resp. the largest value). resample iterates over a Go
// map, i.e. in an order the program cannot control, so "the i-th draw" does not identify a value. To keep executions
// reproducible the explorer decides keep/evict PER VALUE (in sorted key order) at the start of a pass; the hook
// answers the draws following a guessed iteration order, and the step is verified afterwards: if the values evicted
// are not the planned ones (wrong guess) the step is redone on a deep copy of the row as it was before the step, with
// the next guess (same decisions). A step therefore always ends in exactly the planned outcome, every combination of per-value
// outcomes is reached, and replays are identical. Beyond sample factor 2^maxFreeLog2 the plan is pinned to "evict"
// (otherwise the loop `for len(Top) >= capacity { resample }` has unboundedly deep branches of vanishing probability).
//
// One row object per history. The row lives through the whole history exactly as in production: every event is
// applied to the same *MultiItem (attempt 0 of a step runs on the live object), so any private per-row state the code
// keeps between calls (lookup memos, cursors, caches) takes part in the following events; histories write values again
// after they were evicted into the tail. The copy that is put aside before a step for the (rare) retry is a reflective
// deep copy of EVERY field with pointer aliasing preserved (c07Clone), not a list of the fields known today; it is
// self-tested before the exploration.
//
// Oracle (the statement, nothing more): after every event, count, sum, min and max over retained values plus tail equal
// the fold of all events written; after FinishStringTop(n) at most max(n,0) values remain, every retained value is
// at least as heavy (count) as every value that finalization folded into the tail, and the totals are still conserved.

import (
	"fmt"
	"math"
	"reflect"
	"sort"
	"strings"
	"sync"
	"testing"
	"unsafe"

	"github.com/hrissan/tdigest"
	"pgregory.net/rand"

	"github.com/VKCOM/statshouse/internal/verif/mc"
)

type c07Kind struct {
	Name     string
	Count    float64
	HasValue bool
	Value    float64
}

var c07Kinds = []c07Kind{
	{Name: "c1", Count: 1},
	{Name: "c3v-2", Count: 3, HasValue: true, Value: -2},
	{Name: "c3", Count: 3},
	{Name: "c1v5", Count: 1, HasValue: true, Value: 5},
	// fractional weights (sampled / fractional counters). 2.25 and 2.75 differ by less than 1, 0.5 moves a value by
	// less than 1 (2.25+0.5 = 2.75 ties, 2.75+0.5 = 3.25, 1+2.25 = 3.25, ...), so distinct top values end up with
	// weights closer than 1.0 on both sides of every cut n. All are dyadic, so sums stay exact in float64.
	{Name: "c0.5v5", Count: 0.5, HasValue: true, Value: 5},
	{Name: "c2.25", Count: 2.25},
	{Name: "c2.75", Count: 2.75},
}

// Key forms: first use / later uses. A mapped value (I != 0) has priority over its string, so {7,""} and {7,"x"}
// must be one retained value, as must {9,"y"} and {9,""}.
var c07KeyFirst = []TagUnion{{}, {S: "a"}, {I: 7}, {S: "c"}, {I: 9, S: "y"}}
var c07KeyLater = []TagUnion{{}, {S: "a"}, {I: 7, S: "x"}, {S: "c"}, {I: 9}}
var c07KeyNames = []string{"-", "a", "#7", "c", "#9"}

type c07Ev struct {
	Key   int // 0 = no top value (tail), 1..4
	First bool
	Kind  int
}

func c07Describe(evs []c07Ev) string {
	var s []string
	for _, e := range evs {
		s = append(s, c07KeyNames[e.Key]+":"+c07Kinds[e.Kind].Name)
	}
	return "[" + strings.Join(s, " ") + "]"
}

// ---------- draws ----------

type c07Hook struct {
	x           *mc.Exec
	maxFreeLog2 int

	// per step (one MapStringTop call), kept across retries
	decisions []int
	// per attempt
	item      *MultiItem
	attempt   int
	decPos    int
	passLog2  int
	passIdx   int
	plan      map[TagUnion]bool
	order     []TagUnion
	drawIdx   int
	expectTop map[TagUnion]bool
	bad       bool
	// statistics of the execution
	admissionDraws, evictionDraws, passes int
}

func (h *c07Hook) beginStep() { h.decisions = h.decisions[:0] }

func (h *c07Hook) beginAttempt(item *MultiItem, attempt int) {
	h.item, h.attempt, h.decPos, h.passLog2, h.passIdx, h.drawIdx, h.bad = item, attempt, 0, 0, 0, 0, false
	h.plan, h.order, h.expectTop = nil, nil, nil
}

func (h *c07Hook) decide(n int, label string) int {
	if h.decPos < len(h.decisions) {
		c := h.decisions[h.decPos]
		h.decPos++
		return c
	}
	c := h.x.ChooseFree(n, label)
	h.decisions = append(h.decisions, c)
	h.decPos++
	return c
}

func (h *c07Hook) Float64() float64 {
	if h.attempt == 0 {
		h.admissionDraws++
	}
	if h.decide(2, "admission draw: admit/reject") == 0 {
		return 0 // 0*sf >= count is false for count > 0: admitted
	}
	return math.Nextafter(1, 0) // rejected unless count >= sf (then the new value is admitted with probability 1)
}

func c07SortKeys(keys []TagUnion) {
	sort.Slice(keys, func(i, j int) bool {
		if keys[i].I != keys[j].I {
			return keys[i].I < keys[j].I
		}
		return keys[i].S < keys[j].S
	})
}

func (h *c07Hook) checkPass() {
	if h.passLog2 == 0 || h.bad {
		return
	}
	if h.drawIdx != len(h.order) {
		h.bad = true
		return
	}
	for k := range h.expectTop {
		if _, ok := h.item.Top[k]; !ok {
			h.bad = true
		}
	}
	for k, evict := range h.plan {
		if _, ok := h.item.Top[k]; ok && evict {
			h.bad = true
		}
	}
}

func c07Perm(keys []TagUnion, idx int) []TagUnion {
	rest := append([]TagUnion{}, keys...)
	var out []TagUnion
	for n := len(rest); n > 0; n-- {
		i := idx % n
		idx /= n
		out = append(out, rest[i])
		rest = append(rest[:i], rest[i+1:]...)
	}
	return out
}

func c07Fact(n int) int {
	f := 1
	for i := 2; i <= n; i++ {
		f *= i
	}
	return f
}

func (h *c07Hook) Uint64n(n uint64) uint64 {
	log2 := h.item.sampleFactorLog2
	if log2 != h.passLog2 { // first draw of a new resample pass
		h.checkPass()
		h.passLog2 = log2
		h.drawIdx = 0
		if !h.bad {
			if h.attempt == 0 {
				h.passes++
			}
			var eligible []TagUnion
			for k, v := range h.item.Top {
				if v.Value.Count() < float64(n) {
					eligible = append(eligible, k)
				}
			}
			c07SortKeys(eligible)
			h.plan = map[TagUnion]bool{}
			h.expectTop = map[TagUnion]bool{}
			for k := range h.item.Top {
				h.expectTop[k] = true
			}
			for _, k := range eligible {
				evict := true
				cnt := h.item.Top[k].Value.Count()
				// draws are 0..n-1 and a value is kept iff count > draw: a value with count <= 0 is evicted by every
				// draw, one with n-1 < count < n is kept by every draw (fractional counts): no choice to make
				switch {
				case cnt > float64(n-1):
					evict = false
				case cnt <= 0:
					evict = true
				case log2 <= h.maxFreeLog2:
					if h.attempt == 0 {
						h.evictionDraws++
					}
					evict = h.decide(2, "eviction draw: keep/evict") == 1
				}
				h.plan[k] = evict
				if evict {
					delete(h.expectTop, k)
				}
			}
			// guessed iteration order: a different permutation per attempt, all combinations over the passes
			div := 1
			for i := 0; i < h.passIdx; i++ {
				div *= 6
			}
			h.order = c07Perm(eligible, (h.attempt/div)%c07Fact(len(eligible)))
			h.passIdx++
		}
	}
	if h.bad || h.drawIdx >= len(h.order) {
		h.bad = true
		return n - 1
	}
	k := h.order[h.drawIdx]
	h.drawIdx++
	if h.plan[k] {
		return n - 1 // planned only for count <= n-1, so count > n-1 is false: evicted
	}
	return 0 // count > 0: kept
}

func (h *c07Hook) Uint64() uint64 { return 0 }

// ---------- row copies and observation ----------

// c07Clone is a faithful deep copy of a row: EVERY field of MultiItem is copied, named or not (a copy that lists the
// fields it knows silently resets any other per-row state the row carries between calls - lookup memos, cursors,
// caches - and the exploration then never sees what that state does to later events). Everything the row owns
// (structs, maps, slices, pointers to types of this package and of tdigest) is duplicated; pointer aliasing inside the
// row is preserved: two pointers to the same sub-row, a pointer to a value of Top, a pointer into the row itself
// (&row.Tail) or into the middle of a value point, in the copy, to the corresponding place of the copy. Pointers to
// types of other packages (MetricMeta) are descriptors the row does not own and stay shared.
func c07Clone(it *MultiItem) *MultiItem {
	return (*MultiItem)(c07DeepCopy(unsafe.Pointer(it), reflect.TypeOf(*it)))
}

func c07DeepCopy(src unsafe.Pointer, t reflect.Type) unsafe.Pointer {
	c := reflect.New(t).UnsafePointer()
	cl := c07Cloner{ranges: make([]c07Range, 0, 8), slots: make([]c07Slot, 0, 8), topSlots: make([]c07TopSlot, 0, 4)}
	cl.ranges = append(cl.ranges, c07Range{old: uintptr(src), size: t.Size(), new: c})
	cl.copyInto(c, src, t)
	// a pointer into the middle of an allocation that was copied only later was given a separate copy: redirect it
	for _, s := range cl.slots {
		if np := cl.translate(s.old); np != nil && np != *s.dst {
			*s.dst = np
		}
	}
	for _, s := range cl.topSlots {
		if np := (*MultiValue)(cl.translate(s.old)); np != nil && np != s.m[s.k] {
			s.m[s.k] = np
		}
	}
	for _, s := range cl.mapSlots {
		if np := cl.translate(s.old); np != nil && np != s.m.MapIndex(s.k).UnsafePointer() {
			s.m.SetMapIndex(s.k, reflect.NewAt(s.m.Type().Elem().Elem(), np))
		}
	}
	return c
}

// c07CloneProbe / c07CloneSelfTest: the copy procedure is part of the trusted base of this check, so it is tested on a
// row-like struct with every kind of private state it claims to preserve (unexported scalar, pointer to a map value,
// pointer to the embedded tail, pointer into the middle of a map value declared BEFORE the map, slice, shared foreign
// descriptor) before the exploration starts.
type c07CloneProbe struct {
	mid    *ItemValue // into the middle of *top["x"], seen before the map
	top    map[TagUnion]*MultiValue
	tail   MultiValue
	n      int
	last   *MultiValue
	toTail *MultiValue
	tags   []TagUnion
	meta   *testing.T
}

func c07CloneSelfTest(t *testing.T) {
	x, y := &MultiValue{}, &MultiValue{}
	x.Value.counter = 3
	y.HLL.Insert(17)
	p := &c07CloneProbe{top: map[TagUnion]*MultiValue{{S: "x"}: x, {I: 5}: y}, n: 42, last: x, tags: []TagUnion{{S: "q"}}, meta: t}
	p.mid, p.toTail = &x.Value, &p.tail
	c := (*c07CloneProbe)(c07DeepCopy(unsafe.Pointer(p), reflect.TypeOf(*p)))
	cx, cy := c.top[TagUnion{S: "x"}], c.top[TagUnion{I: 5}]
	switch {
	case c == p || cx == nil || cy == nil || cx == x || cy == y || len(c.top) != 2:
		t.Fatal("C07 harness: deep copy shares the row or its top values")
	case c.n != 42 || cx.Value.Count() != 3 || cy.HLL.ItemsCount() != 1 || len(c.tags) != 1 || c.tags[0].S != "q" || &c.tags[0] == &p.tags[0]:
		t.Fatal("C07 harness: deep copy lost a field")
	case c.last != cx || c.toTail != &c.tail || c.mid != &cx.Value || c.meta != t:
		t.Fatal("C07 harness: deep copy does not preserve pointer aliasing inside the row")
	}
	cy.HLL.Insert(18)
	cx.Value.counter++
	if y.HLL.ItemsCount() != 1 || x.Value.Count() != 3 {
		t.Fatal("C07 harness: deep copy shares storage with the original")
	}
}

type c07Range struct {
	old  uintptr
	size uintptr
	new  unsafe.Pointer
}

type c07Slot struct {
	dst *unsafe.Pointer
	old uintptr
}

// map values are stored by value: a pointer stored in a map is redirected through the map
type c07MapSlot struct {
	m, k reflect.Value
	old  uintptr
}

type c07TopSlot struct {
	m   map[TagUnion]*MultiValue
	k   TagUnion
	old uintptr
}

var c07TopType = reflect.TypeOf(map[TagUnion]*MultiValue(nil))

type c07Cloner struct {
	ranges   []c07Range
	slots    []c07Slot
	mapSlots []c07MapSlot
	topSlots []c07TopSlot
	maps     []c07MapCopy
}

type c07MapCopy struct {
	old unsafe.Pointer
	new reflect.Value
}

func (cl *c07Cloner) mapCopy(old unsafe.Pointer) (reflect.Value, bool) {
	for _, m := range cl.maps {
		if m.old == old {
			return m.new, true
		}
	}
	return reflect.Value{}, false
}

var c07HasPtrCache sync.Map // reflect.Type -> bool
var c07OwnPkgs = map[string]bool{reflect.TypeOf(MultiItem{}).PkgPath(): true, reflect.TypeOf(tdigest.TDigest{}).PkgPath(): true}

// c07HasPtr: does a value of type t contain anything that must be duplicated (pointer, map, slice)? Strings are
// immutable, interfaces/funcs/channels are shared.
func c07HasPtr(t reflect.Type) bool {
	if v, ok := c07HasPtrCache.Load(t); ok {
		return v.(bool)
	}
	r := false
	switch t.Kind() {
	case reflect.Ptr, reflect.Map, reflect.Slice:
		r = true
	case reflect.Array:
		r = t.Len() > 0 && c07HasPtr(t.Elem())
	case reflect.Struct:
		for i := 0; i < t.NumField(); i++ {
			if c07HasPtr(t.Field(i).Type) {
				r = true
				break
			}
		}
	}
	c07HasPtrCache.Store(t, r)
	return r
}

type c07Field struct {
	off uintptr
	typ reflect.Type
}

var c07PtrFieldsCache sync.Map // reflect.Type -> []c07Field

func c07PtrFields(t reflect.Type) []c07Field {
	if v, ok := c07PtrFieldsCache.Load(t); ok {
		return v.([]c07Field)
	}
	var fs []c07Field
	for i := 0; i < t.NumField(); i++ {
		if f := t.Field(i); f.Type.Size() != 0 && c07HasPtr(f.Type) {
			fs = append(fs, c07Field{off: f.Offset, typ: f.Type})
		}
	}
	c07PtrFieldsCache.Store(t, fs)
	return fs
}

// translate maps an address inside an allocation that was copied to the same place of the copy (outermost allocation).
func (cl *c07Cloner) translate(p uintptr) unsafe.Pointer {
	var best *c07Range
	for i := range cl.ranges {
		r := &cl.ranges[i]
		if p >= r.old && p < r.old+r.size && (best == nil || r.size > best.size) {
			best = r
		}
	}
	if best == nil {
		return nil
	}
	return unsafe.Add(best.new, p-best.old)
}

func (cl *c07Cloner) copyInto(dst, src unsafe.Pointer, t reflect.Type) {
	if t.Size() == 0 {
		return
	}
	if !c07HasPtr(t) {
		reflect.NewAt(t, dst).Elem().Set(reflect.NewAt(t, src).Elem())
		return
	}
	switch t.Kind() {
	case reflect.Struct:
		// everything at once (all fields, whatever they are called), then the parts that have to be duplicated
		reflect.NewAt(t, dst).Elem().Set(reflect.NewAt(t, src).Elem())
		for _, f := range c07PtrFields(t) {
			cl.copyInto(unsafe.Add(dst, f.off), unsafe.Add(src, f.off), f.typ)
		}
	case reflect.Array:
		es := t.Elem().Size()
		for i := 0; i < t.Len(); i++ {
			cl.copyInto(unsafe.Add(dst, uintptr(i)*es), unsafe.Add(src, uintptr(i)*es), t.Elem())
		}
	case reflect.Ptr:
		p := *(*unsafe.Pointer)(src)
		et := t.Elem()
		if p == nil || (et.PkgPath() != "" && !c07OwnPkgs[et.PkgPath()]) || et.Size() == 0 {
			*(*unsafe.Pointer)(dst) = p // nil, or a descriptor the row does not own: shared
			return
		}
		cl.slots = append(cl.slots, c07Slot{dst: (*unsafe.Pointer)(dst), old: uintptr(p)})
		if np := cl.translate(uintptr(p)); np != nil {
			*(*unsafe.Pointer)(dst) = np
			return
		}
		nv := reflect.New(et)
		np := nv.UnsafePointer()
		cl.ranges = append(cl.ranges, c07Range{old: uintptr(p), size: et.Size(), new: np})
		*(*unsafe.Pointer)(dst) = np
		cl.copyInto(np, p, et)
	case reflect.Map:
		if t == c07TopType { // same as the general case below, without reflection (this map is nearly all of the cost)
			sm := *(*map[TagUnion]*MultiValue)(src)
			if sm == nil {
				return
			}
			mp := reflect.NewAt(t, src).Elem().UnsafePointer()
			if m, ok := cl.mapCopy(mp); ok {
				reflect.NewAt(t, dst).Elem().Set(m)
				return
			}
			tm := make(map[TagUnion]*MultiValue, len(sm))
			for k, v := range sm {
				if v != nil {
					nv := (*MultiValue)(cl.translate(uintptr(unsafe.Pointer(v))))
					if nv == nil {
						nv = &MultiValue{}
						cl.ranges = append(cl.ranges, c07Range{old: uintptr(unsafe.Pointer(v)), size: unsafe.Sizeof(*v), new: unsafe.Pointer(nv)})
						cl.copyInto(unsafe.Pointer(nv), unsafe.Pointer(v), c07TopType.Elem().Elem())
					}
					tm[k] = nv
					cl.topSlots = append(cl.topSlots, c07TopSlot{m: tm, k: k, old: uintptr(unsafe.Pointer(v))})
				} else {
					tm[k] = nil
				}
			}
			*(*map[TagUnion]*MultiValue)(dst) = tm
			cl.maps = append(cl.maps, c07MapCopy{old: mp, new: reflect.ValueOf(tm)})
			return
		}
		sv := reflect.NewAt(t, src).Elem()
		dv := reflect.NewAt(t, dst).Elem()
		if sv.IsNil() {
			dv.Set(sv)
			return
		}
		if m, ok := cl.mapCopy(sv.UnsafePointer()); ok {
			dv.Set(m)
			return
		}
		m := reflect.MakeMapWithSize(t, sv.Len())
		cl.maps = append(cl.maps, c07MapCopy{old: sv.UnsafePointer(), new: m})
		dv.Set(m)
		vt := t.Elem()
		for it := sv.MapRange(); it.Next(); {
			so := reflect.New(vt)
			so.Elem().Set(it.Value())
			do := reflect.New(vt)
			cl.copyInto(do.UnsafePointer(), so.UnsafePointer(), vt)
			m.SetMapIndex(it.Key(), do.Elem()) // keys are values (TagUnion): shared strings are immutable
			if vt.Kind() == reflect.Ptr && !so.Elem().IsNil() {
				cl.mapSlots = append(cl.mapSlots, c07MapSlot{m: m, k: it.Key(), old: uintptr(so.Elem().UnsafePointer())})
			}
		}
	case reflect.Slice:
		sv := reflect.NewAt(t, src).Elem()
		dv := reflect.NewAt(t, dst).Elem()
		if sv.IsNil() {
			dv.Set(sv)
			return
		}
		ns := reflect.MakeSlice(t, sv.Len(), sv.Cap())
		et := t.Elem()
		if !c07HasPtr(et) {
			reflect.Copy(ns, sv)
		} else {
			for i := 0; i < sv.Len(); i++ {
				cl.copyInto(ns.Index(i).Addr().UnsafePointer(), sv.Index(i).Addr().UnsafePointer(), et)
			}
		}
		dv.Set(ns)
	default:
		reflect.NewAt(t, dst).Elem().Set(reflect.NewAt(t, src).Elem())
	}
}

type c07Totals struct {
	Count, Sum, Min, Max float64
	ValueSet             bool
}

func (t *c07Totals) addRow(v *ItemValue) {
	t.Count += v.Count()
	if v.ValueSet {
		t.Sum += v.ValueSum
		if !t.ValueSet || v.ValueMin < t.Min {
			t.Min = v.ValueMin
		}
		if !t.ValueSet || v.ValueMax > t.Max {
			t.Max = v.ValueMax
		}
		t.ValueSet = true
	}
}

func c07Observe(it *MultiItem) c07Totals {
	var t c07Totals
	t.addRow(&it.Tail.Value)
	for _, v := range it.Top {
		t.addRow(&v.Value)
	}
	return t
}

func c07StateKey(it *MultiItem) string {
	keys := make([]TagUnion, 0, len(it.Top))
	for k := range it.Top {
		keys = append(keys, k)
	}
	c07SortKeys(keys)
	var sb strings.Builder
	fmt.Fprintf(&sb, "sf%d tail=%v/%v", it.sampleFactorLog2, it.Tail.Value.Count(), it.Tail.Value.ValueSum)
	for _, k := range keys {
		v := it.Top[k]
		fmt.Fprintf(&sb, " %d%s=%v/%v", k.I, k.S, v.Value.Count(), v.Value.ValueSum)
	}
	return sb.String()
}

func c07Compare(where string, got, want c07Totals) (string, string) {
	switch {
	case got.Count != want.Count:
		return "C07:count-not-conserved", fmt.Sprintf("%s: retained values + tail hold count %v, events written %v", where, got.Count, want.Count)
	case got.ValueSet != want.ValueSet:
		return "C07:value-presence-not-conserved", fmt.Sprintf("%s: retained values + tail have a value: %v, events written: %v", where, got.ValueSet, want.ValueSet)
	case !want.ValueSet:
		return "", ""
	case got.Sum != want.Sum:
		return "C07:sum-not-conserved", fmt.Sprintf("%s: retained values + tail hold sum %v, events written %v", where, got.Sum, want.Sum)
	case got.Min != want.Min:
		return "C07:min-not-conserved", fmt.Sprintf("%s: min over retained values + tail %v, over events written %v", where, got.Min, want.Min)
	case got.Max != want.Max:
		return "C07:max-not-conserved", fmt.Sprintf("%s: max over retained values + tail %v, over events written %v", where, got.Max, want.Max)
	}
	return "", ""
}

// c07FinishOrderDependent runs the real FinishStringTop(n) on copies of the row whose Top map was filled in every
// insertion order (Go iterates a small map in insertion order rotated by a random offset, offset 0 being the most
// likely), c07OrderTrials times each, and reports whether any run retains a value strictly lighter (exact float64
// comparison) than one it folds. FinishStringTop collects the values by ranging over the map, so an ordering that
// treats close weights as equal shows only for some iteration orders; correct code passes for all of them.
const c07OrderTrials = 6

func c07FinishOrderDependent(item *MultiItem, n int, rng *rand.Rand) bool {
	keys := make([]TagUnion, 0, len(item.Top))
	for k := range item.Top {
		keys = append(keys, k)
	}
	c07SortKeys(keys)
	for p := 0; p < c07Fact(len(keys)); p++ {
		order := c07Perm(keys, p)
		for trial := 0; trial < c07OrderTrials; trial++ {
			fin := &MultiItem{Tail: item.Tail, sampleFactorLog2: item.sampleFactorLog2, SF: item.SF}
			fin.Top = map[TagUnion]*MultiValue{}
			for _, k := range order {
				vv := *item.Top[k]
				fin.Top[k] = &vv
			}
			fin.FinishStringTop(rng, n)
			minRetained, maxFolded := math.Inf(1), math.Inf(-1)
			for _, k := range keys {
				c := item.Top[k].Value.Count()
				if _, ok := fin.Top[k]; ok {
					minRetained = math.Min(minRetained, c)
				} else {
					maxFolded = math.Max(maxFolded, c)
				}
			}
			if minRetained < maxFolded {
				return true
			}
		}
	}
	return false
}

func c07SortedWeights(m map[TagUnion]float64) []float64 {
	out := make([]float64, 0, len(m))
	for _, c := range m {
		out = append(out, c)
	}
	sort.Float64s(out)
	return out
}

// ---------- one execution ----------

type c07Stats struct {
	mu         sync.Mutex
	states     map[uint64]struct{}
	outcomes   map[uint64]struct{}
	nontrivial int64
	passes     int64
	admissions int64
	evictions  int64
	retries    int64
	bySig      map[string]int64
	admitted   map[string]map[string]bool
}

// mc07Admit limits the violations handed to the explorer to 3 distinct choice sequences per signature: the explorer
// re-runs every violating execution 5 times before it drops repeats of a signature, and a defect can make a large
// share of the executions violate. Further violating executions are only counted (violating_executions; the few
// executions the explorer runs twice - once while cutting the tree into work units - are counted twice).
// Confirmation replays (traced runs: x.Labels filled) and re-executions of an admitted choice sequence are never
// suppressed, so a reported example always replays identically.
func mc07Admit(x *mc.Exec, sig string, bySig map[string]int64, admitted map[string]map[string]bool, mu *sync.Mutex) bool {
	if len(x.Labels) != 0 {
		return true
	}
	key := fmt.Sprint(x.Choices)
	mu.Lock()
	defer mu.Unlock()
	if admitted[sig][key] {
		return true
	}
	bySig[sig]++
	if len(admitted[sig]) >= 3 {
		return false
	}
	if admitted[sig] == nil {
		admitted[sig] = map[string]bool{}
	}
	admitted[sig][key] = true
	return true
}

func c07Body(x *mc.Exec, maxLen int, kinds []int, caps []int, maxFreeLog2 int, st *c07Stats) mc.Verdict {
	capacity := caps[x.ChooseFree(len(caps), "capacity")]
	useBytes := x.ChooseFree(2, "MapStringTop/MapStringTopBytes") == 1
	c07Scratch := make([]byte, 0, 64) // the "receive buffer" of this execution, reused by every MapStringTopBytes call
	hook := &c07Hook{x: x, maxFreeLog2: maxFreeLog2}
	rng := rand.New(1)
	rng.Hook = hook
	var bm MultiItemMap
	key := Key{Timestamp: 1_700_000_000, Metric: 77}
	item, _ := bm.GetOrCreateMultiItem(&key, nil, nil)
	var evs []c07Ev
	var want c07Totals
	used := 0 // number of distinct non-empty keys used so far
	var states []string
	fail := func(sig, msg string) mc.Verdict {
		desc := fmt.Sprintf("%s | capacity=%d bytesAPI=%v events=%s", msg, capacity, useBytes, c07Describe(evs))
		if !mc07Admit(x, sig, st.bySig, st.admitted, &st.mu) {
			return mc.Verdict{}
		}
		return mc.Verdict{Sig: sig, Violation: desc, Detail: map[string]any{"events": c07Describe(evs), "capacity": capacity, "bytes_api": useBytes, "row_before_failure": states}}
	}
	retries := 0
	for i := 0; i < maxLen; i++ {
		// key options: tail, any key already used, the next new key
		nKeys := 1 + used
		if used < 4 {
			nKeys++
		}
		n := nKeys * len(kinds)
		if i > 0 {
			n++ // 0 = stop
		}
		c := x.ChooseFree(n, "event")
		if i > 0 {
			if c == 0 {
				break
			}
			c--
		}
		ev := c07Ev{Key: c / len(kinds), Kind: kinds[c%len(kinds)]}
		if ev.Key > used {
			ev.First = true
			used++
		}
		evs = append(evs, ev)
		kd := c07Kinds[ev.Kind]
		tag := c07KeyLater[ev.Key]
		if ev.First {
			tag = c07KeyFirst[ev.Key]
		}
		// the step: real MapStringTop on THE row object, which lives through the whole history as in production, so
		// that whatever private state the row carries from call to call takes part. A faithful deep copy (every
		// field, aliasing preserved) is put aside first; only if the evictions realised are not the planned ones
		// (wrong iteration-order guess) the step is redone on a copy of that copy, which then is the row from there on
		hook.beginStep()
		backup := c07Clone(item)
		var mv *MultiValue
		for attempt := 0; ; attempt++ {
			if attempt > 5000 {
				panic(mc.Divergence{Msg: "C07 harness: no iteration-order guess realised the planned evictions for " + c07Describe(evs)})
			}
			if attempt > 0 {
				item = c07Clone(backup)
			}
			hook.beginAttempt(item, attempt)
			if useBytes {
				// the caller owns the bytes (receivers and the aggregator parse the next packet into the
				// same buffer): hand them over in a scratch buffer that is overwritten after the call
				scratch := append(c07Scratch[:0], tag.S...)
				mv = item.MapStringTopBytes(rng, capacity, TagUnionBytes{S: scratch, I: tag.I}, kd.Count)
				for i := range scratch {
					scratch[i] = 0xEE
				}
			} else {
				mv = item.MapStringTop(rng, capacity, tag, kd.Count)
			}
			hook.checkPass()
			if !hook.bad {
				break
			}
			retries++
		}
		if kd.HasValue {
			mv.AddValueCounterHost(rng, kd.Value, kd.Count, TagUnion{})
			want.Sum += kd.Value * kd.Count
			if !want.ValueSet || kd.Value < want.Min {
				want.Min = kd.Value
			}
			if !want.ValueSet || kd.Value > want.Max {
				want.Max = kd.Value
			}
			want.ValueSet = true
		} else {
			mv.AddCounterHost(rng, kd.Count, TagUnion{})
		}
		want.Count += kd.Count
		// the row owns its keys: every key of Top is still found under itself (a key that aliases the
		// caller's buffer changes when the buffer is reused, and the entry can no longer be looked up or deleted)
		for k := range item.Top {
			if v, ok := item.Top[k]; !ok || v == nil {
				return fail("C07:top-key-does-not-own-its-string", fmt.Sprintf("after event %d: top value key {%d %q} is in the row but cannot be looked up (the key changed after it was stored: it aliases the bytes the caller passed to MapStringTopBytes)", i+1, k.I, k.S))
			}
		}
		states = append(states, c07StateKey(item))
		if sig, msg := c07Compare(fmt.Sprintf("after event %d", i+1), c07Observe(item), want); sig != "" {
			return fail(sig, msg)
		}
	}
	// finalization, for every n, on deep copies of the final row
	hook.beginStep()
	finalKey := c07StateKey(item)
	for _, n := range []int{-1, 0, 1, 2, 3} {
		fin := c07Clone(item)
		hook.beginAttempt(fin, 0)
		before := map[TagUnion]float64{}
		for k, v := range fin.Top {
			before[k] = v.Value.Count()
		}
		fin.FinishStringTop(rng, n)
		limit := n
		if limit < 0 {
			limit = 0
		}
		if len(fin.Top) > limit {
			return fail("C07:finish-keeps-too-many", fmt.Sprintf("FinishStringTop(%d) leaves %d top values", n, len(fin.Top)))
		}
		minRetained, maxFolded := math.Inf(1), math.Inf(-1)
		for k, c := range before {
			if _, ok := fin.Top[k]; ok {
				minRetained = math.Min(minRetained, c)
			} else {
				maxFolded = math.Max(maxFolded, c)
			}
		}
		if minRetained < maxFolded || (n > 0 && n < len(before) && c07FinishOrderDependent(item, n, rng)) {
			// The message names only n and the weights: which value is wrongly retained can depend on the map
			// iteration order inside FinishStringTop, the message must not (replays have to be identical).
			return fail("C07:finish-keeps-lighter-than-folded", fmt.Sprintf("FinishStringTop(%d) over top values of weights %v retains a value that is lighter than one it folds into the tail", n, c07SortedWeights(before)))
		}
		for k := range fin.Top {
			if _, ok := before[k]; !ok {
				return fail("C07:finish-invents-value", fmt.Sprintf("FinishStringTop(%d) leaves a top value that was not there", n))
			}
		}
		if sig, msg := c07Compare(fmt.Sprintf("after FinishStringTop(%d)", n), c07Observe(fin), want); sig != "" {
			return fail(sig, msg)
		}
	}
	hs := make([]uint64, len(states))
	for i, s := range states {
		hs[i] = mc.Hash(fmt.Sprintf("cap%d ", capacity) + s)
	}
	st.mu.Lock()
	for _, h := range hs {
		st.states[h] = struct{}{}
	}
	st.outcomes[mc.Hash(finalKey)] = struct{}{}
	if hook.passes > 0 || hook.admissionDraws > 0 {
		st.nontrivial++
	}
	st.passes += int64(hook.passes)
	st.admissions += int64(hook.admissionDraws)
	st.evictions += int64(hook.evictionDraws)
	st.retries += int64(retries)
	st.mu.Unlock()
	return mc.Verdict{}
}

func TestVerifC07(t *testing.T) {
	c07CloneSelfTest(t)
	rep := mc.NewReport("C07")
	rep.Rule = "every history of 1..L events; an event = top value (none | a value already used | the next new one of 4; new values appear in canonical order, the code treats values symmetrically; mapped values are referenced both as {id} and {id,string}) x kind (count 1 | count 3 with value -2 | count 3 | count 1 with value 5 | fractional: count 0.5 with value 5 | count 2.25 | count 2.75, so that distinct top values get weights closer than 1.0 on both sides of every cut); x capacity x MapStringTop/MapStringTopBytes; every admit/reject outcome of every admission draw and every keep/evict combination of every resample pass (per retained value) up to sample factor 2^K, pinned to evict beyond; then FinishStringTop(n) for n in {-1,0,1,2,3} on the final row, for every cut that splits the top values additionally on copies filled in every insertion order x 6 runs (map iteration order inside FinishStringTop), weights compared exactly as float64. Executions = histories x draw outcomes, all distinct. Non-trivial = execution in which capacity pressure caused at least one resample pass or admission draw"
	st := &c07Stats{states: map[uint64]struct{}{}, outcomes: map[uint64]struct{}{}, bySig: map[string]int64{}, admitted: map[string]map[string]bool{}}
	shard, shards := mc.ShardFromEnv()
	maxFree := mc.Pick(3, 4)
	rep.Bounds["free_draws_up_to_sample_factor_log2"] = maxFree
	rep.Bounds["capacities"] = []int{1, 2, 3}
	rep.Assume("counts are dyadic rationals (1, 3, 0.5, 2.25, 2.75 and their sums): float64 sums are exact; the draw representatives 0 / sf-1 fall into the keep / evict class of every eligible value, values with sf-1 < count < sf can only be kept and are not given a choice")
	run := func(part string, maxLen int, kinds []int, caps []int, workers int) {
		body := func(x *mc.Exec) mc.Verdict { return c07Body(x, maxLen, kinds, caps, maxFree, st) }
		stats := mc.Explore(body, mc.Options{Bound: -1, SplitDepth: 4, Shard: shard, Shards: shards, Workers: workers})
		rep.MergeExplore(part, stats)
		rep.Bounds[part+"_max_events"] = maxLen
	}
	all, two := []int{0, 1, 2, 3}, []int{0, 1}
	frac := []int{4, 5, 6, 0} // 0.5 (with value), 2.25, 2.75 and 1: weights closer than 1.0 around every cut
	frac3 := []int{4, 5, 6}
	every := []int{0, 1, 2, 3, 4, 5, 6}
	if shard == 0 {
		// shortest histories first in one worker: stable examples for every signature
		run("shortest_len3_4kinds_serial", 3, all, []int{1, 2}, 1)
		run("shortest_len2_fractional_serial", 2, frac, []int{1, 2, 3}, 1)
	}
	if mc.Thorough() {
		run("len4_4kinds", 4, all, []int{1, 2, 3}, 0)
		run("len5_3kinds", 5, []int{0, 1, 2}, []int{1, 2, 3}, 0)
		run("len6_2kinds_cap1_2", 6, two, []int{1, 2}, 0)
		run("len4_7kinds_incl_fractional", 4, every, []int{1, 2, 3}, 0)
		run("len5_3kinds_fractional", 5, frac3, []int{1, 2, 3}, 0)
		run("len4_4kinds_default_capacity", 4, all, []int{0}, 0)
		run("len4_4kinds_fractional_default_capacity", 4, frac, []int{0}, 0)
	} else {
		run("len4_4kinds", 4, all, []int{1, 2, 3}, 0)
		run("len5_2kinds", 5, two, []int{1, 2, 3}, 0)
		run("len4_4kinds_fractional", 4, frac, []int{1, 2, 3}, 0)
		run("len3_4kinds_default_capacity", 3, all, []int{0}, 0)
		run("len3_4kinds_fractional_default_capacity", 3, frac, []int{0}, 0)
	}
	for h := range st.states {
		rep.State(fmt.Sprintf("%x", h))
	}
	for h := range st.outcomes {
		rep.Outcome(fmt.Sprintf("%x", h))
	}
	rep.AddCounts(0, 0, 0, st.nontrivial)
	rep.Bounds["resample_passes"] = st.passes
	rep.Bounds["admission_draws"] = st.admissions
	rep.Bounds["eviction_draws"] = st.evictions
	rep.Bounds["steps_redone_for_iteration_order"] = st.retries
	rep.Bounds["violating_executions"] = st.bySig
	rep.Sample(map[string]any{"history": "[a:c1 #7:c3v-2 c:c1] capacity 2", "draws": "pass sf=2: a keep|evict (2 outcomes; #7 has count 3 >= 2, not drawn); if a kept: pass sf=4: a keep|evict x #7 keep|evict"})
	if err := rep.Write(); err != nil {
		t.Fatal(err)
	}
	t.Logf("C07: states=%d outcomes=%d nontrivial=%d passes=%d admissions=%d evictions=%d retries=%d violations=%d", len(st.states), len(st.outcomes), st.nontrivial, st.passes, st.admissions, st.evictions, st.retries, rep.NumViolations())
}
