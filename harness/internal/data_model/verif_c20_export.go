//go:build verif

package data_model

// Export shim for the C20 harness (internal/metajournal/verif_c20_test.go).
//
// ChunkedStorage2.FinishItem flushes a chunk only after ChunkSize/2 = 512 KB were collected and
// ignores the maxChunkSize argument of StartWriteChunk, so a journal of a handful of small events
// is always written as ONE chunk and every truncation of such a file loses everything. Production
// journals are many chunks long; to obtain the small-scope equivalent (a file with chunk
// boundaries between events, so that a cut file keeps a proper prefix of the events) the harness
// must be able to close a chunk after every event. That is the unexported finishChunk.
func (c *ChunkedStorage2) VerifC20FinishChunk(chunk []byte) ([]byte, error) {
	return c.finishChunk(chunk)
}

// VerifC20Rewind puts a storage made by NewChunkedStorage2Slice back into the state the constructor
// leaves it in (nothing read, nothing written), for a backing slice that now has fileSize bytes.
// readAt is the ReadAt closure the constructor installed (ReadNext clears the field at end of file).
//
// Why: every constructor allocates a 1 MB scratch buffer; the model checker builds ~10 storages per
// execution and >10^6 executions, and clearing fresh 1 MB buffers was 85% of the run time. Recycling
// the object keeps the closures and the scratch buffer the real constructor made; nothing in
// ChunkedStorage2 depends on the scratch buffer being zero (every use writes before it reads, with
// explicit lengths).
func (c *ChunkedStorage2) VerifC20Rewind(readAt func(b []byte, offset int64) error, fileSize int64) {
	*c = ChunkedStorage2{scratch: c.scratch, WriteAt: c.WriteAt, Truncate: c.Truncate, ReadAt: readAt, initialFileSize: fileSize}
}
