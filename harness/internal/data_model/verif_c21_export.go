//go:build verif

package data_model

import "fmt"

// VerifC21Reader is a slice-backed ChunkedStorage2 made by the real constructor NewChunkedStorage2Slice and
// re-targeted at successive file images by the C21 harnesses (internal/data_model and internal/pcache). A fresh
// object costs a 1 MB scratch allocation, which dominated the cost of enumerating hundreds of thousands of
// images. Open puts every reader/writer field back to what the constructor sets (the closures made by the
// constructor and the scratch buffer are kept), so the object behaves like a new one over the given bytes.
type VerifC21Reader struct {
	fp     []byte
	st     *ChunkedStorage2
	readAt func(b []byte, offset int64) error
	// the constructor's write side, kept so that a harness may wrap st.WriteAt / st.Truncate (storage fault injection)
	// for one use: Open always puts the constructor's own closures back
	writeAt  func(offset int64, data []byte) error
	truncate func(offset int64) error
}

func VerifC21NewReader() *VerifC21Reader {
	r := &VerifC21Reader{}
	r.st = NewChunkedStorage2Slice(&r.fp)
	r.readAt = r.st.ReadAt
	r.writeAt, r.truncate = r.st.WriteAt, r.st.Truncate
	return r
}

// Open copies img into the reader's own file buffer and returns the storage positioned at the start.
func (r *VerifC21Reader) Open(img []byte) *ChunkedStorage2 {
	r.fp = append(r.fp[:0], img...)
	*r.st = ChunkedStorage2{scratch: r.st.scratch, ReadAt: r.readAt, WriteAt: r.writeAt, Truncate: r.truncate, initialFileSize: int64(len(img))}
	return r.st
}

// Bytes is the current content of the file buffer (valid until the next Open).
func (r *VerifC21Reader) Bytes() []byte { return r.fp }

// VerifC21Snap is a value copy of EVERY field of a storage object (the whole struct is copied, not a list of named
// fields, so private state added later is carried as well) except the scratch buffer and the three closures, which
// belong to the recycled object. Resume puts it back: together they let an explicit-state search keep "one storage
// object lives through the whole history" (size of the file at open time, position, hash chain, write error,
// reading-finished flag) although each step runs on a pooled object.
type VerifC21Snap struct {
	ok      bool
	reading bool // ReadAt != nil: reading has not finished
	st      ChunkedStorage2
}

func (r *VerifC21Reader) Snapshot() VerifC21Snap {
	s := VerifC21Snap{ok: true, reading: r.st.ReadAt != nil, st: *r.st}
	s.st.scratch, s.st.ReadAt, s.st.WriteAt, s.st.Truncate = nil, nil, nil, nil
	return s
}

// Resume: the file buffer holds file, the object is in the snapshot's state (an invalid snapshot = Open).
func (r *VerifC21Reader) Resume(file []byte, s VerifC21Snap) *ChunkedStorage2 {
	if !s.ok {
		return r.Open(file)
	}
	r.fp = append(r.fp[:0], file...)
	scratch := r.st.scratch
	*r.st = s.st
	r.st.scratch, r.st.WriteAt, r.st.Truncate = scratch, r.writeAt, r.truncate
	if s.reading {
		r.st.ReadAt = r.readAt
	}
	return r.st
}

func (s VerifC21Snap) Valid() bool { return s.ok }

// Key: the part of the carried storage state that is not a function of the current file bytes and that the writer
// side can consult (reader-side leftovers nextOffset/nextHash are carried but do not split states).
func (s VerifC21Snap) Key() string {
	if !s.ok {
		return "-"
	}
	return fmt.Sprintf("open@%d,werr=%v,reading=%v", s.st.initialFileSize, s.st.writeErr != nil, s.reading)
}
