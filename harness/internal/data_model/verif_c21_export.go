//go:build verif

package data_model

// VerifC21Reader is a slice-backed ChunkedStorage2 made by the real constructor NewChunkedStorage2Slice and
// re-targeted at successive file images by the C21 harnesses (internal/data_model and internal/pcache). A fresh
// object costs a 1 MB scratch allocation, which dominated the cost of enumerating hundreds of thousands of
// images. Open puts every reader/writer field back to what the constructor sets (the closures made by the
// constructor and the scratch buffer are kept), so the object behaves like a new one over the given bytes.
type VerifC21Reader struct {
	fp     []byte
	st     *ChunkedStorage2
	readAt func(b []byte, offset int64) error
	// the constructor's write side, kept so that a harness may wrap st.WriteAt / st.Truncate (storage fault injection)
	// for one use: Open always puts the constructor's own closures back
	writeAt  func(offset int64, data []byte) error
	truncate func(offset int64) error
}

func VerifC21NewReader() *VerifC21Reader {
	r := &VerifC21Reader{}
	r.st = NewChunkedStorage2Slice(&r.fp)
	r.readAt = r.st.ReadAt
	r.writeAt, r.truncate = r.st.WriteAt, r.st.Truncate
	return r
}

// Open copies img into the reader's own file buffer and returns the storage positioned at the start.
func (r *VerifC21Reader) Open(img []byte) *ChunkedStorage2 {
	r.fp = append(r.fp[:0], img...)
	*r.st = ChunkedStorage2{scratch: r.st.scratch, ReadAt: r.readAt, WriteAt: r.writeAt, Truncate: r.truncate, initialFileSize: int64(len(img))}
	return r.st
}

// Bytes is the current content of the file buffer (valid until the next Open).
func (r *VerifC21Reader) Bytes() []byte { return r.fp }
